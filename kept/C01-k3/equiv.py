"""Equivalence checks for betterproto._serialize_single / _len_single (field framing)
and for everything in Message.dump / __len__ that goes through them.

Expected bytes are computed by an independent reference encoder written here and,
at message level, by google.protobuf.  Passes on the pristine tree and with the
refactor applied."""
import itertools
import math
import random
import struct
from dataclasses import dataclass
from datetime import datetime, timedelta, timezone
from typing import Dict, List, Optional

import betterproto
from betterproto import (
    TYPE_BOOL, TYPE_BYTES, TYPE_DOUBLE, TYPE_ENUM, TYPE_FIXED32, TYPE_FIXED64,
    TYPE_FLOAT, TYPE_INT32, TYPE_INT64, TYPE_MAP, TYPE_MESSAGE, TYPE_SFIXED32,
    TYPE_SFIXED64, TYPE_SINT32, TYPE_SINT64, TYPE_STRING, TYPE_UINT32, TYPE_UINT64,
    _len_single, _serialize_single,
)
from google.protobuf import descriptor_pb2, descriptor_pool, message_factory

rnd = random.Random(20240101)


# ---------------------------------------------------------------- reference encoder
def ref_varint(n: int) -> bytes:
    assert -(1 << 63) <= n < (1 << 64)
    n &= (1 << 64) - 1
    out = []
    while True:
        b = n & 0x7F
        n >>= 7
        if n:
            out.append(b | 0x80)
        else:
            out.append(b)
            return bytes(out)


VARINT = (TYPE_ENUM, TYPE_BOOL, TYPE_INT32, TYPE_INT64, TYPE_UINT32, TYPE_UINT64)
ZIGZAG = (TYPE_SINT32, TYPE_SINT64)
FIX32 = {TYPE_FLOAT: "<f", TYPE_FIXED32: "<I", TYPE_SFIXED32: "<i"}
FIX64 = {TYPE_DOUBLE: "<d", TYPE_FIXED64: "<Q", TYPE_SFIXED64: "<q"}


def ref_single(number, proto_type, value, serialize_empty=False, wraps=""):
    if proto_type in VARINT:
        return ref_varint(number << 3 | 0) + ref_varint(int(value))
    if proto_type in ZIGZAG:
        zz = (value << 1) if value >= 0 else ((-value) << 1) - 1
        return ref_varint(number << 3 | 0) + ref_varint(zz)
    if proto_type in FIX32:
        return ref_varint(number << 3 | 5) + struct.pack(FIX32[proto_type], value)
    if proto_type in FIX64:
        return ref_varint(number << 3 | 1) + struct.pack(FIX64[proto_type], value)
    if proto_type == TYPE_STRING:
        payload = value.encode("utf-8")
    elif proto_type in (TYPE_BYTES, TYPE_MAP):
        payload = bytes(value)
    elif proto_type == TYPE_MESSAGE:
        if wraps:
            payload = b"" if value is None else bytes(betterproto._get_wrapper(wraps)(value=value))
        else:
            payload = bytes(value)
    else:
        raise AssertionError(proto_type)
    if not payload and not serialize_empty and not wraps:
        return b""
    return ref_varint(number << 3 | 2) + ref_varint(len(payload)) + payload


NUMBERS = [1, 2, 15, 16, 17, 127, 128, 2047, 2048, 16383, 16384, 2**21 - 1, 2**21,
           2**28, 2**29 - 1]
I32 = [0, 1, -1, 2, 63, 64, 127, 128, 300, 16383, 16384, 2**31 - 1, -(2**31), -(2**31) + 1]
I64 = I32 + [2**31, 2**32, -(2**31) - 1, 2**53, 2**62, 2**63 - 1, -(2**63), -(2**63) + 1]
U32 = [0, 1, 127, 128, 2**31, 2**32 - 1]
U64 = U32 + [2**32, 2**63 - 1, 2**63, 2**64 - 1]
FLOATS = [0.0, -0.0, 1.0, -1.5, 3.4028234663852886e38, 1e-45, math.inf, -math.inf, math.nan]
DOUBLES = FLOATS + [1e308, 5e-324, 2**53 + 1.0, 0.1]
STRINGS = ["", "a", "\x00", "héllo", "日本語", "\U0001F600", "x" * 127, "y" * 128, "z" * 20000,
           "\U0001F600" * 40]
BYTESES = [b"", b"\x00", b"\xff" * 127, b"\x80" * 128, bytes(range(256)) * 70]

VALUES = {
    TYPE_ENUM: I32, TYPE_BOOL: [False, True], TYPE_INT32: I32, TYPE_INT64: I64,
    TYPE_UINT32: U32, TYPE_UINT64: U64, TYPE_SINT32: I32, TYPE_SINT64: I64,
    TYPE_FLOAT: FLOATS, TYPE_DOUBLE: DOUBLES, TYPE_FIXED32: U32, TYPE_FIXED64: U64,
    TYPE_SFIXED32: I32, TYPE_SFIXED64: I64, TYPE_STRING: STRINGS,
    TYPE_BYTES: BYTESES + [bytearray(b""), bytearray(b"abc")], TYPE_MAP: BYTESES,
}


@dataclass(eq=False, repr=False)
class Leaf(betterproto.Message):
    n: int = betterproto.int32_field(1)
    s: str = betterproto.string_field(2)


checked = 0
for proto_type, values in VALUES.items():
    for number, value, se in itertools.product(NUMBERS, values, (False, True)):
        got = _serialize_single(number, proto_type, value, serialize_empty=se)
        want = ref_single(number, proto_type, value, se)
        assert type(got) is bytes, (proto_type, type(got))
        assert got == want, (number, proto_type, value, se, got, want)
        assert _len_single(number, proto_type, value, serialize_empty=se) == len(want), (
            number, proto_type, value, se)
        checked += 1
# default keyword arguments
assert _serialize_single(3, TYPE_STRING, "") == b""
assert _len_single(3, TYPE_STRING, "") == 0
assert _serialize_single(3, TYPE_STRING, "", serialize_empty=True) == b"\x1a\x00"
assert _len_single(3, TYPE_STRING, "", serialize_empty=True) == 2
assert _serialize_single(16, TYPE_INT32, 0) == b"\x80\x01\x00"
assert _serialize_single(1, TYPE_BOOL, False) == b"\x08\x00"

# messages, incl. empty ones, datetime / timedelta, wrappers
MESSAGES = [Leaf(), Leaf(n=1), Leaf(s=""), Leaf(n=-1, s="\U0001F600" * 50), Leaf(s="q" * 300)]
for number, value, se in itertools.product(NUMBERS, MESSAGES, (False, True)):
    want = ref_single(number, TYPE_MESSAGE, value, se)
    assert _serialize_single(number, TYPE_MESSAGE, value, serialize_empty=se) == want
    assert _len_single(number, TYPE_MESSAGE, value, serialize_empty=se) == len(want)
    checked += 1
WRAPPED = {
    TYPE_BOOL: [None, False, True], TYPE_INT32: [None] + I32, TYPE_INT64: [None] + I64,
    TYPE_UINT32: [None] + U32, TYPE_UINT64: [None] + U64, TYPE_FLOAT: [None, 0.0, 1.5],
    TYPE_DOUBLE: [None, 0.0, 1e300], TYPE_STRING: [None] + STRINGS[:6],
    TYPE_BYTES: [None] + BYTESES[:3],
}
for wraps, values in WRAPPED.items():
    for number, value, se in itertools.product(NUMBERS[:6], values, (False, True)):
        want = ref_single(number, TYPE_MESSAGE, value, se, wraps)
        assert len(want) >= 2  # wrappers are always framed, even when empty
        got = _serialize_single(number, TYPE_MESSAGE, value, serialize_empty=se, wraps=wraps)
        assert got == want, (wraps, number, value, se, got, want)
        assert _len_single(number, TYPE_MESSAGE, value, serialize_empty=se, wraps=wraps) == len(want)
        checked += 1
for dt in [datetime(1970, 1, 1, tzinfo=timezone.utc), datetime(2024, 2, 29, 12, 0, 0, 123456, tzinfo=timezone.utc),
           datetime(1969, 12, 31, 23, 59, 59, 999999, tzinfo=timezone.utc), datetime(1, 1, 1, tzinfo=timezone.utc),
           datetime(9999, 12, 31, 23, 59, 59, 999999, tzinfo=timezone.utc)]:
    payload = bytes(betterproto._Timestamp.from_datetime(dt))
    for se in (False, True):
        want = b"" if not payload and not se else b"\x2a" + ref_varint(len(payload)) + payload
        assert _serialize_single(5, TYPE_MESSAGE, dt, serialize_empty=se) == want
        assert _len_single(5, TYPE_MESSAGE, dt, serialize_empty=se) == len(want)
for td in [timedelta(0), timedelta(seconds=1), timedelta(seconds=-1, microseconds=-500000),
           timedelta(days=-10000, microseconds=1), timedelta(days=3652500)]:
    payload = bytes(betterproto._Duration.from_timedelta(td))
    for se in (False, True):
        want = b"" if not payload and not se else b"\x2a" + ref_varint(len(payload)) + payload
        assert _serialize_single(5, TYPE_MESSAGE, td, serialize_empty=se) == want
        assert _len_single(5, TYPE_MESSAGE, td, serialize_empty=se) == len(want)

# unsupported proto types are rejected by both functions
for bad in ("group", "", "INT32", "uint128"):
    for fn in (_serialize_single, _len_single):
        try:
            fn(1, bad, b"x")
        except NotImplementedError as e:
            assert e.args == (bad,)
        else:
            raise AssertionError(f"{fn.__name__} accepted proto type {bad!r}")
# out-of-range varints still raise ValueError
for fn in (_serialize_single, _len_single):
    try:
        fn(1, TYPE_INT64, -(2**63) - 1)
    except ValueError:
        pass
    else:
        raise AssertionError("out of range int64 accepted")


# ---------------------------------------------------------------- message level
class Color(betterproto.Enum):
    BLACK = 0
    RED = 1
    NEG = -1
    LOW = -(2**31)


@dataclass(eq=False, repr=False)
class Inner(betterproto.Message):
    a: int = betterproto.int32_field(1)
    b: str = betterproto.string_field(16)


SCALARS = [
    ("f_int32", TYPE_INT32, int), ("f_int64", TYPE_INT64, int), ("f_uint32", TYPE_UINT32, int),
    ("f_uint64", TYPE_UINT64, int), ("f_sint32", TYPE_SINT32, int), ("f_sint64", TYPE_SINT64, int),
    ("f_fixed32", TYPE_FIXED32, int), ("f_fixed64", TYPE_FIXED64, int),
    ("f_sfixed32", TYPE_SFIXED32, int), ("f_sfixed64", TYPE_SFIXED64, int),
    ("f_float", TYPE_FLOAT, float), ("f_double", TYPE_DOUBLE, float), ("f_bool", TYPE_BOOL, bool),
    ("f_string", TYPE_STRING, str), ("f_bytes", TYPE_BYTES, bytes),
]


@dataclass(eq=False, repr=False)
class Big(betterproto.Message):
    f_int32: int = betterproto.int32_field(1)
    f_int64: int = betterproto.int64_field(2)
    f_uint32: int = betterproto.uint32_field(3)
    f_uint64: int = betterproto.uint64_field(4)
    f_sint32: int = betterproto.sint32_field(5)
    f_sint64: int = betterproto.sint64_field(6)
    f_fixed32: int = betterproto.fixed32_field(7)
    f_fixed64: int = betterproto.fixed64_field(8)
    f_sfixed32: int = betterproto.sfixed32_field(9)
    f_sfixed64: int = betterproto.sfixed64_field(10)
    f_float: float = betterproto.float_field(11)
    f_double: float = betterproto.double_field(12)
    f_bool: bool = betterproto.bool_field(13)
    f_string: str = betterproto.string_field(14)
    f_bytes: bytes = betterproto.bytes_field(15)
    f_enum: "Color" = betterproto.enum_field(16)
    f_msg: "Inner" = betterproto.message_field(17)
    r_int32: List[int] = betterproto.int32_field(21)
    r_int64: List[int] = betterproto.int64_field(22)
    r_uint32: List[int] = betterproto.uint32_field(23)
    r_uint64: List[int] = betterproto.uint64_field(24)
    r_sint32: List[int] = betterproto.sint32_field(25)
    r_sint64: List[int] = betterproto.sint64_field(26)
    r_fixed32: List[int] = betterproto.fixed32_field(27)
    r_fixed64: List[int] = betterproto.fixed64_field(28)
    r_sfixed32: List[int] = betterproto.sfixed32_field(29)
    r_sfixed64: List[int] = betterproto.sfixed64_field(30)
    r_float: List[float] = betterproto.float_field(31)
    r_double: List[float] = betterproto.double_field(32)
    r_bool: List[bool] = betterproto.bool_field(33)
    r_string: List[str] = betterproto.string_field(34)
    r_bytes: List[bytes] = betterproto.bytes_field(35)
    r_enum: List["Color"] = betterproto.enum_field(36)
    r_msg: List["Inner"] = betterproto.message_field(37)
    o_int32: Optional[int] = betterproto.int32_field(41, optional=True)
    o_string: Optional[str] = betterproto.string_field(42, optional=True)
    o_bytes: Optional[bytes] = betterproto.bytes_field(43, optional=True)
    o_msg: Optional["Inner"] = betterproto.message_field(44, optional=True)
    o_double: Optional[float] = betterproto.double_field(45, optional=True)
    o_enum: Optional["Color"] = betterproto.enum_field(46, optional=True)
    one_int: int = betterproto.sint64_field(51, group="one")
    one_str: str = betterproto.string_field(52, group="one")
    one_bytes: bytes = betterproto.bytes_field(53, group="one")
    one_msg: "Inner" = betterproto.message_field(54, group="one")
    one_fix: int = betterproto.fixed32_field(55, group="one")
    one_enum: "Color" = betterproto.enum_field(56, group="one")
    m_str_int: Dict[str, int] = betterproto.map_field(61, TYPE_STRING, TYPE_SINT32)
    m_int_msg: Dict[int, "Inner"] = betterproto.map_field(62, TYPE_INT64, TYPE_MESSAGE)
    m_bool_bytes: Dict[bool, bytes] = betterproto.map_field(63, TYPE_BOOL, TYPE_BYTES)
    m_fix_dbl: Dict[int, float] = betterproto.map_field(64, TYPE_FIXED64, TYPE_DOUBLE)
    m_u32_enum: Dict[int, "Color"] = betterproto.map_field(65, TYPE_UINT32, TYPE_ENUM)
    w_int: Optional[int] = betterproto.message_field(71, wraps=TYPE_INT64)
    w_str: Optional[str] = betterproto.message_field(72, wraps=TYPE_STRING)
    w_bool: Optional[bool] = betterproto.message_field(73, wraps=TYPE_BOOL)
    ts: datetime = betterproto.message_field(74)
    dur: timedelta = betterproto.message_field(75)
    far: int = betterproto.int32_field(2**29 - 1)


# the same schema for google.protobuf
F = descriptor_pb2.FieldDescriptorProto
GTYPE = {
    TYPE_INT32: F.TYPE_INT32, TYPE_INT64: F.TYPE_INT64, TYPE_UINT32: F.TYPE_UINT32,
    TYPE_UINT64: F.TYPE_UINT64, TYPE_SINT32: F.TYPE_SINT32, TYPE_SINT64: F.TYPE_SINT64,
    TYPE_FIXED32: F.TYPE_FIXED32, TYPE_FIXED64: F.TYPE_FIXED64, TYPE_SFIXED32: F.TYPE_SFIXED32,
    TYPE_SFIXED64: F.TYPE_SFIXED64, TYPE_FLOAT: F.TYPE_FLOAT, TYPE_DOUBLE: F.TYPE_DOUBLE,
    TYPE_BOOL: F.TYPE_BOOL, TYPE_STRING: F.TYPE_STRING, TYPE_BYTES: F.TYPE_BYTES,
    TYPE_ENUM: F.TYPE_ENUM, TYPE_MESSAGE: F.TYPE_MESSAGE,
}
WELL_KNOWN = {
    ("w_int",): ".google.protobuf.Int64Value", ("w_str",): ".google.protobuf.StringValue",
    ("w_bool",): ".google.protobuf.BoolValue", ("ts",): ".google.protobuf.Timestamp",
    ("dur",): ".google.protobuf.Duration",
}


def build_google_classes():
    from google.protobuf import duration_pb2, timestamp_pb2, wrappers_pb2  # noqa: F401 (registers deps)

    fd = descriptor_pb2.FileDescriptorProto(name="c01_keep1_equiv.proto", package="eq", syntax="proto3")
    fd.dependency.extend(["google/protobuf/wrappers.proto", "google/protobuf/timestamp.proto",
                          "google/protobuf/duration.proto"])
    en = fd.enum_type.add(name="Color")
    for name, num in (("BLACK", 0), ("RED", 1), ("NEG", -1), ("LOW", -(2**31))):
        en.value.add(name=name, number=num)
    inner = fd.message_type.add(name="Inner")
    inner.field.add(name="a", number=1, type=F.TYPE_INT32, label=F.LABEL_OPTIONAL)
    inner.field.add(name="b", number=16, type=F.TYPE_STRING, label=F.LABEL_OPTIONAL)
    big = fd.message_type.add(name="Big")
    big.oneof_decl.add(name="one")
    synthetic = []
    import dataclasses as dc
    for f in dc.fields(Big):
        meta = betterproto.FieldMetadata.get(f)
        hint = str(f.type)
        repeated = hint.startswith("typing.List") or hint.startswith("List")
        if meta.proto_type == TYPE_MAP:
            entry = big.nested_type.add(name="".join(p.capitalize() for p in f.name.split("_")) + "Entry")
            entry.options.map_entry = True
            for i, (nm, t) in enumerate(zip(("key", "value"), meta.map_types), 1):
                ef = entry.field.add(name=nm, number=i, type=GTYPE[t], label=F.LABEL_OPTIONAL)
                if t == TYPE_MESSAGE:
                    ef.type_name = ".eq.Inner"
                if t == TYPE_ENUM:
                    ef.type_name = ".eq.Color"
            big.field.add(name=f.name, number=meta.number, type=F.TYPE_MESSAGE, label=F.LABEL_REPEATED,
                          type_name=".eq.Big." + entry.name)
            continue
        gf = big.field.add(name=f.name, number=meta.number, type=GTYPE[meta.proto_type],
                           label=F.LABEL_REPEATED if repeated else F.LABEL_OPTIONAL)
        if meta.proto_type == TYPE_ENUM:
            gf.type_name = ".eq.Color"
        if meta.proto_type == TYPE_MESSAGE:
            gf.type_name = WELL_KNOWN.get((f.name,), ".eq.Inner")
        if meta.group:
            gf.oneof_index = 0
        if meta.optional:
            synthetic.append(gf)
    for gf in synthetic:
        big.oneof_decl.add(name="_" + gf.name)
        gf.oneof_index = len(big.oneof_decl) - 1
        gf.proto3_optional = True
    pool = descriptor_pool.DescriptorPool()
    for dep in (wrappers_pb2, timestamp_pb2, duration_pb2):
        dfd = descriptor_pb2.FileDescriptorProto()
        dep.DESCRIPTOR.CopyToProto(dfd)
        pool.Add(dfd)
    pool.Add(fd)
    return message_factory.GetMessageClass(pool.FindMessageTypeByName("eq.Big"))


GBig = build_google_classes()

INT_RANGES = {
    TYPE_INT32: I32, TYPE_INT64: I64, TYPE_UINT32: U32, TYPE_UINT64: U64, TYPE_SINT32: I32,
    TYPE_SINT64: I64, TYPE_FIXED32: U32, TYPE_FIXED64: U64, TYPE_SFIXED32: I32, TYPE_SFIXED64: I64,
}
ENUMS = [Color.BLACK, Color.RED, Color.NEG, Color.LOW, Color.try_value(7), Color.try_value(2**31 - 1),
         Color.try_value(-5)]
F32 = [0.0, 1.0, -1.5, 0.5, math.inf, -math.inf, 3.4028234663852886e38, 2.0**-149]
F64 = F32 + [0.1, 1e308, 5e-324, -2.5e-300]


def pick(proto_type):
    if proto_type in INT_RANGES:
        return rnd.choice(INT_RANGES[proto_type])
    if proto_type == TYPE_FLOAT:
        return rnd.choice(F32)
    if proto_type == TYPE_DOUBLE:
        return rnd.choice(F64)
    if proto_type == TYPE_BOOL:
        return rnd.choice([False, True])
    if proto_type == TYPE_STRING:
        return rnd.choice(STRINGS[:8])
    if proto_type == TYPE_BYTES:
        return rnd.choice(BYTESES[:4])
    if proto_type == TYPE_ENUM:
        return rnd.choice(ENUMS)
    raise AssertionError(proto_type)


def pick_inner():
    return rnd.choice([Inner(), Inner(a=5), Inner(b="x"), Inner(a=-1, b="\U0001F600"), Inner(a=0, b="")])


def random_big() -> Big:
    import dataclasses as dc
    kw = {}
    oneofs = []
    for f in dc.fields(Big):
        meta = betterproto.FieldMetadata.get(f)
        if rnd.random() < 0.45:
            continue
        hint = str(f.type)
        repeated = "List" in hint
        if meta.group:
            oneofs.append(f)
            continue
        if meta.proto_type == TYPE_MAP:
            kt, vt = meta.map_types
            d = {}
            for _ in range(rnd.choice([0, 1, 1, 2, 3])):
                d[pick(kt)] = pick_inner() if vt == TYPE_MESSAGE else pick(vt)
            kw[f.name] = d
        elif f.name == "ts":
            kw[f.name] = rnd.choice([datetime(1970, 1, 1, tzinfo=timezone.utc),
                                     datetime(2001, 9, 9, 1, 46, 40, 5, tzinfo=timezone.utc),
                                     datetime(1969, 12, 31, 23, 59, 59, 999999, tzinfo=timezone.utc),
                                     datetime(9999, 12, 31, 23, 59, 59, 999999, tzinfo=timezone.utc),
                                     datetime(1, 1, 1, tzinfo=timezone.utc)])
        elif f.name == "dur":
            kw[f.name] = rnd.choice([timedelta(0), timedelta(seconds=5), timedelta(microseconds=-1),
                                     timedelta(seconds=-1, microseconds=-500000), timedelta(days=3652500),
                                     timedelta(days=-3652500)])
        elif meta.wraps:
            kw[f.name] = pick(meta.wraps)
        elif meta.proto_type == TYPE_MESSAGE:
            if repeated:
                kw[f.name] = [pick_inner() for _ in range(rnd.choice([0, 1, 2, 4]))]
            else:
                kw[f.name] = pick_inner()
        elif repeated:
            kw[f.name] = [pick(meta.proto_type) for _ in range(rnd.choice([0, 1, 2, 5, 40]))]
        else:
            kw[f.name] = pick(meta.proto_type)
    if oneofs:
        f = rnd.choice(oneofs)
        meta = betterproto.FieldMetadata.get(f)
        kw[f.name] = pick_inner() if meta.proto_type == TYPE_MESSAGE else pick(meta.proto_type)
    return Big(**kw)


byte_compared = []


def same_float(a, b):
    return a == b or (isinstance(a, float) and isinstance(b, float) and math.isnan(a) and math.isnan(b))


def check_against_google(m: Big, data: bytes) -> None:
    import dataclasses as dc
    g = GBig.FromString(data)  # google must accept our bytes ...
    for f in dc.fields(Big):
        meta = betterproto.FieldMetadata.get(f)
        try:
            v = getattr(m, f.name)
        except AttributeError:
            assert g.WhichOneof("one") != f.name
            continue
        gv = getattr(g, f.name)
        if meta.group:
            assert g.WhichOneof("one") == f.name
        if meta.optional:
            assert g.HasField(f.name) == (v is not None), f.name
            if v is None:
                continue
        if meta.proto_type == TYPE_MAP:
            assert set(gv.keys()) == set(v.keys()), f.name
            for k, x in v.items():
                if meta.map_types[1] == TYPE_MESSAGE:
                    assert (gv[k].a, gv[k].b) == (x.a, x.b)
                else:
                    assert same_float(gv[k], x), (f.name, k)
        elif f.name == "ts":
            assert gv.seconds * 10**9 + gv.nanos == ((v - datetime(1970, 1, 1, tzinfo=timezone.utc))
                                                     // timedelta(microseconds=1)) * 1000
        elif f.name == "dur":
            assert gv.seconds * 10**9 + gv.nanos == (v // timedelta(microseconds=1)) * 1000
        elif meta.wraps:
            assert g.HasField(f.name) == (v is not None)
            if v is not None:
                assert gv.value == v
        elif meta.proto_type == TYPE_MESSAGE:
            if isinstance(v, list):
                assert [(x.a, x.b) for x in gv] == [(x.a, x.b) for x in v]
            else:
                assert (gv.a, gv.b) == (v.a, v.b)
                if betterproto.serialized_on_wire(v):
                    assert g.HasField(f.name)
        elif isinstance(v, list):
            assert len(gv) == len(v) and all(same_float(a, b) for a, b in zip(gv, v)), f.name
        else:
            assert same_float(gv, v), (f.name, gv, v)
    # ... and produce the very same bytes, provided there is at most one entry per map
    # (google orders map entries itself) and no map entry has an empty string / bytes /
    # message as key or value (google writes those explicitly, betterproto omits them;
    # both forms decode to the same entry).
    maps = [getattr(m, n) for n in ("m_str_int", "m_int_msg", "m_bool_bytes", "m_fix_dbl", "m_u32_enum")]
    if all(len(d) <= 1 for d in maps) and not any(
        k == "" or (isinstance(x, (bytes, betterproto.Message)) and not bytes(x))
        for d in maps for k, x in d.items()
    ):
        assert g.SerializeToString(deterministic=True) == data
        byte_compared.append(1)


def roundtrip(m: Big) -> None:
    data = bytes(m)
    assert len(m) == len(data), "len(m) disagrees with len(bytes(m))"
    back = Big().parse(data)
    assert back == m
    assert betterproto.which_one_of(back, "one") == betterproto.which_one_of(m, "one")
    for n in ("o_int32", "o_string", "o_bytes", "o_msg", "o_double", "o_enum", "w_int", "w_str", "w_bool"):
        assert (getattr(back, n) is None) == (getattr(m, n) is None), n
    assert bytes(back) == data
    assert len(back) == len(data)
    check_against_google(m, data)


for _ in range(1500):
    roundtrip(random_big())

# hand-picked corner cases: default-valued oneof members / optionals / empty containers
for m in [
    Big(), Big(one_int=0), Big(one_str=""), Big(one_bytes=b""), Big(one_msg=Inner()), Big(one_fix=0),
    Big(one_enum=Color.BLACK), Big(o_int32=0), Big(o_string=""), Big(o_bytes=b""), Big(o_msg=Inner()),
    Big(o_double=0.0), Big(o_enum=Color.BLACK), Big(w_int=0), Big(w_str=""), Big(w_bool=False),
    Big(f_msg=Inner()), Big(r_msg=[Inner(), Inner()]), Big(r_string=["", ""]), Big(r_bytes=[b"", b"x", b""]),
    Big(m_str_int={"": 0}), Big(m_int_msg={0: Inner()}), Big(m_bool_bytes={False: b""}),
    Big(m_fix_dbl={0: 0.0}), Big(m_u32_enum={0: Color.BLACK}), Big(far=1), Big(far=-1),
    Big(f_string="z" * 20000, f_bytes=bytes(70000)), Big(r_int64=[-1] * 3000),
]:
    roundtrip(m)

# NaN: equality of messages is NaN aware for singular fields
m = Big(f_float=math.nan, f_double=math.nan)
data = bytes(m)
assert len(m) == len(data)
back = Big().parse(data)
assert back == m and bytes(back) == data

assert len(byte_compared) > 300
print(f"keep1 equiv: {checked} single-field cases and 1500+ random messages OK "
      f"({len(byte_compared)} byte-identical to google.protobuf)")
