"""Equivalence check for the wire-type table refactor (C17, keep1).

Exercises _wire_type_matches, _serialize_single and _len_single against literal
copies of the if/elif chains they had before, and the decoder/encoder end to end
(wire-type substitutions on every field kind, compared with google.protobuf).
Passes on the pristine tree and with the refactor applied.
"""
import itertools
import random
import struct
from dataclasses import dataclass
from typing import Dict, List, Optional

import betterproto
from betterproto import (
    PACKED_TYPES,
    WIRE_FIXED_32,
    WIRE_FIXED_32_TYPES,
    WIRE_FIXED_64,
    WIRE_FIXED_64_TYPES,
    WIRE_LEN_DELIM,
    WIRE_LEN_DELIM_TYPES,
    WIRE_VARINT,
    WIRE_VARINT_TYPES,
    _len_preprocessed_single,
    _len_single,
    _preprocess_single,
    _serialize_single,
    _wire_type_matches,
    encode_varint,
    size_varint,
)

ALL_TYPES = [
    "enum", "bool", "int32", "int64", "uint32", "uint64", "sint32", "sint64",
    "float", "double", "fixed32", "sfixed32", "fixed64", "sfixed64",
    "string", "bytes", "message", "map",
]
assert sorted(ALL_TYPES) == sorted(
    WIRE_VARINT_TYPES + WIRE_FIXED_32_TYPES + WIRE_FIXED_64_TYPES + WIRE_LEN_DELIM_TYPES
)


# ---------------------------------------------------------------- reference copies
def ref_matches(wire_type, proto_type, repeated):
    if wire_type == WIRE_VARINT:
        return proto_type in WIRE_VARINT_TYPES
    if wire_type == WIRE_FIXED_32:
        return proto_type in WIRE_FIXED_32_TYPES
    if wire_type == WIRE_FIXED_64:
        return proto_type in WIRE_FIXED_64_TYPES
    if wire_type == WIRE_LEN_DELIM:
        return proto_type in WIRE_LEN_DELIM_TYPES or (
            repeated and proto_type in PACKED_TYPES
        )
    return False


def ref_serialize(field_number, proto_type, value, *, serialize_empty=False, wraps=""):
    value = _preprocess_single(proto_type, wraps, value)
    output = bytearray()
    if proto_type in WIRE_VARINT_TYPES:
        key = encode_varint(field_number << 3)
        output += key + value
    elif proto_type in WIRE_FIXED_32_TYPES:
        key = encode_varint((field_number << 3) | 5)
        output += key + value
    elif proto_type in WIRE_FIXED_64_TYPES:
        key = encode_varint((field_number << 3) | 1)
        output += key + value
    elif proto_type in WIRE_LEN_DELIM_TYPES:
        if len(value) or serialize_empty or wraps:
            key = encode_varint((field_number << 3) | 2)
            output += key + encode_varint(len(value)) + value
    else:
        raise NotImplementedError(proto_type)
    return bytes(output)


def ref_len(field_number, proto_type, value, *, serialize_empty=False, wraps=""):
    size = _len_preprocessed_single(proto_type, wraps, value)
    if proto_type in WIRE_VARINT_TYPES:
        size += size_varint(field_number << 3)
    elif proto_type in WIRE_FIXED_32_TYPES:
        size += size_varint((field_number << 3) | 5)
    elif proto_type in WIRE_FIXED_64_TYPES:
        size += size_varint((field_number << 3) | 1)
    elif proto_type in WIRE_LEN_DELIM_TYPES:
        if size or serialize_empty or wraps:
            size += size_varint((field_number << 3) | 2) + size_varint(size)
    else:
        raise NotImplementedError(proto_type)
    return size


def outcome(fn, *args, **kwargs):
    try:
        return ("ok", fn(*args, **kwargs))
    except Exception as exc:  # noqa: BLE001
        return ("exc", type(exc), str(exc))


# ------------------------------------------------------- 1. _wire_type_matches table
n = 0
for wire_type in list(range(-1, 10)) + [64, 255]:
    for proto_type in ALL_TYPES + ["group", "", "Int32", "unknown"]:
        for repeated in (False, True):
            got = _wire_type_matches(wire_type, proto_type, repeated)
            want = ref_matches(wire_type, proto_type, repeated)
            assert got is want, (wire_type, proto_type, repeated, got, want)
            n += 1
print("wire_type_matches combinations:", n)

# spot checks that do not depend on the reference copy
assert _wire_type_matches(0, "int32", False) and not _wire_type_matches(2, "int32", False)
assert _wire_type_matches(2, "int32", True) and _wire_type_matches(2, "string", False)
assert not _wire_type_matches(2, "bool", False) and not _wire_type_matches(0, "string", True)
assert _wire_type_matches(2, "map", False) and not _wire_type_matches(0, "map", True)
assert _wire_type_matches(5, "float", False) and not _wire_type_matches(1, "float", True)
assert _wire_type_matches(1, "double", False) and not _wire_type_matches(5, "sfixed64", False)
for w in (3, 4, 6, 7):
    assert not any(_wire_type_matches(w, t, r) for t in ALL_TYPES for r in (False, True))


# ------------------------------------------------ 2. _serialize_single / _len_single
@dataclass(eq=False, repr=False)
class Inner(betterproto.Message):
    a: int = betterproto.int32_field(1)
    s: str = betterproto.string_field(2)


class Colour(betterproto.Enum):
    RED = 0
    GREEN = 1
    NEG = -2


from datetime import datetime, timedelta, timezone

SAMPLES = {
    "enum": [Colour.RED, Colour.GREEN, Colour.NEG, 7, 0],
    "bool": [False, True],
    "int32": [0, 1, -1, 127, 128, 2**31 - 1, -(2**31)],
    "int64": [0, 1, -1, 2**63 - 1, -(2**63), -(2**63) - 1],
    "uint32": [0, 1, 2**32 - 1],
    "uint64": [0, 1, 2**64 - 1, 2**70],
    "sint32": [0, 1, -1, 2**31 - 1, -(2**31)],
    "sint64": [0, 1, -1, 2**63 - 1, -(2**63)],
    "float": [0.0, 1.5, -2.25, float("inf"), 1e40],
    "double": [0.0, 1.5, -2.25, float("inf"), 1e300],
    "fixed32": [0, 1, 2**32 - 1, 2**32, -1],
    "sfixed32": [0, -1, 2**31 - 1, -(2**31), 2**31],
    "fixed64": [0, 1, 2**64 - 1, 2**64],
    "sfixed64": [0, -1, 2**63 - 1, -(2**63)],
    "string": ["", "a", "héllo", "x" * 127, "x" * 128, "\ud800"],
    "bytes": [b"", b"\x00", b"x" * 127, b"x" * 128, b"y" * 20000],
    "message": [
        Inner(), Inner(a=5), Inner(a=-1, s="abc"),
        datetime(2020, 1, 2, 3, 4, 5, 6, tzinfo=timezone.utc),
        timedelta(seconds=-3, microseconds=7), timedelta(0),
    ],
    "map": [b"", b"\x08\x01\x10\x02"],
    "group": [b"", b"x", 3],
    "": [b"", b"x"],
}
FIELD_NUMBERS = [1, 15, 16, 2047, 2048, 2**28, 2**29 - 1]
n = 0
for proto_type, values in SAMPLES.items():
    for value, number, empty in itertools.product(values, FIELD_NUMBERS, (False, True)):
        kw = {"serialize_empty": empty}
        a = outcome(_serialize_single, number, proto_type, value, **kw)
        b = outcome(ref_serialize, number, proto_type, value, **kw)
        assert a == b, (proto_type, value, number, empty, a, b)
        if a[0] == "ok":
            assert type(a[1]) is bytes
        la = outcome(_len_single, number, proto_type, value, **kw)
        lb = outcome(ref_len, number, proto_type, value, **kw)
        assert la == lb, (proto_type, value, number, empty, la, lb)
        if a[0] == "ok" and la[0] == "ok":
            assert la[1] == len(a[1])
        n += 1

WRAPS = {
    "bool": [None, False, True],
    "bytes": [None, b"", b"ab"],
    "double": [None, 0.0, 2.5],
    "float": [None, 0.0, 2.5],
    "int32": [None, 0, -4],
    "int64": [None, 0, 2**40],
    "string": [None, "", "ab"],
    "uint32": [None, 0, 9],
    "uint64": [None, 0, 2**63],
    "sint32": [None, 0],  # no such wrapper: KeyError either way
}
for wraps, values in WRAPS.items():
    for value, number, empty in itertools.product(values, FIELD_NUMBERS, (False, True)):
        kw = {"serialize_empty": empty, "wraps": wraps}
        a = outcome(_serialize_single, number, "message", value, **kw)
        b = outcome(ref_serialize, number, "message", value, **kw)
        assert a == b, (wraps, value, number, a, b)
        la = outcome(_len_single, number, "message", value, **kw)
        lb = outcome(ref_len, number, "message", value, **kw)
        assert la == lb, (wraps, value, number, la, lb)
        n += 1
print("serialize/len combinations:", n)

# absolute spot checks
assert _serialize_single(1, "int32", 150) == b"\x08\x96\x01"
assert _serialize_single(2, "string", "") == b""
assert _serialize_single(2, "string", "", serialize_empty=True) == b"\x12\x00"
assert _serialize_single(3, "fixed32", 1) == b"\x1d\x01\x00\x00\x00"
assert _serialize_single(3, "double", 1.0) == b"\x19" + struct.pack("<d", 1.0)
assert _serialize_single(16, "message", None, wraps="int32") == b"\x82\x01\x00"
assert _len_single(16, "message", None, wraps="int32") == 3
try:
    _serialize_single(1, "group", b"")
except NotImplementedError as exc:
    assert exc.args == ("group",)
else:
    raise AssertionError("unknown proto type accepted")


# -------------------------------- 3. end to end, with google.protobuf as a reference
from google.protobuf import descriptor_pb2, descriptor_pool, message_factory
from google.protobuf.message import DecodeError

F = descriptor_pb2.FieldDescriptorProto
SCALARS = [
    ("f_int32", F.TYPE_INT32, betterproto.int32_field, int),
    ("f_int64", F.TYPE_INT64, betterproto.int64_field, int),
    ("f_uint32", F.TYPE_UINT32, betterproto.uint32_field, int),
    ("f_uint64", F.TYPE_UINT64, betterproto.uint64_field, int),
    ("f_sint32", F.TYPE_SINT32, betterproto.sint32_field, int),
    ("f_sint64", F.TYPE_SINT64, betterproto.sint64_field, int),
    ("f_bool", F.TYPE_BOOL, betterproto.bool_field, bool),
    ("f_float", F.TYPE_FLOAT, betterproto.float_field, float),
    ("f_double", F.TYPE_DOUBLE, betterproto.double_field, float),
    ("f_fixed32", F.TYPE_FIXED32, betterproto.fixed32_field, int),
    ("f_sfixed32", F.TYPE_SFIXED32, betterproto.sfixed32_field, int),
    ("f_fixed64", F.TYPE_FIXED64, betterproto.fixed64_field, int),
    ("f_sfixed64", F.TYPE_SFIXED64, betterproto.sfixed64_field, int),
    ("f_string", F.TYPE_STRING, betterproto.string_field, str),
    ("f_bytes", F.TYPE_BYTES, betterproto.bytes_field, bytes),
]

fdp = descriptor_pb2.FileDescriptorProto(
    name="c17_keep1.proto", package="c17k1", syntax="proto3"
)
sub = fdp.message_type.add(name="Sub")
sub.field.add(name="a", number=1, type=F.TYPE_INT32, label=F.LABEL_OPTIONAL)
msg = fdp.message_type.add(name="All")
number = 0
for name, ftype, _, _ in SCALARS:
    number += 1
    msg.field.add(name=name, number=number, type=ftype, label=F.LABEL_OPTIONAL)
for name, ftype, _, _ in SCALARS:
    number += 1
    msg.field.add(name="r" + name[1:], number=number, type=ftype, label=F.LABEL_REPEATED)
msg.field.add(name="sub", number=31, type=F.TYPE_MESSAGE, type_name=".c17k1.Sub",
              label=F.LABEL_OPTIONAL)
msg.field.add(name="rsub", number=32, type=F.TYPE_MESSAGE, type_name=".c17k1.Sub",
              label=F.LABEL_REPEATED)
pool = descriptor_pool.DescriptorPool()
pool.Add(fdp)
PbAll = message_factory.GetMessageClass(pool.FindMessageTypeByName("c17k1.All"))


@dataclass(eq=False, repr=False)
class Sub(betterproto.Message):
    a: int = betterproto.int32_field(1)


namespace = {"__annotations__": {}}
number = 0
for name, _, maker, pytype in SCALARS:
    number += 1
    namespace["__annotations__"][name] = pytype
    namespace[name] = maker(number)
for name, _, maker, pytype in SCALARS:
    number += 1
    namespace["__annotations__"]["r" + name[1:]] = List[pytype]
    namespace["r" + name[1:]] = maker(number)
namespace["__annotations__"]["sub"] = Sub
namespace["sub"] = betterproto.message_field(31)
namespace["__annotations__"]["rsub"] = List[Sub]
namespace["rsub"] = betterproto.message_field(32)
All = dataclass(eq=False, repr=False)(type("All", (betterproto.Message,), namespace))

FIELD_NAMES = [f.name for f in msg.field]
NUMBER_OF = {f.name: f.number for f in msg.field}


def same(a, b):
    if isinstance(a, float) and isinstance(b, float):
        return a == b or (a != a and b != b)
    return a == b


def compare(data):
    """Decode with both libraries; equal accept/reject, equal values, re-encodable."""
    try:
        ref = PbAll.FromString(data)
    except DecodeError:
        ref = None
    try:
        got = All().parse(data)
    except Exception:  # noqa: BLE001
        got = None
    assert (ref is None) == (got is None), (data.hex(), ref, got)
    if got is None:
        return False
    for name in FIELD_NAMES:
        mine, theirs = getattr(got, name), getattr(ref, name)
        if name == "sub":
            assert mine.a == theirs.a, (data.hex(), name)
        elif name == "rsub":
            assert [s.a for s in mine] == [s.a for s in theirs], (data.hex(), name)
        elif name.startswith("r"):
            assert len(mine) == len(theirs) and all(map(same, mine, theirs)), (
                data.hex(), name, mine, list(theirs))
        else:
            assert same(mine, theirs), (data.hex(), name, mine, theirs)
    again = bytes(got)
    assert len(got) == len(again)
    back = All().parse(again)
    assert bytes(back) == again and back._unknown_fields == got._unknown_fields, data.hex()
    return True


def tag(number, wire_type):
    return encode_varint(number << 3 | wire_type)


PAYLOADS = {
    0: [b"\x00", b"\x07", b"\xff\xff\xff\xff\x07", b"\x96\x01"],
    1: [bytes(8), struct.pack("<d", -1.25), b"\xff" * 8],
    2: [b"\x00", b"\x02\x08\x07", b"\x04\x01\x02\x03\x04", b"\x08" + bytes(8),
        b"\x03abc", b"\x02\xc3\xa9", b"\x01\x80"],
    5: [bytes(4), struct.pack("<f", 2.5), b"\xff" * 4],
}
accepted = rejected = 0
for name in FIELD_NAMES:
    for wire_type in range(8):
        for payload in PAYLOADS.get(wire_type, [b"", b"\x00"]):
            one = tag(NUMBER_OF[name], wire_type) + payload
            for data in (one, one + one, b"\x08\x05" + one, one + b"\xfa\x01\x03xyz"):
                if compare(data):
                    accepted += 1
                else:
                    rejected += 1
print("substitutions accepted/rejected like google.protobuf:", accepted, rejected)
assert accepted > 500 and rejected > 100

# a known field arriving with a non-fitting wire type is kept as an unknown field
m = All().parse(b"\x08\x05" + tag(14, 0) + b"\x07" + tag(1, 2) + b"\x01\x09")
assert m.f_int32 == 5 and m.f_string == ""
assert m._unknown_fields == tag(14, 0) + b"\x07" + tag(1, 2) + b"\x01\x09"
# a packed run is accepted for a repeated scalar only
m = All().parse(tag(16, 2) + b"\x03\x01\x02\x03" + tag(1, 2) + b"\x03\x01\x02\x03")
assert m.r_int32 == [1, 2, 3] and m.f_int32 == 0
assert m._unknown_fields == tag(1, 2) + b"\x03\x01\x02\x03"

# random round trips through the encoder and decoder
rng = random.Random(17)
for _ in range(300):
    m = All()
    for name, _, _, pytype in SCALARS:
        if rng.random() < 0.5:
            continue
        if pytype is int:
            bits = 31 if "32" in name else 63
            value = rng.getrandbits(bits)
            if name[2] == "u" or name.startswith("f_fixed"):
                pass
            elif rng.random() < 0.5:
                value = -value
        elif pytype is bool:
            value = rng.random() < 0.5
        elif pytype is float:
            value = struct.unpack("<f", struct.pack("<f", rng.uniform(-1e6, 1e6)))[0]
        elif pytype is str:
            value = "".join(rng.choice("abé中") for _ in range(rng.randrange(200)))
        else:
            value = rng.randbytes(rng.randrange(200))
        setattr(m, name, value)
        if rng.random() < 0.5:
            setattr(m, "r" + name[1:], [value] * rng.randrange(4))
    if rng.random() < 0.5:
        m.sub = Sub(a=rng.randrange(-5, 5))
    m.rsub = [Sub(a=i) for i in range(rng.randrange(3))]
    data = bytes(m)
    assert len(m) == len(data)
    ref = PbAll.FromString(data)
    assert ref.SerializeToString(deterministic=True) == data or PbAll.FromString(
        ref.SerializeToString()) == ref
    assert All().parse(data) == m
    assert All().parse(ref.SerializeToString()) == m
print("ok")
