"""Equivalence check for the Message.to_dict refactor (enum class taken from the
per-class cls_by_field table instead of re-resolving the type hints on every call).

The script generates one schema with enums in every position (singular, proto3
optional, repeated, map value, oneof member, nested, cross-package) under all six
plugin configurations (typing.direct/root/310 x standard/pydantic dataclasses), and
checks, for many values,
  * to_dict()/to_json() against google.protobuf.json_format of the protoc-generated
    reference classes,
  * equality of bytes/JSON across the six configurations,
  * literal expectations for include_default_values / casing / unknown enum numbers,
  * hand-written classes that use typing.Optional/List/Dict as well as PEP 604 /
    builtin generic string annotations.

Run:  PYTHONPATH=/tmp/wt/R10C18/src /venv/bin/python equiv.py
"""
import atexit
import contextlib
import importlib
import io
import itertools
import json
import os
import random
import shutil
import sys
import tempfile
from dataclasses import dataclass
from typing import Dict, List, Optional

import grpc_tools
from google.protobuf import json_format
from grpc_tools import protoc

import betterproto
from betterproto.plugin import compiler as plugin_compiler

plugin_compiler.subprocess.check_output = lambda cmd, input, encoding: input

from betterproto.lib.google.protobuf import FileDescriptorSet
from betterproto.lib.google.protobuf.compiler import CodeGeneratorRequest
from betterproto.plugin.models import monkey_patch_oneof_index
from betterproto.plugin.parser import generate_code

monkey_patch_oneof_index()

WKT = os.path.join(os.path.dirname(grpc_tools.__file__), "_proto")

ZOO = """
syntax = "proto3";
package zoo;

import "farm/animals.proto";

enum Mood {
  CALM = 0;
  HAPPY = 1;
  ANGRY = 2;
  GONE = -3;
}

message Cage {
  enum Size { SIZE_S = 0; SIZE_M = 1; SIZE_L = 5; }
  Size size = 1;
  optional Size wish = 2;
  repeated Size history = 3;
}

message Keeper {
  string name = 1;
  Mood mood = 2;
  optional Mood morning_mood = 3;
  repeated Mood moods = 4;
  map<string, Mood> mood_by_day = 5;
  map<int32, farm.Kind> kind_by_pen = 6;
  oneof focus {
    Mood focus_mood = 7;
    farm.Kind focus_kind = 8;
    string focus_text = 9;
    Cage focus_cage = 10;
  }
  farm.Kind kind = 11;
  optional farm.Kind favourite = 12;
  repeated farm.Kind kinds = 13;
  Cage cage = 14;
  repeated Cage cages = 15;
  map<string, Cage> cage_by_name = 16;
  int32 age = 17;
  bool on_duty = 18;
  map<string, bool> flags = 19;
}
"""

FARM = """
syntax = "proto3";
package farm;

enum Kind {
  NONE = 0;
  COW = 1;
  HEN = 2;
  PIG = 40;
}
"""

FILES = {"zoo/zoo.proto": ZOO, "farm/animals.proto": FARM}
CONFIGS = [
    (t, *p)
    for t in ("typing.direct", "typing.root", "typing.310")
    for p in ((), ("pydantic_dataclasses",))
]

_tmp = []


@atexit.register
def _cleanup():
    for d in _tmp:
        shutil.rmtree(d, ignore_errors=True)


def mkdtemp(prefix):
    d = tempfile.mkdtemp(prefix=prefix)
    _tmp.append(d)
    return d


def run_protoc():
    src = mkdtemp("c18k1src")
    for name, text in FILES.items():
        path = os.path.join(src, name)
        os.makedirs(os.path.dirname(path), exist_ok=True)
        with open(path, "w") as f:
            f.write(text)
    ref = mkdtemp("c18k1ref")
    out = os.path.join(src, "set.bin")
    rc = protoc.main(
        [
            "protoc",
            f"-I{src}",
            f"-I{WKT}",
            f"--descriptor_set_out={out}",
            "--include_source_info",
            "--include_imports",
            f"--python_out={ref}",
            *FILES,
        ]
    )
    assert rc == 0
    with open(out, "rb") as f:
        return f.read(), ref


DESCRIPTORS, REF_DIR = run_protoc()
sys.path.insert(0, REF_DIR)
ref_zoo = importlib.import_module("zoo.zoo_pb2")
ref_farm = importlib.import_module("farm.animals_pb2")
# the reference packages are called zoo/farm: drop them from sys.modules' way of the
# generated betterproto packages by giving those a unique top level package
_counter = itertools.count()


def build_variant(options):
    request = CodeGeneratorRequest(
        file_to_generate=list(FILES),
        parameter=",".join(options),
        proto_file=FileDescriptorSet().parse(DESCRIPTORS).file,
    )
    with contextlib.redirect_stderr(io.StringIO()):
        response = generate_code(request)
    top = f"c18k1_variant_{next(_counter)}"
    d = mkdtemp("c18k1gen")
    for f in response.file:
        path = os.path.join(d, top, f.name)
        os.makedirs(os.path.dirname(path), exist_ok=True)
        with open(path, "w") as fh:
            fh.write(f.content)
    sys.path.insert(0, d)
    return (
        importlib.import_module(f"{top}.zoo"),
        importlib.import_module(f"{top}.farm"),
    )


VARIANTS = {options: build_variant(options) for options in CONFIGS}

MOODS = [0, 1, 2, -3]
SIZES = [0, 1, 5]
KINDS = [0, 1, 2, 40]
UNKNOWN = [7, -9, 1000]


def random_spec(rng, allow_unknown):
    """A configuration independent description of a Keeper value (enum numbers)."""

    def pick(numbers):
        if allow_unknown and rng.random() < 0.2:
            return rng.choice(UNKNOWN)
        return rng.choice(numbers)

    def cage():
        spec = {"size": pick(SIZES)}
        if rng.random() < 0.5:
            spec["wish"] = pick(SIZES)
        if rng.random() < 0.5:
            spec["history"] = [pick(SIZES) for _ in range(rng.randrange(4))]
        return spec

    spec = {}
    if rng.random() < 0.5:
        spec["name"] = rng.choice(["", "ann", "bo"])
    if rng.random() < 0.7:
        spec["mood"] = pick(MOODS)
    if rng.random() < 0.5:
        spec["morning_mood"] = pick(MOODS)
    if rng.random() < 0.6:
        spec["moods"] = [pick(MOODS) for _ in range(rng.randrange(5))]
    if rng.random() < 0.6:
        spec["mood_by_day"] = {
            rng.choice(["mon", "tue", "", "sun"]): pick(MOODS)
            for _ in range(rng.randrange(4))
        }
    if rng.random() < 0.5:
        spec["kind_by_pen"] = {
            rng.choice([0, 1, -5, 2**31 - 1]): pick(KINDS)
            for _ in range(rng.randrange(4))
        }
    focus = rng.choice([None, "focus_mood", "focus_kind", "focus_text", "focus_cage"])
    if focus == "focus_mood":
        spec[focus] = pick(MOODS)
    elif focus == "focus_kind":
        spec[focus] = pick(KINDS)
    elif focus == "focus_text":
        spec[focus] = rng.choice(["", "look"])
    elif focus == "focus_cage":
        spec[focus] = cage()
    if rng.random() < 0.5:
        spec["kind"] = pick(KINDS)
    if rng.random() < 0.5:
        spec["favourite"] = pick(KINDS)
    if rng.random() < 0.5:
        spec["kinds"] = [pick(KINDS) for _ in range(rng.randrange(4))]
    if rng.random() < 0.5:
        spec["cage"] = cage()
    if rng.random() < 0.4:
        spec["cages"] = [cage() for _ in range(rng.randrange(3))]
    if rng.random() < 0.4:
        spec["cage_by_name"] = {
            rng.choice(["a", "b", ""]): cage() for _ in range(rng.randrange(3))
        }
    if rng.random() < 0.5:
        spec["age"] = rng.choice([0, 1, -1, 2**31 - 1])
    if rng.random() < 0.5:
        spec["on_duty"] = rng.random() < 0.5
    if rng.random() < 0.3:
        spec["flags"] = {"x": True, "y": False}
    return spec


ENUM_OF = {
    "mood": "Mood",
    "morning_mood": "Mood",
    "moods": "Mood",
    "mood_by_day": "Mood",
    "focus_mood": "Mood",
    "kind": "Kind",
    "favourite": "Kind",
    "kinds": "Kind",
    "kind_by_pen": "Kind",
    "focus_kind": "Kind",
}


def build_cage(zoo, spec, members):
    conv = (lambda n: zoo.CageSize.try_value(n)) if members else (lambda n: n)
    kwargs = {}
    for key, value in spec.items():
        kwargs[key] = [conv(n) for n in value] if key == "history" else conv(value)
    return zoo.Cage(**kwargs)


def build_keeper(modules, spec, members):
    """Builds the value from the classes of one configuration; enum numbers are given
    as members of that configuration's enum classes or as plain ints."""
    zoo, farm = modules
    classes = {"Mood": zoo.Mood, "Kind": farm.Kind}
    kwargs = {}
    for key, value in spec.items():
        if key in ENUM_OF:
            enum_cls = classes[ENUM_OF[key]]
            conv = enum_cls.try_value if members else (lambda n: n)
            if isinstance(value, list):
                value = [conv(n) for n in value]
            elif isinstance(value, dict):
                value = {k: conv(n) for k, n in value.items()}
            else:
                value = conv(value)
        elif key in ("cage", "focus_cage"):
            value = build_cage(zoo, value, members)
        elif key == "cages":
            value = [build_cage(zoo, c, members) for c in value]
        elif key == "cage_by_name":
            value = {k: build_cage(zoo, c, members) for k, c in value.items()}
        kwargs[key] = value
    return zoo.Keeper(**kwargs)


def fill_ref_cage(msg, spec):
    for key, value in spec.items():
        if key == "history":
            msg.history.extend(value)
        else:
            setattr(msg, key, value)
    # an explicitly built (possibly all-default) cage counts as present
    msg.SetInParent()


def build_ref(spec):
    msg = ref_zoo.Keeper()
    for key, value in spec.items():
        if key in ("cage", "focus_cage"):
            fill_ref_cage(getattr(msg, key), value)
        elif key == "cages":
            for c in value:
                fill_ref_cage(msg.cages.add(), c)
        elif key == "cage_by_name":
            for k, c in value.items():
                fill_ref_cage(msg.cage_by_name[k], c)
        elif isinstance(value, list):
            getattr(msg, key).extend(value)
        elif isinstance(value, dict):
            for k, v in value.items():
                getattr(msg, key)[k] = v
        else:
            setattr(msg, key, value)
    return msg


def normalise(obj):
    """Map keys are strings in JSON; order of map entries is irrelevant."""
    return json.loads(json.dumps(obj, sort_keys=True))


def check_random_values():
    rng = random.Random(1807)
    checked = 0
    for round_no in range(400):
        allow_unknown = round_no % 2 == 1
        spec = random_spec(rng, allow_unknown)
        ref = build_ref(spec)
        ref_dict = normalise(json_format.MessageToDict(ref))
        seen = set()
        for options, modules in VARIANTS.items():
            for members in (True, False):
                value = build_keeper(modules, spec, members)
                got = value.to_dict()
                assert normalise(got) == ref_dict, (options, members, spec, got, ref_dict)
                assert json.loads(value.to_json()) == normalise(got)
                data = bytes(value)
                # the reference implementation reads the bytes back to the same JSON
                back = ref_zoo.Keeper.FromString(data)
                assert normalise(json_format.MessageToDict(back)) == ref_dict
                seen.add((data, value.to_json()))
                # snake casing and default values: identical across configurations of
                # the same dataclass flavour (pydantic reports unselected oneof
                # members as None by design)
                checked += 1
        assert len(seen) == 1, (spec, seen)
        for flavour in ((), ("pydantic_dataclasses",)):
            outs = set()
            for typing_opt in ("typing.direct", "typing.root", "typing.310"):
                value = build_keeper(VARIANTS[(typing_opt, *flavour)], spec, True)
                outs.add(
                    json.dumps(
                        value.to_dict(
                            casing=betterproto.Casing.SNAKE, include_default_values=True
                        ),
                        sort_keys=True,
                    )
                )
            assert len(outs) == 1, (flavour, spec, outs)
    return checked


def check_literals():
    for options, (zoo, farm) in VARIANTS.items():
        Mood, Kind, Size = zoo.Mood, farm.Kind, zoo.CageSize
        k = zoo.Keeper(
            mood=Mood.ANGRY,
            morning_mood=Mood.CALM,
            moods=[Mood.CALM, Mood.GONE, 7],
            mood_by_day={"mon": Mood.HAPPY, "tue": Mood.CALM, "wed": 9},
            kind_by_pen={3: Kind.PIG, 0: Kind.NONE},
            focus_kind=Kind.NONE,
            kind=Kind.HEN,
            favourite=Kind.NONE,
            kinds=[Kind.COW, Kind.COW],
            cage=zoo.Cage(size=Size.SIZE_L, wish=Size.SIZE_S, history=[Size.SIZE_M, 2]),
        )
        assert k.to_dict() == {
            "mood": "ANGRY",
            "morningMood": "CALM",
            "moods": ["CALM", "GONE", 7],
            "moodByDay": {"mon": "HAPPY", "tue": "CALM", "wed": 9},
            "kindByPen": {3: "PIG", 0: "NONE"},
            "focusKind": "NONE",
            "kind": "HEN",
            "favourite": "NONE",
            "kinds": ["COW", "COW"],
            "cage": {"size": "SIZE_L", "wish": "SIZE_S", "history": ["SIZE_M", 2]},
        }, (options, k.to_dict())
        assert k.to_dict(casing=betterproto.Casing.SNAKE)["morning_mood"] == "CALM"
        # an empty message, with and without defaults
        empty = zoo.Cage()
        assert empty.to_dict() == {}
        assert empty.to_dict(include_default_values=True) == {
            "size": "SIZE_S",
            "wish": None,
            "history": [],
        }, (options, empty.to_dict(include_default_values=True))
        full = zoo.Keeper().to_dict(include_default_values=True)
        assert full["mood"] == "CALM" and full["kind"] == "NONE"
        assert full["morningMood"] is None and full["favourite"] is None
        assert full["moods"] == [] and full["moodByDay"] == {} and full["kinds"] == []
        # unknown numbers survive in every position
        odd = zoo.Keeper(mood=11, morning_mood=12, focus_mood=-13)
        assert odd.to_dict() == {"mood": 11, "morningMood": 12, "focusMood": -13}
        # a single value assigned to a repeated enum field is upgraded to a list
        single = zoo.Keeper()
        single.moods = Mood.HAPPY
        assert single.to_dict() == {"moods": ["HAPPY"]}
        # round trip through JSON
        again = zoo.Keeper().from_json(k.to_json())
        assert again.to_dict() == k.to_dict()
        assert bytes(again) == bytes(k)


class Colour(betterproto.Enum):
    RED = 0
    GREEN = 1
    BLUE = -2


@dataclass(eq=False, repr=False)
class HandTyping(betterproto.Message):
    one: "Colour" = betterproto.enum_field(1)
    maybe: Optional["Colour"] = betterproto.enum_field(2, optional=True)
    many: List["Colour"] = betterproto.enum_field(3)
    by_name: Dict[str, "Colour"] = betterproto.map_field(
        4, betterproto.TYPE_STRING, betterproto.TYPE_ENUM
    )
    pick_a: "Colour" = betterproto.enum_field(5, group="pick")
    pick_b: Optional["Colour"] = betterproto.enum_field(6, optional=True, group="pick")
    count: int = betterproto.int32_field(7)


@dataclass(eq=False, repr=False)
class Hand310(betterproto.Message):
    one: "Colour" = betterproto.enum_field(1)
    maybe: "Colour | None" = betterproto.enum_field(2, optional=True)
    many: "list[Colour]" = betterproto.enum_field(3)
    by_name: "dict[str, Colour]" = betterproto.map_field(
        4, betterproto.TYPE_STRING, betterproto.TYPE_ENUM
    )
    pick_a: "Colour" = betterproto.enum_field(5, group="pick")
    pick_b: "Colour | None" = betterproto.enum_field(6, optional=True, group="pick")
    count: int = betterproto.int32_field(7)


def check_hand_written():
    cases = [
        ({}, {}),
        ({"one": Colour.GREEN}, {"one": "GREEN"}),
        ({"one": 1}, {"one": "GREEN"}),
        ({"one": 5}, {"one": 5}),
        ({"maybe": Colour.RED}, {"maybe": "RED"}),
        ({"maybe": -2}, {"maybe": "BLUE"}),
        ({"many": [Colour.RED, 1, -2, 3]}, {"many": ["RED", "GREEN", "BLUE", 3]}),
        ({"by_name": {"a": Colour.RED, "b": -2, "c": 4}}, {"byName": {"a": "RED", "b": "BLUE", "c": 4}}),
        ({"pick_a": Colour.RED}, {"pickA": "RED"}),
        ({"pick_b": Colour.RED}, {"pickB": "RED"}),
        ({"pick_b": 1, "count": 3}, {"pickB": "GREEN", "count": 3}),
    ]
    for cls in (HandTyping, Hand310):
        for kwargs, expected in cases:
            msg = cls(**kwargs)
            assert msg.to_dict() == expected, (cls, kwargs, msg.to_dict())
            assert json.loads(msg.to_json()) == expected
            # calling it again (metadata is cached) gives the same answer
            assert msg.to_dict() == expected
        defaults = cls().to_dict(include_default_values=True)
        assert defaults["one"] == "RED" and defaults["maybe"] is None
        assert defaults["many"] == [] and defaults["byName"] == {}
    for kwargs, _ in cases:
        a, b = HandTyping(**kwargs), Hand310(**kwargs)
        assert bytes(a) == bytes(b) and a.to_json() == b.to_json()
        assert a.to_dict(include_default_values=True) == b.to_dict(
            include_default_values=True
        )


def main():
    check_literals()
    check_hand_written()
    n = check_random_values()
    print(f"OK: {len(VARIANTS)} configurations, {n} generated values compared")


if __name__ == "__main__":
    main()
