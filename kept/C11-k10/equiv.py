"""C11 keep2: how the plugin decides that a generated module needs `import warnings`
(OutputTemplate.python_module_imports), how the template decides that a stub method is
deprecated, and which TYPE_CHECKING imports a service method registers.

For 128 generated programs (every subset of deprecated RPCs over two services and all four
cardinalities x deprecated message / deprecated field present or not) this script checks
  * python_module_imports against an independent computation from the descriptors,
  * that the module imports and every call through the generated stub reaches the right
    generated handler intact (a deprecated RPC warns exactly once and still works, the
    others do not warn),
  * that un-overridden methods answer UNIMPLEMENTED and handler GRPCErrors reach the caller,
  * and that the rendered text of all programs is byte-identical to the text recorded from
    the pristine tree (sha256).
Exits 0 on the pristine tree and with the refactor applied.
"""
import asyncio, importlib, os, sys, tempfile, itertools

import betterproto
from betterproto.lib.google.protobuf import (
    DescriptorProto, FieldDescriptorProto, FieldDescriptorProtoLabel,
    FieldDescriptorProtoType, FileDescriptorProto, MethodDescriptorProto,
    MethodOptions, ServiceDescriptorProto,
)
from betterproto.lib.google.protobuf.compiler import CodeGeneratorRequest
import betterproto.plugin.compiler as plugin_compiler
from betterproto.plugin.parser import generate_code

# ruff is not installed: formatting / import sorting is a no-op
plugin_compiler.subprocess.check_output = lambda cmd, input, encoding: input

T = FieldDescriptorProtoType
OPT = FieldDescriptorProtoLabel.LABEL_OPTIONAL


def msg(name, *fields):
    """fields: (name, number, type[, type_name])"""
    out = []
    for f in fields:
        fd = FieldDescriptorProto(name=f[0], number=f[1], type=f[2], label=OPT,
                                  json_name=f[0])
        if len(f) > 3:
            fd.type_name = f[3]
        out.append(fd)
    return DescriptorProto(name=name, field=out)


def rpc(name, inp, out, cs=False, ss=False, deprecated=False):
    m = MethodDescriptorProto(name=name, input_type=inp, output_type=out,
                              client_streaming=cs, server_streaming=ss)
    if deprecated:
        m.options = MethodOptions(deprecated=True)
    return m


def proto_file(name, package, messages=(), services=(), deps=()):
    return FileDescriptorProto(
        name=name, package=package, syntax="proto3", dependency=list(deps),
        message_type=list(messages),
        service=[ServiceDescriptorProto(name=n, method=list(ms)) for n, ms in services],
    )


_counter = itertools.count()


def generate(files, parameter=""):
    """Run the plugin in-process, write the package tree under a fresh root package and
    return {proto package name: imported python module}."""
    req = CodeGeneratorRequest(file_to_generate=[f.name for f in files],
                               proto_file=list(files), parameter=parameter)
    resp = generate_code(req)
    root_name = f"c11gen{next(_counter)}"
    tmp = tempfile.mkdtemp(prefix="c11_")
    root = os.path.join(tmp, root_name)
    os.makedirs(root)
    wrote_root_init = False
    for f in resp.file:
        path = os.path.join(root, f.name)
        os.makedirs(os.path.dirname(path), exist_ok=True)
        with open(path, "w") as fh:
            fh.write(f.content)
        if f.name == "__init__.py":
            wrote_root_init = True
    if not wrote_root_init:
        open(os.path.join(root, "__init__.py"), "a").close()
    sys.path.insert(0, tmp)
    importlib.invalidate_caches()
    mods = {}
    for f in files:
        if f.package == "google.protobuf":
            continue
        modname = root_name + ("." + f.package if f.package else "")
        mods[f.package] = importlib.import_module(modname)
    return mods

# ---------------------------------------------------------------------------------------
import contextlib
import hashlib
import io
import time
import warnings

import grpclib
from grpclib.testing import ChannelFor

from betterproto.lib.google.protobuf import FieldOptions, MessageOptions
from betterproto.plugin.models import OutputTemplate
import betterproto.plugin.parser as plugin_parser

t0 = time.time()

# record every OutputTemplate the plugin renders, so its properties can be inspected
rendered = []
_orig_compiler = plugin_parser.outputfile_compiler


def _recording_compiler(output_file):
    code = _orig_compiler(output_file=output_file)
    rendered.append((output_file, code))
    return code


plugin_parser.outputfile_compiler = _recording_compiler

PKG = "depr"
P = ".depr."
A_METHODS = [("Ping", False, False), ("Watch", False, True),
             ("Upload", True, False), ("Chat", True, True)]
B_METHODS = [("Other", False, False)]


def build(dep_flags, msg_deprecated, field_deprecated):
    old = msg("OldThing", ("legacy", 1, T.TYPE_INT32), ("fresh", 2, T.TYPE_INT32))
    if msg_deprecated:
        old.options = MessageOptions(deprecated=True)
    if field_deprecated:
        old.field[0].options = FieldOptions(deprecated=True)
    flags = iter(dep_flags)
    return proto_file(
        "depr.proto", PKG,
        messages=[msg("Req", ("n", 1, T.TYPE_INT32)), msg("Rep", ("n", 1, T.TYPE_INT32),
                                                           ("who", 2, T.TYPE_STRING)), old],
        services=[
            ("Alpha", [rpc(n, P + "Req", P + "Rep", cs, ss, deprecated=next(flags))
                       for n, cs, ss in A_METHODS]),
            ("Beta", [rpc(n, P + "Req", P + "Rep", cs, ss, deprecated=next(flags))
                      for n, cs, ss in B_METHODS]),
        ],
    )


def make_impl(m, base, service, methods, log):
    ns = {}
    for name, cs, ss in methods:
        tag = f"{service}/{name}"

        def mk(tag=tag, cs=cs, ss=ss):
            if not cs and not ss:
                async def h(self, request):
                    log.append((tag, [request.n]))
                    if request.n == 99:
                        raise grpclib.GRPCError(grpclib.Status.FAILED_PRECONDITION, tag)
                    return m.Rep(n=request.n + 1, who=tag)
            elif not cs and ss:
                async def h(self, request):
                    log.append((tag, [request.n]))
                    for i in range(request.n):
                        yield m.Rep(n=i, who=tag)
            elif cs and not ss:
                async def h(self, request_iterator):
                    got = [r.n async for r in request_iterator]
                    log.append((tag, got))
                    return m.Rep(n=sum(got), who=tag)
            else:
                async def h(self, request_iterator):
                    got = []
                    async for r in request_iterator:
                        got.append(r.n)
                        yield m.Rep(n=-r.n, who=tag)
                    log.append((tag, got))
            return h

        ns[name.lower()] = mk()
    return type("Impl" + service, (base,), ns)()


async def one_call(m, stub, service, name, cs, ss, k, log, expect_warning):
    tag = f"{service}/{name}"
    del log[:]
    call = getattr(stub, name.lower())
    with warnings.catch_warnings(record=True) as caught:
        warnings.simplefilter("always")
        if not cs and not ss:
            got = await call(m.Req(n=k))
            assert got == m.Rep(n=k + 1, who=tag), (tag, got)
            sent = [k]
        elif not cs and ss:
            got = [r async for r in call(m.Req(n=k))]
            assert got == [m.Rep(n=i, who=tag) for i in range(k)], (tag, got)
            sent = [k]
        elif cs and not ss:
            sent = [10 + i for i in range(k)]
            got = await call([m.Req(n=n) for n in sent])
            assert got == m.Rep(n=sum(sent), who=tag), (tag, got)
        else:
            sent = [10 + i for i in range(k)]
            got = [r async for r in call(iter([m.Req(n=n) for n in sent]))]
            assert got == [m.Rep(n=-n, who=tag) for n in sent], (tag, got)
    assert log == [(tag, sent)], (tag, log)
    dep = [w for w in caught if issubclass(w.category, DeprecationWarning)]
    if expect_warning:
        assert len(dep) == 1, (tag, [str(w.message) for w in caught])
        assert str(dep[0].message) == f"{service}.{name.lower()} is deprecated", dep[0].message
    else:
        assert dep == [], (tag, [str(w.message) for w in dep])


async def exercise(m, dep_flags):
    log = []
    a = make_impl(m, m.AlphaBase, "Alpha", A_METHODS, log)
    b = make_impl(m, m.BetaBase, "Beta", B_METHODS, log)
    assert list(a.__mapping__()) == [f"/depr.Alpha/{n}" for n, _, _ in A_METHODS]
    assert list(b.__mapping__()) == ["/depr.Beta/Other"]
    async with ChannelFor([a, b]) as channel:
        sa, sb = m.AlphaStub(channel), m.BetaStub(channel)
        for k in (0, 2):
            for (name, cs, ss), dep in zip(A_METHODS, dep_flags[:4]):
                await one_call(m, sa, "Alpha", name, cs, ss, k, log, dep)
            await one_call(m, sb, "Beta", "Other", False, False, k, log, dep_flags[4])
        # a handler's GRPCError reaches the caller
        with warnings.catch_warnings():
            warnings.simplefilter("ignore")
            try:
                await sa.ping(m.Req(n=99))
            except grpclib.GRPCError as e:
                assert e.status == grpclib.Status.FAILED_PRECONDITION and e.message == "Alpha/Ping"
            else:
                raise AssertionError("expected FAILED_PRECONDITION")
    # un-overridden methods answer UNIMPLEMENTED
    async with ChannelFor([m.AlphaBase(), m.BetaBase()]) as channel:
        sa, sb = m.AlphaStub(channel), m.BetaStub(channel)
        with warnings.catch_warnings():
            warnings.simplefilter("ignore")
            for stub, name, cs, ss in [(sa, *x) for x in A_METHODS] + [(sb, *x) for x in B_METHODS]:
                arg = [m.Req(n=1)] if cs else m.Req(n=1)
                try:
                    if ss:
                        [r async for r in getattr(stub, name.lower())(arg)]
                    else:
                        await getattr(stub, name.lower())(arg)
                except grpclib.GRPCError as e:
                    assert e.status == grpclib.Status.UNIMPLEMENTED, (name, e)
                else:
                    raise AssertionError(f"{name} should be UNIMPLEMENTED")


digest = hashlib.sha256()
programs = 0
for dep_flags in itertools.product((False, True), repeat=5):
    for msg_dep, field_dep in itertools.product((False, True), repeat=2):
        del rendered[:]
        with contextlib.redirect_stderr(io.StringIO()):
            m = generate([build(dep_flags, msg_dep, field_dep)])[PKG]
        (output_file, code), = rendered
        assert isinstance(output_file, OutputTemplate)
        digest.update(code.encode())

        # --- the import decision, against an independent computation
        want_warnings = any(dep_flags) or msg_dep or field_dep
        assert output_file.python_module_imports == ({"warnings"} if want_warnings else set()), (
            dep_flags, msg_dep, field_dep, output_file.python_module_imports)
        assert ("\nimport warnings\n" in code) == want_warnings
        assert hasattr(m, "warnings") == want_warnings
        # --- what the service methods registered for the TYPE_CHECKING block
        assert output_file.imports_type_checking_only == {
            "import grpclib.server",
            "from betterproto.grpc.grpclib_client import MetadataLike",
            "from grpclib.metadata import Deadline",
        }, output_file.imports_type_checking_only
        assert type(output_file.imports_type_checking_only) is set
        assert ("if TYPE_CHECKING:\n"
                "    from betterproto.grpc.grpclib_client import MetadataLike\n"
                "    from grpclib.metadata import Deadline\n"
                "    import grpclib.server\n") in code
        # --- the per-method decision in the stub
        for (name, _, _), dep in zip(A_METHODS, dep_flags[:4]):
            assert (f'warnings.warn("Alpha.{name.lower()} is deprecated"' in code) == dep
        assert ('warnings.warn("Beta.other is deprecated"' in code) == dep_flags[4]
        assert ('warnings.warn("OldThing is deprecated"' in code) == msg_dep
        assert ('warnings.warn("OldThing.legacy is deprecated"' in code) == field_dep

        # --- messages keep warning as before
        with warnings.catch_warnings(record=True) as caught:
            warnings.simplefilter("always")
            m.OldThing(fresh=1)
            n_plain = len([w for w in caught if issubclass(w.category, DeprecationWarning)])
            m.OldThing(legacy=1)
            n_legacy = len([w for w in caught if issubclass(w.category, DeprecationWarning)]) - n_plain
        assert n_plain == (1 if msg_dep else 0), (msg_dep, field_dep, n_plain)
        assert n_legacy == (1 if msg_dep else 0) + (1 if field_dep else 0)

        # --- end to end
        asyncio.run(exercise(m, dep_flags))
        programs += 1

# a module without any service or message at all / with a service without methods
del rendered[:]
with contextlib.redirect_stderr(io.StringIO()):
    m0 = generate([proto_file("empty.proto", "emptypkg", messages=[msg("Only")],
                              services=[("Nothing", [])])])["emptypkg"]
(of0, code0), = rendered
digest.update(code0.encode())
assert of0.python_module_imports == set() and of0.imports_type_checking_only == set()
assert m0.NothingBase().__mapping__() == {}

EXPECTED = "494cdf76e94af665eeda7a76bcb61c865f1357aaf07b4baea89318ba2fbdd3c7"
got = digest.hexdigest()
assert got == EXPECTED, f"rendered modules differ from the recorded pristine text: {got}"
print(f"C11 keep2 equiv OK: {programs} programs, digest {got[:16]} (%.1fs)" % (time.time() - t0))
