"""C12 equivalence check for AsyncChannel (receiver bookkeeping, sender loops, closer).

Part 1: deterministic unit checks on the stock event loop (natural schedule), incl.
        real timeouts via asyncio.wait_for.
Part 2: several thousand small configurations (1..2 senders x 1..3 items using send /
        send_from with list, generator, async generator or another channel as source,
        1..3 receivers using receive() or async-for, close() at a random point or via
        send_from(close=True), buffer limits 0/1/2, optional cancellation of one
        receiver at a random point) are run on an event loop that shuffles its ready
        queue with a seeded RNG.  For every run the C12 property is asserted, and the
        complete event trace of all runs is hashed and compared with the value that
        the reference tree produces (same seed => same schedule, so any change in
        results, ordering, await points or wake-ups shows up in the digest).
"""
import asyncio
import hashlib
import random
import sys

from betterproto.grpc.util.async_channel import AsyncChannel, ChannelClosed, ChannelDone

EXPECTED_DIGEST = "23ef32368cd9cda1b5699b027635c987be301b5ef4cf0297794a626855fc5db1"
N_SEEDS = 6000
STEP_BUDGET = 400


# --------------------------------------------------------------------------- part 1
async def settle(n=6):
    for _ in range(n):
        await asyncio.sleep(0)


async def expect_raises(awaitable, exc_type, message=None):
    try:
        await awaitable
    except exc_type as e:
        if message is not None:
            assert str(e) == message, str(e)
        return e
    raise AssertionError("expected %s" % exc_type.__name__)


async def unit_checks():
    # plain FIFO, falsy / None-like / exception-valued items pass through untouched
    odd_items = [0, "", b"", False, [], {}, (), 0.0, StopAsyncIteration(), ChannelDone(),
                 object(), None, "tail"]
    ch = AsyncChannel()
    assert ch.closed() is False and ch.done() is False
    assert await ch.send_from(odd_items) is ch
    assert await ch.send("single") is ch
    got = [await ch.receive() for _ in range(len(odd_items) + 1)]
    assert len(got) == len(odd_items) + 1
    for a, b in zip(got, odd_items + ["single"]):
        assert a is b or a == b, (a, b)
    ch.close()
    assert ch.closed() is True and ch.done() is True
    await expect_raises(ch.receive(), ChannelDone, "Cannot receive from a closed channel")
    await expect_raises(ch.send(1), ChannelClosed, "Cannot send through a closed channel")
    await expect_raises(ch.send_from([1]), ChannelClosed, "Cannot send through a closed channel")
    assert [x async for x in ch] == []

    # same through async-for, items (incl. None) are all iterated
    ch = AsyncChannel()
    await ch.send_from(odd_items, close=True)
    assert ch.closed() and not ch.done()
    seen = [x async for x in ch]
    assert len(seen) == len(odd_items)
    for a, b in zip(seen, odd_items):
        assert a is b or a == b
    assert ch.done()

    # send_from on a closed channel must not touch its source
    touched = []

    def gen():
        touched.append("sync")
        yield 1

    async def agen():
        touched.append("async")
        yield 1

    await expect_raises(ch.send_from(gen()), ChannelClosed)
    await expect_raises(ch.send_from(agen()), ChannelClosed)
    await expect_raises(ch.send_from([], close=True), ChannelClosed)
    assert touched == []

    # sources of every kind, empty sources, source that raises midway
    for limit in (0, 1, 2, 5):
        ch = AsyncChannel(buffer_limit=limit)
        out = []

        async def consume():
            async for x in ch:
                out.append(x)

        consumer = asyncio.ensure_future(consume())

        def g(n, tag):
            for i in range(n):
                yield (tag, i)

        async def ag(n, tag):
            for i in range(n):
                await asyncio.sleep(0)
                yield (tag, i)

        def bad():
            yield ("bad", 0)
            raise KeyError("boom")

        async def abad():
            yield ("abad", 0)
            raise IndexError("aboom")

        inner = AsyncChannel()
        await inner.send_from([("inner", 0), ("inner", 1)], close=True)
        await ch.send_from([])
        await ch.send_from(())
        await ch.send_from(g(0, "none"))
        await ch.send_from(ag(0, "none"))
        await ch.send_from([("list", 0), ("list", 1), ("list", 2)])
        await ch.send_from((("tuple", 0),))
        await ch.send_from(g(3, "gen"))
        await ch.send_from(ag(3, "agen"))
        await ch.send_from(inner)
        await ch.send_from(iter([("iter", 0)]))
        await ch.send_from({("dictkey", 0): 1})
        await ch.send_from("ab")
        e = await expect_raises(ch.send_from(bad()), KeyError)
        assert e.args == ("boom",)
        e = await expect_raises(ch.send_from(abad()), IndexError)
        assert e.args == ("aboom",)
        assert not ch.closed()
        await expect_raises(ch.send_from(5), TypeError)
        await expect_raises(ch.send_from(None), TypeError)
        assert await ch.send_from(g(1, "last"), close=True) is ch
        assert ch.closed()
        await asyncio.wait_for(consumer, 5)
        assert out == [
            ("list", 0), ("list", 1), ("list", 2), ("tuple", 0),
            ("gen", 0), ("gen", 1), ("gen", 2),
            ("agen", 0), ("agen", 1), ("agen", 2),
            ("inner", 0), ("inner", 1), ("iter", 0), ("dictkey", 0), "a", "b",
            ("bad", 0), ("abad", 0), ("last", 0),
        ], out
        assert ch.done() and inner.done()

    # send_from: odd sources behave like a plain for / async-for statement
    class CountDown:
        """sync iterable + iterator implemented by hand"""

        def __init__(self, n, stop=StopIteration):
            self.n, self.stop, self.iters = n, stop, 0

        def __iter__(self):
            self.iters += 1
            return self

        def __next__(self):
            if self.n == 0:
                raise self.stop
            self.n -= 1
            return self.n

    class ACountDown:
        """async iterable + iterator implemented by hand"""

        def __init__(self, n, stop=StopAsyncIteration):
            self.n, self.stop, self.iters = n, stop, 0

        def __aiter__(self):
            self.iters += 1
            return self

        async def __anext__(self):
            await asyncio.sleep(0)
            if self.n == 0:
                raise self.stop
            self.n -= 1
            return self.n

    class Both(ACountDown):
        """iterable both ways: the async protocol wins"""

        def __iter__(self):
            raise AssertionError("sync protocol used")

    ch = AsyncChannel()
    e = await expect_raises(ch.send_from(5), TypeError)
    assert str(e) == "'int' object is not iterable", str(e)
    c1, c2, c3 = CountDown(3), ACountDown(3), Both(2)
    await ch.send_from(c1)
    await ch.send_from(c2)
    await ch.send_from(c3)
    assert (c1.iters, c2.iters, c3.iters) == (1, 1, 1)
    await expect_raises(ch.send_from(CountDown(1, ValueError("sync stop"))), ValueError, "sync stop")
    await expect_raises(ch.send_from(ACountDown(1, ValueError("async stop"))), ValueError, "async stop")
    # an end-of-iteration signal of the *other* protocol is an ordinary error
    await expect_raises(ch.send_from(CountDown(1, StopAsyncIteration)), StopAsyncIteration)
    await expect_raises(ch.send_from(ACountDown(1, StopIteration)), RuntimeError)
    assert not ch.closed()
    await ch.send_from(CountDown(0), close=True)
    assert [x async for x in ch] == [2, 1, 0, 2, 1, 0, 1, 0, 0, 0, 0, 0]

    # pulling from the source and buffering alternate strictly (bounded buffer)
    ch = AsyncChannel(buffer_limit=1)
    events = []

    def noisy(n):
        for i in range(n):
            events.append(("pull", i))
            yield i
        events.append(("end",))

    async def anoisy(n):
        for i in range(n):
            events.append(("apull", i))
            yield i
        events.append(("aend",))

    async def slow_consumer():
        async for x in ch:
            events.append(("got", x))
            await asyncio.sleep(0)

    consumer = asyncio.ensure_future(slow_consumer())
    await ch.send_from(noisy(3))
    await ch.send_from(anoisy(3), close=True)
    await asyncio.wait_for(consumer, 5)
    assert events == [
        ("pull", 0), ("pull", 1), ("got", 0), ("pull", 2), ("got", 1), ("end",),
        ("apull", 0), ("got", 2), ("apull", 1), ("got", 0), ("apull", 2), ("got", 1),
        ("aend",), ("got", 2),
    ], events

    # a generator source is left suspended (not closed) when the send is cancelled
    ch = AsyncChannel(buffer_limit=1)
    log = []

    def watched():
        try:
            for i in range(5):
                yield i
        finally:
            log.append("closed")

    src = watched()
    t = asyncio.ensure_future(ch.send_from(src))
    await settle()
    assert not t.done()  # blocked with item 1 on the full buffer
    t.cancel()
    await expect_raises(t, asyncio.CancelledError)
    assert log == []
    assert next(src) == 2
    assert await ch.receive() == 0
    assert not ch.done()

    # closed while receivers are blocked: receive() -> None, async-for ends
    for n_recv in (1, 2, 3):
        for limit in (0, 1):
            ch = AsyncChannel(buffer_limit=limit)
            results = []

            async def r_receive():
                results.append(("receive", await ch.receive()))

            async def r_for():
                async for x in ch:
                    results.append(("for-item", x))
                results.append(("for-end", None))

            tasks = [asyncio.ensure_future((r_receive if i % 2 == 0 else r_for)())
                     for i in range(n_recv)]
            await settle()
            assert not ch.done()
            ch.close()
            assert ch.closed()
            await asyncio.wait_for(asyncio.gather(*tasks), 5)
            assert sorted(results) == sorted(
                [("receive", None) if i % 2 == 0 else ("for-end", None) for i in range(n_recv)]
            ), results
            assert ch.done()
            await expect_raises(ch.receive(), ChannelDone)

    # timeouts and cancellation of a blocked receiver: surfaces as such, nothing lost
    for limit in (0, 1, 3):
        ch = AsyncChannel(buffer_limit=limit)
        await expect_raises(asyncio.wait_for(ch.receive(), 0.01), asyncio.TimeoutError)
        await expect_raises(asyncio.wait_for(ch.__anext__(), 0.01), asyncio.TimeoutError)
        t1 = asyncio.ensure_future(ch.receive())
        t2 = asyncio.ensure_future(ch.__anext__())
        await settle()
        t1.cancel()
        t2.cancel()
        await expect_raises(t1, asyncio.CancelledError)
        await expect_raises(t2, asyncio.CancelledError)
        assert not ch.done()
        await ch.send("x")
        assert await asyncio.wait_for(ch.receive(), 5) == "x"
        # blocked receiver + cancelled sibling while an item is in flight
        ta = asyncio.ensure_future(ch.receive())
        tb = asyncio.ensure_future(ch.receive())
        await settle()
        await ch.send("y")  # in flight to ta
        ta.cancel()
        await expect_raises(ta, asyncio.CancelledError)
        assert await asyncio.wait_for(tb, 5) == "y"
        ch.close()
        # no stale waiting count: closed + empty is done at once
        assert ch.done()
        await settle()
        await expect_raises(ch.receive(), ChannelDone)
        await expect_raises(ch.__anext__(), StopAsyncIteration)

    # cancelled receiver on a closed channel whose item was reserved for it
    ch = AsyncChannel()
    ta = asyncio.ensure_future(ch.receive())
    await settle()
    await ch.send("z")
    ch.close()
    assert ch.done()  # the only buffered item is reserved for ta
    ta.cancel()
    await expect_raises(ta, asyncio.CancelledError)
    assert not ch.done()  # released again
    assert await ch.receive() == "z"
    assert ch.done()

    # close twice / close via send_from and close()
    ch = AsyncChannel()
    ts = [asyncio.ensure_future(ch.receive()) for _ in range(3)]
    await settle()
    await ch.send_from([], close=True)
    ch.close()
    ch.close()
    assert await asyncio.wait_for(asyncio.gather(*ts), 5) == [None, None, None]
    await settle()
    assert ch.done()
    await expect_raises(ch.receive(), ChannelDone)


# --------------------------------------------------------------------------- part 2
class ShuffleLoop(asyncio.SelectorEventLoop):
    """Event loop that runs the callbacks of its ready queue in a seeded random order."""

    def __init__(self, seed):
        super().__init__()
        self._rng = random.Random(seed)

    def _run_once(self):
        ready = self._ready
        if len(ready) > 1:
            handles = list(ready)
            self._rng.shuffle(handles)
            ready.clear()
            ready.extend(handles)
        super()._run_once()


def make_config(rng):
    n_send = rng.randint(1, 2)
    cfg = {
        "limit": rng.choice((0, 0, 1, 2)),
        "senders": [
            {"n": rng.randint(1, 3),
             "mode": rng.choice(("send", "list", "gen", "agen", "chan")),
             "delay": rng.randint(0, 3)}
            for _ in range(n_send)
        ],
        "receivers": [
            {"kind": rng.choice(("receive", "for")), "delay": rng.randint(0, 4)}
            for _ in range(rng.randint(1, 3))
        ],
        # how the channel gets closed
        "closer": rng.choice(("task", "task", "send_from", "both")),
        "close_delay": rng.randint(0, 10),
        "cancel": rng.choice((None, None, rng.randint(0, 2))),
        "cancel_delay": rng.randint(0, 10),
    }
    if cfg["cancel"] is not None and cfg["cancel"] >= len(cfg["receivers"]):
        cfg["cancel"] = None
    return cfg


async def run_config(cfg, trace):
    ch = AsyncChannel(buffer_limit=cfg["limit"])
    must = []      # items whose send completed while the channel was still open
    offered = []   # every item handed to the channel
    received = []  # (receiver, item)

    def completed(item):
        if not ch.closed():
            must.append(item)
        trace.append(("sent", item, ch.closed()))

    async def sender(idx, spec):
        items = ["s%d-%d" % (idx, i) for i in range(spec["n"])]
        close_here = cfg["closer"] in ("send_from", "both") and idx == 0
        for _ in range(spec["delay"]):
            await asyncio.sleep(0)
        try:
            if spec["mode"] == "send":
                for item in items:
                    offered.append(item)
                    r = await ch.send(item)
                    assert r is ch
                    completed(item)
                if close_here:
                    await ch.send_from([], close=True)
            elif spec["mode"] == "list":
                offered.extend(items)
                was_open = not ch.closed()
                r = await ch.send_from(list(items), close=close_here)
                assert r is ch
                if close_here:
                    # closed synchronously right after the last put
                    if was_open:
                        trace.append(("batch", idx))
                else:
                    for item in items:
                        completed(item)
            else:
                def gen():
                    prev = None
                    for item in items:
                        if prev is not None:
                            completed(prev)
                        offered.append(item)
                        yield item
                        prev = item
                    if prev is not None:
                        completed(prev)

                async def agen():
                    prev = None
                    for item in items:
                        if prev is not None:
                            completed(prev)
                        await asyncio.sleep(0)
                        offered.append(item)
                        yield item
                        prev = item
                    if prev is not None:
                        completed(prev)

                if spec["mode"] == "gen":
                    source = gen()
                elif spec["mode"] == "agen":
                    source = agen()
                else:
                    source = AsyncChannel()
                    await source.send_from(list(items), close=True)
                    offered.extend(items)
                r = await ch.send_from(source, close=close_here)
                assert r is ch
                if spec["mode"] == "chan":
                    assert source.done()
                    if not ch.closed():
                        for item in items:
                            completed(item)
        except ChannelClosed as e:
            assert str(e) == "Cannot send through a closed channel"
            trace.append(("send-rejected", idx))
        trace.append(("sender-end", idx))

    async def receiver(idx, spec):
        for _ in range(spec["delay"]):
            await asyncio.sleep(0)
        try:
            if spec["kind"] == "for":
                async for item in ch:
                    received.append((idx, item))
                    trace.append(("recv", idx, item))
                trace.append(("for-end", idx))
            else:
                while True:
                    try:
                        item = await ch.receive()
                    except ChannelDone:
                        trace.append(("done", idx))
                        break
                    if item is None:
                        assert ch.closed()
                        trace.append(("none", idx))
                        break
                    received.append((idx, item))
                    trace.append(("recv", idx, item))
        except asyncio.CancelledError:
            trace.append(("cancelled", idx))
            raise

    async def closer():
        for _ in range(cfg["close_delay"]):
            await asyncio.sleep(0)
        ch.close()
        assert ch.closed()
        trace.append(("close",))
        try:
            await ch.send("late")
        except ChannelClosed:
            pass
        else:
            raise AssertionError("send after close accepted")

    senders = [asyncio.ensure_future(sender(i, s)) for i, s in enumerate(cfg["senders"])]
    receivers = [asyncio.ensure_future(receiver(i, r)) for i, r in enumerate(cfg["receivers"])]
    others = []
    if cfg["closer"] in ("task", "both"):
        others.append(asyncio.ensure_future(closer()))

    victim = None
    if cfg["cancel"] is not None:
        victim = receivers[cfg["cancel"]]

        async def canceller():
            for _ in range(cfg["cancel_delay"]):
                await asyncio.sleep(0)
            trace.append(("cancel", cfg["cancel"], victim.done()))
            victim.cancel()

        others.append(asyncio.ensure_future(canceller()))

    for _ in range(STEP_BUDGET):
        await asyncio.sleep(0)
    if not ch.closed():
        # e.g. close via send_from of a sender that is blocked for ever on a full
        # buffer because every receiver was cancelled: not what this run is about
        ch.close()
        trace.append(("forced-close",))
        for _ in range(STEP_BUDGET):
            await asyncio.sleep(0)

    # every receiver terminated
    for i, t in enumerate(receivers):
        assert t.done(), ("stranded receiver", i, cfg, trace)
        if t.cancelled():
            assert t is victim
        else:
            assert t.exception() is None, t.exception()
    for t in others:
        assert t.done() and t.exception() is None
    # blocked senders on a bounded buffer may legitimately still wait (nobody receives
    # any more); everything else must have finished without error
    for i, t in enumerate(senders):
        if t.done():
            assert t.exception() is None, t.exception()
        else:
            assert cfg["limit"] > 0, ("stuck sender on unbounded channel", cfg)
    trace.append(("pending-senders", [i for i, t in enumerate(senders) if not t.done()]))

    # whatever is left in the channel is still available to a late receiver
    leftovers = []
    for _ in range(20):
        if ch.done():
            break
        t = asyncio.ensure_future(ch.receive())
        for _ in range(10):
            await asyncio.sleep(0)
            if t.done():
                break
        assert t.done(), ("late receive blocks on closed channel", cfg)
        item = t.result()
        if item is not None:
            leftovers.append(item)
    trace.append(("leftovers", leftovers))
    for t in senders:
        if not t.done():
            t.cancel()
    await asyncio.gather(*senders, return_exceptions=True)

    got = [item for _, item in received] + leftovers
    assert len(got) == len(set(got)), ("duplicate", got, cfg)
    assert set(got) <= set(offered), ("invented", got, offered)
    missing = [m for m in must if m not in got]
    assert not missing, ("lost", missing, cfg, trace)
    for s in range(len(cfg["senders"])):
        mine = [item for item in got if item.startswith("s%d-" % s)]
        in_stream = [item for _, item in received if item.startswith("s%d-" % s)]
        assert in_stream == sorted(in_stream), ("reordered", in_stream, cfg)
        assert sorted(mine) == ["s%d-%d" % (s, i) for i in range(len(mine))], mine
    try:
        await ch.send("late2")
    except ChannelClosed:
        pass
    else:
        raise AssertionError("send after close accepted")


def explore():
    digest = hashlib.sha256()
    stats = {"cancelled": 0, "leftovers": 0, "none": 0, "rejected": 0, "forced": 0}
    for seed in range(N_SEEDS):
        cfg = make_config(random.Random(seed * 7919 + 1))
        trace = []
        loop = ShuffleLoop(seed)
        try:
            loop.run_until_complete(run_config(cfg, trace))
        finally:
            loop.run_until_complete(loop.shutdown_asyncgens())
            loop.close()
        for ev in trace:
            if ev[0] == "cancelled":
                stats["cancelled"] += 1
            elif ev[0] == "leftovers" and ev[1]:
                stats["leftovers"] += 1
            elif ev[0] == "none":
                stats["none"] += 1
            elif ev[0] == "send-rejected":
                stats["rejected"] += 1
            elif ev[0] == "forced-close":
                stats["forced"] += 1
        digest.update(repr((seed, sorted(cfg.items()), trace)).encode())
    return digest.hexdigest(), stats


def main():
    asyncio.run(unit_checks())
    print("unit checks ok")
    digest, stats = explore()
    print("explored", N_SEEDS, "schedules", stats)
    print("trace digest", digest)
    # the interesting paths were really exercised
    assert stats["cancelled"] > 100 and stats["none"] > 100 and stats["rejected"] > 100, stats
    if "--print-digest" in sys.argv:
        return
    assert digest == EXPECTED_DIGEST, "behaviour differs from the reference tree"
    print("equiv OK")


main()
