"""Equivalence check for the C09 refactor of _Timestamp.from_datetime and
_Duration.from_timedelta (the conversions that _preprocess_single and
_len_preprocessed_single apply to datetime / timedelta values before serialising /
measuring them).

Checks the produced (seconds, nanos) against an independent integer model and against
google.protobuf, golden wire bytes, and the C09 statement (len == len(bytes), dump,
SIZE_DELIMITED dump, SerializeToString) for messages carrying datetime / timedelta values in
singular, repeated, map, optional and oneof positions.  Passes on the pristine tree and with
the refactor applied.
"""
import random
from dataclasses import dataclass
from datetime import datetime, timedelta, timezone
from io import BytesIO
from typing import Dict, List, Optional

import betterproto
from betterproto import (
    _Duration,
    _len_preprocessed_single,
    _len_single,
    _preprocess_single,
    _serialize_single,
    _Timestamp,
    encode_varint,
)
from google.protobuf import duration_pb2, timestamp_pb2

rnd = random.Random(0xC0902)
UTC = timezone.utc
EPOCH = datetime(1970, 1, 1, tzinfo=UTC)
US = timedelta(microseconds=1)


@dataclass(eq=False, repr=False)
class Times(betterproto.Message):
    ts: datetime = betterproto.message_field(1)
    du: timedelta = betterproto.message_field(2)
    tss: List[datetime] = betterproto.message_field(3)
    dus: List[timedelta] = betterproto.message_field(4)
    mts: Dict[str, datetime] = betterproto.map_field(
        5, betterproto.TYPE_STRING, betterproto.TYPE_MESSAGE
    )
    mdu: Dict[int, timedelta] = betterproto.map_field(
        16, betterproto.TYPE_INT32, betterproto.TYPE_MESSAGE
    )
    ots: Optional[datetime] = betterproto.message_field(7, optional=True)
    odu: Optional[timedelta] = betterproto.message_field(8, optional=True)
    a_ts: datetime = betterproto.message_field(9, group="pick")
    a_du: timedelta = betterproto.message_field(10, group="pick")
    a_n: int = betterproto.int32_field(11, group="pick")


@dataclass(eq=False, repr=False)
class Wrap(betterproto.Message):
    t: Times = betterproto.message_field(1)
    ts: List[Times] = betterproto.message_field(2)


# ---------------------------------------------------------------------------------------
# independent models
# ---------------------------------------------------------------------------------------
def model_timestamp(dt: datetime):
    """seconds floor, nanos in [0, 1e9) -- google.protobuf.Timestamp convention."""
    d = dt - EPOCH
    total_us = d.days * 86_400_000_000 + d.seconds * 1_000_000 + d.microseconds
    seconds = total_us // 1_000_000
    return seconds, (total_us - seconds * 1_000_000) * 1000


def model_duration(td: timedelta):
    """seconds truncated towards zero, nanos with the sign of the duration."""
    total_us = td.days * 86_400_000_000 + td.seconds * 1_000_000 + td.microseconds
    sign = -1 if total_us < 0 else 1
    mag = abs(total_us)
    return sign * (mag // 1_000_000), sign * (mag % 1_000_000) * 1000


def zz_free_varint(n: int) -> bytes:
    return encode_varint(n)


def model_bytes(seconds: int, nanos: int) -> bytes:
    out = b""
    if seconds:
        out += b"\x08" + zz_free_varint(seconds)
    if nanos:
        out += b"\x10" + zz_free_varint(nanos)
    return out


# ---------------------------------------------------------------------------------------
# value pools
# ---------------------------------------------------------------------------------------
DT_EDGES = [
    EPOCH,
    EPOCH + US,
    EPOCH - US,
    EPOCH + timedelta(microseconds=999_999),
    EPOCH - timedelta(microseconds=999_999),
    EPOCH + timedelta(seconds=1),
    EPOCH - timedelta(seconds=1),
    EPOCH - timedelta(seconds=1, microseconds=1),
    EPOCH + timedelta(seconds=127),
    EPOCH + timedelta(seconds=128),
    EPOCH + timedelta(seconds=2**31 - 1),
    EPOCH + timedelta(seconds=2**31),
    EPOCH + timedelta(seconds=2**31, microseconds=1),
    EPOCH - timedelta(seconds=2**31),
    EPOCH - timedelta(seconds=2**31, microseconds=999_999),
    datetime(1969, 12, 31, 23, 59, 59, 500_000, tzinfo=UTC),
    datetime(1, 1, 1, tzinfo=UTC),
    datetime(1, 1, 1, 0, 0, 0, 1, tzinfo=UTC),
    datetime(9999, 12, 31, 23, 59, 59, 999_999, tzinfo=UTC),
    datetime(2000, 2, 29, 12, 0, 0, tzinfo=UTC),
    datetime(2038, 1, 19, 3, 14, 7, tzinfo=UTC),
    datetime(2038, 1, 19, 3, 14, 8, tzinfo=UTC),
    # aware, not UTC
    datetime(2020, 6, 1, 12, 0, 0, 250_000, tzinfo=timezone(timedelta(hours=5, minutes=30))),
    datetime(1969, 12, 31, 19, 0, 0, tzinfo=timezone(timedelta(hours=-5))),  # == epoch
    datetime(1960, 1, 1, 0, 0, 0, 1, tzinfo=timezone(timedelta(hours=-11, minutes=-59))),
]
TD_EDGES = [
    timedelta(0),
    US,
    -US,
    timedelta(microseconds=999_999),
    -timedelta(microseconds=999_999),
    timedelta(seconds=1),
    -timedelta(seconds=1),
    timedelta(seconds=1, microseconds=1),
    -timedelta(seconds=1, microseconds=1),
    timedelta(seconds=1, microseconds=500_000),
    -timedelta(seconds=1, microseconds=500_000),
    timedelta(seconds=127),
    timedelta(seconds=128),
    -timedelta(seconds=128),
    timedelta(days=1),
    -timedelta(days=1),
    timedelta(days=-1, microseconds=1),
    timedelta(days=-1, seconds=86399, microseconds=999_999),  # == -1us
    timedelta(days=104_249_991),  # beyond 2**53 microseconds
    timedelta(days=104_249_991, microseconds=1),
    -timedelta(days=104_249_991, microseconds=1),
    timedelta.max,
    timedelta.min,
    timedelta.min + US,
    timedelta.max - US,
    timedelta.resolution,
]


def random_dt() -> datetime:
    if rnd.random() < 0.3:
        return rnd.choice(DT_EDGES)
    us = rnd.randrange(-62_135_596_800 * 10**6, 253_402_300_799 * 10**6)
    if rnd.random() < 0.3:
        us = us // 10**6 * 10**6  # whole seconds
    dt = EPOCH + timedelta(microseconds=us)
    if rnd.random() < 0.3:
        try:
            dt = dt.astimezone(timezone(timedelta(minutes=rnd.randrange(-1439, 1440))))
        except OverflowError:
            pass
    return dt


def random_td() -> timedelta:
    r = rnd.random()
    if r < 0.3:
        return rnd.choice(TD_EDGES)
    if r < 0.6:
        return timedelta(microseconds=rnd.randrange(-3 * 10**6, 3 * 10**6))
    lo = timedelta.min // US
    hi = timedelta.max // US
    return timedelta(microseconds=rnd.randrange(lo, hi + 1))


# ---------------------------------------------------------------------------------------
# 1. the conversions themselves
# ---------------------------------------------------------------------------------------
def check_dt(dt: datetime) -> None:
    t = _Timestamp.from_datetime(dt)
    assert type(t) is _Timestamp
    assert type(t.seconds) is int and type(t.nanos) is int
    assert (t.seconds, t.nanos) == model_timestamp(dt), (dt, t.seconds, t.nanos)
    assert 0 <= t.nanos < 10**9 and t.nanos % 1000 == 0
    assert bytes(t) == model_bytes(t.seconds, t.nanos)
    assert len(t) == len(bytes(t))
    g = timestamp_pb2.Timestamp()
    g.FromDatetime(dt)
    assert (g.seconds, g.nanos) == (t.seconds, t.nanos), (dt, g, t)
    assert g.SerializeToString() == bytes(t)
    # exact round trip
    assert t.to_datetime() == dt
    # what the serialisation helpers make of the raw value
    raw = _preprocess_single(betterproto.TYPE_MESSAGE, "", dt)
    assert raw == bytes(t)
    assert _len_preprocessed_single(betterproto.TYPE_MESSAGE, "", dt) == len(raw)
    for number in (1, 16, 2048):
        for se in (False, True):
            assert _len_single(number, betterproto.TYPE_MESSAGE, dt, serialize_empty=se) == len(
                _serialize_single(number, betterproto.TYPE_MESSAGE, dt, serialize_empty=se)
            )


def check_td(td: timedelta) -> None:
    d = _Duration.from_timedelta(td)
    assert type(d) is _Duration
    assert type(d.seconds) is int and type(d.nanos) is int
    assert (d.seconds, d.nanos) == model_duration(td), (td, d.seconds, d.nanos)
    assert -(10**9) < d.nanos < 10**9 and d.nanos % 1000 == 0
    assert d.seconds * d.nanos >= 0  # never opposite signs
    assert d.seconds * 10**9 + d.nanos == (td // US) * 1000
    assert bytes(d) == model_bytes(d.seconds, d.nanos)
    assert len(d) == len(bytes(d))
    if abs(d.seconds) <= 315_576_000_000:  # google's documented Duration range
        g = duration_pb2.Duration()
        g.FromTimedelta(td)
        assert (g.seconds, g.nanos) == (d.seconds, d.nanos), (td, g, d)
        assert g.SerializeToString() == bytes(d)
    raw = _preprocess_single(betterproto.TYPE_MESSAGE, "", td)
    assert raw == bytes(d)
    assert _len_preprocessed_single(betterproto.TYPE_MESSAGE, "", td) == len(raw)
    for number in (1, 16, 2048):
        for se in (False, True):
            assert _len_single(number, betterproto.TYPE_MESSAGE, td, serialize_empty=se) == len(
                _serialize_single(number, betterproto.TYPE_MESSAGE, td, serialize_empty=se)
            )


for dt in DT_EDGES:
    check_dt(dt)
for td in TD_EDGES:
    check_td(td)
# every microsecond offset around zero and around whole seconds
for base in (0, 10**6, -(10**6), 2 * 10**6, -2 * 10**6, 86_400 * 10**6, -86_400 * 10**6):
    for off in range(-3, 4):
        check_td(timedelta(microseconds=base + off))
        check_dt(EPOCH + timedelta(microseconds=base + off))
for us in range(-2_000_100, 2_000_100, 9_973):
    check_td(timedelta(microseconds=us))
    check_dt(EPOCH + timedelta(microseconds=us))
for _ in range(4000):
    check_dt(random_dt())
    check_td(random_td())

# golden values
assert bytes(_Timestamp.from_datetime(EPOCH)) == b""
assert bytes(_Timestamp.from_datetime(EPOCH - US)) == (
    b"\x08" + b"\xff" * 9 + b"\x01" + b"\x10" + encode_varint(999_999_000)
)
assert bytes(_Timestamp.from_datetime(EPOCH + timedelta(seconds=1, microseconds=1))) == (
    b"\x08\x01\x10\xe8\x07"
)
assert bytes(_Duration.from_timedelta(-US)) == b"\x10" + encode_varint(-1000)
assert bytes(_Duration.from_timedelta(-timedelta(seconds=1, microseconds=500_000))) == (
    b"\x08" + encode_varint(-1) + b"\x10" + encode_varint(-500_000_000)
)
assert bytes(_Duration.from_timedelta(timedelta(seconds=1, microseconds=1))) == b"\x08\x01\x10\xe8\x07"
d = _Duration.from_timedelta(timedelta.min)
assert (d.seconds, d.nanos) == (-86_399_999_913_600, 0)
d = _Duration.from_timedelta(timedelta.max)
assert (d.seconds, d.nanos) == (86_399_999_999_999, 999_999_000)

# error behaviour is unchanged: a naive datetime cannot be related to the (aware) epoch
try:
    _Timestamp.from_datetime(datetime(2020, 1, 1))
except TypeError:
    pass
else:
    raise AssertionError("expected TypeError for a naive datetime")
for bad in (None, 5, "1s"):
    try:
        _Duration.from_timedelta(bad)
    except TypeError:
        pass
    else:
        raise AssertionError("expected TypeError")

# ---------------------------------------------------------------------------------------
# 2. the C09 statement on messages that carry such values
# ---------------------------------------------------------------------------------------
checked = 0


def check(m: betterproto.Message, expected: Optional[bytes] = None) -> bytes:
    global checked
    checked += 1
    data = bytes(m)
    if expected is not None:
        assert data == expected, (data, expected)
    assert m.SerializeToString() == data
    assert len(m) == len(data), (len(m), len(data))
    s = BytesIO()
    m.dump(s)
    assert s.getvalue() == data
    s = BytesIO()
    m.dump(s, betterproto.SIZE_DELIMITED)
    assert s.getvalue() == encode_varint(len(data)) + data
    again = type(m)().parse(data)
    assert bytes(again) == data and len(again) == len(data)
    return data


def field(number: int, payload: bytes) -> bytes:
    return encode_varint((number << 3) | 2) + encode_varint(len(payload)) + payload


def ts_bytes(dt):
    return model_bytes(*model_timestamp(dt))


def du_bytes(td):
    return model_bytes(*model_duration(td))


check(Times(), b"")
check(Times(ts=EPOCH), b"")  # the default value
check(Times(du=timedelta(0)), b"")
check(Times(ots=EPOCH), b"\x3a\x00")  # present although default
check(Times(odu=timedelta(0)), b"\x42\x00")
check(Times(a_ts=EPOCH), b"\x4a\x00")
check(Times(a_du=timedelta(0)), b"\x52\x00")
check(Times(tss=[EPOCH, EPOCH]), b"\x1a\x00\x1a\x00")
check(Times(dus=[timedelta(0)]), b"\x22\x00")
check(Times(mts={"": EPOCH}), b"\x2a\x00")
check(Times(mdu={0: timedelta(0)}), b"\x82\x01\x02\x08\x00")

for dt in DT_EDGES:
    p = ts_bytes(dt)
    if dt != EPOCH:
        check(Times(ts=dt), field(1, p))
    check(Times(ots=dt), field(7, p))
    check(Times(a_ts=dt), field(9, p))
    check(Times(tss=[dt, EPOCH, dt]), field(3, p) + field(3, b"") + field(3, p))
    check(Times(mts={"k": dt}), field(5, b"\x0a\x01k" + (field(2, p) if p else b"")))
for td in TD_EDGES:
    p = du_bytes(td)
    if td:
        check(Times(du=td), field(2, p))
    check(Times(odu=td), field(8, p))
    check(Times(a_du=td), field(10, p))
    check(Times(dus=[td, timedelta(0), td]), field(4, p) + field(4, b"") + field(4, p))
    check(Times(mdu={7: td}), field(16, b"\x08\x07" + (field(2, p) if p else b"")))


def random_times() -> Times:
    t = Times()
    if rnd.random() < 0.5:
        t.ts = random_dt()
    if rnd.random() < 0.5:
        t.du = random_td()
    if rnd.random() < 0.4:
        t.tss = [random_dt() for _ in range(rnd.randrange(1, 4))]
    if rnd.random() < 0.4:
        t.dus = [random_td() for _ in range(rnd.randrange(1, 4))]
    if rnd.random() < 0.4:
        t.mts = {rnd.choice(("", "a", "k" * 130)): random_dt() for _ in range(rnd.randrange(1, 3))}
    if rnd.random() < 0.4:
        t.mdu = {rnd.choice((0, 1, -1, 300)): random_td() for _ in range(rnd.randrange(1, 3))}
    if rnd.random() < 0.3:
        t.ots = random_dt()
    if rnd.random() < 0.3:
        t.odu = random_td()
    r = rnd.random()
    if r < 0.25:
        t.a_ts = random_dt()
    elif r < 0.5:
        t.a_du = random_td()
    elif r < 0.6:
        t.a_n = 0
    return t


for _ in range(1500):
    t = random_times()
    data = check(t)
    # with unknown fields behind it
    check(Times().parse(data + b"\xa0\x06\x01"), data + b"\xa0\x06\x01")
for _ in range(300):
    w = Wrap()
    if rnd.random() < 0.7:
        w.t = random_times()
    w.ts = [random_times() for _ in range(rnd.randrange(0, 3))]
    check(w)

print("ok", checked, "messages checked")
