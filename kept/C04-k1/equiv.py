"""Equivalence check for the refactor of the plain-scalar branch of
Message._from_dict_init (if/elif chain -> decoder table).

Exercises from_dict / from_json for every scalar proto type as singular, optional,
oneof, repeated and map-value field, with boundary values, through both casings, the
dict and the JSON-text path, the classmethod and the instance form; and cross-checks the
decoders against google.protobuf's json_format output for the same values."""
import json
import math
import random
import struct
from dataclasses import dataclass
from typing import Dict, List, Optional

import betterproto
from betterproto import Casing

SCALARS = [
    "double", "float", "int32", "int64", "uint32", "uint64", "sint32", "sint64",
    "fixed32", "fixed64", "sfixed32", "sfixed64", "bool", "string", "bytes",
]
PYTYPE = {
    **{t: int for t in SCALARS}, "double": float, "float": float, "bool": bool,
    "string": str, "bytes": bytes,
}


class Color(betterproto.Enum):
    ZERO = 0
    RED = 1
    GREEN = 2
    NEG = -1


def _mk(name, build):
    ns, ann = {}, {}
    build(ns, ann)
    ns["__annotations__"] = ann
    cls = type(name, (betterproto.Message,), ns)
    return dataclass(eq=False, repr=False)(cls)


def _b_single(ns, ann):
    for i, t in enumerate(SCALARS, 1):
        ann[f"v_{t}"] = PYTYPE[t]
        ns[f"v_{t}"] = getattr(betterproto, f"{t}_field")(i)
    ann["v_enum"] = Color
    ns["v_enum"] = betterproto.enum_field(16)


def _b_optional(ns, ann):
    for i, t in enumerate(SCALARS, 1):
        ann[f"o_{t}"] = Optional[PYTYPE[t]]
        ns[f"o_{t}"] = getattr(betterproto, f"{t}_field")(i, optional=True)
    ann["o_enum"] = Optional[Color]
    ns["o_enum"] = betterproto.enum_field(16, optional=True)


def _b_oneof(ns, ann):
    for i, t in enumerate(SCALARS, 1):
        ann[f"c_{t}"] = PYTYPE[t]
        ns[f"c_{t}"] = getattr(betterproto, f"{t}_field")(i, group="choice")
    ann["c_enum"] = Color
    ns["c_enum"] = betterproto.enum_field(16, group="choice")


def _b_repeated(ns, ann):
    for i, t in enumerate(SCALARS, 1):
        ann[f"r_{t}"] = List[PYTYPE[t]]
        ns[f"r_{t}"] = getattr(betterproto, f"{t}_field")(i)
    ann["r_enum"] = List[Color]
    ns["r_enum"] = betterproto.enum_field(16)


def _b_map(ns, ann):
    for i, t in enumerate(SCALARS, 1):
        ann[f"m_{t}"] = Dict[str, PYTYPE[t]]
        ns[f"m_{t}"] = betterproto.map_field(i, "string", t)
    ann["m_enum"] = Dict[str, Color]
    ns["m_enum"] = betterproto.map_field(16, "string", "enum")


Single = _mk("Single", _b_single)
Opt = _mk("Opt", _b_optional)
OneOf = _mk("OneOf", _b_oneof)
Rep = _mk("Rep", _b_repeated)
Map = _mk("Map", _b_map)


def f32(x):
    return struct.unpack("<f", struct.pack("<f", x))[0]


I32 = [0, 1, -1, 2**31 - 1, -(2**31), 127, 128, -129]
U32 = [0, 1, 2**32 - 1, 2**31, 255, 256]
I64 = [0, 1, -1, 2**63 - 1, -(2**63), 2**53, 2**53 + 1, -(2**53) - 1, 10**18]
U64 = [0, 1, 2**64 - 1, 2**63, 2**53 + 1, 10**19]
DBL = [0.0, 1.5, -2.25, 1e-7, 1e300, -1e-300, 5e-324, 1.7976931348623157e308,
       0.1, 123456789.123456789, float("inf"), float("-inf"), float("nan")]
FLT = [0.0, 1.5, -2.25, f32(0.1), f32(3.4028234e38), f32(1e-45), f32(1e-7),
       float("inf"), float("-inf"), float("nan")]
STR = ["", "a", "Infinity", "NaN", "-Infinity", "true", "123", "héllo ☃ \U0001f600",
       'quo"te\\n', "\x00\x7f"]
BYT = [b"", b"\x00", b"\xff\xfe\xfd", b"\xfb\xff\xbf", b"hello", bytes(range(256)),
       b"a", b"ab", b"abc", b"abcd"]
VALUES = {
    "double": DBL, "float": FLT, "int32": I32, "sint32": I32, "sfixed32": I32,
    "uint32": U32, "fixed32": U32, "int64": I64, "sint64": I64, "sfixed64": I64,
    "uint64": U64, "fixed64": U64, "bool": [False, True], "string": STR, "bytes": BYT,
    "enum": [Color.ZERO, Color.RED, Color.GREEN, Color.NEG],
}
KINDS = SCALARS + ["enum"]
checked = 0


def has_nan(x):
    if isinstance(x, float):
        return math.isnan(x)
    if isinstance(x, dict):
        return any(has_nan(v) for v in x.values())
    if isinstance(x, (list, tuple)):
        return any(has_nan(v) for v in x)
    return False


def deq(x, y):
    """== that also treats NaN as equal to NaN inside lists and maps (Message.__eq__
    does so only for singular fields; [nan] != [nan] in Python)."""
    if isinstance(x, float) and isinstance(y, float) and math.isnan(x) and math.isnan(y):
        return True
    if isinstance(x, dict) and isinstance(y, dict):
        return x.keys() == y.keys() and all(deq(x[k], y[k]) for k in x)
    if isinstance(x, list) and isinstance(y, list):
        return len(x) == len(y) and all(map(deq, x, y))
    return type(x) is type(y) and x == y


def same(back, m):
    if has_nan(m.to_pydict()):
        return deq(back.to_pydict(), m.to_pydict())
    return back == m


def roundtrip(m):
    """C04 for one message value."""
    global checked
    wire = bytes(m)
    cls = type(m)
    for casing in (Casing.CAMEL, Casing.SNAKE):
        # include_default_values=True emits every member of a oneof, which is not a
        # round-trippable form (independent of the code under test): skip it there
        for idv in (False,) if cls is OneOf else (False, True):
            d = m.to_dict(casing=casing, include_default_values=idv)
            text = json.dumps(d)
            assert text == m.to_json(casing=casing, include_default_values=idv)
            for back in (
                cls.from_dict(d),
                cls().from_dict(d),
                cls().from_json(text),
                cls.from_dict(json.loads(text)),
            ):
                assert same(back, m), (casing, idv, d, back, m)
                assert bytes(back) == wire, (casing, idv, d)
                checked += 1


# --- every kind, every boundary value, every field shape -------------------------------
for t in KINDS:
    vals = VALUES[t]
    for v in vals:
        roundtrip(Single(**{f"v_{t}": v}))
        roundtrip(Opt(**{f"o_{t}": v}))
        roundtrip(OneOf(**{f"c_{t}": v}))
        roundtrip(Rep(**{f"r_{t}": [v]}))
        roundtrip(Rep(**{f"r_{t}": [v, vals[0], v]}))
        roundtrip(Map(**{f"m_{t}": {"k": v}}))
    roundtrip(Rep(**{f"r_{t}": list(vals)}))
    roundtrip(Map(**{f"m_{t}": {f"k{i}": v for i, v in enumerate(vals)}}))
roundtrip(Single()), roundtrip(Opt()), roundtrip(OneOf()), roundtrip(Rep()), roundtrip(Map())

# --- direct checks of the decoded python values (types included) ------------------------
m = Single.from_dict({"vInt64": "-9223372036854775808", "vUint64": "18446744073709551615",
                      "vSint64": "5", "vFixed64": "7", "vSfixed64": "-7",
                      "vBytes": "+/+/", "vFloat": "-Infinity", "vDouble": "NaN",
                      "vInt32": 5, "vString": "Infinity", "vBool": True, "vEnum": "GREEN"})
assert (m.v_int64, m.v_uint64, m.v_sint64, m.v_fixed64, m.v_sfixed64) == (
    -(2**63), 2**64 - 1, 5, 7, -7)
assert all(type(x) is int for x in (m.v_int64, m.v_uint64, m.v_sint64, m.v_fixed64,
                                    m.v_sfixed64, m.v_int32))
assert m.v_bytes == b"\xfb\xff\xbf" and type(m.v_bytes) is bytes
assert m.v_float == float("-inf") and math.isnan(m.v_double)
assert m.v_string == "Infinity" and m.v_bool is True and m.v_enum is Color.GREEN
# 64-bit values and floats may also arrive as JSON numbers
m = Single.from_dict({"v_int64": 12, "v_uint64": 13, "v_double": 1, "v_float": "2.5",
                      "v_enum": 2})
assert (m.v_int64, m.v_uint64, m.v_double, m.v_float, m.v_enum) == (12, 13, 1.0, 2.5, 2)
assert type(m.v_double) is float and type(m.v_float) is float
r = Rep.from_dict({"rInt64": ["1", 2, "-3"], "rBytes": ["AA==", ""], "rDouble": ["NaN", 1, "Infinity", 2.5],
                   "rFloat": ["-Infinity"], "rString": ["x", "NaN"], "rInt32": [1, 2], "rBool": [True, False],
                   "rEnum": ["RED", 2, "NEG"], "rFixed64": [], "rUint32": [4294967295]})
assert r.r_int64 == [1, 2, -3] and r.r_bytes == [b"\x00", b""]
assert math.isnan(r.r_double[0]) and r.r_double[1:] == [1.0, float("inf"), 2.5]
assert all(type(x) is float for x in r.r_double)
assert r.r_float == [float("-inf")] and r.r_string == ["x", "NaN"]
assert r.r_int32 == [1, 2] and r.r_bool == [True, False] and r.r_fixed64 == []
assert r.r_enum == [Color.RED, Color.GREEN, Color.NEG] and r.r_uint32 == [2**32 - 1]
# null values and unknown keys are skipped
m = Single.from_dict({"vInt64": None, "vBytes": None, "vDouble": None, "nope": "1", "vEnum": None})
assert m == Single() and bytes(m) == b""
# malformed input fails the same way
for bad in ({"vInt64": "x"}, {"vDouble": "abc"}, {"vEnum": "PURPLE"}, {"rInt64": ["1", "y"]}):
    cls_ = Rep if "rInt64" in bad else Single
    try:
        cls_.from_dict(bad)
    except ValueError:
        pass
    else:
        raise AssertionError(bad)

# --- random messages ---------------------------------------------------------------------
rng = random.Random(404)
for _ in range(300):
    kw = {}
    for t in rng.sample(KINDS, rng.randint(0, 8)):
        kw[f"v_{t}"] = rng.choice(VALUES[t])
    roundtrip(Single(**kw))
    kw = {f"o_{t}": rng.choice(VALUES[t]) for t in rng.sample(KINDS, rng.randint(0, 8))}
    roundtrip(Opt(**kw))
    kw = {f"r_{t}": [rng.choice(VALUES[t]) for _ in range(rng.randint(0, 4))]
          for t in rng.sample(KINDS, rng.randint(0, 6))}
    roundtrip(Rep(**kw))
    kw = {f"m_{t}": {rng.choice(STR): rng.choice(VALUES[t]) for _ in range(rng.randint(0, 3))}
          for t in rng.sample(KINDS, rng.randint(0, 6))}
    roundtrip(Map(**kw))

# --- cross-check against google.protobuf json_format ------------------------------------
from google.protobuf import descriptor_pb2, descriptor_pool, json_format, message_factory

FD = descriptor_pb2.FieldDescriptorProto
fdp = descriptor_pb2.FileDescriptorProto(name="c04_keep1.proto", package="c04k1", syntax="proto3")
en = fdp.enum_type.add(name="Color")
# proto3 wants the zero value first
for n, v in (("ZERO", 0), ("RED", 1), ("GREEN", 2), ("NEG", -1)):
    en.value.add(name=n, number=v)
for msg_name, prefix, label in (("Single", "v_", FD.LABEL_OPTIONAL), ("Rep", "r_", FD.LABEL_REPEATED)):
    mp = fdp.message_type.add(name=msg_name)
    for i, t in enumerate(SCALARS, 1):
        mp.field.add(name=f"{prefix}{t}", number=i, label=label,
                     type=getattr(FD, f"TYPE_{t.upper()}"))
    mp.field.add(name=f"{prefix}enum", number=16, label=label, type=FD.TYPE_ENUM,
                 type_name=".c04k1.Color")
pool = descriptor_pool.DescriptorPool()
pool.Add(fdp)
GSingle = message_factory.GetMessageClass(pool.FindMessageTypeByName("c04k1.Single"))
GRep = message_factory.GetMessageClass(pool.FindMessageTypeByName("c04k1.Rep"))

gchecked = 0
# google prints a float32 with its shortest float32 repr (f32(0.1) -> 0.1), so only
# values that are short in both widths compare equal as python floats afterwards
GVALUES = dict(VALUES, float=[0.0, 1.5, -2.25, 0.5, 1024.0, -3.0e10, float("inf"),
                              float("-inf"), float("nan")])
for _ in range(400):
    g, kw = GSingle(), {}
    for t in rng.sample(KINDS, rng.randint(1, 10)):
        v = rng.choice(GVALUES[t])
        kw[f"v_{t}"] = v
        setattr(g, f"v_{t}", int(v) if t == "enum" else v)
    gr, rkw = GRep(), {}
    for t in rng.sample(KINDS, rng.randint(1, 6)):
        vs = [rng.choice(GVALUES[t]) for _ in range(rng.randint(1, 4))]
        rkw[f"r_{t}"] = vs
        getattr(gr, f"r_{t}").extend(int(v) if t == "enum" else v for v in vs)
    for gm, bcls, bkw in ((g, Single, kw), (gr, Rep, rkw)):
        for preserve in (False, True):
            gtext = json_format.MessageToJson(gm, preserving_proto_field_name=preserve)
            back = bcls().from_json(gtext)
            assert bytes(back) == gm.SerializeToString(), (gtext, back)
            assert same(back, bcls(**bkw)), (gtext, back)
            # and google reads what betterproto writes
            g2 = type(gm)()
            json_format.Parse(bcls(**bkw).to_json(), g2)
            assert g2.SerializeToString() == gm.SerializeToString()
            gchecked += 1

print(f"keep1 equiv OK ({checked} betterproto round trips, {gchecked} google cross-checks)")
