"""Exercises the JSON decoding of enum values (Message.from_dict / from_json) in
singular, repeated, map-value, oneof and optional positions: names (aliases included),
defined numbers, undefined numbers, mixed lists, unknown names; results are compared
with google.protobuf's json_format and re-encoded through both codecs.
"""
import json
import random
from dataclasses import dataclass
from typing import Dict, List, Optional

import betterproto

INT32_MIN, INT32_MAX = -(2**31), 2**31 - 1
rng = random.Random(2020)


class Colour(betterproto.Enum):
    BLACK = 0
    RED = 1
    GREEN = 2
    CRIMSON = 1
    DARK = -1
    NOTHING = 0
    MIN = INT32_MIN
    MAX = INT32_MAX
    lower_case = 42


class NoZero(betterproto.Enum):  # proto2 style: no zero member
    FIRST = 5
    SECOND = -5


COLOUR = [(n, int(m)) for n, m in Colour.__members__.items()]
NAMES = dict(COLOUR)


@dataclass(eq=False, repr=False)
class Inner(betterproto.Message):
    colour: "Colour" = betterproto.enum_field(1)
    colours: List["Colour"] = betterproto.enum_field(2)


@dataclass(eq=False, repr=False)
class Msg(betterproto.Message):
    single: "Colour" = betterproto.enum_field(1)
    many: List["Colour"] = betterproto.enum_field(2)
    by_key: Dict[str, "Colour"] = betterproto.map_field(
        3, betterproto.TYPE_STRING, betterproto.TYPE_ENUM
    )
    one_a: "Colour" = betterproto.enum_field(4, group="choice")
    one_b: int = betterproto.int32_field(5, group="choice")
    maybe: Optional["Colour"] = betterproto.enum_field(6, optional=True)
    by_int: Dict[int, "Colour"] = betterproto.map_field(
        7, betterproto.TYPE_SINT64, betterproto.TYPE_ENUM
    )
    inner: "Inner" = betterproto.message_field(8)
    inners: List["Inner"] = betterproto.message_field(9)
    other: "NoZero" = betterproto.enum_field(10)
    others: List["NoZero"] = betterproto.enum_field(11)


def build_google():
    from google.protobuf import descriptor_pb2, descriptor_pool, message_factory

    f = descriptor_pb2.FileDescriptorProto(
        name="c20_keep2.proto", package="c20k2", syntax="proto3"
    )
    e = f.enum_type.add(name="Colour")
    e.options.allow_alias = True
    for name, number in COLOUR:
        e.value.add(name=name, number=number)
    F = descriptor_pb2.FieldDescriptorProto
    E = ".c20k2.Colour"

    inner = f.message_type.add(name="Inner")
    inner.field.add(name="colour", number=1, type=F.TYPE_ENUM, type_name=E,
                    label=F.LABEL_OPTIONAL)
    inner.field.add(name="colours", number=2, type=F.TYPE_ENUM, type_name=E,
                    label=F.LABEL_REPEATED)

    m = f.message_type.add(name="Msg")
    m.field.add(name="single", number=1, type=F.TYPE_ENUM, type_name=E,
                label=F.LABEL_OPTIONAL)
    m.field.add(name="many", number=2, type=F.TYPE_ENUM, type_name=E,
                label=F.LABEL_REPEATED)
    entry = m.nested_type.add(name="ByKeyEntry")
    entry.options.map_entry = True
    entry.field.add(name="key", number=1, type=F.TYPE_STRING, label=F.LABEL_OPTIONAL)
    entry.field.add(name="value", number=2, type=F.TYPE_ENUM, type_name=E,
                    label=F.LABEL_OPTIONAL)
    m.field.add(name="by_key", number=3, type=F.TYPE_MESSAGE,
                type_name=".c20k2.Msg.ByKeyEntry", label=F.LABEL_REPEATED)
    m.oneof_decl.add(name="choice")
    m.oneof_decl.add(name="_maybe")
    m.field.add(name="one_a", number=4, type=F.TYPE_ENUM, type_name=E,
                label=F.LABEL_OPTIONAL, oneof_index=0)
    m.field.add(name="one_b", number=5, type=F.TYPE_INT32, label=F.LABEL_OPTIONAL,
                oneof_index=0)
    m.field.add(name="maybe", number=6, type=F.TYPE_ENUM, type_name=E,
                label=F.LABEL_OPTIONAL, oneof_index=1, proto3_optional=True)
    entry2 = m.nested_type.add(name="ByIntEntry")
    entry2.options.map_entry = True
    entry2.field.add(name="key", number=1, type=F.TYPE_SINT64, label=F.LABEL_OPTIONAL)
    entry2.field.add(name="value", number=2, type=F.TYPE_ENUM, type_name=E,
                     label=F.LABEL_OPTIONAL)
    m.field.add(name="by_int", number=7, type=F.TYPE_MESSAGE,
                type_name=".c20k2.Msg.ByIntEntry", label=F.LABEL_REPEATED)
    m.field.add(name="inner", number=8, type=F.TYPE_MESSAGE, type_name=".c20k2.Inner",
                label=F.LABEL_OPTIONAL)
    m.field.add(name="inners", number=9, type=F.TYPE_MESSAGE, type_name=".c20k2.Inner",
                label=F.LABEL_REPEATED)
    pool = descriptor_pool.DescriptorPool()
    pool.Add(f)
    return message_factory.GetMessageClass(pool.FindMessageTypeByName("c20k2.Msg"))


GMsg = build_google()
from google.protobuf import json_format  # noqa: E402

defined = sorted(set(NAMES.values()))
numbers = defined + [3, -2, 100, -100, INT32_MIN + 1, INT32_MAX - 1]
numbers += [rng.randint(INT32_MIN, INT32_MAX) for _ in range(40)]
names_of = {}
for name, number in COLOUR:
    names_of.setdefault(number, []).append(name)


def spell(number):
    """A random JSON spelling of an enum number: any of its names, or the number."""
    if number in names_of and rng.random() < 0.7:
        return rng.choice(names_of[number])
    return number


def same_value(decoded, number, from_name):
    assert decoded == number and int(decoded) == number
    if from_name:
        # names resolve to the canonical member object
        assert decoded is Colour(number)
        assert decoded.name == names_of[number][0]


def expect_dict(value):
    member = Colour.try_value(value)
    return member.name if member.name is not None else value


for trial in range(600):
    single = rng.choice(numbers)
    many = [rng.choice(numbers) for _ in range(rng.randint(0, 5))]
    by_key = {f"k{i}": rng.choice(numbers) for i in range(rng.randint(0, 3))}
    by_int = {rng.randint(-(2**40), 2**40): rng.choice(numbers)
              for _ in range(rng.randint(0, 3))}
    maybe = rng.choice([None, 0, rng.choice(numbers)])
    one_a = rng.choice([None, 0, rng.choice(numbers)])
    inner = rng.choice([None, (rng.choice(numbers), [rng.choice(numbers)])])
    inners = [(rng.choice(numbers), [rng.choice(numbers) for _ in range(rng.randint(0, 3))])
              for _ in range(rng.randint(0, 2))]

    doc = {}
    s_single = spell(single)
    doc["single"] = s_single
    s_many = [spell(n) for n in many]
    if many or rng.random() < 0.3:
        doc["many"] = s_many
    s_by_key = {k: spell(v) for k, v in by_key.items()}
    if by_key or rng.random() < 0.3:
        doc["byKey"] = s_by_key
    s_by_int = {str(k): spell(v) for k, v in by_int.items()}
    if by_int:
        doc["byInt"] = s_by_int
    if maybe is not None:
        s_maybe = spell(maybe)
        doc["maybe"] = s_maybe
    elif rng.random() < 0.3:
        doc["maybe"] = None
    if one_a is not None:
        s_one_a = spell(one_a)
        doc["oneA"] = s_one_a
    if inner is not None:
        s_inner = (spell(inner[0]), [spell(n) for n in inner[1]])
        doc["inner"] = {"colour": s_inner[0], "colours": s_inner[1]}
    s_inners = [(spell(c), [spell(n) for n in cs]) for c, cs in inners]
    if inners:
        doc["inners"] = [{"colour": c, "colours": cs} for c, cs in s_inners]
    doc = json.loads(json.dumps(doc))  # exactly what a JSON parser would hand over
    snapshot = json.dumps(doc, sort_keys=True)

    decoded = []
    decoded.append(Msg().from_dict(doc))
    decoded.append(Msg.from_dict(doc))
    decoded.append(Msg().from_json(json.dumps(doc)))
    # snake_case keys are accepted too
    snake = {betterproto.casing.snake_case(k): v for k, v in doc.items()}
    decoded.append(Msg().from_dict(snake))
    assert json.dumps(doc, sort_keys=True) == snapshot  # the input is not modified

    g = json_format.ParseDict(doc, GMsg())

    for msg in decoded:
        assert msg == decoded[0]
        same_value(msg.single, single, isinstance(s_single, str))
        assert len(msg.many) == len(many)
        assert isinstance(msg.many, list)
        for d, n, s in zip(msg.many, many, s_many):
            same_value(d, n, isinstance(s, str))
        assert set(msg.by_key) == set(by_key)
        for k, n in by_key.items():
            same_value(msg.by_key[k], n, isinstance(s_by_key[k], str))
        assert set(msg.by_int) == set(by_int)
        for k, n in by_int.items():
            same_value(msg.by_int[k], n, isinstance(s_by_int[str(k)], str))
        if maybe is None:
            assert msg.maybe is None
        else:
            same_value(msg.maybe, maybe, isinstance(s_maybe, str))
        which, value = betterproto.which_one_of(msg, "choice")
        if one_a is None:
            assert which == ""
        else:
            assert which == "one_a"
            same_value(value, one_a, isinstance(s_one_a, str))
        if inner is not None:
            same_value(msg.inner.colour, inner[0], isinstance(s_inner[0], str))
            for d, n, s in zip(msg.inner.colours, inner[1], s_inner[1]):
                same_value(d, n, isinstance(s, str))
        assert len(msg.inners) == len(inners)
        for sub, (c, cs), (sc, scs) in zip(msg.inners, inners, s_inners):
            same_value(sub.colour, c, isinstance(sc, str))
            assert len(sub.colours) == len(cs)
            for d, n, s in zip(sub.colours, cs, scs):
                same_value(d, n, isinstance(s, str))

        # the reference implementation decoded the same numbers
        assert GMsg.FromString(bytes(msg)) == g, (doc, msg, g)
        back = Msg().parse(g.SerializeToString())
        assert back == msg

        # and JSON / binary round trips keep every number
        out = msg.to_dict()
        if single != 0:
            assert out["single"] == expect_dict(single)
        if many:
            assert out["many"] == [expect_dict(n) for n in many]
        if by_key:
            assert out["byKey"] == {k: expect_dict(v) for k, v in by_key.items()}
        if maybe is not None:
            assert out["maybe"] == expect_dict(maybe)
        if one_a is not None:
            assert out["oneA"] == expect_dict(one_a)
        again = Msg().from_dict(json.loads(msg.to_json()))
        assert again == msg and bytes(again) == bytes(msg)
        assert Msg().parse(bytes(msg)) == msg
        ref_out = json_format.MessageToDict(g)
        for key in ("single", "many", "byKey", "maybe", "oneA"):
            assert out.get(key) == ref_out.get(key), (key, out, ref_out)


# ------------------------------------------------------------ fixed corner cases
# every declared name, alias or not, in every position
for name, number in COLOUR:
    canonical = Colour(number)
    m = Msg().from_dict(
        {
            "single": name,
            "many": [name, number, name],
            "byKey": {"a": name, "b": number},
            "byInt": {"-3": name},
            "oneA": name,
            "maybe": name,
            "inner": {"colour": name, "colours": [name]},
        }
    )
    assert m.single is canonical
    assert m.many[0] is canonical and m.many[2] is canonical
    assert m.many[1] == number and type(m.many[1]) is int
    assert m.by_key["a"] is canonical and m.by_key["b"] == number
    assert m.by_int[-3] is canonical
    assert m.one_a is canonical
    assert m.maybe is canonical
    assert m.inner.colour is canonical and m.inner.colours == [canonical]
    assert m.inner.colours[0] is canonical

# numbers stay what they are (plain ints), defined or not; None is skipped
m = Msg().from_dict({"single": 2, "many": [7, 1, -8], "byKey": {"x": 77},
                     "maybe": 0, "oneA": 0})
assert type(m.single) is int and m.single == Colour.GREEN
assert [type(x) for x in m.many] == [int, int, int] and m.many == [7, 1, -8]
assert m.by_key == {"x": 77} and type(m.by_key["x"]) is int
assert m.maybe == 0 and m.maybe is not None
assert betterproto.which_one_of(m, "choice") == ("one_a", 0)
assert m.to_dict() == {"single": "GREEN", "many": [7, "RED", -8], "byKey": {"x": 77},
                       "maybe": "BLACK", "oneA": "BLACK"}
m = Msg().from_dict({"single": None, "many": None, "byKey": None, "maybe": None})
assert m == Msg() and bytes(m) == b""

# members (what to_pydict-like callers may hand over) are kept by identity
m = Msg().from_dict({"single": Colour.DARK, "many": [Colour.MAX, Colour.try_value(9)],
                     "byKey": {"z": Colour.MIN}})
assert m.single is Colour.DARK and m.many[0] is Colour.MAX
assert m.many[1] == 9 and m.many[1].name is None
assert m.by_key["z"] is Colour.MIN

# a non-list container for a singular enum is handed through unchanged, a list is
# always rebuilt
source = ["RED", 2]
m = Msg().from_dict({"many": source})
assert m.many == [Colour.RED, 2] and m.many is not source and source == ["RED", 2]
marker = ("RED",)
m = Msg().from_dict({"single": marker})
assert m.single is marker

# unknown names are errors everywhere, and name the enum
for bad in (
    {"single": "PURPLE"},
    {"single": ""},
    {"single": "red"},
    {"single": "1"},
    {"many": ["RED", "PURPLE"]},
    {"byKey": {"a": "PURPLE"}},
    {"byInt": {"1": "PURPLE"}},
    {"oneA": "PURPLE"},
    {"maybe": "PURPLE"},
    {"inner": {"colour": "PURPLE"}},
    {"inners": [{"colours": ["PURPLE"]}]},
    {"other": "RED"},
    {"others": ["FIRST", "RED"]},
):
    for decode in (lambda d: Msg().from_dict(d), Msg.from_dict,
                   lambda d: Msg().from_json(json.dumps(d))):
        try:
            decode(bad)
        except ValueError as exc:
            assert isinstance(exc.__cause__, KeyError)
            assert "Unknown value" in str(exc)
            assert ("NoZero" if "other" in str(bad) else "Colour") in str(exc)
        else:
            raise AssertionError(f"accepted {bad}")

# an enum without a zero member
m = Msg().from_dict({"other": "SECOND", "others": ["FIRST", 0, "SECOND", 6]})
assert m.other is NoZero.SECOND
assert m.others[0] is NoZero.FIRST and m.others[2] is NoZero.SECOND
assert m.others == [5, 0, -5, 6]
assert m.to_dict() == {"other": "SECOND", "others": ["FIRST", 0, "SECOND", 6]}
assert Msg().parse(bytes(m)).to_dict() == m.to_dict()
m = Msg().from_dict({"other": 0})
assert m.other == 0 and m.to_dict() == {}

# the same enum class object is used for every position of a message class
assert Msg._betterproto.cls_by_field["single"] is Colour
assert Msg._betterproto.cls_by_field["many"] is Colour
assert Msg._betterproto.cls_by_field["by_key.value"] is Colour
assert Msg._betterproto.cls_by_field["maybe"] is Colour
assert Msg._betterproto.cls_by_field["other"] is NoZero

print("ok")
