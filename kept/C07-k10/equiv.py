"""C07 keep2: the value conversion applied to every decoded field
(Message._postprocess_single, used by load/parse/FromString/pickle) - checked
(1) directly against an independent specification at boundary values,
(2) against google.protobuf on a message whose oneof has a member of every type,
(3) through a reference model of oneof selection over random operation histories
    that are heavy on parsing.

Exits 0 on the pristine tree and with the refactor applied.
"""
import base64
import copy
import json
import pickle
import random
import struct
from dataclasses import dataclass
from typing import List

import betterproto
from betterproto import Casing, which_one_of


# --------------------------------------------------------------------------- schema
class Colour(betterproto.Enum):
    RED = 0
    GREEN = 1
    BLUE = 2


@dataclass(eq=False, repr=False)
class Empty(betterproto.Message):
    pass


@dataclass(eq=False, repr=False)
class Sub(betterproto.Message):
    val: int = betterproto.int32_field(1)


# Declaration order differs from field-number order, groups are interleaved with
# plain fields and with each other, one group has a single member.
@dataclass(eq=False, repr=False)
class Foo(betterproto.Message):
    name: str = betterproto.string_field(1)
    bar: int = betterproto.int32_field(12, group="g1")
    col: Colour = betterproto.enum_field(5, group="g2")
    baz: str = betterproto.string_field(3, group="g1")
    count: int = betterproto.int32_field(7)
    flag: bool = betterproto.bool_field(6, group="g2")
    sub: Sub = betterproto.message_field(4, group="g1")
    raw: bytes = betterproto.bytes_field(20, group="g1")
    dbl: float = betterproto.double_field(8, group="g2")
    sn: int = betterproto.sint64_field(9, group="g2")
    fx: int = betterproto.fixed32_field(10, group="g2")
    m1: Sub = betterproto.message_field(16, group="g3")
    m2: Empty = betterproto.message_field(17, group="g3")
    rep: List[int] = betterproto.int32_field(2)
    solo: int = betterproto.uint32_field(11, group="g4")
    address_line_1: str = betterproto.string_field(13)


DECLARED = ["name", "bar", "col", "baz", "count", "flag", "sub", "raw", "dbl", "sn",
            "fx", "m1", "m2", "rep", "solo", "address_line_1"]
NUMBER = {"name": 1, "bar": 12, "col": 5, "baz": 3, "count": 7, "flag": 6, "sub": 4,
          "raw": 20, "dbl": 8, "sn": 9, "fx": 10, "m1": 16, "m2": 17, "rep": 2,
          "solo": 11, "address_line_1": 13}
KIND = {"name": "string", "bar": "int32", "col": "enum", "baz": "string",
        "count": "int32", "flag": "bool", "sub": "Sub", "raw": "bytes",
        "dbl": "double", "sn": "sint64", "fx": "fixed32", "m1": "Sub", "m2": "Empty",
        "rep": "rep", "solo": "uint32", "address_line_1": "string"}
GROUP = {"bar": "g1", "baz": "g1", "sub": "g1", "raw": "g1",
         "col": "g2", "flag": "g2", "dbl": "g2", "sn": "g2", "fx": "g2",
         "m1": "g3", "m2": "g3", "solo": "g4"}
GROUPS = {}
for _n in DECLARED:
    if _n in GROUP:
        GROUPS.setdefault(GROUP[_n], []).append(_n)
PLAIN = [n for n in DECLARED if n not in GROUP]
CAMEL = {n: n for n in DECLARED}
CAMEL["address_line_1"] = "addressLine1"

DEFAULT = {"string": "", "int32": 0, "enum": Colour.RED, "bool": False,
           "bytes": b"", "double": 0.0, "sint64": 0, "fixed32": 0, "uint32": 0}
SAMPLES = {
    "string": ["", "x", "héllo", "a" * 130],
    "int32": [0, 1, -1, 127, 128, 2**31 - 1, -(2**31)],
    "enum": [Colour.RED, Colour.GREEN, Colour.BLUE],
    "bool": [False, True],
    "bytes": [b"", b"\x00", b"\xff\x00abc"],
    "double": [0.0, 1.5, -2.25, 1e300],
    "sint64": [0, -1, 1, 2**63 - 1, -(2**63)],
    "fixed32": [0, 1, 2**32 - 1],
    "uint32": [0, 1, 2**32 - 1],
}


def sample(rng, kind, default_bias=0.4):
    if kind == "Sub":
        return Sub() if rng.random() < default_bias else Sub(val=rng.choice([0, 3, -7]))
    if kind == "Empty":
        return Empty()
    if kind == "rep":
        return [rng.choice([0, 1, -1, 300]) for _ in range(rng.randrange(0, 4))]
    if rng.random() < default_bias:
        return DEFAULT[kind]
    return rng.choice(SAMPLES[kind])


# ------------------------------------------------------------------ independent codec
def varint(n):
    if n < 0:
        n += 1 << 64
    out = bytearray()
    while True:
        b = n & 0x7F
        n >>= 7
        if n:
            out.append(b | 0x80)
        else:
            out.append(b)
            return bytes(out)


def enc_value(kind, value):
    """(wire type, payload bytes) of one value."""
    if kind in ("int32", "uint32"):
        return 0, varint(value)
    if kind == "enum":
        return 0, varint(int(value))
    if kind == "bool":
        return 0, varint(1 if value else 0)
    if kind == "sint64":
        return 0, varint((value << 1) ^ (value >> 63))
    if kind == "double":
        return 1, struct.pack("<d", value)
    if kind == "fixed32":
        return 5, struct.pack("<I", value)
    if kind == "string":
        data = value.encode("utf-8")
    elif kind == "bytes":
        data = value
    elif kind == "Sub":
        data = enc_field(1, "int32", value.val) if value.val else b""
    elif kind == "Empty":
        data = b""
    else:
        raise AssertionError(kind)
    return 2, varint(len(data)) + data


def enc_field(number, kind, value):
    wt, payload = enc_value(kind, value)
    return varint((number << 3) | wt) + payload


def json_value(kind, value):
    if kind == "enum":
        return Colour(value).name
    if kind == "bytes":
        return base64.b64encode(value).decode("ascii")
    if kind == "sint64":
        return str(value)
    if kind == "Sub":
        return {"val": value.val} if value.val else {}
    if kind == "Empty":
        return {}
    return value


def split_fields(data):
    """Independent field-by-field decoder: list of (number, wire type, raw payload)."""
    out, i = [], 0

    def rv():
        nonlocal i
        n = shift = 0
        while True:
            b = data[i]
            i += 1
            n |= (b & 0x7F) << shift
            shift += 7
            if not b & 0x80:
                return n

    while i < len(data):
        key = rv()
        number, wt = key >> 3, key & 7
        start = i
        if wt == 0:
            rv()
        elif wt == 1:
            i += 8
        elif wt == 5:
            i += 4
        elif wt == 2:
            ln = rv()
            i += ln
        else:
            raise AssertionError(wt)
        assert i <= len(data)
        out.append((number, wt, data[start:i]))
    return out


# ----------------------------------------------------------------------------- model
class Model:
    def __init__(self):
        self.sel = {g: None for g in GROUPS}  # group -> (member, value) | None
        self.plain = {"name": "", "count": 0, "rep": [], "address_line_1": ""}

    def clone(self):
        new = Model()
        new.sel = dict(self.sel)
        new.plain = {k: (list(v) if isinstance(v, list) else v)
                     for k, v in self.plain.items()}
        return new

    def assign(self, name, value):
        if name in GROUP:
            self.sel[GROUP[name]] = (name, value)
        else:
            self.plain[name] = list(value) if isinstance(value, list) else value

    def present(self):
        """Fields on the wire / in JSON, in declaration order."""
        out = []
        for name in DECLARED:
            if name in GROUP:
                cur = self.sel[GROUP[name]]
                if cur is not None and cur[0] == name:
                    out.append((name, cur[1]))
            elif self.plain[name] not in ("", 0, []):
                out.append((name, self.plain[name]))
        return out

    def expected_bytes(self):
        out = b""
        for name, value in self.present():
            if name == "rep":
                packed = b"".join(varint(v) for v in value)
                out += varint((NUMBER[name] << 3) | 2) + varint(len(packed)) + packed
            else:
                out += enc_field(NUMBER[name], KIND[name], value)
        return out

    def expected_dict(self, keys):
        return {keys[name]: (list(value) if name == "rep"
                             else json_value(KIND[name], value))
                for name, value in self.present()}


def same_value(kind, got, want):
    if kind in ("Sub", "Empty"):
        return type(got) is type(want) and bytes(got) == bytes(want)
    if kind == "enum":
        return int(got) == int(want)
    return got == want


def check(msg, model, label):
    for group, members in GROUPS.items():
        cur = model.sel[group]
        name, value = which_one_of(msg, group)
        if cur is None:
            assert (name, value) == ("", None), (label, group, name, value)
        else:
            assert name == cur[0], (label, group, name, cur)
            assert same_value(KIND[name], value, cur[1]), (label, group, value, cur)
            assert same_value(KIND[name], getattr(msg, name), cur[1]), (label, group)
            assert msg.is_set(name), (label, name)
        for member in members:
            if cur is not None and cur[0] == member:
                continue
            try:
                getattr(msg, member)
            except AttributeError as exc:
                assert repr(group) in str(exc) and repr(member) in str(exc), str(exc)
            else:
                raise AssertionError((label, "readable unselected member", member))
            assert not hasattr(msg, member)
            assert not msg.is_set(member), (label, member)
    for name in PLAIN:
        assert getattr(msg, name) == model.plain[name], (label, name)

    data = bytes(msg)
    assert data == model.expected_bytes(), (label, data, model.expected_bytes())
    assert len(msg) == len(data), label
    numbers = [n for n, _, _ in split_fields(data)]
    for group, members in GROUPS.items():
        cur = model.sel[group]
        got = [m for m in members if NUMBER[m] in numbers]
        assert got == ([] if cur is None else [cur[0]]), (label, group, got)

    assert msg.to_dict() == model.expected_dict(CAMEL), (label, msg.to_dict())
    snake = msg.to_dict(casing=Casing.SNAKE)
    assert snake == model.expected_dict({n: n for n in DECLARED}), (label, snake)
    assert json.loads(msg.to_json()) == model.expected_dict(CAMEL), label
    pyd = msg.to_pydict(casing=Casing.SNAKE)
    assert set(pyd) == set(snake), (label, pyd)


# ------------------------------------------------------------------------ operations
def op_construct(rng, _msg, _model):
    model = Model()
    kwargs = {}
    for group, members in GROUPS.items():
        if rng.random() < 0.6:
            name = rng.choice(members)
            kwargs[name] = sample(rng, KIND[name])
    for name in PLAIN:
        if rng.random() < 0.4:
            kwargs[name] = sample(rng, KIND[name], 0.2)
    for name in DECLARED:  # declaration order: irrelevant, one member per group
        if name in kwargs:
            model.assign(name, kwargs[name])
    return Foo(**kwargs), model


def op_set_member(rng, msg, model):
    name = rng.choice(list(GROUP))
    value = sample(rng, KIND[name], 0.5)
    setattr(msg, name, value)
    model.assign(name, value)
    return msg, model


def op_set_plain(rng, msg, model):
    name = rng.choice(PLAIN)
    value = sample(rng, KIND[name], 0.3)
    setattr(msg, name, value)
    model.assign(name, value)
    return msg, model


def op_parse(rng, msg, model):
    """Bytes with 0..n members of any groups in any order, parsed into the
    existing message or into a fresh one."""
    fresh = rng.random() < 0.5
    if fresh:
        msg, model = Foo(), Model()
    data = b""
    for _ in range(rng.randrange(0, 6)):
        name = rng.choice(list(GROUP) + ["name", "count", "address_line_1"])
        value = sample(rng, KIND[name], 0.5)
        data += enc_field(NUMBER[name], KIND[name], value)
        model.assign(name, value)
    if fresh and rng.random() < 0.5:
        msg = Foo.FromString(data)
    else:
        assert msg.parse(data) is msg
    return msg, model


def one_member_dict(rng, keys):
    items = []
    for group, members in GROUPS.items():
        if rng.random() < 0.5:
            name = rng.choice(members)
            items.append((name, sample(rng, KIND[name], 0.5)))
    for name in ("name", "count", "address_line_1"):
        if rng.random() < 0.3:
            items.append((name, sample(rng, KIND[name], 0.2)))
    rng.shuffle(items)
    return items, {keys[n]: json_value(KIND[n], v) for n, v in items}


def op_from_dict_instance(rng, msg, model):
    keys = CAMEL if rng.random() < 0.5 else {n: n for n in DECLARED}
    items, payload = one_member_dict(rng, keys)
    if rng.random() < 0.5:
        assert msg.from_dict(payload) is msg
    else:
        assert msg.from_json(json.dumps(payload)) is msg
    for name, value in items:
        model.assign(name, value)
    return msg, model


def op_from_dict_class(rng, _msg, _model):
    items, payload = one_member_dict(rng, CAMEL)
    model = Model()
    for name, value in items:
        model.assign(name, value)
    return Foo.from_dict(payload), model


def op_copy(rng, msg, model):
    return copy.copy(msg), model.clone()


def op_deepcopy(rng, msg, model):
    return copy.deepcopy(msg), model.clone()


def op_pickle(rng, msg, model):
    return pickle.loads(pickle.dumps(msg)), model.clone()


def op_dict_roundtrip(rng, msg, model):
    return Foo.from_dict(msg.to_dict()), model.clone()


OPS = [op_construct, op_set_member, op_set_member, op_set_plain,
       op_parse, op_parse, op_parse, op_parse, op_from_dict_instance,
       op_from_dict_class, op_copy, op_deepcopy, op_pickle, op_pickle,
       op_dict_roundtrip]


def run_histories(seed, histories, length):
    rng = random.Random(seed)
    for h in range(histories):
        msg, model = op_construct(rng, None, None)
        check(msg, model, (seed, h, "construct"))
        kept = []
        for step in range(length):
            op = rng.choice(OPS)
            before, before_model = msg, model
            msg, model = op(rng, msg, model)
            check(msg, model, (seed, h, step, op.__name__))
            if msg is not before and op in (op_copy, op_deepcopy, op_pickle):
                kept.append((before, before_model.clone()))
        # originals of copies are not disturbed by what happened to the copies
        for old, old_model in kept[-3:]:
            check(old, old_model, (seed, h, "original after copy"))


def check_fixed_sequences():
    # every member of every group, default and non-default, after every other member
    rng = random.Random(1234)
    for group, members in GROUPS.items():
        for first in members:
            for second in members:
                for bias1 in (1.0, 0.0):
                    for bias2 in (1.0, 0.0):
                        a = sample(rng, KIND[first], bias1)
                        b = sample(rng, KIND[second], bias2)
                        msg, model = Foo(), Model()
                        setattr(msg, first, a)
                        model.assign(first, a)
                        check(msg, model, ("fixed", first))
                        setattr(msg, second, b)
                        model.assign(second, b)
                        check(msg, model, ("fixed", first, second))
                        for clone in (copy.copy(msg), copy.deepcopy(msg),
                                      pickle.loads(pickle.dumps(msg)),
                                      Foo().parse(bytes(msg)),
                                      Foo.from_dict(msg.to_dict())):
                            check(clone, model, ("fixed clone", first, second))


# ------------------------------------------------- a oneof with a member of every type
from datetime import datetime, timedelta, timezone  # noqa: E402
from typing import Dict, Optional  # noqa: E402

from betterproto import (  # noqa: E402
    WIRE_FIXED_32, WIRE_FIXED_64, WIRE_LEN_DELIM, WIRE_VARINT,
)


class Signed(betterproto.Enum):
    ZERO = 0
    ONE = 1
    MINUS = -1
    BIG = 2**31 - 1
    SMALL = -(2**31)


@dataclass(eq=False, repr=False)
class Wide(betterproto.Message):
    i32: int = betterproto.int32_field(1, group="v")
    i64: int = betterproto.int64_field(2, group="v")
    u32: int = betterproto.uint32_field(3, group="v")
    u64: int = betterproto.uint64_field(4, group="v")
    s32: int = betterproto.sint32_field(5, group="v")
    s64: int = betterproto.sint64_field(6, group="v")
    boo: bool = betterproto.bool_field(7, group="v")
    enu: Signed = betterproto.enum_field(8, group="v")
    f32: int = betterproto.fixed32_field(9, group="v")
    f64: int = betterproto.fixed64_field(10, group="v")
    sf32: int = betterproto.sfixed32_field(11, group="v")
    sf64: int = betterproto.sfixed64_field(12, group="v")
    flt: float = betterproto.float_field(13, group="v")
    dbl: float = betterproto.double_field(14, group="v")
    txt: str = betterproto.string_field(15, group="v")
    raw: bytes = betterproto.bytes_field(16, group="v")
    sub: Sub = betterproto.message_field(17, group="v")
    ts: datetime = betterproto.message_field(18, group="v")
    dur: timedelta = betterproto.message_field(19, group="v")
    wrapped: Optional[int] = betterproto.message_field(
        20, group="v", wraps=betterproto.TYPE_INT32
    )
    nothing: Empty = betterproto.message_field(21, group="v")
    packed: List[int] = betterproto.sint32_field(30)
    packed_enum: List[Signed] = betterproto.enum_field(31)
    packed_fixed: List[float] = betterproto.double_field(32)
    table: Dict[str, int] = betterproto.map_field(
        33, betterproto.TYPE_STRING, betterproto.TYPE_INT32
    )
    other: int = betterproto.int32_field(40, group="w")
    other_txt: str = betterproto.string_field(41, group="w")


WIDE_MEMBERS = ["i32", "i64", "u32", "u64", "s32", "s64", "boo", "enu", "f32", "f64",
                "sf32", "sf64", "flt", "dbl", "txt", "raw", "sub", "ts", "dur",
                "wrapped", "nothing"]

I32 = [0, 1, -1, 127, 128, 16383, 16384, 2**31 - 1, -(2**31), -(2**31) + 1, 2**30]
I64 = I32 + [2**31, -(2**31) - 1, 2**32, 2**63 - 1, -(2**63), -(2**63) + 1, 2**62]
U32 = [0, 1, 127, 128, 2**31 - 1, 2**31, 2**32 - 1]
U64 = U32 + [2**32, 2**63 - 1, 2**63, 2**64 - 1]
WIDE_VALUES = {
    "i32": I32, "i64": I64, "u32": U32, "u64": U64, "s32": I32, "s64": I64,
    "boo": [False, True],
    "enu": [Signed.ZERO, Signed.ONE, Signed.MINUS, Signed.BIG, Signed.SMALL],
    "f32": U32, "f64": U64, "sf32": I32, "sf64": I64,
    "flt": [0.0, 1.0, -1.5, 0.5, float("inf"), 3.0e38],
    "dbl": [0.0, 1.0, -1.5, 1e300, float("-inf"), 5e-324],
    "txt": ["", "a", "héllo wörld", "☃" * 50, "x" * 300],
    "raw": [b"", b"\x00", b"\x80\xff", bytes(range(256))],
    "sub": [Sub(), Sub(val=1), Sub(val=-1), Sub(val=2**31 - 1)],
    "ts": [datetime(1970, 1, 1, tzinfo=timezone.utc),
           datetime(2020, 5, 17, 12, 30, 1, 250000, tzinfo=timezone.utc),
           datetime(1969, 12, 31, 23, 59, 59, tzinfo=timezone.utc)],
    "dur": [timedelta(0), timedelta(seconds=1, microseconds=5), timedelta(days=-3)],
    "wrapped": [0, 7, -7],
    "nothing": [Empty()],
}


def spec_varint(proto_type, n):
    """What a varint payload ``n`` (0 <= n < 2**64, or wider) means."""
    if proto_type in ("int32", "enum"):
        n &= 0xFFFFFFFF
        return n - 2**32 if n >= 2**31 else n
    if proto_type == "int64":
        n &= 2**64 - 1
        return n - 2**64 if n >= 2**63 else n
    if proto_type in ("sint32", "sint64"):
        return -((n + 1) // 2) if n % 2 else n // 2
    if proto_type == "bool":
        return n != 0
    return n


def check_direct():
    """Message._postprocess_single against the specification."""
    w = Wide()
    metas = Wide._betterproto.meta_by_field_name
    raw_varints = sorted({0, 1, 2, 3, 127, 128, 255, 256, 2**31 - 1, 2**31, 2**31 + 1,
                          2**32 - 1, 2**32, 2**32 + 1, 2**33 + 5, 2**63 - 1, 2**63,
                          2**63 + 1, 2**64 - 2, 2**64 - 1, 2**64, 2**64 + 3, 2**70 + 9}
                         | {(1 << k) - 1 for k in range(1, 70)}
                         | {1 << k for k in range(0, 70)})
    rng = random.Random(99)
    raw_varints += [rng.getrandbits(rng.randrange(1, 66)) for _ in range(3000)]
    for name in ("i32", "i64", "u32", "u64", "s32", "s64", "boo", "enu"):
        meta = metas[name]
        for n in raw_varints:
            got = w._postprocess_single(WIRE_VARINT, meta, name, n)
            want = spec_varint(meta.proto_type, n)
            assert got == want and type(got) in (int, bool, Signed), (name, n, got, want)
            if name == "boo":
                assert got is (n != 0)
            elif name == "enu":
                assert type(got) is Signed and int(got) == want
            else:
                assert type(got) is int
    for name, fmt in (("f32", "<I"), ("sf32", "<i"), ("flt", "<f")):
        for _ in range(500):
            raw = rng.getrandbits(32).to_bytes(4, "little")
            got = w._postprocess_single(WIRE_FIXED_32, metas[name], name, raw)
            want = struct.unpack(fmt, raw)[0]
            assert got == want or (got != got and want != want), (name, raw)
    for name, fmt in (("f64", "<Q"), ("sf64", "<q"), ("dbl", "<d")):
        for _ in range(500):
            raw = rng.getrandbits(64).to_bytes(8, "little")
            got = w._postprocess_single(WIRE_FIXED_64, metas[name], name, raw)
            want = struct.unpack(fmt, raw)[0]
            assert got == want or (got != got and want != want), (name, raw)
    # length-delimited payloads
    assert w._postprocess_single(WIRE_LEN_DELIM, metas["txt"], "txt", b"h\xc3\xa9") == "hé"
    assert w._postprocess_single(WIRE_LEN_DELIM, metas["txt"], "txt", b"") == ""
    for bad in (b"\xff", b"\xc3"):
        try:
            w._postprocess_single(WIRE_LEN_DELIM, metas["txt"], "txt", bad)
        except UnicodeDecodeError:
            pass
        else:
            raise AssertionError("invalid UTF-8 accepted")
    payload = b"\x00\xff"
    assert w._postprocess_single(WIRE_LEN_DELIM, metas["raw"], "raw", payload) is payload
    got = w._postprocess_single(WIRE_LEN_DELIM, metas["sub"], "sub", b"\x08\x05")
    assert type(got) is Sub and got.val == 5 and betterproto.serialized_on_wire(got)
    got = w._postprocess_single(WIRE_LEN_DELIM, metas["sub"], "sub", b"")
    assert type(got) is Sub and got.val == 0 and betterproto.serialized_on_wire(got)
    got = w._postprocess_single(WIRE_LEN_DELIM, metas["nothing"], "nothing", b"")
    assert type(got) is Empty and betterproto.serialized_on_wire(got)
    got = w._postprocess_single(WIRE_LEN_DELIM, metas["ts"], "ts", b"\x08\x0a\x10\xe8\x07")
    assert got == datetime(1970, 1, 1, 0, 0, 10, 1, tzinfo=timezone.utc), got
    got = w._postprocess_single(WIRE_LEN_DELIM, metas["ts"], "ts", b"")
    assert got == datetime(1970, 1, 1, tzinfo=timezone.utc)
    got = w._postprocess_single(WIRE_LEN_DELIM, metas["dur"], "dur", b"\x08\x02\x10\xe8\x07")
    assert got == timedelta(seconds=2, microseconds=1) and type(got) is timedelta
    got = w._postprocess_single(WIRE_LEN_DELIM, metas["wrapped"], "wrapped", b"\x08\x07")
    assert got == 7 and type(got) is int
    got = w._postprocess_single(WIRE_LEN_DELIM, metas["wrapped"], "wrapped", b"")
    assert got == 0 and type(got) is int
    got = w._postprocess_single(WIRE_LEN_DELIM, metas["table"], "table", b"\x0a\x01k\x10\x03")
    assert (got.key, got.value) == ("k", 3)
    got = w._postprocess_single(WIRE_LEN_DELIM, metas["table"], "table", b"")
    assert (got.key, got.value) == ("", 0)
    # combinations that load() never produces fall through unchanged
    marker = object()
    for wire_type in (3, 4, 6, 7, 99):
        for name in ("i32", "txt", "sub", "boo"):
            assert w._postprocess_single(wire_type, metas[name], name, marker) is marker
    assert w._postprocess_single(WIRE_VARINT, metas["txt"], "txt", 5) == 5
    assert w._postprocess_single(WIRE_VARINT, metas["sub"], "sub", 2**40) == 2**40
    assert w._postprocess_single(WIRE_VARINT, metas["flt"], "flt", 3) == 3
    for name in ("i32", "enu", "boo", "flt"):
        assert w._postprocess_single(WIRE_LEN_DELIM, metas[name], name, payload) is payload
    # the message stays untouched by decoding values
    assert bytes(w) == b"" and which_one_of(w, "v") == ("", None)


# ------------------------------------------------------------- google.protobuf mirror
def build_google_class():
    from google.protobuf import descriptor_pb2, descriptor_pool, message_factory
    from google.protobuf import duration_pb2, timestamp_pb2, wrappers_pb2  # noqa: F401

    F = descriptor_pb2.FieldDescriptorProto
    fdp = descriptor_pb2.FileDescriptorProto(
        name="c07_keep2_wide.proto", package="c07k2", syntax="proto3",
        dependency=["google/protobuf/timestamp.proto", "google/protobuf/duration.proto",
                    "google/protobuf/wrappers.proto"],
    )
    enum = fdp.enum_type.add(name="Signed")
    for member in Signed:
        enum.value.add(name=member.name, number=member.value)
    fdp.message_type.add(name="Empty")
    sub = fdp.message_type.add(name="Sub")
    sub.field.add(name="val", number=1, type=F.TYPE_INT32, label=F.LABEL_OPTIONAL)
    wide = fdp.message_type.add(name="Wide")
    wide.oneof_decl.add(name="v")
    wide.oneof_decl.add(name="w")
    scalar = {"i32": F.TYPE_INT32, "i64": F.TYPE_INT64, "u32": F.TYPE_UINT32,
              "u64": F.TYPE_UINT64, "s32": F.TYPE_SINT32, "s64": F.TYPE_SINT64,
              "boo": F.TYPE_BOOL, "f32": F.TYPE_FIXED32, "f64": F.TYPE_FIXED64,
              "sf32": F.TYPE_SFIXED32, "sf64": F.TYPE_SFIXED64, "flt": F.TYPE_FLOAT,
              "dbl": F.TYPE_DOUBLE, "txt": F.TYPE_STRING, "raw": F.TYPE_BYTES}
    typed = {"enu": (F.TYPE_ENUM, ".c07k2.Signed"), "sub": (F.TYPE_MESSAGE, ".c07k2.Sub"),
             "ts": (F.TYPE_MESSAGE, ".google.protobuf.Timestamp"),
             "dur": (F.TYPE_MESSAGE, ".google.protobuf.Duration"),
             "wrapped": (F.TYPE_MESSAGE, ".google.protobuf.Int32Value"),
             "nothing": (F.TYPE_MESSAGE, ".c07k2.Empty")}
    numbers = {n: m.number for n, m in Wide._betterproto.meta_by_field_name.items()}
    for name in WIDE_MEMBERS:
        if name in scalar:
            wide.field.add(name=name, number=numbers[name], type=scalar[name],
                           label=F.LABEL_OPTIONAL, oneof_index=0)
        else:
            wide.field.add(name=name, number=numbers[name], type=typed[name][0],
                           type_name=typed[name][1], label=F.LABEL_OPTIONAL,
                           oneof_index=0)
    wide.field.add(name="packed", number=30, type=F.TYPE_SINT32, label=F.LABEL_REPEATED)
    wide.field.add(name="packed_enum", number=31, type=F.TYPE_ENUM,
                   type_name=".c07k2.Signed", label=F.LABEL_REPEATED)
    wide.field.add(name="packed_fixed", number=32, type=F.TYPE_DOUBLE,
                   label=F.LABEL_REPEATED)
    wide.field.add(name="other", number=40, type=F.TYPE_INT32, label=F.LABEL_OPTIONAL,
                   oneof_index=1)
    wide.field.add(name="other_txt", number=41, type=F.TYPE_STRING,
                   label=F.LABEL_OPTIONAL, oneof_index=1)
    pool = descriptor_pool.Default()
    pool.Add(fdp)
    return message_factory.GetMessageClass(pool.FindMessageTypeByName("c07k2.Wide"))


def g_set(g, name, value):
    if name == "sub":
        g.sub.val = value.val
        g.sub.SetInParent()
    elif name == "nothing":
        g.nothing.SetInParent()
    elif name == "ts":
        g.ts.FromDatetime(value)
        g.ts.SetInParent()
    elif name == "dur":
        g.dur.FromTimedelta(value)
        g.dur.SetInParent()
    elif name == "wrapped":
        g.wrapped.value = value
        g.wrapped.SetInParent()
    elif name == "enu":
        g.enu = int(value)
    else:
        setattr(g, name, value)


def g_get(g, name):
    value = getattr(g, name)
    if name == "sub":
        return Sub(val=value.val)
    if name == "nothing":
        return Empty()
    if name == "ts":
        return value.ToDatetime(tzinfo=timezone.utc)
    if name == "dur":
        return value.ToTimedelta()
    if name == "wrapped":
        return value.value
    return value


def equal_values(name, a, b):
    if name in ("sub", "nothing"):
        return type(a) is type(b) and bytes(a) == bytes(b)
    if name == "enu":
        return int(a) == int(b)
    if name == "flt":
        return struct.pack("<f", a) == struct.pack("<f", b)
    return a == b


def check_against_google():
    GWide = build_google_class()
    singles = []
    for name in WIDE_MEMBERS:
        for value in WIDE_VALUES[name]:
            g = GWide()
            g_set(g, name, value)
            assert g.WhichOneof("v") == name
            data = g.SerializeToString()
            singles.append((name, value, data))

            # google bytes -> betterproto
            b = Wide().parse(data)
            got_name, got_value = which_one_of(b, "v")
            assert got_name == name, (name, value, got_name)
            assert equal_values(name, got_value, value), (name, value, got_value)
            assert bytes(b) == data, (name, value, bytes(b), data)
            for other in WIDE_MEMBERS:
                if other != name:
                    assert not hasattr(b, other)
            # betterproto bytes -> google
            mine = Wide(**{name: value})
            assert bytes(mine) == data, (name, value, bytes(mine), data)
            g2 = GWide.FromString(bytes(mine))
            assert g2.WhichOneof("v") == name
            assert equal_values(name, g_get(g2, name), value), (name, value)
            # pickle goes through the same decoder
            p = pickle.loads(pickle.dumps(mine))
            assert which_one_of(p, "v")[0] == name and bytes(p) == data

    # several members (of both groups) in any order: the last one of each group wins,
    # in both implementations; parse into fresh and into used messages
    rng = random.Random(7)
    others = []
    for value in (0, 5, -5):
        g = GWide(other=value)
        others.append(("other", value, g.SerializeToString()))
    for value in ("", "zz"):
        g = GWide(other_txt=value)
        others.append(("other_txt", value, g.SerializeToString()))
    for _ in range(1500):
        parts = [rng.choice(singles) for _ in range(rng.randrange(0, 5))]
        parts += [rng.choice(others) for _ in range(rng.randrange(0, 3))]
        rng.shuffle(parts)
        data = b"".join(p[2] for p in parts)
        if rng.random() < 0.5:
            b, g = Wide(), GWide()
        else:
            n0, v0, d0 = rng.choice(singles)
            b, g = Wide(**{n0: v0}), GWide.FromString(d0)
            if rng.random() < 0.5:
                b.other_txt = "before"
                g.other_txt = "before"
        b.parse(data)
        g.MergeFromString(data)
        for group in ("v", "w"):
            want = g.WhichOneof(group) or ""
            got_name, got_value = which_one_of(b, group)
            assert got_name == want, (group, got_name, want, [p[:2] for p in parts])
            if want and want not in ("sub", "ts", "dur", "wrapped", "nothing"):
                # (google merges repeated occurrences of a message member, betterproto
                # keeps the last one: compare message-typed members by name only)
                assert equal_values(want, got_value, g_get(g, want)), (want, got_value)
        numbers = [n for n, _, _ in split_fields(bytes(b))]
        metas = Wide._betterproto.meta_by_field_name
        for group, members in (("v", WIDE_MEMBERS), ("w", ["other", "other_txt"])):
            sel = which_one_of(b, group)[0]
            present = [m for m in members if metas[m].number in numbers]
            assert present == ([sel] if sel else []), (group, present, sel)
            keys = b.to_dict(casing=Casing.SNAKE)
            assert [m for m in members if m in keys] == ([sel] if sel else [])

    # packed repeated fields and maps use the same conversion per element
    g = GWide(packed=I32, packed_enum=[0, -1, 1, 2**31 - 1, -(2**31)],
              packed_fixed=[0.0, -1.5, 1e300])
    b = Wide().parse(g.SerializeToString())
    assert b.packed == I32
    assert [int(e) for e in b.packed_enum] == [0, -1, 1, 2**31 - 1, -(2**31)]
    assert all(type(e) is Signed for e in b.packed_enum)
    assert b.packed_fixed == [0.0, -1.5, 1e300]
    assert bytes(b) == g.SerializeToString()
    t = Wide(table={"a": 1, "": 0, "neg": -1})
    assert Wide().parse(bytes(t)).table == {"a": 1, "": 0, "neg": -1}


if __name__ == "__main__":
    check_direct()
    check_against_google()
    check_fixed_sequences()
    for seed in range(100, 106):
        run_histories(seed, histories=30, length=25)
    print("C07 keep2 equiv: OK")
