"""Equivalence check for the refactor of the field-argument construction
(FieldCompiler.betterproto_field_args / OneOfFieldCompiler / PydanticOneOfFieldCompiler
in plugin/models.py) and of the dataclass decorator line of templates/template.py.j2.

For a schema that mixes real oneofs, proto3 optional fields (synthetic oneofs), wrapper
types, maps, nested messages, cross-package references and services, the plugin is run
under all six configurations (typing.direct/root/310 x standard/pydantic) and
  * the rendered sources are compared with pinned digests (byte identical output),
  * every rendered field line is checked against an oracle computed directly from the
    descriptors (number, wraps=, optional=True, group="...", in that order),
  * the decorator line of every message is checked,
  * the modules are imported and their field metadata compared with the oracle,
  * values are encoded and compared across configurations and with the
    google.protobuf reference implementation.

Run:  PYTHONPATH=/tmp/wt/R10C18/src /venv/bin/python equiv.py
"""
import os
import sys

if os.environ.get("PYTHONHASHSEED") != "0":
    # the order of the trailing cross-package imports follows set iteration order
    os.execve(
        sys.executable,
        [sys.executable, *sys.argv],
        {**os.environ, "PYTHONHASHSEED": "0"},
    )

import atexit
import contextlib
import dataclasses
import hashlib
import importlib
import io
import itertools
import json
import re
import shutil
import tempfile
from datetime import datetime, timedelta, timezone

import grpc_tools
from google.protobuf import json_format
from grpc_tools import protoc

import betterproto
from betterproto.plugin import compiler as plugin_compiler

plugin_compiler.subprocess.check_output = lambda cmd, input, encoding: input

from betterproto.casing import safe_snake_case
from betterproto.lib.google.protobuf import FileDescriptorSet
from betterproto.lib.google.protobuf.compiler import CodeGeneratorRequest
from betterproto.plugin.models import monkey_patch_oneof_index
from betterproto.plugin.parser import generate_code

monkey_patch_oneof_index()

WKT = os.path.join(os.path.dirname(grpc_tools.__file__), "_proto")

DESK = """
syntax = "proto3";
package office.desk;

import "google/protobuf/timestamp.proto";
import "google/protobuf/duration.proto";
import "google/protobuf/wrappers.proto";
import "office/people.proto";

enum Level { LOW = 0; MID = 1; HIGH = 2; }

// A message with two real oneofs surrounded by proto3 optional fields.
message Ticket {
  optional int32 before = 1;
  oneof target {
    string room = 2;
    office.Person person = 3;
    Level level = 4;
    google.protobuf.Int64Value big = 5;
    google.protobuf.Timestamp at = 6;
  }
  optional string between = 7;
  oneof result {
    bool done = 8;
    google.protobuf.Duration took = 9;
    Note note = 10;
    bytes raw = 11;
    double score = 12;
  }
  optional Level after = 13;
  google.protobuf.StringValue label = 14;
  optional google.protobuf.BoolValue flag = 15;
  repeated google.protobuf.Int32Value numbers = 16;
  map<string, Level> levels = 17;
  map<int64, office.Person> owners = 18;
  map<string, google.protobuf.DoubleValue> weights = 19;
  message Note {
    string text = 1;
    oneof extra {
      int32 code = 2;
      Ticket parent = 3;
    }
    optional Level urgency = 4;
  }
  oneof lonely { sint32 only = 20; }
  repeated Note notes = 21;
  google.protobuf.Timestamp created = 22;
  optional google.protobuf.Duration ttl = 23;
}

message Plain {
  int32 a = 1;
  string b = 2;
}

message OnlyOptional {
  optional int32 a = 1;
  optional Plain p = 2;
}

message Empty {}

service Desk {
  rpc Open(Ticket) returns (office.Person);
  rpc Follow(Ticket) returns (stream Ticket.Note);
  rpc Collect(stream office.Person) returns (Ticket);
  rpc Talk(stream Ticket.Note) returns (stream office.Person);
}
"""

PEOPLE = """
syntax = "proto3";
package office;

message Person {
  string name = 1;
  oneof contact {
    string mail = 2;
    uint32 extension = 3;
  }
  optional int32 age = 4;
}
"""

FILES = {"office/desk/desk.proto": DESK, "office/people.proto": PEOPLE}
CONFIGS = [
    (t, *p)
    for t in ("typing.direct", "typing.root", "typing.310")
    for p in ((), ("pydantic_dataclasses",))
]

# sha256 of every rendered file (PYTHONHASHSEED=0), pinned from the reference tree
GOLDEN = {
    "typing.direct:__init__.py": "e3b0c44298fc1c149afbf4c8996fb92427ae41e4649b934ca495991b7852b855",
    "typing.direct:office/__init__.py": "f995b405d693c76caa4efebceb95c8c801a697a42b262cc4c7d67d93fb1e25c5",
    "typing.direct:office/desk/__init__.py": "345d664948eebb9f04ddb68ad1ce37d453df7f347565611cadcd4d2b9d57128e",
    "typing.direct+pydantic_dataclasses:__init__.py": "e3b0c44298fc1c149afbf4c8996fb92427ae41e4649b934ca495991b7852b855",
    "typing.direct+pydantic_dataclasses:office/__init__.py": "e83954d436c1b44b2de30512682cd5074bb2f35e55988cd7a627d48ea710aa52",
    "typing.direct+pydantic_dataclasses:office/desk/__init__.py": "a0519cf8dd3ddf01bb6ac959e77741466d3d3894c7397b088e75c2dee5d59b4b",
    "typing.root:__init__.py": "e3b0c44298fc1c149afbf4c8996fb92427ae41e4649b934ca495991b7852b855",
    "typing.root:office/__init__.py": "89410950c6457c73879a112f903306bf02fd8d5b355cab2a6984edfa8b94452d",
    "typing.root:office/desk/__init__.py": "132b4406ec03c187c500fe998b19c5cd695c188a88ff69aab3459f7fcfa12ebf",
    "typing.root+pydantic_dataclasses:__init__.py": "e3b0c44298fc1c149afbf4c8996fb92427ae41e4649b934ca495991b7852b855",
    "typing.root+pydantic_dataclasses:office/__init__.py": "9986c93bd8fe04364d35e10bfad519b6856fdc262a034905d6f9815c508d8fd7",
    "typing.root+pydantic_dataclasses:office/desk/__init__.py": "f739fb0e1e7864f19d69a47b16085ad2aca77c4f858c0f352e20db786d05c2ea",
    "typing.310:__init__.py": "e3b0c44298fc1c149afbf4c8996fb92427ae41e4649b934ca495991b7852b855",
    "typing.310:office/__init__.py": "550c6d8d2f7920bb439a65753faa2f1304ed4fb48a34862e04a57d66ae9d218b",
    "typing.310:office/desk/__init__.py": "0065213b72f533e24c5a75ee1acfe15babe8f95879570b8c21eebb0773fdee79",
    "typing.310+pydantic_dataclasses:__init__.py": "e3b0c44298fc1c149afbf4c8996fb92427ae41e4649b934ca495991b7852b855",
    "typing.310+pydantic_dataclasses:office/__init__.py": "2605bf870592cea3247a6983b2a39cc5cc3839c724ad050c20fe158b1d14139f",
    "typing.310+pydantic_dataclasses:office/desk/__init__.py": "114f13206e0ba8379b203951875860973fab2e0eb7ef3dd6c8dbf6a8d16bc7ee",
}

_tmp = []


@atexit.register
def _cleanup():
    for d in _tmp:
        shutil.rmtree(d, ignore_errors=True)


def mkdtemp(prefix):
    d = tempfile.mkdtemp(prefix=prefix)
    _tmp.append(d)
    return d


def run_protoc():
    src = mkdtemp("c18k2src")
    for name, text in FILES.items():
        path = os.path.join(src, name)
        os.makedirs(os.path.dirname(path), exist_ok=True)
        with open(path, "w") as f:
            f.write(text)
    ref = mkdtemp("c18k2ref")
    out = os.path.join(src, "set.bin")
    rc = protoc.main(
        [
            "protoc",
            f"-I{src}",
            f"-I{WKT}",
            f"--descriptor_set_out={out}",
            "--include_source_info",
            "--include_imports",
            f"--python_out={ref}",
            *FILES,
        ]
    )
    assert rc == 0
    with open(out, "rb") as f:
        return f.read(), ref


# the plugin looks for existing __init__.py files relative to the working directory
os.chdir(mkdtemp("c18k2cwd"))
DESCRIPTORS, REF_DIR = run_protoc()
sys.path.insert(0, REF_DIR)
ref_desk = importlib.import_module("office.desk.desk_pb2")
ref_people = importlib.import_module("office.people_pb2")

_counter = itertools.count()


def generate(options):
    request = CodeGeneratorRequest(
        file_to_generate=list(FILES),
        parameter=",".join(options),
        proto_file=FileDescriptorSet().parse(DESCRIPTORS).file,
    )
    with contextlib.redirect_stderr(io.StringIO()):
        response = generate_code(request)
    return {f.name: f.content for f in response.file}


def load(sources):
    top = f"c18k2_variant_{next(_counter)}"
    d = mkdtemp("c18k2gen")
    for name, content in sources.items():
        path = os.path.join(d, top, name)
        os.makedirs(os.path.dirname(path), exist_ok=True)
        with open(path, "w") as fh:
            fh.write(content)
    sys.path.insert(0, d)
    return (
        importlib.import_module(f"{top}.office.desk"),
        importlib.import_module(f"{top}.office"),
    )


WRAPS = {
    ".google.protobuf.DoubleValue": "betterproto.TYPE_DOUBLE",
    ".google.protobuf.FloatValue": "betterproto.TYPE_FLOAT",
    ".google.protobuf.Int32Value": "betterproto.TYPE_INT32",
    ".google.protobuf.Int64Value": "betterproto.TYPE_INT64",
    ".google.protobuf.UInt32Value": "betterproto.TYPE_UINT32",
    ".google.protobuf.UInt64Value": "betterproto.TYPE_UINT64",
    ".google.protobuf.BoolValue": "betterproto.TYPE_BOOL",
    ".google.protobuf.StringValue": "betterproto.TYPE_STRING",
    ".google.protobuf.BytesValue": "betterproto.TYPE_BYTES",
}


def oracle():
    """{package: {class name: [(field name, number, type, wraps, proto3_optional,
    group or None, is_map)]}} straight from the descriptors."""
    result = {}
    fds = FileDescriptorSet().parse(DESCRIPTORS)

    def walk(package, prefix, message):
        name = prefix + message.name
        entries = {
            n.name: n for n in message.nested_type if n.options.map_entry
        }
        fields = []
        for f in message.field:
            has_index = betterproto.serialized_on_wire(f) and (
                betterproto.which_one_of(f, "oneof_index")[0] == "oneof_index"
            )
            group = None
            if has_index and not f.proto3_optional:
                group = message.oneof_decl[f.oneof_index].name
            is_map = f.type_name.split(".")[-1] in entries and f.label == 3
            fields.append(
                (
                    f.name,
                    f.number,
                    f.type,
                    None if is_map else WRAPS.get(f.type_name),
                    f.proto3_optional,
                    group,
                    is_map,
                )
            )
        result.setdefault(package, {})[name] = fields
        for nested in message.nested_type:
            if not nested.options.map_entry:
                walk(package, name, nested)

    for file in fds.file:
        if file.package.startswith("google"):
            continue
        for message in file.message_type:
            walk(file.package, "", message)
    return result


ORACLE = oracle()
FIELD_LINE = re.compile(
    r"^    (\w+): (.+) = betterproto\.(\w+)_field\((\d+)(.*)\)$"
)


def check_sources(options, sources):
    pydantic = "pydantic_dataclasses" in options
    for path, package in (
        ("office/desk/__init__.py", "office.desk"),
        ("office/__init__.py", "office"),
    ):
        text = sources[path]
        lines = text.split("\n")
        # decorator lines
        plain = lines.count("@dataclass(eq=False, repr=False)")
        forbid = lines.count(
            '@dataclass(eq=False, repr=False, config={"extra": "forbid"})'
        )
        decorated = sum(1 for line in lines if line.startswith("@dataclass"))
        n_messages = len(ORACLE[package])
        assert decorated == n_messages
        assert (plain, forbid) == ((0, n_messages) if pydantic else (n_messages, 0))
        for i, line in enumerate(lines):
            if line.startswith("@dataclass"):
                assert lines[i + 1].startswith("class ") and lines[i + 1].endswith(
                    "(betterproto.Message):"
                ), lines[i + 1]
                assert lines[i - 1] == "" or i == 0
        # field lines, class by class
        current = None
        seen = {}
        for line in lines:
            m = re.match(r"^class (\w+)\(betterproto\.Message\):$", line)
            if m:
                current = m.group(1)
                seen[current] = []
                continue
            if line.startswith("class "):
                current = None
            m = FIELD_LINE.match(line)
            if m and current:
                seen[current].append(m.groups())
        assert set(seen) == set(ORACLE[package]), (seen.keys(), ORACLE[package].keys())
        for cls, fields in ORACLE[package].items():
            assert len(seen[cls]) == len(fields), (cls, seen[cls])
            for got, want in zip(seen[cls], fields):
                name, annotation, kind, number, tail = got
                w_name, w_number, _type, w_wraps, w_opt, w_group, w_map = want
                assert name == safe_snake_case(w_name) and int(number) == w_number
                if w_map:
                    assert kind == "map" and tail.startswith(", betterproto.TYPE_")
                    continue
                expected = []
                if w_wraps:
                    expected.append(f"wraps={w_wraps}")
                if w_opt or (pydantic and w_group is not None):
                    expected.append("optional=True")
                if w_group is not None:
                    expected.append(f'group="{w_group}"')
                expected_tail = "".join(f", {a}" for a in expected)
                assert tail == expected_tail, (options, cls, name, tail, expected_tail)
                if pydantic and w_group is not None:
                    assert "Optional[" in annotation or "| None" in annotation
        if pydantic and any(
            f[5] is not None for fields in ORACLE[package].values() for f in fields
        ):
            assert "from pydantic import model_validator" in text
            n_validators = text.count("def check_oneof(cls, values):")
            with_oneof = sum(
                1
                for fields in ORACLE[package].values()
                if any(f[5] is not None for f in fields)
            )
            assert n_validators == with_oneof, (n_validators, with_oneof)
        else:
            assert "check_oneof" not in text


def check_metadata(options, modules):
    pydantic = "pydantic_dataclasses" in options
    for module, package in zip(modules, ("office.desk", "office")):
        for cls_name, fields in ORACLE[package].items():
            cls = getattr(module, cls_name)
            got = dataclasses.fields(cls)
            assert len(got) == len(fields)
            for f, want in zip(got, fields):
                meta = betterproto.FieldMetadata.get(f)
                w_name, w_number, _type, w_wraps, w_opt, w_group, w_map = want
                assert meta.number == w_number
                assert meta.group == w_group, (options, cls_name, f.name)
                assert meta.optional == bool(
                    w_opt or (pydantic and w_group is not None)
                ), (options, cls_name, f.name)
                assert (meta.wraps is not None) == (w_wraps is not None)
                if w_wraps:
                    assert "betterproto.TYPE_" + meta.wraps.upper() == w_wraps
                assert (meta.proto_type == "map") == w_map
            # resolves every annotation
            cls._betterproto.cls_by_field


T0 = datetime(2031, 5, 6, 7, 8, 9, 123000, tzinfo=timezone.utc)


def specs():
    """(betterproto kwargs builder, reference filler) pairs for Ticket values."""
    out = []

    def add(build, fill):
        out.append((build, fill))

    add(lambda d, o: {}, lambda r: None)
    add(lambda d, o: {"room": ""}, lambda r: setattr(r, "room", ""))
    add(lambda d, o: {"room": "b12", "done": False}, lambda r: (setattr(r, "room", "b12"), setattr(r, "done", False)))
    add(
        lambda d, o: {"person": o.Person(name="kim", mail="k@x"), "score": 0.0},
        lambda r: (r.person.MergeFrom(ref_people.Person(name="kim", mail="k@x")), setattr(r, "score", 0.0)),
    )
    add(
        lambda d, o: {"person": o.Person(extension=0, age=0)},
        lambda r: r.person.MergeFrom(ref_people.Person(extension=0, age=0)),
    )
    add(lambda d, o: {"level": d.Level.LOW, "raw": b""}, lambda r: (setattr(r, "level", 0), setattr(r, "raw", b"")))
    add(lambda d, o: {"level": d.Level.HIGH, "raw": b"\x01"}, lambda r: (setattr(r, "level", 2), setattr(r, "raw", b"\x01")))
    add(lambda d, o: {"big": 0}, lambda r: r.big.SetInParent())
    add(lambda d, o: {"big": -(2**40), "only": -1}, lambda r: (setattr(r.big, "value", -(2**40)), setattr(r, "only", -1)))
    add(lambda d, o: {"at": T0, "took": timedelta(seconds=3)}, lambda r: (r.at.FromDatetime(T0), r.took.FromTimedelta(timedelta(seconds=3))))
    add(
        lambda d, o: {"note": d.TicketNote(text="n", code=0, urgency=d.Level.LOW)},
        lambda r: r.note.MergeFrom(ref_desk.Ticket.Note(text="n", code=0, urgency=0)),
    )
    add(
        lambda d, o: {"note": d.TicketNote(parent=d.Ticket(before=1, only=0))},
        lambda r: r.note.parent.MergeFrom(ref_desk.Ticket(before=1, only=0)),
    )
    add(
        lambda d, o: {"before": 0, "between": "", "after": d.Level.LOW},
        lambda r: (setattr(r, "before", 0), setattr(r, "between", ""), setattr(r, "after", 0)),
    )
    add(
        lambda d, o: {"label": "", "flag": False, "numbers": [0, 5]},
        lambda r: (r.label.SetInParent(), r.flag.SetInParent(), r.numbers.add(), setattr(r.numbers.add(), "value", 5)),
    )
    add(
        lambda d, o: {"levels": {"a": d.Level.MID}, "owners": {7: o.Person(name="z", extension=4)}},
        lambda r: (r.levels.__setitem__("a", 1), r.owners[7].MergeFrom(ref_people.Person(name="z", extension=4))),
    )
    add(
        lambda d, o: {"notes": [d.TicketNote(code=3), d.TicketNote(text="t")], "created": T0, "ttl": timedelta(0)},
        lambda r: (r.notes.add(code=3), r.notes.add(text="t"), r.created.FromDatetime(T0), r.ttl.SetInParent()),
    )
    add(lambda d, o: {"only": 0}, lambda r: setattr(r, "only", 0))
    return out


def check_values(variants):
    for build, fill in specs():
        ref = ref_desk.Ticket()
        fill(ref)
        ref_json = json.loads(json_format.MessageToJson(ref))
        seen = set()
        for options, (desk, office) in variants.items():
            value = desk.Ticket(**build(desk, office))
            data = bytes(value)
            text = value.to_json()
            assert data == ref.SerializeToString(deterministic=True), (
                options,
                data.hex(),
                ref.SerializeToString().hex(),
            )
            # the reference implementation reads the JSON back to the same message
            # (spellings such as "3.000s" vs "3s" are both valid JSON forms)
            parsed = json_format.Parse(text, ref_desk.Ticket())
            assert parsed == ref, (options, text, ref_json)
            assert ref_desk.Ticket.FromString(data) == ref
            # the selected members are reported identically
            for group in ("target", "result", "lonely"):
                name, _ = betterproto.which_one_of(value, group)
                assert name == (ref.WhichOneof(group) or ""), (options, group, name)
            seen.add((data, text))
        assert len(seen) == 1


def main():
    digests = {}
    variants = {}
    for options in CONFIGS:
        sources = generate(options)
        assert generate(options) == sources  # rendering is repeatable
        for name, content in sorted(sources.items()):
            digests[f"{'+'.join(options)}:{name}"] = hashlib.sha256(
                content.encode()
            ).hexdigest()
        check_sources(options, sources)
        variants[options] = load(sources)
        check_metadata(options, variants[options])
    if os.environ.get("C18_PRINT_GOLDEN"):
        for key, digest in digests.items():
            print(f'    "{key}": "{digest}",')
        return
    assert digests == GOLDEN, {
        k: v for k, v in digests.items() if GOLDEN.get(k) != v
    }
    check_values(variants)
    print(f"OK: {len(variants)} configurations, {len(digests)} rendered files identical")


if __name__ == "__main__":
    main()
