"""C19 keep2: casing.WORD takes at most one capital, patterns compiled once.

Compares snake_case / pascal_case / camel_case (strict and not) with a frozen copy
of the original regex implementation, exhaustively over short strings and on random
long ones, pins a table of known values, and checks the name-mapping property
(valid, non-keyword, idempotent names; JSON keys map back) on top.
"""
import dataclasses
import itertools
import keyword
import random
import re

import betterproto
from betterproto import Casing, casing
from betterproto.casing import (
    camel_case,
    lowercase_first,
    pascal_case,
    safe_snake_case,
    sanitize_name,
    snake_case,
)
from betterproto.compile.naming import (
    pythonize_class_name,
    pythonize_enum_member_name,
    pythonize_field_name,
    pythonize_method_name,
)

# ---------------------------------------------------------------------------------
# frozen reference: the implementation as it was before the refactor
# ---------------------------------------------------------------------------------
REF_SYMBOLS = "[^a-zA-Z0-9]*"
REF_WORD = "[A-Z]*[a-z]*[0-9]*"
REF_WORD_UPPER = "[A-Z]+(?![a-z])[0-9]*"


def ref_snake_case(value, strict=True):
    def substitute_word(symbols, word, is_start):
        if not word:
            return ""
        if strict:
            delimiter_count = 0 if is_start else 1
        elif is_start:
            delimiter_count = len(symbols)
        elif word.isupper() or word.islower():
            delimiter_count = max(1, len(symbols))
        else:
            delimiter_count = len(symbols) + 1
        return ("_" * delimiter_count) + word.lower()

    return re.sub(
        f"(^)?({REF_SYMBOLS})({REF_WORD_UPPER}|{REF_WORD})",
        lambda groups: substitute_word(groups[2], groups[3], groups[1] is not None),
        value,
    )


def ref_pascal_case(value, strict=True):
    def substitute_word(symbols, word):
        if strict:
            return word.capitalize()
        if word.islower():
            delimiter_length = len(symbols[:-1])
        else:
            delimiter_length = len(symbols)
        return ("_" * delimiter_length) + word.capitalize()

    return re.sub(
        f"({REF_SYMBOLS})({REF_WORD_UPPER}|{REF_WORD})",
        lambda groups: substitute_word(groups[1], groups[2]),
        value,
    )


def ref_camel_case(value, strict=True):
    pascal = ref_pascal_case(value, strict=strict)
    return pascal[0:1].lower() + pascal[1:]


def ref_tokens(value):
    return [
        (m.start(), m.group(1), m.group(2))
        for m in re.finditer(
            f"({REF_SYMBOLS})({REF_WORD_UPPER}|{REF_WORD})", value
        )
    ]


def lib_tokens(value):
    pattern = f"({casing.SYMBOLS})({casing.WORD_UPPER}|{casing.WORD})"
    return [(m.start(), m.group(1), m.group(2)) for m in re.finditer(pattern, value)]


def compare(value):
    assert lib_tokens(value) == ref_tokens(value), value
    for strict in (True, False):
        assert snake_case(value, strict=strict) == ref_snake_case(value, strict), value
        assert pascal_case(value, strict=strict) == ref_pascal_case(value, strict), value
        assert camel_case(value, strict=strict) == ref_camel_case(value, strict), value
    # the defaults are the strict forms
    assert snake_case(value) == ref_snake_case(value, True)
    assert pascal_case(value) == ref_pascal_case(value, True)
    assert camel_case(value) == ref_camel_case(value, True)


# exhaustive: every string up to length 6 over two representatives of each class
count = 0
for alphabet, upto in (("abAB1_", 6), ("aAZ9_-É", 5), ("AB", 12), ("ABa", 9)):
    for n in range(0, upto + 1):
        for chars in itertools.product(alphabet, repeat=n):
            compare("".join(chars))
            count += 1

# random long strings over a wide alphabet (non-ASCII letters, digits, blanks)
rng = random.Random(19)
WIDE = "abcxyzABCXYZ0189_-. éÉßİ١中$\n\t"
for _ in range(20000):
    compare("".join(rng.choice(WIDE) for _ in range(rng.randrange(0, 40))))
    count += 1

# ---------------------------------------------------------------------------------
# pinned values (hand-checked, independent of the reference copy)
# ---------------------------------------------------------------------------------
PINNED = [
    # value, snake, pascal, camel
    ("", "", "", ""),
    ("_", "", "", ""),
    ("a", "a", "A", "a"),
    ("A", "a", "A", "a"),
    ("fooBar", "foo_bar", "FooBar", "fooBar"),
    ("FooBar", "foo_bar", "FooBar", "fooBar"),
    ("foo_bar", "foo_bar", "FooBar", "fooBar"),
    ("FOO_BAR", "foo_bar", "FooBar", "fooBar"),
    ("foo__bar", "foo_bar", "FooBar", "fooBar"),
    ("_foo_bar_", "foo_bar", "FooBar", "fooBar"),
    ("HTTPStatus", "http_status", "HttpStatus", "httpStatus"),
    ("HTTPRequest2", "http_request2", "HttpRequest2", "httpRequest2"),
    ("HTTP2xx", "http2_xx", "Http2Xx", "http2Xx"),
    ("address_line_1", "address_line_1", "AddressLine1", "addressLine1"),
    ("addressLine1", "address_line1", "AddressLine1", "addressLine1"),
    ("ipv4_address", "ipv4_address", "Ipv4Address", "ipv4Address"),
    ("ipv4address", "ipv4_address", "Ipv4Address", "ipv4Address"),
    ("x_y_z", "x_y_z", "XYZ", "xYZ"),
    ("xYZ", "x_yz", "XYz", "xYz"),
    ("ABc", "a_bc", "ABc", "aBc"),
    ("ABCd", "ab_cd", "AbCd", "abCd"),
    ("aBC", "a_bc", "ABc", "aBc"),
    ("Ab", "ab", "Ab", "ab"),
    ("AbC", "ab_c", "AbC", "abC"),
    ("A1b", "a1_b", "A1B", "a1B"),
    ("Ab1C2", "ab1_c2", "Ab1C2", "ab1C2"),
    ("getHTTPResponseCode", "get_http_response_code", "GetHttpResponseCode",
     "getHttpResponseCode"),
    ("class", "class", "Class", "class"),
    ("None", "none", "None", "none"),
    ("1", "1", "1", "1"),
    ("_1", "1", "1", "1"),
    ("a-b.c d", "a_b_c_d", "ABCD", "aBCD"),
    ("éaÉB", "a_b", "AB", "aB"),
]
for value, snake, pascal, camel in PINNED:
    assert snake_case(value) == snake, (value, snake_case(value))
    assert pascal_case(value) == pascal, (value, pascal_case(value))
    assert camel_case(value) == camel, (value, camel_case(value))

NOT_STRICT = [
    # value, snake(strict=False), pascal(strict=False), camel(strict=False)
    ("foo__bar", "foo__bar", "Foo_Bar", "foo_Bar"),
    ("fooBar", "foo_bar", "FooBar", "fooBar"),
    ("__foo", "__foo", "_Foo", "_Foo"),
    ("foo_", "foo", "Foo_", "foo_"),
    ("FOO__BAR", "foo__bar", "Foo__Bar", "foo__Bar"),
    ("foo_Bar", "foo__bar", "Foo_Bar", "foo_Bar"),
    ("ABc_d", "a_bc_d", "ABcD", "aBcD"),
]
for value, snake, pascal, camel in NOT_STRICT:
    assert snake_case(value, strict=False) == snake, (value, snake_case(value, False))
    assert pascal_case(value, strict=False) == pascal, (
        value,
        pascal_case(value, strict=False),
    )
    assert camel_case(value, strict=False) == camel, (
        value,
        camel_case(value, strict=False),
    )

assert lowercase_first("") == "" and lowercase_first("ABC") == "aBC"

# ---------------------------------------------------------------------------------
# the property on top: names are valid, not keywords, idempotent; keys map back
# ---------------------------------------------------------------------------------
identifiers = [
    "".join(chars)
    for n in range(1, 7)
    for chars in itertools.product("aB1_", repeat=n)
    if not chars[0].isdigit()
]
words = (
    list(keyword.kwlist)
    + list(keyword.softkwlist)
    + [k.capitalize() for k in keyword.kwlist]
    + [k.upper() for k in keyword.kwlist]
    + [b for b in dir(__builtins__) if b.isidentifier()]
    + ["address_line_1", "ipv4_address", "x_y_z", "HTTPStatus", "HTTP2xx", "ABc"]
)
for name in identifiers + words:
    field = pythonize_field_name(name)
    assert field == safe_snake_case(name) == sanitize_name(ref_snake_case(name))
    assert pythonize_method_name(name) == field
    assert field.isidentifier() and not keyword.iskeyword(field), (name, field)
    assert pythonize_field_name(field) == field, (name, field)
    cls_name = pythonize_class_name(name)
    assert cls_name == sanitize_name(ref_pascal_case(name))
    assert cls_name.isidentifier() and not keyword.iskeyword(cls_name), (name, cls_name)
    again = pythonize_class_name(cls_name)  # (aB -> AB -> Ab: only the third is fixed)
    assert again == sanitize_name(ref_pascal_case(cls_name))
    assert again.isidentifier() and not keyword.iskeyword(again), (name, again)
    assert pythonize_class_name(again) == again, (name, cls_name, again)
    member = pythonize_enum_member_name(name, "aB1")
    assert member.isidentifier() and not keyword.iskeyword(member), (name, member)
    count += 1

assert pythonize_enum_member_name("HTTP_VERSION_1_1", "HTTPVersion") == "_1_1"
assert pythonize_enum_member_name("ABc_X", "ABc") == "ABc_X"  # prefix is A_BC_
assert pythonize_enum_member_name("A_BC_X", "ABc") == "X"
assert pythonize_enum_member_name("AB_C_X", "ABC") == "AB_C_X"  # prefix is ABC_
assert pythonize_enum_member_name("ABC_None", "ABC") == "None_"

sample = identifiers[::7] + words
made = 0
for name in dict.fromkeys(sample):
    field = pythonize_field_name(name)
    cls = dataclasses.make_dataclass(
        "Single",
        [(field, str, betterproto.string_field(1))],
        bases=(betterproto.Message,),
        eq=False,
        repr=False,
    )
    msg = cls(**{field: "v"})
    camel = msg.to_dict()
    snake = msg.to_dict(casing=Casing.SNAKE)
    assert camel == {ref_camel_case(field).rstrip("_"): "v"}, (name, camel)
    assert snake == {ref_snake_case(field).rstrip("_"): "v"}, (name, snake)
    for key in (*camel, *snake, name, field):
        assert getattr(cls.from_dict({key: "w"}), field) == "w", (name, field, key)
        assert getattr(cls().from_dict({key: "w"}), field) == "w", (name, field, key)
    made += 1

print(f"ok: {count} strings compared with the frozen implementation, {made} classes")
