"""Behaviour of the key -> field lookup in Message.from_dict / from_pydict (C19).

Exercises: every key form of many field names (camelCase key, snake_case key, python name,
proto name), unknown keys, None values, both the classmethod and the instance form of
from_dict, from_pydict, nested / repeated / map / enum / wrapper / timestamp / duration
fields, and a cross-check of the JSON form against google.protobuf's json_format.
"""
import dataclasses
import itertools
import json
import keyword
from dataclasses import dataclass
from datetime import datetime, timedelta, timezone
from typing import Dict, List, Optional

import betterproto
from betterproto import Casing
from betterproto.casing import camel_case, safe_snake_case, snake_case
from betterproto.compile.naming import pythonize_field_name


# --------------------------------------------------------------------------------------
# 1. single-field messages over a large space of proto field names
# --------------------------------------------------------------------------------------
def make_message(py_name: str, field=None, typ=int):
    return dataclasses.make_dataclass(
        "Msg",
        [(py_name, typ, field or betterproto.int32_field(1))],
        bases=(betterproto.Message,),
        eq=False,
        repr=False,
    )


CORPUS = [
    "name", "foo_bar", "fooBar", "FooBar", "HTTPStatus", "ipv4_address", "x_y_z", "r_g_b",
    "address_line_1", "address_line1", "sha_256", "utf_8_text", "item_1_name", "top_10",
    "v_2", "x_1", "oauth_2_token", "_", "__", "_1", "_1x", "__init__", "foo_", "_foo",
    "foo__bar", "UInt32", "GetUInt64", "FOO_BAR", "FOO1BAR2", "a", "A", "aB", "a_b", "aBC",
    "id", "type", "list", "int", "str", "match", "case",
]
CORPUS += list(keyword.kwlist) + list(keyword.softkwlist)
CORPUS += [kw + "_" for kw in keyword.kwlist] + [kw.upper() for kw in keyword.kwlist]
alphabet = "aZ1_"
for n in range(1, 5):
    for tup in itertools.product(alphabet, repeat=n):
        ident = "".join(tup)
        if ident[0] != "1":
            CORPUS.append(ident)

seen_py = set()
checked = 0
for proto_name in CORPUS:
    py_name = pythonize_field_name(proto_name)
    assert py_name == safe_snake_case(proto_name)
    assert py_name.isidentifier() and not keyword.iskeyword(py_name), py_name
    assert pythonize_field_name(py_name) == py_name, (proto_name, py_name)
    if py_name in seen_py and len(proto_name) > 4:
        continue
    if hasattr(betterproto.Message, py_name):
        continue  # would shadow a method of Message; nothing to do with key lookup
    seen_py.add(py_name)
    cls = make_message(py_name)
    msg = cls(**{py_name: 7})
    camel = msg.to_dict()
    snake = msg.to_dict(casing=Casing.SNAKE)
    assert list(camel) == [camel_case(py_name).rstrip("_")], (py_name, camel)
    assert list(snake) == [snake_case(py_name).rstrip("_")], (py_name, snake)
    assert msg.to_pydict() == camel and msg.to_pydict(casing=Casing.SNAKE) == snake
    for key in {next(iter(camel)), next(iter(snake)), py_name, proto_name}:
        for got in (
            cls.from_dict({key: 7}),
            cls().from_dict({key: 7}),
            cls().from_pydict({key: 7}),
            cls().from_json(json.dumps({key: 7})),
        ):
            assert getattr(got, py_name) == 7, (proto_name, py_name, key)
            assert bytes(got) == bytes(msg) == b"\x08\x07"
            assert got._serialized_on_wire
        # A null is skipped, whatever the key; so is an unknown key.
        for got in (
            cls.from_dict({key: None, "no-such-field": 1}),
            cls().from_dict({key: None, "no-such-field": 1}),
            cls().from_pydict({key: None, "no-such-field": 1}),
        ):
            assert getattr(got, py_name) == 0 and bytes(got) == b""
            assert got._serialized_on_wire
        # Instance from_dict overwrites only the fields that are present.
        inst = cls(**{py_name: 3})
        assert getattr(inst.from_dict({"other": 1}), py_name) == 3
        assert getattr(inst.from_dict({key: None}), py_name) == 3
        assert getattr(inst.from_dict({key: 9}), py_name) == 9
        inst = cls(**{py_name: 3})
        assert getattr(inst.from_pydict({"other": 1, key: None}), py_name) == 3
        assert getattr(inst.from_pydict({key: 9}), py_name) == 9
    # empty mapping
    for got in (cls.from_dict({}), cls().from_dict({}), cls().from_pydict({})):
        assert bytes(got) == b"" and got._serialized_on_wire
    checked += 1
assert checked > 300, checked


# --------------------------------------------------------------------------------------
# 2. several fields with lossy names side by side; last key wins when two keys of one
#    field are given
# --------------------------------------------------------------------------------------
@dataclass(eq=False, repr=False)
class Address(betterproto.Message):
    address_line_1: str = betterproto.string_field(1)
    address_line_2: str = betterproto.string_field(2)
    x_y_z: int = betterproto.int32_field(3)
    x_yz: int = betterproto.int32_field(4)
    class_: str = betterproto.string_field(5)
    ipv4_address: str = betterproto.string_field(6)


addr = Address("a", "b", 1, 2, "c", "1.2.3.4")
assert addr.to_dict() == {
    "addressLine1": "a", "addressLine2": "b", "xYZ": 1, "xYz": 2, "class": "c",
    "ipv4Address": "1.2.3.4",
}
assert addr.to_dict(casing=Casing.SNAKE) == {
    "address_line_1": "a", "address_line_2": "b", "x_y_z": 1, "x_yz": 2, "class": "c",
    "ipv4_address": "1.2.3.4",
}
for casing in (Casing.CAMEL, Casing.SNAKE):
    for make in (Address.from_dict, Address().from_dict, Address().from_pydict):
        back = make(addr.to_dict(casing=casing))
        assert back == addr and bytes(back) == bytes(addr)
    assert Address().from_pydict(addr.to_pydict(casing=casing)) == addr
assert Address.from_dict({"class_": "k"}).class_ == "k"
assert Address.from_dict({"CLASS": "k"}).class_ == "k"
assert Address.from_dict({"address-line-1": "k"}).address_line_1 == "k"
assert Address.from_dict({"addressLine1": "p", "address_line_1": "q"}).address_line_1 == "q"
assert Address.from_dict({"address_line_1": "q", "addressLine1": "p"}).address_line_1 == "p"
assert Address.from_dict({"address_line1": "p"}) == Address()  # not a key of any field
assert Address().from_pydict({"address_line1": "p"}) == Address()


# --------------------------------------------------------------------------------------
# 3. every kind of field value behind the lookup (sub-classes come from cls_by_field)
# --------------------------------------------------------------------------------------
class Colour(betterproto.Enum):
    COLOUR_UNSPECIFIED = 0
    RED = 1
    BLUE = 2


@dataclass(eq=False, repr=False)
class Inner(betterproto.Message):
    line_1: str = betterproto.string_field(1)
    big_2: int = betterproto.int64_field(2)


@dataclass(eq=False, repr=False)
class Outer(betterproto.Message):
    inner_1: Inner = betterproto.message_field(1)
    inners_2: List[Inner] = betterproto.message_field(2)
    map_3: Dict[str, Inner] = betterproto.map_field(
        3, betterproto.TYPE_STRING, betterproto.TYPE_MESSAGE
    )
    colour_4: Colour = betterproto.enum_field(4)
    colours_5: List[Colour] = betterproto.enum_field(5)
    enum_map_6: Dict[int, Colour] = betterproto.map_field(
        6, betterproto.TYPE_INT32, betterproto.TYPE_ENUM
    )
    ts_7: datetime = betterproto.message_field(7)
    dur_8: timedelta = betterproto.message_field(8)
    wrapped_9: Optional[int] = betterproto.message_field(9, wraps=betterproto.TYPE_INT32)
    data_10: bytes = betterproto.bytes_field(10)
    ratio_11: float = betterproto.double_field(11)
    ids_12: List[int] = betterproto.uint64_field(12)
    scalar_map_13: Dict[int, int] = betterproto.map_field(
        13, betterproto.TYPE_INT64, betterproto.TYPE_INT64
    )
    opt_14: Optional[str] = betterproto.string_field(14, optional=True)
    one_a_15: str = betterproto.string_field(15, group="kind_1")
    one_b_16: Inner = betterproto.message_field(16, group="kind_1")


outer = Outer(
    inner_1=Inner("x", 2**40),
    inners_2=[Inner("y", 1), Inner("z", -5)],
    map_3={"k": Inner("m", 3)},
    colour_4=Colour.BLUE,
    colours_5=[Colour.RED, Colour.BLUE],
    enum_map_6={1: Colour.RED},
    ts_7=datetime(2020, 1, 2, 3, 4, 5, tzinfo=timezone.utc),
    dur_8=timedelta(seconds=3, microseconds=500000),
    wrapped_9=12,
    data_10=b"\x00\xff",
    ratio_11=float("inf"),
    ids_12=[1, 2**63],
    scalar_map_13={5: -6},
    opt_14="",
    one_b_16=Inner("o", 0),
)
for casing in (Casing.CAMEL, Casing.SNAKE):
    d = outer.to_dict(casing=casing)
    assert len(d) == 15, d
    if casing is Casing.CAMEL:
        assert set(d) == {
            "inner1", "inners2", "map3", "colour4", "colours5", "enumMap6", "ts7", "dur8",
            "wrapped9", "data10", "ratio11", "ids12", "scalarMap13", "opt14", "oneB16",
        }
        assert set(d["inner1"]) == {"line1", "big2"}
    else:
        assert set(d) == {
            "inner_1", "inners_2", "map_3", "colour_4", "colours_5", "enum_map_6", "ts_7",
            "dur_8", "wrapped_9", "data_10", "ratio_11", "ids_12", "scalar_map_13",
            "opt_14", "one_b_16",
        }
        assert set(d["inner_1"]) == {"line_1", "big_2"}
    d = json.loads(json.dumps(d))
    for make in (Outer.from_dict, Outer().from_dict):
        back = make(d)
        assert back == outer, (back, outer)
        assert bytes(back) == bytes(outer)
        assert betterproto.which_one_of(back, "kind_1")[0] == "one_b_16"
    # from_pydict cannot fill a message member of a oneof in place (it reads the member
    # first), so the pydict round trip selects the scalar member instead.
    outer_py = Outer().parse(bytes(outer))
    outer_py.one_a_15 = "s"
    pd = outer_py.to_pydict(casing=casing)
    assert set(pd) == (set(d) - {"oneB16", "one_b_16"}) | {casing("one_a_15")}
    back = Outer().from_pydict(pd)
    assert back == outer_py and bytes(back) == bytes(outer_py)
    assert betterproto.which_one_of(back, "kind_1") == ("one_a_15", "s")
    # nulls in a full document leave everything else alone
    d_null = dict(d)
    for k in list(d_null)[:3]:
        d_null[k] = None
    partial = Outer.from_dict(d_null)
    assert partial.inner_1 == Inner() and partial.inners_2 == [] and partial.map_3 == {}
    assert partial.colour_4 == Colour.BLUE and partial.wrapped_9 == 12

# enum given by name or number, in list and map
assert Outer.from_dict({"colour4": "RED"}).colour_4 == Colour.RED
assert Outer.from_dict({"colour_4": 2}).colour_4 == Colour.BLUE
assert Outer.from_dict({"colours5": ["RED", 2]}).colours_5 == [Colour.RED, Colour.BLUE]
assert Outer.from_dict({"enumMap6": {"3": "BLUE"}}).enum_map_6 == {3: Colour.BLUE}
# oneof: the later key wins, as for any repeated assignment
both = Outer.from_dict({"oneA15": "s", "one_b_16": {"line1": "t"}})
assert betterproto.which_one_of(both, "kind_1") == ("one_b_16", Inner("t"))


# --------------------------------------------------------------------------------------
# 4. cross-check with google.protobuf: same JSON keys, and its JSON is read back
# --------------------------------------------------------------------------------------
from google.protobuf import descriptor_pb2, descriptor_pool, json_format, message_factory

fdp = descriptor_pb2.FileDescriptorProto(name="c19_keep1.proto", package="c19k1", syntax="proto3")
mt = fdp.message_type.add(name="Inner")
mt.field.add(name="line_1", number=1, type=9, label=1)
mt.field.add(name="big_2", number=2, type=3, label=1)
mt = fdp.message_type.add(name="Address")
for i, (n, t) in enumerate(
    [("address_line_1", 9), ("address_line_2", 9), ("x_y_z", 5), ("x_yz", 5), ("class", 9),
     ("ipv4_address", 9)],
    start=1,
):
    mt.field.add(name=n, number=i, type=t, label=1)
pool = descriptor_pool.DescriptorPool()
pool.Add(fdp)
GAddress = message_factory.GetMessageClass(pool.FindMessageTypeByName("c19k1.Address"))
GInner = message_factory.GetMessageClass(pool.FindMessageTypeByName("c19k1.Inner"))

g = GAddress()
g.ParseFromString(bytes(addr))
gd = json_format.MessageToDict(g)
assert gd == addr.to_dict(), (gd, addr.to_dict())
assert Address.from_dict(gd) == addr
gd_snake = json_format.MessageToDict(g, preserving_proto_field_name=True)
assert Address.from_dict(gd_snake) == addr and Address().from_pydict(gd_snake) == addr
g2 = json_format.ParseDict(addr.to_dict(), GAddress())
assert g2.SerializeToString() == bytes(addr)

gi = GInner()
gi.ParseFromString(bytes(Inner("x", 2**40)))
assert json_format.MessageToDict(gi) == Inner("x", 2**40).to_dict() == {"line1": "x", "big2": str(2**40)}
assert Inner.from_dict(json_format.MessageToDict(gi)) == Inner("x", 2**40)

print(f"ok ({checked} single-field messages)")
