"""Exercises the pure observers ==, !=, bool() and repr() of betterproto messages
against an independent model written in terms of the raw field values, over many
message values: constructed, decoded from bytes, loaded from dicts, after lazy
reads, copied, deep-copied and pickled.  Must pass on the pristine tree and with
the refactor of Message.__eq__ / __repr__ / __bool__ applied.
"""
import copy
import math
import pickle
import random
from dataclasses import dataclass
from datetime import datetime, timedelta, timezone
from typing import Dict, List, Optional

import betterproto
from betterproto import PLACEHOLDER

rnd = random.Random(1405)
NAN = float("nan")
EPOCH = datetime(1970, 1, 1, tzinfo=timezone.utc)


class Kind(betterproto.Enum):
    NONE = 0
    A = 1
    B = 2


@dataclass(eq=False, repr=False)
class Nothing(betterproto.Message):
    pass


@dataclass(eq=False, repr=False)
class Sub(betterproto.Message):
    x: int = betterproto.int32_field(1)
    r: float = betterproto.double_field(2)
    names: List[str] = betterproto.string_field(3)


# declaration order deliberately differs from field number order
@dataclass(eq=False, repr=False)
class All(betterproto.Message):
    s: str = betterproto.string_field(9)
    i: int = betterproto.int32_field(1)
    d: float = betterproto.double_field(3)
    f: float = betterproto.float_field(2)
    flag: bool = betterproto.bool_field(4)
    raw: bytes = betterproto.bytes_field(5)
    kind: Kind = betterproto.enum_field(6)
    sub: Sub = betterproto.message_field(8)
    nothing: Nothing = betterproto.message_field(7)
    ints: List[int] = betterproto.int64_field(12)
    ds: List[float] = betterproto.double_field(11)
    subs: List[Sub] = betterproto.message_field(10)
    m: Dict[str, int] = betterproto.map_field(
        13, betterproto.TYPE_STRING, betterproto.TYPE_INT32
    )
    ms: Dict[int, Sub] = betterproto.map_field(
        14, betterproto.TYPE_INT32, betterproto.TYPE_MESSAGE
    )
    oa: int = betterproto.int32_field(20, group="pick")
    ob: str = betterproto.string_field(21, group="pick")
    oc: Sub = betterproto.message_field(22, group="pick")
    od: float = betterproto.double_field(23, group="pick")
    opt_i: Optional[int] = betterproto.int32_field(30, optional=True, group="_opt_i")
    opt_sub: Optional[Sub] = betterproto.message_field(
        31, optional=True, group="_opt_sub"
    )
    ts: datetime = betterproto.message_field(15)
    dur: timedelta = betterproto.message_field(16)
    wrapped: Optional[int] = betterproto.message_field(
        17, wraps=betterproto.TYPE_INT32
    )


@dataclass(eq=False, repr=False)
class Other(betterproto.Message):
    i: int = betterproto.int32_field(1)


DEFAULTS = {
    "s": lambda: "", "i": lambda: 0, "d": lambda: 0.0, "f": lambda: 0.0,
    "flag": lambda: False, "raw": lambda: b"", "kind": lambda: Kind.NONE,
    "sub": Sub, "nothing": Nothing, "ints": list, "ds": list, "subs": list,
    "m": dict, "ms": dict, "oa": lambda: 0, "ob": lambda: "", "oc": Sub,
    "od": lambda: 0.0, "opt_i": lambda: None, "opt_sub": lambda: None,
    "ts": lambda: EPOCH, "dur": lambda: timedelta(0), "wrapped": lambda: None,
}
SUB_DEFAULTS = {"x": lambda: 0, "r": lambda: 0.0, "names": list}
NUMBER_ORDER = {
    All: ["i", "f", "d", "flag", "raw", "kind", "nothing", "sub", "s", "subs", "ds",
          "ints", "m", "ms", "ts", "dur", "wrapped", "oa", "ob", "oc", "od", "opt_i",
          "opt_sub"],
    Sub: ["x", "r", "names"],
    Nothing: [],
    Other: ["i"],
}
DECL = {
    All: list(DEFAULTS), Sub: list(SUB_DEFAULTS), Nothing: [], Other: ["i"],
}
DEFS = {All: DEFAULTS, Sub: SUB_DEFAULTS, Nothing: {}, Other: {"i": lambda: 0}}


def rawval(msg, name):
    return object.__getattribute__(msg, name)


# ----------------------------------------------------------------------------- model
def py_eq(x, y):
    """What `x == y` means for field values, with messages compared by the model."""
    if isinstance(x, betterproto.Message) or isinstance(y, betterproto.Message):
        if type(x) is not type(y):
            return False
        return model_eq(x, y)
    if isinstance(x, list) and isinstance(y, list):
        return len(x) == len(y) and all(a is b or py_eq(a, b) for a, b in zip(x, y))
    if isinstance(x, dict) and isinstance(y, dict):
        return x.keys() == y.keys() and all(
            x[k] is y[k] or py_eq(x[k], y[k]) for k in x
        )
    return x == y


def model_eq(a, b):
    assert type(a) is type(b)
    for name in DECL[type(a)]:
        va, vb = rawval(a, name), rawval(b, name)
        if va is PLACEHOLDER and vb is PLACEHOLDER:
            continue
        if va is PLACEHOLDER:
            va = DEFS[type(a)][name]()
        if vb is PLACEHOLDER:
            vb = DEFS[type(a)][name]()
        if py_eq(va, vb):
            continue
        if (
            isinstance(va, float) and isinstance(vb, float)
            and math.isnan(va) and math.isnan(vb)
        ):
            continue
        return False
    return True


def model_bool(a):
    for name in DECL[type(a)]:
        v = rawval(a, name)
        if v is PLACEHOLDER:
            continue
        if not py_eq(v, DEFS[type(a)][name]()):
            return True
    return False


def model_repr(a):
    parts = []
    for name in NUMBER_ORDER[type(a)]:
        v = rawval(a, name)
        if v is not PLACEHOLDER:
            if isinstance(v, betterproto.Message):
                text = model_repr(v)
            elif isinstance(v, list) and v and isinstance(v[0], betterproto.Message):
                text = "[" + ", ".join(model_repr(i) for i in v) + "]"
            elif isinstance(v, dict) and v and isinstance(
                next(iter(v.values())), betterproto.Message
            ):
                text = "{" + ", ".join(
                    f"{k!r}: {model_repr(i)}" for k, i in v.items()
                ) + "}"
            else:
                text = repr(v)
            parts.append(f"{name}={text}")
    return f"{type(a).__name__}({', '.join(parts)})"


# ------------------------------------------------------------------------ generators
def rand_float():
    return rnd.choice([0.0, -0.0, 1.5, -2.0, NAN, float("nan"), float("inf"), 1e-9])


def rand_sub():
    kw = {}
    if rnd.random() < 0.5:
        kw["x"] = rnd.choice([0, 1, -1, 7])
    if rnd.random() < 0.4:
        kw["r"] = rand_float()
    if rnd.random() < 0.3:
        kw["names"] = rnd.choice([[], ["a"], ["a", "b"]])
    return Sub(**kw)


VALUE_GEN = {
    "s": lambda: rnd.choice(["", "x", "héllo"]),
    "i": lambda: rnd.choice([0, 1, -1, 2**31 - 1]),
    "d": rand_float,
    "f": lambda: rnd.choice([0.0, -0.0, 0.5, NAN, float("-inf")]),
    "flag": lambda: rnd.choice([True, False]),
    "raw": lambda: rnd.choice([b"", b"\x00", b"ab"]),
    "kind": lambda: rnd.choice([Kind.NONE, Kind.A, Kind.B, 0, 1]),
    "sub": rand_sub,
    "nothing": Nothing,
    "ints": lambda: rnd.choice([[], [0], [1, 2, 2**40]]),
    "ds": lambda: rnd.choice([[], [0.0], [NAN], [1.0, float("nan")], [-0.0]]),
    "subs": lambda: [rand_sub() for _ in range(rnd.randint(0, 3))],
    "m": lambda: rnd.choice([{}, {"": 0}, {"a": 1, "b": 2}, {"b": 2, "a": 1}]),
    "ms": lambda: {k: rand_sub() for k in rnd.sample([0, 1, 2, 3], rnd.randint(0, 3))},
    "opt_i": lambda: rnd.choice([None, 0, 5]),
    "opt_sub": lambda: rnd.choice([None, Sub(), Sub(x=1)]),
    "ts": lambda: rnd.choice(
        [EPOCH, datetime(2021, 5, 6, 7, 8, 9, 1000, tzinfo=timezone.utc),
         datetime(1969, 12, 31, 23, 59, 59, tzinfo=timezone.utc)]
    ),
    "dur": lambda: rnd.choice(
        [timedelta(0), timedelta(seconds=1, microseconds=5), timedelta(days=-1)]
    ),
    "wrapped": lambda: rnd.choice([None, 0, 12]),
}
ONEOF_GEN = {
    "oa": lambda: rnd.choice([0, 3]),
    "ob": lambda: rnd.choice(["", "pick"]),
    "oc": rand_sub,
    "od": lambda: rnd.choice([0.0, NAN, 2.5]),
}


def rand_all():
    kw = {}
    for name, gen in VALUE_GEN.items():
        if rnd.random() < 0.35:
            kw[name] = gen()
    if rnd.random() < 0.5:
        name = rnd.choice(list(ONEOF_GEN))
        kw[name] = ONEOF_GEN[name]()
    return All(**kw)


def observe(msg):
    """A random sequence of read-only operations."""
    for _ in range(rnd.randint(0, 6)):
        op = rnd.randrange(10)
        if op == 0:
            bytes(msg)
        elif op == 1:
            len(msg)
        elif op == 2:
            msg.to_dict()
        elif op == 3:
            msg.to_pydict()
        elif op == 4:
            # lazily defaulted nested message / containers
            name = rnd.choice(["sub", "nothing", "ints", "subs", "m", "ms", "ts", "i"])
            getattr(msg, name)
        elif op == 5:
            msg.sub.names
        elif op == 6:
            try:
                rnd.choice([lambda: msg.oa, lambda: msg.oc, lambda: msg.od])()
            except AttributeError:
                pass
        elif op == 7:
            repr(msg), bool(msg)
        elif op == 8:
            msg == msg
        else:
            msg.to_json()


def variants(msg):
    out = [copy.copy(msg), copy.deepcopy(msg)]
    out.append(pickle.loads(pickle.dumps(msg)))
    out.append(All().parse(bytes(msg)))
    out.append(All().from_dict(msg.to_dict()))
    # near misses: one field changed on a deep copy
    for _ in range(3):
        near = copy.deepcopy(msg)
        name = rnd.choice(list(VALUE_GEN) + list(ONEOF_GEN))
        gen = VALUE_GEN.get(name) or ONEOF_GEN[name]
        setattr(near, name, gen())
        out.append(near)
    near = copy.deepcopy(msg)
    near.sub.x += 1
    out.append(near)
    near = copy.deepcopy(msg)
    near.subs.append(Sub())
    out.append(near)
    return out


def check_observers(msg):
    data = bytes(msg)
    snapshot = {n: rawval(msg, n) for n in DECL[type(msg)]}
    assert bool(msg) is model_bool(msg), repr(msg)
    assert repr(msg) == model_repr(msg), (repr(msg), model_repr(msg))
    assert (msg == msg) is model_eq(msg, msg) is True
    assert not (msg != msg)
    # none of them stored or removed anything
    for n, v in snapshot.items():
        assert rawval(msg, n) is v
    assert bytes(msg) == data


# ---------------------------------------------------------------------- the main loop
count_eq = count_ne = 0
pool = []
for trial in range(400):
    msg = rand_all()
    observe(msg)
    check_observers(msg)
    pool.append(msg)
    for other in variants(msg):
        observe(other)
        check_observers(other)
        for a, b in ((msg, other), (other, msg)):
            want = model_eq(a, b)
            assert (a == b) is want, (a, b, want)
            assert (a != b) is (not want), (a, b, want)
        if model_eq(msg, other):
            count_eq += 1
        else:
            count_ne += 1
    # nested observers as well
    for child in [msg.sub] + list(msg.subs) + list(msg.ms.values()):
        check_observers(child)

# unrelated random pairs
for _ in range(1500):
    a, b = rnd.choice(pool), rnd.choice(pool)
    want = model_eq(a, b)
    assert (a == b) is want and (b == a) is want and (a != b) is (not want)
    count_eq += want
    count_ne += not want
assert count_eq > 800 and count_ne > 800, (count_eq, count_ne)

# ------------------------------------------------------------------- fixed edge cases
# different classes, non-messages
assert All().__eq__(Other()) is NotImplemented
assert All().__eq__(1) is NotImplemented and All().__eq__(None) is NotImplemented
assert All() != Other() and not (All() == Other())
assert All() != 0 and All() != {} and Other(i=1) != All(i=1)


class AllChild(All):
    pass


assert All() != AllChild() and AllChild() == AllChild()



def R(*parts):
    """repr of an All: optional fields are stored as None from the start and have
    the highest field numbers."""
    return "All(" + ", ".join(parts + ("opt_i=None", "opt_sub=None")) + ")"


# unset vs explicitly default, on either side
for name, gen in DEFAULTS.items():
    if name in ("oa", "ob", "oc", "od"):
        continue
    explicit = All(**{name: gen()})
    assert explicit == All() and All() == explicit, name
    assert not (explicit != All())
    assert bool(explicit) is False, name
    assert bool(All()) is False
    if name in ("opt_i", "opt_sub"):
        assert repr(explicit) == R(), (name, repr(explicit))
    else:
        assert repr(explicit) == R(f"{name}={gen()!r}"), (name, repr(explicit))
for name in ("oa", "ob", "oc", "od"):
    explicit = All(**{name: DEFAULTS[name]()})
    assert explicit == All() and All() == explicit and not bool(explicit)
assert repr(All()) == R() and repr(Nothing()) == "Nothing()"
assert bool(Nothing()) is False and Nothing() == Nothing()

# optional fields: None is the default, 0 is not
assert All(opt_i=0) != All() and All() != All(opt_i=0) and bool(All(opt_i=0))
assert All(opt_i=None) == All() and not bool(All(opt_i=None))
assert All(wrapped=0) != All() and bool(All(wrapped=0))
assert All(opt_sub=Sub()) != All() and bool(All(opt_sub=Sub()))

# nan handling: top-level nan equals nan, in either position, not a number though
a, b = All(d=float("nan")), All(d=float("nan"))
assert a == b and b == a and not (a != b) and bool(a)
assert All(d=NAN) != All(d=0.0) and All(d=NAN) != All() and All() != All(d=NAN)
assert All(f=NAN, d=NAN) == All(f=float("nan"), d=float("nan"))
assert All(f=NAN) != All(d=NAN)
assert All(od=NAN) == All(od=float("nan"))
assert All(sub=Sub(r=NAN)) == All(sub=Sub(r=float("nan")))
shared = float("nan")
assert All(ds=[shared]) == All(ds=[shared])
assert All(ds=[float("nan")]) != All(ds=[float("nan")])
assert All(i=1) != All(i=1.5) and All(i=1) == All(i=1.0) and All(flag=True) == All(flag=1)
# the first differing field decides, also when a nan pair precedes or follows it
assert All(d=NAN, s="a") != All(d=float("nan"), s="b")
assert All(i=1, d=NAN) != All(i=2, d=float("nan"))
assert All(d=NAN, s="a") == All(d=float("nan"), s="a")

# oneof members
assert All(oa=1) != All(ob="1") and All(oa=0) == All(ob="") and All(oc=Sub()) == All()
m = All(oa=5)
m.ob = "now"
assert rawval(m, "oa") is PLACEHOLDER
assert m == All(ob="now") and m != All(oa=5) and repr(m) == R("ob='now'")

# repr lists the stored values by field number, including lazily stored defaults
m = All(s="z", i=2)
assert repr(m) == R("i=2", "s='z'")
m.sub, m.ints, m.ms, m.ts, m.nothing
assert repr(m) == R("i=2", "nothing=Nothing()", "sub=Sub()", "s='z'", "ints=[]", "ms={}")
assert not bool(All().sub) and bool(m)
m = All()
m.sub.names
assert repr(m) == R("sub=Sub(names=[])") and not bool(m) and m == All()
m.sub.names.append("n")
assert bool(m) and m != All() and repr(m) == R("sub=Sub(names=['n'])")

# unknown fields and presence flags take no part in ==, bool, repr
u = All().parse(b"\xf8\x07\x01")
assert u == All() and not bool(u) and repr(u) == R() and bytes(u) == b"\xf8\x07\x01"
p = All().parse(b"\x42\x00")
assert p == All() and not bool(p) and repr(p) == R("sub=Sub()") and p.is_set("sub")

print("ok", count_eq, count_ne)
