"""Equivalence check for the enum member naming refactor (C19).

The protoc plugin is run in-process on hand-built descriptors holding several
thousand enums (top-level and nested) whose value names are chosen to hit the
ENUM_NAME_ prefix stripping, the keyword / identifier guard and the collision
fallback.  The member names, numbers and attached comments read back from the
generated source are compared with a reference model spelled out below, and the
generated module must compile and define valid, distinct, non-keyword members.
"""
import ast
import contextlib
import io
import itertools
import keyword
import random

import betterproto
import betterproto.plugin.compiler as plugin_compiler
from betterproto import casing
from betterproto.compile import naming
from betterproto.lib.google.protobuf import (
    DescriptorProto,
    EnumDescriptorProto,
    EnumValueDescriptorProto,
    FieldDescriptorProto,
    FieldDescriptorProtoLabel,
    FieldDescriptorProtoType,
    FileDescriptorProto,
    SourceCodeInfo,
    SourceCodeInfoLocation,
)
from betterproto.lib.google.protobuf.compiler import CodeGeneratorRequest
from betterproto.plugin.parser import generate_code

# ruff is not installed: formatting is the identity
plugin_compiler.subprocess.check_output = lambda cmd, input, encoding: input


# ------------------------------------------------------------------ reference model
def ref_member_name(name, enum_name):
    prefix = casing.snake_case(enum_name).upper() + "_"
    if name.startswith(prefix) and name[len(prefix):].strip("_"):
        name = name[len(prefix):].strip("_")
    return casing.sanitize_name(name)


def ref_member_names(names, enum_name):
    out = [ref_member_name(n, enum_name) for n in names]
    if len(set(out)) != len(out):
        out = [casing.sanitize_name(n) for n in names]
    return out


# the single-name helper is untouched public API: pin it against the model too
for enum_name in ("Foo", "E", "HTTPStatus", "foo_bar", "None", "A1", "_", "Msg_Kind"):
    p = casing.snake_case(enum_name).upper()
    for tail in ("A", "1", "", "_", "__", "None", "class", "A_", "_A_", p + "_A", "a"):
        for name in (p + "_" + tail, tail, p + tail, "X" + p + "_" + tail, p):
            if name:
                assert naming.pythonize_enum_member_name(name, enum_name) == (
                    ref_member_name(name, enum_name)
                )
assert naming.pythonize_enum_member_name("ZERO", "E") == "ZERO"
assert naming.pythonize_enum_member_name("FOO_1", "Foo") == "_1"
assert naming.pythonize_enum_member_name("FOO_None", "Foo") == "None_"
assert naming.pythonize_enum_member_name("FOO_", "Foo") == "FOO_"


# ------------------------------------------------------------------ inputs
rng = random.Random(1919)
BASES = ["Foo", "E", "HTTPStatus", "FooBar", "foo_bar", "None", "A1", "Kind", "x_Y_z", "T_"]


def candidates(enum_name):
    p = casing.snake_case(enum_name).upper()
    tails = ["A", "B", "1", "None", "True", "class", "import", "A_", "_A", "__A__",
             "a", "A_B", p + "_A", "if", "_", "__", "", "9z", "UNSPECIFIED"]
    names = []
    for t in tails:
        names += [p + "_" + t, t, p + t, p.lower() + "_" + t, "X" + p + "_" + t]
    names += [p, p + "_" + p, "ZERO", "RO", "_1", "def"]
    names = [n for n in dict.fromkeys(names) if n and (n[0].isalpha() or n[0] == "_")]
    # a proto identifier: letters, digits, underscores
    return [n for n in names if n.replace("_", "a").isalnum() and n.isascii()]


def make_enum(name, value_names, alias=False):
    values = []
    for i, n in enumerate(value_names):
        number = i if not (alias and i == len(value_names) - 1) else 0
        values.append(EnumValueDescriptorProto(name=n, number=number))
    return EnumDescriptorProto(name=name, value=values)


top_enums = []  # (proto enum name, value names)
counter = itertools.count()


# all ordered pairs of a compact candidate set for two bases (collision fallback,
# order sensitivity), then random subsets for every base
def pair_pool(enum_name):
    return candidates(enum_name)[:40]


for base in ("Foo", "HTTPStatus"):
    en = f"{base}{next(counter)}"
    pool = pair_pool(en)
    for a, b in itertools.permutations(pool[:24], 2):
        # the prefix depends on the enum name, so re-derive the pair for each enum
        name = f"{base}{next(counter)}"
        pool_n = pair_pool(name)
        top_enums.append((name, [pool_n[pool.index(a)], pool_n[pool.index(b)]]))
for base in BASES:
    for _ in range(150):
        name = f"{base}{next(counter)}"
        cand = candidates(name)
        top_enums.append((name, rng.sample(cand, rng.randint(1, 7))))
for base in BASES:  # every single candidate on its own
    name0 = f"{base}{next(counter)}"
    for i in range(len(candidates(name0))):
        name = f"{base}{next(counter)}"
        top_enums.append((name, [candidates(name)[i]]))

f = FileDescriptorProto(name="t.proto", package="pkg", syntax="proto3")
locations = []
expected = {}  # python class name -> (member names, numbers, comments)
for idx, (name, value_names) in enumerate(top_enums):
    alias = idx % 7 == 0 and len(value_names) > 1
    f.enum_type.append(make_enum(name, value_names, alias))
    comments = [None] * len(value_names)
    if idx % 25 == 0:
        j = idx % len(value_names)
        comments[j] = f"value {j} of enum {idx}"
        locations.append(
            SourceCodeInfoLocation(path=[5, idx, 2, j], leading_comments=" " + comments[j])
        )
    cls_name = naming.pythonize_class_name(name)
    assert cls_name not in expected
    numbers = [v.number for v in f.enum_type[-1].value]
    expected[cls_name] = (ref_member_names(value_names, name), numbers, comments)

# nested enums: the plugin flattens Outer.Kind to "_Outer_Kind" before naming
nested_src = []
for i in range(120):
    outer = f"Outer{i}"
    inner = rng.choice(["Kind", "E", "FooBar", "Outer"])
    flat = f"_{outer}_{inner}"
    cand = candidates(flat) + candidates(inner)
    value_names = list(dict.fromkeys(rng.sample(cand, rng.randint(1, 6))))
    msg = DescriptorProto(
        name=outer,
        field=[
            FieldDescriptorProto(
                name="x",
                number=1,
                type=FieldDescriptorProtoType.TYPE_INT32,
                label=FieldDescriptorProtoLabel.LABEL_OPTIONAL,
            )
        ],
        enum_type=[make_enum(inner, value_names)],
    )
    f.message_type.append(msg)
    cls_name = naming.pythonize_class_name(flat)
    assert cls_name not in expected
    expected[cls_name] = (
        ref_member_names(value_names, flat),
        list(range(len(value_names))),
        [None] * len(value_names),
    )
f.source_code_info = SourceCodeInfo(location=locations)

# ------------------------------------------------------------------ run the plugin
request = CodeGeneratorRequest(file_to_generate=["t.proto"], proto_file=[f])
with contextlib.redirect_stdout(io.StringIO()), contextlib.redirect_stderr(io.StringIO()):
    response = generate_code(request)
(source,) = [x.content for x in response.file if x.name == "pkg/__init__.py"]
tree = ast.parse(source)  # the generated module is valid Python
compile(tree, "pkg/__init__.py", "exec")

found = {}
for node in tree.body:
    if not isinstance(node, ast.ClassDef):
        continue
    if not any(isinstance(b, ast.Attribute) and b.attr == "Enum" for b in node.bases):
        continue
    names, numbers, comments = [], [], []
    for stmt in node.body:
        if isinstance(stmt, ast.Assign):
            (target,) = stmt.targets
            names.append(target.id)
            numbers.append(ast.literal_eval(stmt.value))
            comments.append(None)
        elif isinstance(stmt, ast.Expr) and isinstance(stmt.value, ast.Constant):
            assert names, "enum docstring without a comment in the input"
            comments[-1] = stmt.value.value
    found[node.name] = (names, numbers, comments)

assert set(found) == set(expected), set(found) ^ set(expected)
n_fallback = n_stripped = 0
for cls_name, (names, numbers, comments) in expected.items():
    assert found[cls_name] == (names, numbers, comments), (cls_name, found[cls_name], names)
    assert len(set(names)) == len(names), (cls_name, names)
    for n in names:
        assert n.isidentifier() and not keyword.iskeyword(n), (cls_name, n)
for (name, value_names) in top_enums:
    single = [ref_member_name(n, name) for n in value_names]
    n_fallback += len(set(single)) != len(single)
    n_stripped += single != [casing.sanitize_name(n) for n in value_names]
assert n_fallback > 50 and n_stripped > 500, (n_fallback, n_stripped)

# the generated enums really work
namespace = {}
exec(compile(tree, "pkg/__init__.py", "exec"), namespace)
for cls_name, (names, numbers, _) in expected.items():
    enum_cls = namespace[cls_name]
    assert issubclass(enum_cls, betterproto.Enum)
    # (names made of underscores only, or dunder-like, are not enum members)
    public = [(n, num) for n, num in zip(names, numbers) if not n.startswith("_")]
    members = [m for m in enum_cls.__members__ if not m.startswith("_")]
    assert members == [n for n, _ in public], (cls_name, members, names)
    for n, num in public:
        assert enum_cls.__members__[n].value == num
        assert enum_cls.from_string(n).value == num
print("ok:", len(expected), "enums,", n_stripped, "with stripped prefixes,",
      n_fallback, "collision fallbacks")
