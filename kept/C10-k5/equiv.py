"""Equivalence check for the dump / __len__ refactor (shared field iteration).

Exercises every branch that decides whether and how a field goes on the wire
(plain scalars, proto3 optional, oneof members with zero values, set-but-empty
sub-messages, packed / non-packed repeated fields, repeated empty messages, maps
with default entries, wrappers, Timestamp / Duration, enums, unknown fields), and
checks, for each message:
  * len(m) == len(bytes(m)) and dump(stream) writes exactly bytes(m)
  * dump(stream, SIZE_DELIMITED) writes varint(len) + bytes(m)
  * google.protobuf parses the bytes to the message built from the same values
  * delimited streams interoperate with google.protobuf.proto.*_length_prefixed
  * delimited streams are read back intact and every cut raises or returns the
    written message
plus a set of golden encodings.
"""
import io
import random
from dataclasses import dataclass
from datetime import datetime, timedelta, timezone
from typing import Dict, List, Optional

import betterproto
from betterproto import SIZE_DELIMITED

from google.protobuf import (
    descriptor_pb2,
    descriptor_pool,
    duration_pb2,
    message_factory,
    proto,
    timestamp_pb2,
    wrappers_pb2,
)


# --------------------------------------------------------------------------
# betterproto side
# --------------------------------------------------------------------------
class Color(betterproto.Enum):
    ZERO = 0
    RED = 1
    NEG = -2


@dataclass(eq=False, repr=False)
class Inner(betterproto.Message):
    v: int = betterproto.int32_field(1)
    s: str = betterproto.string_field(2)


@dataclass(eq=False, repr=False)
class Big(betterproto.Message):
    i32: int = betterproto.int32_field(1)
    s64: int = betterproto.sint64_field(2)
    s: str = betterproto.string_field(3)
    b: bytes = betterproto.bytes_field(4)
    flag: bool = betterproto.bool_field(5)
    d: float = betterproto.double_field(6)
    f32: int = betterproto.fixed32_field(7)
    inner: Inner = betterproto.message_field(8)
    ri: List[int] = betterproto.int32_field(9)
    rs: List[str] = betterproto.string_field(10)
    rm: List[Inner] = betterproto.message_field(11)
    rd: List[float] = betterproto.double_field(12)
    rsi: List[int] = betterproto.sint32_field(13)
    m1: Dict[str, int] = betterproto.map_field(
        14, betterproto.TYPE_STRING, betterproto.TYPE_INT32
    )
    m2: Dict[int, Inner] = betterproto.map_field(
        15, betterproto.TYPE_INT32, betterproto.TYPE_MESSAGE
    )
    o_s: str = betterproto.string_field(16, group="choice")
    o_i: int = betterproto.int32_field(17, group="choice")
    o_m: Inner = betterproto.message_field(18, group="choice")
    o_b: bytes = betterproto.bytes_field(19, group="choice")
    opt_i: Optional[int] = betterproto.int32_field(20, optional=True)
    opt_s: Optional[str] = betterproto.string_field(21, optional=True)
    opt_m: Optional[Inner] = betterproto.message_field(22, optional=True)
    w_i: Optional[int] = betterproto.message_field(23, wraps=betterproto.TYPE_INT32)
    w_s: Optional[str] = betterproto.message_field(24, wraps=betterproto.TYPE_STRING)
    ts: datetime = betterproto.message_field(25)
    du: timedelta = betterproto.message_field(26)
    color: Color = betterproto.enum_field(27)
    colors: List[Color] = betterproto.enum_field(28)


@dataclass(eq=False, repr=False)
class Empty(betterproto.Message):
    pass


@dataclass(eq=False, repr=False)
class Small(betterproto.Message):
    """An older revision of Big: only a few of its fields."""

    i32: int = betterproto.int32_field(1)
    s: str = betterproto.string_field(3)
    rm: List[Inner] = betterproto.message_field(11)


# --------------------------------------------------------------------------
# google.protobuf side (same schema, built by hand)
# --------------------------------------------------------------------------
F = descriptor_pb2.FieldDescriptorProto


def _build_pool():
    pool = descriptor_pool.DescriptorPool()
    for mod in (timestamp_pb2, duration_pb2, wrappers_pb2):
        fdp = descriptor_pb2.FileDescriptorProto()
        mod.DESCRIPTOR.CopyToProto(fdp)
        pool.Add(fdp)

    fd = descriptor_pb2.FileDescriptorProto()
    fd.name = "c10_equiv.proto"
    fd.package = "c10"
    fd.syntax = "proto3"
    fd.dependency.extend(
        [
            "google/protobuf/timestamp.proto",
            "google/protobuf/duration.proto",
            "google/protobuf/wrappers.proto",
        ]
    )
    en = fd.enum_type.add()
    en.name = "Color"
    for n, v in (("ZERO", 0), ("RED", 1), ("NEG", -2)):
        ev = en.value.add()
        ev.name, ev.number = n, v

    inner = fd.message_type.add()
    inner.name = "Inner"
    f = inner.field.add()
    f.name, f.number, f.type, f.label = "v", 1, F.TYPE_INT32, F.LABEL_OPTIONAL
    f = inner.field.add()
    f.name, f.number, f.type, f.label = "s", 2, F.TYPE_STRING, F.LABEL_OPTIONAL

    big = fd.message_type.add()
    big.name = "Big"

    def add(name, number, typ, label=F.LABEL_OPTIONAL, type_name=None, **kw):
        f = big.field.add()
        f.name, f.number, f.type, f.label = name, number, typ, label
        if type_name:
            f.type_name = type_name
        for k, v in kw.items():
            setattr(f, k, v)
        return f

    R = F.LABEL_REPEATED
    add("i32", 1, F.TYPE_INT32)
    add("s64", 2, F.TYPE_SINT64)
    add("s", 3, F.TYPE_STRING)
    add("b", 4, F.TYPE_BYTES)
    add("flag", 5, F.TYPE_BOOL)
    add("d", 6, F.TYPE_DOUBLE)
    add("f32", 7, F.TYPE_FIXED32)
    add("inner", 8, F.TYPE_MESSAGE, type_name=".c10.Inner")
    add("ri", 9, F.TYPE_INT32, R)
    add("rs", 10, F.TYPE_STRING, R)
    add("rm", 11, F.TYPE_MESSAGE, R, ".c10.Inner")
    add("rd", 12, F.TYPE_DOUBLE, R)
    add("rsi", 13, F.TYPE_SINT32, R)

    e1 = big.nested_type.add()
    e1.name = "M1Entry"
    e1.options.map_entry = True
    f = e1.field.add()
    f.name, f.number, f.type, f.label = "key", 1, F.TYPE_STRING, F.LABEL_OPTIONAL
    f = e1.field.add()
    f.name, f.number, f.type, f.label = "value", 2, F.TYPE_INT32, F.LABEL_OPTIONAL
    e2 = big.nested_type.add()
    e2.name = "M2Entry"
    e2.options.map_entry = True
    f = e2.field.add()
    f.name, f.number, f.type, f.label = "key", 1, F.TYPE_INT32, F.LABEL_OPTIONAL
    f = e2.field.add()
    f.name, f.number, f.type, f.label = "value", 2, F.TYPE_MESSAGE, F.LABEL_OPTIONAL
    f.type_name = ".c10.Inner"
    add("m1", 14, F.TYPE_MESSAGE, R, ".c10.Big.M1Entry")
    add("m2", 15, F.TYPE_MESSAGE, R, ".c10.Big.M2Entry")

    big.oneof_decl.add().name = "choice"  # index 0
    add("o_s", 16, F.TYPE_STRING, oneof_index=0)
    add("o_i", 17, F.TYPE_INT32, oneof_index=0)
    add("o_m", 18, F.TYPE_MESSAGE, type_name=".c10.Inner", oneof_index=0)
    add("o_b", 19, F.TYPE_BYTES, oneof_index=0)
    big.oneof_decl.add().name = "_opt_i"
    big.oneof_decl.add().name = "_opt_s"
    big.oneof_decl.add().name = "_opt_m"
    add("opt_i", 20, F.TYPE_INT32, oneof_index=1, proto3_optional=True)
    add("opt_s", 21, F.TYPE_STRING, oneof_index=2, proto3_optional=True)
    add(
        "opt_m",
        22,
        F.TYPE_MESSAGE,
        type_name=".c10.Inner",
        oneof_index=3,
        proto3_optional=True,
    )
    add("w_i", 23, F.TYPE_MESSAGE, type_name=".google.protobuf.Int32Value")
    add("w_s", 24, F.TYPE_MESSAGE, type_name=".google.protobuf.StringValue")
    add("ts", 25, F.TYPE_MESSAGE, type_name=".google.protobuf.Timestamp")
    add("du", 26, F.TYPE_MESSAGE, type_name=".google.protobuf.Duration")
    add("color", 27, F.TYPE_ENUM, type_name=".c10.Color")
    add("colors", 28, F.TYPE_ENUM, R, ".c10.Color")

    empty = fd.message_type.add()
    empty.name = "Empty"
    pool.Add(fd)
    return pool


POOL = _build_pool()
GBig = message_factory.GetMessageClass(POOL.FindMessageTypeByName("c10.Big"))
GInner = message_factory.GetMessageClass(POOL.FindMessageTypeByName("c10.Inner"))
GEmpty = message_factory.GetMessageClass(POOL.FindMessageTypeByName("c10.Empty"))

EPOCH = datetime(1970, 1, 1, tzinfo=timezone.utc)


# --------------------------------------------------------------------------
# build the same message on both sides from a plain description
# --------------------------------------------------------------------------
def bp_inner(spec):
    """spec: None -> Inner() ; dict -> Inner(**dict)"""
    return Inner(**(spec or {}))


def build(spec):
    """spec: dict field -> plain value. Returns (betterproto Big, google Big)."""
    bp = Big()
    g = GBig()
    for name, val in spec.items():
        if name in ("inner", "o_m", "opt_m"):
            setattr(bp, name, bp_inner(val))
            if name != "inner" or val is not None:
                # betterproto: a plain field assigned a pristine Inner() stays unset
                getattr(g, name).SetInParent()
            for k, v in (val or {}).items():
                setattr(getattr(g, name), k, v)
        elif name == "rm":
            bp.rm = [bp_inner(x) for x in val]
            for x in val:
                g.rm.add(**(x or {}))
        elif name == "m2":
            bp.m2 = {k: bp_inner(x) for k, x in val.items()}
            for k, x in val.items():
                g.m2[k].SetInParent()
                for kk, vv in (x or {}).items():
                    setattr(g.m2[k], kk, vv)
        elif name == "m1":
            bp.m1 = dict(val)
            for k, v in val.items():
                g.m1[k] = v
        elif name in ("ri", "rs", "rd", "rsi"):
            setattr(bp, name, list(val))
            getattr(g, name).extend(val)
        elif name == "colors":
            bp.colors = [Color.try_value(x) for x in val]
            g.colors.extend(val)
        elif name == "color":
            bp.color = Color.try_value(val)
            g.color = val
        elif name in ("w_i", "w_s"):
            setattr(bp, name, val)
            getattr(g, name).value = val
            getattr(g, name).SetInParent()
        elif name == "ts":
            bp.ts = val
            delta = val - EPOCH
            if delta:
                # (betterproto does not emit the default datetime / timedelta)
                g.ts.seconds = delta.days * 86400 + delta.seconds
                g.ts.nanos = delta.microseconds * 1000
        elif name == "du":
            bp.du = val
            if val:
                g.du.FromTimedelta(val)
        else:
            setattr(bp, name, val)
            setattr(g, name, val)
    return bp, g


def check_one(bp, g=None):
    data = bytes(bp)
    assert len(bp) == len(data), (len(bp), len(data), bp)
    s = io.BytesIO()
    bp.dump(s)
    assert s.getvalue() == data
    s = io.BytesIO()
    bp.dump(s, SIZE_DELIMITED)
    assert s.getvalue() == betterproto.encode_varint(len(data)) + data
    # round trip through betterproto itself
    back = type(bp)().parse(data)
    assert back == bp, (back, bp)
    assert bytes(back) == data
    if g is not None:
        parsed = type(g)()
        parsed.ParseFromString(data)
        assert parsed == g, (parsed, g)
        # and the other direction
        assert type(bp)().parse(g.SerializeToString()) == bp
    return data


# --------------------------------------------------------------------------
# 1. golden encodings of the delicate cases
# --------------------------------------------------------------------------
def golden():
    cases = []
    cases.append((Big(), ""))
    cases.append((Big(o_s=""), "8201 00"))
    cases.append((Big(o_i=0), "8801 00"))
    cases.append((Big(o_b=b""), "9a01 00"))
    cases.append((Big(o_m=Inner()), "9201 00"))
    cases.append((Big(opt_i=0), "a001 00"))
    cases.append((Big(opt_s=""), "aa01 00"))
    cases.append((Big(opt_m=Inner()), "b201 00"))
    cases.append((Big(inner=Inner()), ""))
    cases.append((Big(inner=Inner(v=0, s="")), "42 00"))
    cases.append((Big(rm=[Inner(), Inner(v=1), Inner()]), "5a00 5a02 0801 5a00"))
    cases.append((Big(rs=["", "a", ""]), "5200 520161 5200"))
    cases.append((Big(m1={"": 0}), "7202 1000"))
    cases.append((Big(m1={"a": 0, "": 3}), "7205 0a0161 1000 7202 1003"))
    cases.append((Big(m2={0: Inner()}), "7a02 0800"))
    cases.append((Big(m2={1: Inner(v=2)}), "7a06 0801 1202 0802"))
    cases.append((Big(w_i=0), "ba01 00"))
    cases.append((Big(w_s=""), "c201 00"))
    cases.append((Big(w_i=5), "ba01 02 0805"))
    cases.append((Big(ri=[0]), "4a01 00"))
    cases.append((Big(ri=[-1]), "4a0a ffffffffffffffffff01"))
    cases.append((Big(rsi=[-1, 1, -64, 64]), "6a05 01 02 7f 8001"))
    cases.append((Big(colors=[Color.ZERO]), "e201 01 00"))
    cases.append((Big(color=Color.NEG), "d801 feffffffffffffffff01"))
    cases.append((Big(ts=EPOCH), ""))
    cases.append((Big(du=timedelta(0)), ""))
    cases.append((Big(du=timedelta(seconds=1)), "d201 02 0801"))
    cases.append((Big(flag=True, i32=-1), "08 ffffffffffffffffff01 2801"))
    cases.append((Empty(), ""))
    for msg, hexs in cases:
        want = bytes.fromhex(hexs.replace(" ", ""))
        assert bytes(msg) == want, (msg, bytes(msg).hex(), hexs)
        assert len(msg) == len(want), (msg, len(msg))
        check_one(msg)

    # oneof switched around: only the last member set is emitted
    m = Big(o_s="x")
    m.o_i = 0
    assert bytes(m) == bytes.fromhex("880100") and len(m) == 3
    m.o_s = ""
    assert bytes(m) == bytes.fromhex("820100") and len(m) == 3
    # sub-message filled in place
    m = Big()
    m.inner.v = 3
    assert bytes(m) == bytes.fromhex("42020803") and len(m) == 4
    m = Big()
    m.ri.append(7)
    m.m1["k"] = 1
    assert bytes(m) == bytes.fromhex("4a0107" "72050a016b1001") and len(m) == 10
    # unknown fields are appended verbatim
    u = Small().parse(bytes(Big(i32=1, s="q", d=2.0, o_i=0, rm=[Inner()])))
    assert u._unknown_fields == bytes.fromhex("31 0000000000000040 880100".replace(" ", ""))
    assert bytes(u) == bytes.fromhex("0801 1a0171 5a00 31 0000000000000040 880100".replace(" ", ""))
    assert len(u) == len(bytes(u))
    e = Empty().parse(bytes(Big(i32=1, o_s="")))
    assert bytes(e) == bytes.fromhex("0801820100") and len(e) == 5


# --------------------------------------------------------------------------
# 2. systematic + random comparison with google.protobuf
# --------------------------------------------------------------------------
INTS32 = [0, 1, -1, 127, 128, 16383, 16384, 2**31 - 1, -(2**31)]
INTS64 = [0, 1, -1, 63, 64, -64, -65, 8191, 8192, -8192, -8193, 2**63 - 1, -(2**63)]
STRS = ["", "a", "éè", "\U0001f600", "x" * 127, "y" * 128, "z" * 300]
BYTESV = [b"", b"\x00", b"\xff" * 127, b"\x01" * 128]
DOUBLES = [0.0, 1.5, -2.25, 1e300, float("inf")]
INNERS = [None, {"v": 0}, {"v": 5}, {"s": "t"}, {"v": -1, "s": "uu"}, {"s": ""}]
DATES = [
    EPOCH,
    datetime(2020, 2, 29, 12, 30, 15, 250000, tzinfo=timezone.utc),
    datetime(1969, 12, 31, 23, 59, 59, tzinfo=timezone.utc),
]
DELTAS = [timedelta(0), timedelta(seconds=1), timedelta(days=-1, microseconds=5), timedelta(milliseconds=1500)]
COLORS = [0, 1, -2, 7]


def systematic_specs():
    for v in INTS32:
        yield {"i32": v}
        yield {"o_i": v}
        yield {"opt_i": v}
        yield {"w_i": v}
        yield {"ri": [v]}
        yield {"rsi": [v, v]}
        yield {"m1": {"k": v}}
        yield {"m2": {v: None}}
        yield {"f32": v & 0xFFFFFFFF}
    for v in INTS64:
        yield {"s64": v}
    for v in STRS:
        yield {"s": v}
        yield {"o_s": v}
        yield {"opt_s": v}
        yield {"w_s": v}
        yield {"rs": [v, v]}
        yield {"m1": {v: 1}}
    for v in BYTESV:
        yield {"b": v}
        yield {"o_b": v}
    for v in DOUBLES:
        yield {"d": v}
        yield {"rd": [v, 1.0]}
    for v in INNERS:
        yield {"inner": v}
        yield {"o_m": v}
        yield {"opt_m": v}
        yield {"rm": [v]}
        yield {"rm": [v, None, v]}
        yield {"m2": {3: v}}
    for v in DATES:
        yield {"ts": v}
    for v in DELTAS:
        yield {"du": v}
    for v in COLORS:
        yield {"color": v}
        yield {"colors": [v, 0, v]}
    yield {"flag": True}
    yield {"flag": False}
    yield {"ri": [], "rs": [], "rm": [], "m1": {}, "m2": {}}


def random_spec(rng):
    spec = {}
    pick = rng.choice
    gens = {
        "i32": lambda: pick(INTS32),
        "s64": lambda: pick(INTS64),
        "s": lambda: pick(STRS),
        "b": lambda: pick(BYTESV),
        "flag": lambda: pick([True, False]),
        "d": lambda: pick(DOUBLES),
        "f32": lambda: pick([0, 1, 2**32 - 1]),
        "inner": lambda: pick(INNERS),
        "ri": lambda: [pick(INTS32) for _ in range(rng.randrange(4))],
        "rs": lambda: [pick(STRS[:4]) for _ in range(rng.randrange(4))],
        "rm": lambda: [pick(INNERS) for _ in range(rng.randrange(4))],
        "rd": lambda: [pick(DOUBLES) for _ in range(rng.randrange(3))],
        "rsi": lambda: [pick(INTS32) for _ in range(rng.randrange(4))],
        "m1": lambda: {pick(STRS[:4]): pick(INTS32) for _ in range(rng.randrange(3))},
        "m2": lambda: {pick(INTS32): pick(INNERS) for _ in range(rng.randrange(3))},
        "opt_i": lambda: pick(INTS32),
        "opt_s": lambda: pick(STRS[:4]),
        "opt_m": lambda: pick(INNERS),
        "w_i": lambda: pick(INTS32),
        "w_s": lambda: pick(STRS[:4]),
        "ts": lambda: pick(DATES),
        "du": lambda: pick(DELTAS),
        "color": lambda: pick(COLORS),
        "colors": lambda: [pick(COLORS) for _ in range(rng.randrange(3))],
    }
    for name in rng.sample(sorted(gens), rng.randrange(0, 9)):
        spec[name] = gens[name]()
    if rng.random() < 0.5:
        member = pick(["o_s", "o_i", "o_m", "o_b"])
        spec[member] = {
            "o_s": lambda: pick(STRS[:4]),
            "o_i": lambda: pick(INTS32),
            "o_m": lambda: pick(INNERS),
            "o_b": lambda: pick(BYTESV[:2]),
        }[member]()
    return spec


def compare_with_google():
    rng = random.Random(1010)
    specs = list(systematic_specs()) + [random_spec(rng) for _ in range(400)]
    built = []
    for spec in specs:
        bp, g = build(spec)
        check_one(bp, g)
        built.append((bp, g))
    return built


# --------------------------------------------------------------------------
# 3. delimited streams
# --------------------------------------------------------------------------
def streams(built):
    rng = random.Random(77)
    for round_ in range(40):
        seq = [rng.choice(built) for _ in range(rng.randrange(1, 7))]
        # sprinkle empty messages of another type
        items = []
        for bp, g in seq:
            items.append((bp, g))
            if rng.random() < 0.4:
                items.append((Empty(), GEmpty()))
        out = io.BytesIO()
        ends = []
        for bp, _ in items:
            bp.dump(out, SIZE_DELIMITED)
            ends.append(out.tell())
        data = out.getvalue()

        # what google writes for the same sequence has the same framing
        gout = io.BytesIO()
        for _, g in items:
            proto.serialize_length_prefixed(g, gout)
        gdata = gout.getvalue()

        # google reads what betterproto wrote
        s = io.BytesIO(data)
        for (bp, g), end in zip(items, ends):
            got = proto.parse_length_prefixed(type(g), s)
            assert got == g
            assert s.tell() == end
        # betterproto reads what google wrote
        s = io.BytesIO(gdata)
        for bp, g in items:
            got = type(bp)().load(s, SIZE_DELIMITED)
            assert got == bp
        assert s.read() == b""
        # betterproto reads what it wrote, also with an older reader
        for reader_of in (lambda m: type(m), lambda m: Small if isinstance(m, Big) else Empty):
            s = io.BytesIO(data)
            for (bp, g), end in zip(items, ends):
                cls = reader_of(bp)
                got = cls().load(s, SIZE_DELIMITED)
                assert got == cls().parse(bytes(bp))
                assert bytes(got) == bytes(cls().parse(bytes(bp)))
                assert len(got) == len(bytes(got))
                assert s.tell() == end
            assert s.read() == b""

        # cuts (a sample of cut points for long streams)
        cuts = range(len(data) + 1)
        if len(data) > 300:
            cuts = sorted(set(rng.sample(range(len(data) + 1), 250)) | set(ends) | {e - 1 for e in ends} | {0})
        for cut in cuts:
            s = io.BytesIO(data[:cut])
            for (bp, g), end in zip(items, ends):
                try:
                    got = type(bp)().load(s, SIZE_DELIMITED)
                except (EOFError, ValueError):
                    assert cut < end
                    break
                assert cut >= end
                assert got == bp and s.tell() == end


golden()
BUILT = compare_with_google()
streams(BUILT)
print("ok", len(BUILT), "messages")
