"""Equivalence check for the C20 refactor of Message._get_field_default_gen (the
default generator of every field, the enum default among them, is now chosen through
a table keyed by the annotation's __origin__ instead of an if chain).

Checks
  * which default generator every kind of annotation gets (scalars, enums with and
    without a zero member, messages, datetime/timedelta, wrappers, typing.Optional,
    PEP 604 ``X | None``, List/Dict, oneof members, string annotations),
  * what an unset field of each kind reads as, and that reading does not set it,
  * enum fields in singular / repeated / map-value / optional / oneof position through
    bytes/parse and to_dict/from_dict for defined and undefined numbers, with
    include_default_values on and off, cross-checked against google.protobuf built
    from an equivalent dynamic descriptor.
"""
import copy
import json
import random
import sys
from dataclasses import dataclass
from datetime import datetime, timedelta, timezone
from typing import Dict, List, Optional

import betterproto
from betterproto.enum import EnumType


INT32_MIN, INT32_MAX = -(2**31), 2**31 - 1
rng = random.Random(2020)


class Color(betterproto.Enum):
    RED = 0
    GREEN = 1
    VERT = 1
    BLUE = -5


class NoZero(betterproto.Enum):
    FIVE = 5
    MINUS_TWO = -2


@dataclass(eq=False, repr=False)
class Child(betterproto.Message):
    n: int = betterproto.int32_field(1)
    c: Color = betterproto.enum_field(2)


@dataclass(eq=False, repr=False)
class Everything(betterproto.Message):
    f_double: float = betterproto.double_field(1)
    f_float: float = betterproto.float_field(2)
    f_int32: int = betterproto.int32_field(3)
    f_int64: int = betterproto.int64_field(4)
    f_uint32: int = betterproto.uint32_field(5)
    f_uint64: int = betterproto.uint64_field(6)
    f_sint32: int = betterproto.sint32_field(7)
    f_sint64: int = betterproto.sint64_field(8)
    f_fixed32: int = betterproto.fixed32_field(9)
    f_fixed64: int = betterproto.fixed64_field(10)
    f_sfixed32: int = betterproto.sfixed32_field(11)
    f_sfixed64: int = betterproto.sfixed64_field(12)
    f_bool: bool = betterproto.bool_field(13)
    f_string: str = betterproto.string_field(14)
    f_bytes: bytes = betterproto.bytes_field(15)
    f_enum: Color = betterproto.enum_field(16)
    f_enum_nz: NoZero = betterproto.enum_field(17)
    f_msg: Child = betterproto.message_field(18)
    f_ts: datetime = betterproto.message_field(19)
    f_dur: timedelta = betterproto.message_field(20)
    f_wrap: Optional[int] = betterproto.message_field(21, wraps=betterproto.TYPE_INT32)
    f_opt_enum: Optional[Color] = betterproto.enum_field(22, optional=True)
    f_opt_enum_nz: Optional[NoZero] = betterproto.enum_field(23, optional=True)
    f_opt_int: Optional[int] = betterproto.int32_field(24, optional=True)
    f_opt_msg: Optional[Child] = betterproto.message_field(25, optional=True)
    r_enum: List[Color] = betterproto.enum_field(26)
    r_enum_nz: List[NoZero] = betterproto.enum_field(27)
    r_int: List[int] = betterproto.int32_field(28)
    r_msg: List[Child] = betterproto.message_field(29)
    m_enum: Dict[str, Color] = betterproto.map_field(
        30, betterproto.TYPE_STRING, betterproto.TYPE_ENUM
    )
    m_enum_nz: Dict[int, NoZero] = betterproto.map_field(
        31, betterproto.TYPE_INT32, betterproto.TYPE_ENUM
    )
    m_msg: Dict[str, Child] = betterproto.map_field(
        32, betterproto.TYPE_STRING, betterproto.TYPE_MESSAGE
    )
    o_enum: Color = betterproto.enum_field(33, group="g")
    o_enum_nz: NoZero = betterproto.enum_field(34, group="g")
    o_int: int = betterproto.int32_field(35, group="g")
    o_msg: Child = betterproto.message_field(36, group="g")
    o_str: str = betterproto.string_field(37, group="g")


@dataclass(eq=False, repr=False)
class StringAnnotated(betterproto.Message):
    """Annotations as strings, the way generated code has them."""

    e: "Color" = betterproto.enum_field(1)
    oe: "Optional[Color]" = betterproto.enum_field(2, optional=True)
    re: "List[Color]" = betterproto.enum_field(3)
    me: "Dict[str, NoZero]" = betterproto.map_field(
        4, betterproto.TYPE_STRING, betterproto.TYPE_ENUM
    )
    child: "Child" = betterproto.message_field(5)
    ts: "datetime" = betterproto.message_field(6)
    nz: "NoZero" = betterproto.enum_field(7, group="x")
    s: "str" = betterproto.string_field(8, group="x")


@dataclass(eq=False, repr=False)
class Pep604(betterproto.Message):
    oe: "Color | None" = betterproto.enum_field(1, optional=True)
    oi: "int | None" = betterproto.int32_field(2, optional=True)
    onz: "NoZero | None" = betterproto.enum_field(3, optional=True)
    w: "str | None" = betterproto.message_field(4, wraps=betterproto.TYPE_STRING)
    om: "Child | None" = betterproto.message_field(5, optional=True)


NoneType = type(None)
from betterproto import datetime_default_gen  # noqa: E402


def gens(cls):
    return cls._betterproto.default_gen


def check_generators():
    g = gens(Everything)
    for name in ("f_double", "f_float"):
        assert g[name] is float and g[name]() == 0.0
    for name in (
        "f_int32", "f_int64", "f_uint32", "f_uint64", "f_sint32", "f_sint64",
        "f_fixed32", "f_fixed64", "f_sfixed32", "f_sfixed64", "o_int",
    ):
        assert g[name] is int and g[name]() == 0
    assert g["f_bool"] is bool and g["f_string"] is str and g["f_bytes"] is bytes
    assert g["o_str"] is str
    # enums: the open lookup, whose default argument is the number 0
    for name, enum_cls in (
        ("f_enum", Color), ("o_enum", Color), ("f_enum_nz", NoZero), ("o_enum_nz", NoZero),
    ):
        gen = g[name]
        assert gen == enum_cls.try_value and gen.__self__ is enum_cls
        value = gen()
        assert type(value) is enum_cls and value == 0 and int(value) == 0
        assert gen(1) == 1 and gen(-7) == -7
    assert g["f_enum"]() is Color.RED is g["o_enum"]()
    assert g["f_enum_nz"]().name is None and g["o_enum_nz"]().name is None
    assert g["f_enum_nz"]() is not g["f_enum_nz"]()
    assert g["f_msg"] is Child and g["o_msg"] is Child
    assert g["f_ts"] is datetime_default_gen
    assert g["f_ts"]() == datetime(1970, 1, 1, tzinfo=timezone.utc)
    assert g["f_dur"] is timedelta and g["f_dur"]() == timedelta(0)
    for name in ("f_wrap", "f_opt_enum", "f_opt_enum_nz", "f_opt_int", "f_opt_msg"):
        assert g[name] is NoneType and g[name]() is None
    for name in ("r_enum", "r_enum_nz", "r_int", "r_msg"):
        assert g[name] is list
    for name in ("m_enum", "m_enum_nz", "m_msg"):
        assert g[name] is dict
    assert set(g) == {f for f in Everything.__dataclass_fields__}

    s = gens(StringAnnotated)
    assert s["e"] == Color.try_value and s["nz"] == NoZero.try_value
    assert s["oe"] is NoneType and s["re"] is list and s["me"] is dict
    assert s["child"] is Child and s["ts"] is datetime_default_gen and s["s"] is str

    if sys.version_info >= (3, 10):
        p = gens(Pep604)
        assert all(p[n] is NoneType for n in ("oe", "oi", "onz", "w", "om")), p

    # the map entry classes have enum defaults as well
    entry = Everything._betterproto.cls_by_field["m_enum_nz"]
    assert gens(entry)["value"] == NoZero.try_value and gens(entry)["key"] is int
    assert Everything._betterproto.cls_by_field["m_enum_nz.value"] is NoZero
    entry = Everything._betterproto.cls_by_field["m_enum"]
    assert gens(entry)["value"] == Color.try_value and gens(entry)["key"] is str


def check_unset_reads():
    m = Everything()
    assert m.f_enum is Color.RED and m.f_enum_nz == 0 and m.f_enum_nz.name is None
    assert type(m.f_enum_nz) is NoZero
    assert m.f_opt_enum is None and m.f_opt_enum_nz is None and m.f_wrap is None
    assert m.r_enum == [] and m.m_enum == {} and m.r_enum_nz == [] and m.m_enum_nz == {}
    assert m.f_ts == datetime(1970, 1, 1, tzinfo=timezone.utc)
    assert m.f_dur == timedelta(0) and m.f_msg == Child()
    assert m.f_int32 == 0 and m.f_string == "" and m.f_bytes == b"" and m.f_bool is False
    for name in ("o_enum", "o_enum_nz", "o_int", "o_msg", "o_str"):
        try:
            getattr(m, name)
        except AttributeError:
            pass
        else:
            raise AssertionError("unset oneof member readable")
    assert betterproto.which_one_of(m, "g") == ("", None)
    assert bytes(m) == b"" and m.to_dict() == {}
    assert not betterproto.serialized_on_wire(m.f_msg)
    d = m.to_dict(include_default_values=True)
    assert d["fEnum"] == "RED" and d["fEnumNz"] == 0
    assert d["fOptEnum"] is None and d["rEnum"] == [] and d["mEnum"] == {}
    assert Everything().from_dict(d) == m
    pd = m.to_pydict(include_default_values=True)
    assert pd["fEnum"] is Color.RED and pd["fEnumNz"] == 0
    assert Everything() == Everything() and copy.deepcopy(m) == m

    # a zero in a oneof / optional position is a value, not "unset"
    for name, enum_cls in (("o_enum", Color), ("o_enum_nz", NoZero),
                           ("f_opt_enum", Color), ("f_opt_enum_nz", NoZero)):
        for zero in (0, enum_cls.try_value(0)):
            msg = Everything(**{name: zero})
            data = bytes(msg)
            number = Everything._betterproto.meta_by_field_name[name].number
            assert data == betterproto.encode_varint(number << 3) + b"\x00"
            back = Everything().parse(data)
            assert getattr(back, name) == 0 and type(getattr(back, name)) is enum_cls
            if name.startswith("o_"):
                assert betterproto.which_one_of(back, "g")[0] == name
            d = msg.to_dict()
            key = betterproto.Casing.CAMEL(name)
            assert d == {key: "RED" if enum_cls is Color else 0}
            assert bytes(Everything().from_dict(d)) == data
    # ... while in a plain singular position it is the default and not sent
    for name in ("f_enum", "f_enum_nz"):
        msg = Everything(**{name: 0})
        assert bytes(msg) == b"" and msg.to_dict() == {}

    s = StringAnnotated()
    assert s.e is Color.RED and s.oe is None and s.re == [] and s.me == {}
    assert bytes(s) == b""
    s.nz = 0
    assert bytes(s) == b"\x38\x00"
    assert betterproto.which_one_of(StringAnnotated().parse(b"\x38\x00"), "x") == (
        "nz", 0)

    if sys.version_info >= (3, 10):
        p = Pep604()
        assert p.oe is None and p.onz is None and p.w is None and bytes(p) == b""
        for n in (0, 1, -5, 9, -2, INT32_MIN, INT32_MAX):
            q = Pep604(oe=n, onz=n)
            back = Pep604().parse(bytes(q))
            assert back.oe == n and back.onz == n
            assert type(back.oe) is Color and type(back.onz) is NoZero
            assert Pep604().from_dict(q.to_dict()).to_dict() == q.to_dict()


# ---------------------------------------------------------------------------
# random enum definitions in every position, cross-checked with google.protobuf
# ---------------------------------------------------------------------------
from google.protobuf import descriptor_pb2, descriptor_pool, json_format, message_factory

FDP = descriptor_pb2.FieldDescriptorProto
_file_no = [0]
_pb_checks = [0]


def make_enum(name, members):
    ns = dict(members)
    ns["__module__"] = __name__
    ns["__qualname__"] = name
    E = EnumType(name, (betterproto.Enum,), ns)
    globals()[name] = E
    return E


def random_members(i):
    count = rng.randint(1, 7)
    pool = [0, 1, 2, 3, -1, -2, 5, 100, INT32_MIN, INT32_MAX]
    pool += [rng.randint(INT32_MIN, INT32_MAX) for _ in range(3)]
    members = []
    for k in range(count):
        if members and rng.random() < 0.3:
            number = rng.choice(members)[1]
        else:
            number = rng.choice(pool)
        members.append((f"M{i}_{k}", number))
    if rng.random() < 0.6 and all(n != 0 for _, n in members):
        members.insert(0, (f"M{i}_ZERO", 0))
    return members


def make_message(E):
    @dataclass(eq=False, repr=False)
    class Msg(betterproto.Message):
        single: E = betterproto.enum_field(1)
        many: List[E] = betterproto.enum_field(2)
        by_key: Dict[str, E] = betterproto.map_field(
            3, betterproto.TYPE_STRING, betterproto.TYPE_ENUM
        )
        opt: Optional[E] = betterproto.enum_field(4, optional=True)
        a: E = betterproto.enum_field(5, group="g")
        b: int = betterproto.int32_field(6, group="g")

    return Msg


def make_pb_message(members):
    _file_no[0] += 1
    pkg = f"c20k2_{_file_no[0]}"
    f = descriptor_pb2.FileDescriptorProto(
        name=f"{pkg}.proto", package=pkg, syntax="proto3"
    )
    e = f.enum_type.add(name="E")
    numbers = [n for _, n in members]
    if len(set(numbers)) != len(numbers):
        e.options.allow_alias = True
    for name, number in members:
        e.value.add(name=name, number=number)
    m = f.message_type.add(name="Msg")
    tn = f".{pkg}.E"
    m.field.add(name="single", number=1, type=FDP.TYPE_ENUM, type_name=tn,
                label=FDP.LABEL_OPTIONAL)
    m.field.add(name="many", number=2, type=FDP.TYPE_ENUM, type_name=tn,
                label=FDP.LABEL_REPEATED)
    entry = m.nested_type.add(name="ByKeyEntry")
    entry.options.map_entry = True
    entry.field.add(name="key", number=1, type=FDP.TYPE_STRING, label=FDP.LABEL_OPTIONAL)
    entry.field.add(name="value", number=2, type=FDP.TYPE_ENUM, type_name=tn,
                    label=FDP.LABEL_OPTIONAL)
    m.field.add(name="by_key", number=3, type=FDP.TYPE_MESSAGE,
                type_name=f".{pkg}.Msg.ByKeyEntry", label=FDP.LABEL_REPEATED)
    m.oneof_decl.add(name="g")
    m.oneof_decl.add(name="_opt")
    m.field.add(name="opt", number=4, type=FDP.TYPE_ENUM, type_name=tn,
                label=FDP.LABEL_OPTIONAL, oneof_index=1, proto3_optional=True)
    m.field.add(name="a", number=5, type=FDP.TYPE_ENUM, type_name=tn,
                label=FDP.LABEL_OPTIONAL, oneof_index=0)
    m.field.add(name="b", number=6, type=FDP.TYPE_INT32,
                label=FDP.LABEL_OPTIONAL, oneof_index=0)
    pool = descriptor_pool.DescriptorPool()
    pool.Add(f)
    return message_factory.GetMessageClass(pool.FindMessageTypeByName(f"{pkg}.Msg"))


def check_messages(E, members):
    Msg = make_message(E)
    defined = {n for _, n in members}
    first_name = {}
    for name, number in members:
        first_name.setdefault(number, name)
    Pb = make_pb_message(members) if members[0][1] == 0 else None

    g = gens(Msg)
    assert g["single"] == E.try_value and g["a"] == E.try_value
    assert g["many"] is list and g["by_key"] is dict and g["opt"] is NoneType
    assert g["b"] is int

    empty = Msg()
    assert empty.single == 0 and type(empty.single) is E
    assert (empty.single is E(0)) if 0 in defined else (empty.single.name is None)
    assert empty.opt is None and empty.many == [] and empty.by_key == {}
    assert bytes(empty) == b"" and empty.to_dict() == {}
    full = empty.to_dict(include_default_values=True)
    assert full == {"single": first_name.get(0, 0), "many": [], "byKey": {}, "opt": None,
                    "a": first_name.get(0, 0), "b": 0}
    if Pb is not None:
        assert Pb().single == 0 and Pb().SerializeToString() == b""

    numbers = sorted(defined) + [0, 1, -1, 77, INT32_MIN, INT32_MAX]
    numbers += [rng.randint(INT32_MIN, INT32_MAX) for _ in range(2)]
    for n in numbers:
        other = rng.choice(numbers)
        cases = (
            {"single": n},
            {"many": [n, other, 0]},
            {"by_key": {"k": n, "": 0}},
            {"opt": n},
            {"a": n},
            {"b": n},
            {"single": n, "many": [other], "by_key": {"x": n}, "opt": other, "a": n},
        )
        for kwargs in cases:
            msg = Msg(**kwargs)
            data = bytes(msg)
            assert len(msg) == len(data)
            back = Msg().parse(data)
            assert bytes(back) == data and back == msg
            d = msg.to_dict()
            back_json = Msg().from_json(json.dumps(d))
            assert back_json.to_dict() == d
            assert bytes(back_json) == data
            assert bytes(Msg.from_dict(d)) == data
            # with defaults included every field shows up, unset ones as defaults
            full = msg.to_dict(include_default_values=True)
            name_of = lambda x: first_name.get(x, x)  # noqa: E731
            assert full["single"] == name_of(kwargs.get("single", 0))
            assert full["many"] == [name_of(x) for x in kwargs.get("many", [])]
            assert full["byKey"] == {
                k: name_of(x) for k, x in kwargs.get("by_key", {}).items()
            }
            assert full["opt"] == (name_of(kwargs["opt"]) if "opt" in kwargs else None)
            assert full["a"] == name_of(kwargs.get("a", 0))
            assert full["b"] == kwargs.get("b", 0)
            assert set(full) == {"single", "many", "byKey", "opt", "a", "b"}
            d = msg.to_dict()
            for got in (back, Msg().from_dict(d)):
                for field, want in kwargs.items():
                    value = getattr(got, field)
                    if isinstance(want, list):
                        assert value == want and [int(v) for v in value] == want
                    elif isinstance(want, dict):
                        assert value == want
                        assert {k: int(v) for k, v in value.items()} == want
                    else:
                        assert value == want and int(value) == want
                # fields that were not sent read as their defaults
                if "single" not in kwargs:
                    assert got.single == 0
                if "opt" not in kwargs:
                    assert got.opt is None
                if "many" not in kwargs:
                    assert got.many == []
            if "single" in kwargs:
                assert (data == b"") == (n == 0 and len(kwargs) == 1)
                assert type(back.single) is E
                if n in defined:
                    assert back.single is E(n)
                else:
                    assert back.single.name is None
                if n != 0:
                    assert d["single"] == first_name.get(n, n)
                else:
                    assert "single" not in d
            which = betterproto.which_one_of(back, "g")
            if "a" in kwargs:
                assert which == ("a", n) and d["a"] == first_name.get(n, n)
            elif "b" in kwargs:
                assert which == ("b", n)
            else:
                assert which == ("", None)
            assert copy.deepcopy(msg) == msg and copy.copy(msg) == msg

            if Pb is not None:
                _pb_checks[0] += 1
                pb = Pb.FromString(data)
                assert pb.SerializeToString(deterministic=True) == data or "by_key" in kwargs
                for field, want in kwargs.items():
                    value = getattr(pb, field)
                    if isinstance(want, list):
                        assert list(value) == want
                    elif isinstance(want, dict):
                        assert dict(value) == want
                    else:
                        assert value == want
                        if field in ("opt", "a", "b"):
                            assert pb.HasField(field)
                assert pb.WhichOneof("g") == (which[0] or None)
                assert Msg().parse(pb.SerializeToString()) == back
                pb_json = json.loads(json_format.MessageToJson(pb))
                assert pb_json == d, (pb_json, d)
                assert Msg().from_dict(pb_json) == back
                assert json_format.Parse(json.dumps(d), Pb()) == pb


check_generators()
check_unset_reads()

HAND_WRITTEN = [
    ("Plain", [("ZERO", 0), ("ONE", 1), ("TWO", 2)]),
    ("Neg", [("ZERO", 0), ("MINUS_ONE", -1), ("MIN", INT32_MIN), ("MAX", INT32_MAX)]),
    ("Alias", [("ZERO", 0), ("NIL", 0), ("A", 1), ("B", 1), ("C", -1), ("D", -1)]),
    ("NoZeroA", [("FIVE", 5), ("MINUS_TWO", -2)]),
    ("Single", [("ONLY", 7)]),
    ("SingleZero", [("ONLY", 0)]),
]
for name, members in HAND_WRITTEN + [(f"Rnd{i}", random_members(i)) for i in range(40)]:
    check_messages(make_enum(name, members), members)
assert _pb_checks[0] > 1000, _pb_checks

print("ok")
