"""Equivalence check for the C10 keep2 refactor (reader side: Message.load split into an
unbounded loop for size=None and a bounded loop for a declared size, with the per-field
decoding/merging moved into Message._absorb_field).

Runs on the pristine tree and on the refactored tree with the same result:
 * hand written wire inputs: unknown fields, reused field numbers with another wire type,
   packed and unpacked encodings of repeated scalars, split packed chunks, duplicate map
   keys, oneof last-one-wins, merging into a message that already holds values,
 * load with size None / exact / too small / too large / 0 / negative / SIZE_DELIMITED,
   with the exact exception types and texts and the stream position afterwards,
 * thousands of random messages through parse, load(size) and delimited streams, also
   through google.protobuf's length prefixed reader / writer,
 * every cut point of delimited streams and of bare message bodies,
 * a digest over everything that was observed, compared with a constant recorded on
   the pristine tree.
"""
import hashlib
import io
import random
import struct
from dataclasses import dataclass
from typing import Dict, List

import betterproto
from betterproto import SIZE_DELIMITED

from google.protobuf import descriptor_pb2, descriptor_pool, message_factory
from google.protobuf import proto as gproto

FDP = descriptor_pb2.FieldDescriptorProto


# --------------------------------------------------------------------------- schema
class Color(betterproto.Enum):
    ZERO = 0
    RED = 1
    BLUE = 2
    NEG = -3
    BIG = 70000


@dataclass(eq=False, repr=False)
class Inner(betterproto.Message):
    x: int = betterproto.int32_field(1)
    t: str = betterproto.string_field(2)


@dataclass(eq=False, repr=False)
class Rich(betterproto.Message):
    i32: int = betterproto.int32_field(1)
    s64: int = betterproto.sint64_field(2)
    s: str = betterproto.string_field(3)
    b: bytes = betterproto.bytes_field(4)
    d: float = betterproto.double_field(5)
    inner: Inner = betterproto.message_field(6)

    r_i32: List[int] = betterproto.int32_field(10)
    r_s32: List[int] = betterproto.sint32_field(11)
    r_u64: List[int] = betterproto.uint64_field(12)
    r_bool: List[bool] = betterproto.bool_field(13)
    r_f: List[float] = betterproto.float_field(14)
    r_d: List[float] = betterproto.double_field(15)
    r_fx32: List[int] = betterproto.fixed32_field(16)
    r_sfx64: List[int] = betterproto.sfixed64_field(17)
    r_enum: List[Color] = betterproto.enum_field(18)
    r_i64: List[int] = betterproto.int64_field(19)

    r_s: List[str] = betterproto.string_field(20)
    r_b: List[bytes] = betterproto.bytes_field(21)
    r_inner: List[Inner] = betterproto.message_field(22)

    m_si: Dict[str, int] = betterproto.map_field(
        30, betterproto.TYPE_STRING, betterproto.TYPE_INT32
    )
    m_is: Dict[int, str] = betterproto.map_field(
        31, betterproto.TYPE_INT32, betterproto.TYPE_STRING
    )
    m_bi: Dict[bool, Inner] = betterproto.map_field(
        32, betterproto.TYPE_BOOL, betterproto.TYPE_MESSAGE
    )
    m_sb: Dict[int, bytes] = betterproto.map_field(
        33, betterproto.TYPE_SINT64, betterproto.TYPE_BYTES
    )
    m_sd: Dict[str, float] = betterproto.map_field(
        34, betterproto.TYPE_STRING, betterproto.TYPE_DOUBLE
    )
    m_fx: Dict[int, int] = betterproto.map_field(
        35, betterproto.TYPE_FIXED32, betterproto.TYPE_SFIXED64
    )
    m_ss: Dict[str, str] = betterproto.map_field(
        36, betterproto.TYPE_STRING, betterproto.TYPE_STRING
    )

    o_s: str = betterproto.string_field(40, group="choice")
    o_i: int = betterproto.int32_field(41, group="choice")
    o_m: Inner = betterproto.message_field(42, group="choice")


# older reader schema: knows only a few of Rich's fields
@dataclass(eq=False, repr=False)
class Old(betterproto.Message):
    i32: int = betterproto.int32_field(1)
    s: str = betterproto.string_field(3)
    r_s32: List[int] = betterproto.sint32_field(11)
    m_si: Dict[str, int] = betterproto.map_field(
        30, betterproto.TYPE_STRING, betterproto.TYPE_INT32
    )


@dataclass(eq=False, repr=False)
class Empty(betterproto.Message):
    pass


def build_reference():
    fdp = descriptor_pb2.FileDescriptorProto(
        name="c10_keep2.proto", package="c10k1", syntax="proto3"
    )
    en = fdp.enum_type.add(name="Color")
    for name, number in (("ZERO", 0), ("RED", 1), ("BLUE", 2), ("NEG", -3), ("BIG", 70000)):
        en.value.add(name=name, number=number)
    inner = fdp.message_type.add(name="Inner")
    inner.field.add(name="x", number=1, type=FDP.TYPE_INT32, label=FDP.LABEL_OPTIONAL)
    inner.field.add(name="t", number=2, type=FDP.TYPE_STRING, label=FDP.LABEL_OPTIONAL)

    rich = fdp.message_type.add(name="Rich")

    def add(name, number, type_, label=FDP.LABEL_OPTIONAL, type_name=None, oneof=None):
        f = rich.field.add(name=name, number=number, type=type_, label=label)
        if type_name:
            f.type_name = type_name
        if oneof is not None:
            f.oneof_index = oneof
        return f

    add("i32", 1, FDP.TYPE_INT32)
    add("s64", 2, FDP.TYPE_SINT64)
    add("s", 3, FDP.TYPE_STRING)
    add("b", 4, FDP.TYPE_BYTES)
    add("d", 5, FDP.TYPE_DOUBLE)
    add("inner", 6, FDP.TYPE_MESSAGE, type_name=".c10k1.Inner")
    R = FDP.LABEL_REPEATED
    add("r_i32", 10, FDP.TYPE_INT32, R)
    add("r_s32", 11, FDP.TYPE_SINT32, R)
    add("r_u64", 12, FDP.TYPE_UINT64, R)
    add("r_bool", 13, FDP.TYPE_BOOL, R)
    add("r_f", 14, FDP.TYPE_FLOAT, R)
    add("r_d", 15, FDP.TYPE_DOUBLE, R)
    add("r_fx32", 16, FDP.TYPE_FIXED32, R)
    add("r_sfx64", 17, FDP.TYPE_SFIXED64, R)
    add("r_enum", 18, FDP.TYPE_ENUM, R, type_name=".c10k1.Color")
    add("r_i64", 19, FDP.TYPE_INT64, R)
    add("r_s", 20, FDP.TYPE_STRING, R)
    add("r_b", 21, FDP.TYPE_BYTES, R)
    add("r_inner", 22, FDP.TYPE_MESSAGE, R, type_name=".c10k1.Inner")

    def add_map(name, number, ktype, vtype, vtype_name=None):
        entry_name = "".join(p.capitalize() for p in name.split("_")) + "Entry"
        entry = rich.nested_type.add(name=entry_name)
        entry.options.map_entry = True
        entry.field.add(name="key", number=1, type=ktype, label=FDP.LABEL_OPTIONAL)
        v = entry.field.add(name="value", number=2, type=vtype, label=FDP.LABEL_OPTIONAL)
        if vtype_name:
            v.type_name = vtype_name
        add(name, number, FDP.TYPE_MESSAGE, R, type_name=".c10k1.Rich." + entry_name)

    add_map("m_si", 30, FDP.TYPE_STRING, FDP.TYPE_INT32)
    add_map("m_is", 31, FDP.TYPE_INT32, FDP.TYPE_STRING)
    add_map("m_bi", 32, FDP.TYPE_BOOL, FDP.TYPE_MESSAGE, ".c10k1.Inner")
    add_map("m_sb", 33, FDP.TYPE_SINT64, FDP.TYPE_BYTES)
    add_map("m_sd", 34, FDP.TYPE_STRING, FDP.TYPE_DOUBLE)
    add_map("m_fx", 35, FDP.TYPE_FIXED32, FDP.TYPE_SFIXED64)
    add_map("m_ss", 36, FDP.TYPE_STRING, FDP.TYPE_STRING)

    rich.oneof_decl.add(name="choice")
    add("o_s", 40, FDP.TYPE_STRING, oneof=0)
    add("o_i", 41, FDP.TYPE_INT32, oneof=0)
    add("o_m", 42, FDP.TYPE_MESSAGE, type_name=".c10k1.Inner", oneof=0)

    pool = descriptor_pool.DescriptorPool()
    pool.Add(fdp)
    return message_factory.GetMessageClass(pool.FindMessageTypeByName("c10k1.Rich"))


RefRich = build_reference()

# --------------------------------------------------------------------------- generators
I32 = [0, 1, -1, 2, 127, 128, 129, 255, 300, 16383, 16384, 2**31 - 1, -(2**31), -128, 70000]
I64 = I32 + [2**31, 2**35 + 5, 2**63 - 1, -(2**63), -(2**40)]
U32 = [0, 1, 127, 128, 16383, 16384, 2**32 - 1, 2**21, 2**28]
U64 = U32 + [2**32, 2**63, 2**64 - 1, 2**56 - 1, 2**56]
S32 = [0, -1, 1, -64, 63, 64, -65, 8191, -8192, 8192, 2**31 - 1, -(2**31)]
S64 = S32 + [2**62, -(2**62), 2**63 - 1, -(2**63), -(2**34) - 1]
F32 = [0.0, 1.5, -2.25, 1e10, -1e-10, float("inf"), float("-inf"), 3.14159, -0.0]
F32 = [struct.unpack("<f", struct.pack("<f", v))[0] for v in F32]
F64 = [0.0, 1.5, -2.25, 1e300, -1e-300, float("inf"), float("-inf"), 3.141592653589793, -0.0]
STRS = ["", "a", "hello", "été", "漢字", "\U0001f600", "x" * 127, "y" * 128, "z" * 300]
BYTS = [b"", b"\x00", b"\xff\xfe", b"abc", bytes(range(256)), b"q" * 127, b"r" * 128]
COLORS = [Color.ZERO, Color.RED, Color.BLUE, Color.NEG, Color.BIG]


def rnd_inner(rng):
    k = rng.randrange(4)
    if k == 0:
        return Inner()
    if k == 1:
        return Inner(x=rng.choice(I32))
    if k == 2:
        return Inner(t=rng.choice(STRS))
    return Inner(x=rng.choice(I32), t=rng.choice(STRS))


def rnd_list(rng, pool, maxlen=6):
    return [rng.choice(pool) for _ in range(rng.randrange(1, maxlen + 1))]


def rnd_rich(rng, density=0.3):
    m = Rich()
    on = lambda: rng.random() < density  # noqa: E731
    if on():
        m.i32 = rng.choice(I32)
    if on():
        m.s64 = rng.choice(S64)
    if on():
        m.s = rng.choice(STRS)
    if on():
        m.b = rng.choice(BYTS)
    if on():
        m.d = rng.choice(F64)
    if on():
        m.inner = rnd_inner(rng)
    if on():
        m.r_i32 = rnd_list(rng, I32)
    if on():
        m.r_s32 = rnd_list(rng, S32)
    if on():
        m.r_u64 = rnd_list(rng, U64)
    if on():
        m.r_bool = rnd_list(rng, [True, False])
    if on():
        m.r_f = rnd_list(rng, F32)
    if on():
        m.r_d = rnd_list(rng, F64)
    if on():
        m.r_fx32 = rnd_list(rng, U32)
    if on():
        m.r_sfx64 = rnd_list(rng, I64)
    if on():
        m.r_enum = rnd_list(rng, COLORS)
    if on():
        m.r_i64 = rnd_list(rng, I64)
    if on():
        m.r_s = rnd_list(rng, STRS)
    if on():
        m.r_b = rnd_list(rng, BYTS)
    if on():
        m.r_inner = [rnd_inner(rng) for _ in range(rng.randrange(1, 5))]
    if on():
        m.m_si = {rng.choice(STRS): rng.choice(I32) for _ in range(rng.randrange(1, 5))}
    if on():
        m.m_is = {rng.choice(I32): rng.choice(STRS) for _ in range(rng.randrange(1, 5))}
    if on():
        m.m_bi = {rng.choice([True, False]): rnd_inner(rng) for _ in range(rng.randrange(1, 3))}
    if on():
        m.m_sb = {rng.choice(S64): rng.choice(BYTS) for _ in range(rng.randrange(1, 5))}
    if on():
        m.m_sd = {rng.choice(STRS): rng.choice(F64) for _ in range(rng.randrange(1, 5))}
    if on():
        m.m_fx = {rng.choice(U32): rng.choice(I64) for _ in range(rng.randrange(1, 5))}
    if on():
        m.m_ss = {rng.choice(STRS[:4]): rng.choice(STRS[:4]) for _ in range(rng.randrange(1, 5))}
    k = rng.randrange(6)
    if k == 0:
        m.o_s = rng.choice(STRS)
    elif k == 1:
        m.o_i = rng.choice(I32)
    elif k == 2:
        m.o_m = rnd_inner(rng)
    return m


# --------------------------------------------------------------------------- transcript
digest = hashlib.sha256()


def note(*parts):
    for p in parts:
        if isinstance(p, (bytes, bytearray)):
            digest.update(b"B" + len(p).to_bytes(8, "little") + bytes(p))
        else:
            s = repr(p).encode()
            digest.update(b"R" + len(s).to_bytes(8, "little") + s)


def canonical_varint(n):
    out = bytearray()
    while n >> 7:
        out.append(0x80 | (n & 0x7F))
        n >>= 7
    out.append(n)
    return bytes(out)


class Recorder:
    """A write-only stream that records every write() call."""

    def __init__(self):
        self.calls = []

    def write(self, data):
        self.calls.append(bytes(data))
        return len(data)



def show(m):
    """Everything observable about a loaded message, as plain data."""
    if isinstance(m, betterproto.Message):
        d = {}
        for name in m._betterproto.meta_by_field_name:
            try:
                d[name] = show(getattr(m, name))
            except AttributeError:
                d[name] = "<unset oneof>"
        d["#unknown"] = m._unknown_fields
        d["#on_wire"] = m._serialized_on_wire
        d["#bytes"] = bytes(m)
        if hasattr(m, "_group_current"):
            d["#groups"] = dict(m._group_current)
        return (type(m).__name__, sorted(d.items(), key=lambda kv: kv[0]))
    if isinstance(m, list):
        return [show(x) for x in m]
    if isinstance(m, dict):
        return [(show(k), show(v)) for k, v in m.items()]
    if isinstance(m, float):
        return struct.pack("<d", m)
    return m


def run_load(cls, data, size, target=None):
    """Load from a BytesIO; returns (outcome, stream position)."""
    stream = io.BytesIO(data)
    msg = cls() if target is None else target
    try:
        got = msg.load(stream, size)
    except Exception as e:  # noqa: BLE001
        return ("raise", type(e).__name__, str(e)), stream.tell()
    assert got is msg
    return ("ok", show(got)), stream.tell()


def tag(number, wire_type):
    return canonical_varint((number << 3) | wire_type)


def ld(number, payload):
    return tag(number, 2) + canonical_varint(len(payload)) + payload


# --------------------------------------------------------------------------- 1. hand written inputs
V = canonical_varint
cases = {
    "empty": b"",
    "scalar": tag(1, 0) + V(150),
    "neg int32 as 10 bytes": tag(1, 0) + V(2**64 - 1),
    "neg int32 as 5 bytes": tag(1, 0) + V(2**32 - 1),
    "sint64": tag(2, 0) + V(3),
    "last one wins": tag(1, 0) + V(1) + tag(1, 0) + V(2),
    "unknown varint": tag(100, 0) + V(7),
    "unknown fixed32": tag(101, 5) + b"\x01\x02\x03\x04",
    "unknown fixed64": tag(102, 1) + b"\x01\x02\x03\x04\x05\x06\x07\x08",
    "unknown len": ld(103, b"abc"),
    "unknown big tag": tag(2**29 - 1, 0) + V(2**64 - 1),
    "unknown between known": tag(1, 0) + V(5) + ld(103, b"") + ld(3, b"hi") + tag(100, 0) + V(0),
    "non canonical varint kept": tag(100, 0) + b"\x81\x80\x00",
    "mismatch: string number as varint": tag(3, 0) + V(9),
    "mismatch: int number as len": ld(1, b"zz"),
    "mismatch: double number as fixed32": tag(5, 5) + b"\x00\x00\x80\x3f",
    "mismatch: message number as varint": tag(6, 0) + V(1),
    "mismatch: repeated string as varint": tag(20, 0) + V(1),
    "mismatch: map as fixed64": tag(30, 1) + bytes(8),
    "packed int32": ld(10, V(1) + V(300) + V(2**64 - 1)),
    "unpacked int32": tag(10, 0) + V(1) + tag(10, 0) + V(300),
    "mixed packed/unpacked": tag(10, 0) + V(1) + ld(10, V(2) + V(3)) + tag(10, 0) + V(4) + ld(10, b""),
    "packed sint32": ld(11, V(1) + V(2) + V(127) + V(128)),
    "packed bool": ld(13, V(0) + V(1) + V(2)),
    "packed float": ld(14, struct.pack("<ff", 1.5, -2.0)),
    "unpacked float": tag(14, 5) + struct.pack("<f", 1.5) + tag(14, 5) + struct.pack("<f", 2.5),
    "packed double": ld(15, struct.pack("<dd", 1.5, -2.0)),
    "unpacked double": tag(15, 1) + struct.pack("<d", 1.5),
    "packed fixed32": ld(16, struct.pack("<II", 1, 2**32 - 1)),
    "packed sfixed64": ld(17, struct.pack("<qq", -1, 2**63 - 1)),
    "packed enum": ld(18, V(1) + V(70000) + V(2**64 - 3) + V(9)),
    "unpacked enum": tag(18, 0) + V(2),
    "packed float, ragged": ld(14, struct.pack("<f", 1.5) + b"\x00\x00"),
    "packed double, ragged": ld(15, b"\x00" * 9),
    "packed varint, cut": ld(10, V(1) + b"\x80"),
    "float with wrong width (fixed64)": tag(14, 1) + bytes(8),
    "repeated string": ld(20, b"a") + ld(20, b"") + ld(20, "é".encode()),
    "bad utf8": ld(3, b"\xff\xfe"),
    "repeated message": ld(22, b"") + ld(22, tag(1, 0) + V(1)) + ld(22, tag(9, 0) + V(1)),
    "nested truncated": ld(6, tag(1, 0)),
    "nested with unknown": ld(6, tag(2, 2) + V(1) + b"t" + tag(50, 0) + V(1)),
    "nested twice (replaced)": ld(6, tag(1, 0) + V(1)) + ld(6, tag(2, 2) + V(1) + b"t"),
    "map entries": ld(30, ld(1, b"a") + tag(2, 0) + V(1)) + ld(30, b"") + ld(30, ld(1, b"a") + tag(2, 0) + V(2)),
    "map entry value first": ld(30, tag(2, 0) + V(1) + ld(1, b"k")),
    "map bool->message": ld(32, tag(1, 0) + V(1) + ld(2, tag(1, 0) + V(3))) + ld(32, b""),
    "map with unknown in entry": ld(30, ld(1, b"a") + tag(2, 0) + V(1) + tag(3, 0) + V(1)),
    "oneof: string then int": ld(40, b"s") + tag(41, 0) + V(0),
    "oneof: int then message": tag(41, 0) + V(5) + ld(42, b""),
    "oneof: empty string": ld(40, b""),
    "field number 0": tag(0, 0) + V(1),
    "group wire type": tag(1, 3),
    "wire type 7": tag(1, 7),
    "tag cut": b"\x80",
    "varint value cut": tag(1, 0) + b"\x80\x80",
    "len cut": tag(3, 2),
    "payload cut": tag(3, 2) + V(5) + b"ab",
    "fixed32 cut": tag(14, 5) + b"\x00\x00",
    "fixed64 cut": tag(5, 1) + b"\x00" * 7,
    "varint too long": tag(1, 0) + b"\xff" * 10 + b"\x01",
    "tag too long": b"\xff" * 10 + b"\x01",
    "huge length": tag(3, 2) + V(2**40),
    "everything": (
        tag(1, 0) + V(1) + tag(2, 0) + V(5) + ld(3, b"s") + ld(4, b"\x00") + tag(5, 1) + struct.pack("<d", 2.5)
        + ld(6, tag(1, 0) + V(2)) + ld(10, V(1)) + ld(20, b"x") + ld(22, b"") + ld(30, ld(1, b"k") + tag(2, 0) + V(3))
        + ld(42, tag(2, 2) + V(1) + b"o") + tag(99, 0) + V(1)
    ),
}

for name, data in cases.items():
    # no declared size
    res, pos = run_load(Rich, data, None)
    note(name, "none", res, pos)
    if res[0] == "ok":
        assert pos == len(data)
    # parse() and FromString() are the same thing
    try:
        p = ("ok", show(Rich().parse(data)))
    except Exception as e:  # noqa: BLE001
        p = ("raise", type(e).__name__, str(e))
    assert p == res, name
    # the older schema and the schema without fields
    note(name, "old", run_load(Old, data, None), "empty", run_load(Empty, data, None))
    # declared sizes around the real one, with trailing data behind the message
    padded = data + tag(1, 0) + V(77) + b"\x00"
    for size in sorted({0, 1, 2, len(data) - 1, len(data), len(data) + 1, len(data) + 2, len(data) + 3, len(data) + 50, -2, -7} - {SIZE_DELIMITED}):
        res_s, pos_s = run_load(Rich, padded, size)
        note(name, size, res_s, pos_s)
        if size == len(data) and res[0] == "ok":
            assert res_s == res and pos_s == len(data), (name, res_s, pos_s)
        if size <= 0:
            assert res_s[0] == "ok" and pos_s == 0 and res_s == run_load(Rich, b"", None)[0]
        if res_s[0] == "ok":
            assert pos_s == max(size, 0)
    # delimited
    framed = V(len(data)) + padded
    res_d, pos_d = run_load(Rich, framed, SIZE_DELIMITED)
    note(name, "delimited", res_d, pos_d)
    if res[0] == "ok":
        assert res_d == res and pos_d == len(V(len(data))) + len(data)
    else:
        assert res_d[0] == "raise"

# exact texts of the three size errors
body = tag(1, 0) + V(1) + ld(3, b"abc")  # 2 + 5 bytes
res, pos = run_load(Rich, body, 4)
assert res == ("raise", "ValueError", "Expected message of size 4, can only read either 2 or 7 bytes - there is no message of the expected size in the stream."), res
assert pos == 7
res, pos = run_load(Rich, body, 9)
assert res == ("raise", "ValueError", "Expected message of size 9, but was only able to read 7 bytes - the stream may have ended too soon, or the expected size may have been incorrect."), res
res, pos = run_load(Rich, body, 2)
assert res[0] == "ok" and pos == 2
res, pos = run_load(Rich, b"\x09" + body, SIZE_DELIMITED)
assert res[0] == "raise" and res[1] == "ValueError" and "size 9" in res[2] and "read 7 bytes" in res[2]
res, pos = run_load(Rich, b"", SIZE_DELIMITED)
assert res[:2] == ("raise", "EOFError") and pos == 0
res, pos = run_load(Rich, b"\x00", SIZE_DELIMITED)
assert res[0] == "ok" and pos == 1
res, pos = run_load(Rich, b"\x80", SIZE_DELIMITED)
assert res[:2] == ("raise", "EOFError")
res, pos = run_load(Rich, b"\x02\x08", SIZE_DELIMITED)
assert res[:2] == ("raise", "EOFError")
res, pos = run_load(Rich, b"\x03\x08\x01", SIZE_DELIMITED)
assert res[:2] == ("raise", "ValueError") and "read 2 bytes" in res[2]

# loading into a message that already holds values merges (repeated, map) or replaces
for size in (None, "exact", SIZE_DELIMITED):
    target = Rich(i32=5, r_i32=[9], r_s=["old"], m_si={"a": 1, "z": 26}, o_s="was", inner=Inner(x=1))
    data = cases["everything"] + cases["mixed packed/unpacked"] + cases["map entries"]
    if size == "exact":
        res, pos = run_load(Rich, data, len(data), target)
    elif size == SIZE_DELIMITED:
        res, pos = run_load(Rich, V(len(data)) + data, SIZE_DELIMITED, target)
    else:
        res, pos = run_load(Rich, data, None, target)
    assert res[0] == "ok"
    assert target.r_i32 == [9, 1, 1, 2, 3, 4] and target.r_s == ["old", "x"]
    assert target.m_si == {"a": 2, "z": 26, "k": 3, "": 0}
    assert betterproto.which_one_of(target, "choice") == ("o_m", Inner(t="o"))
    note("merge", res)

# a failing field leaves what was absorbed before it, in both loops
for size in (None, 6):
    target = Rich()
    stream = io.BytesIO(tag(1, 0) + V(3) + ld(3, b"\xff\xfe"))
    try:
        target.load(stream, size)
    except UnicodeDecodeError:
        pass
    else:
        raise AssertionError
    assert target.i32 == 3 and target.s == "" and stream.tell() == 6

# --------------------------------------------------------------------------- 2. random messages
rng = random.Random(0x2C10)
messages = [rnd_rich(rng, density) for density in (0.0, 0.05, 0.15, 0.3, 0.6, 1.0) for _ in range(170)]
for m in messages:
    data = bytes(m)
    res, pos = run_load(Rich, data + b"\x08\x01", len(data))
    assert res[0] == "ok" and pos == len(data)
    res_n, _ = run_load(Rich, data, None)
    assert res_n == res
    res_d, pos_d = run_load(Rich, V(len(data)) + data + b"\x00", SIZE_DELIMITED)
    assert res_d == res and pos_d == len(V(len(data))) + len(data)
    assert Rich().parse(data) == m
    note(res)
    # the reference's bytes for the same message (other map order, zero scalars of
    # map entries left out) load to the same message in all three modes
    gdata = RefRich.FromString(data).SerializeToString()
    assert Rich().parse(gdata) == m
    assert Rich().load(io.BytesIO(gdata), len(gdata)) == m
    assert Rich().load(io.BytesIO(V(len(gdata)) + gdata), SIZE_DELIMITED) == m
    # older reader keeps the rest
    old = Old().parse(data)
    assert (old.i32, old.s, old.r_s32, old.m_si) == (m.i32, m.s, m.r_s32, m.m_si)
    assert Rich().parse(bytes(old)) == m
    old2 = Old().load(io.BytesIO(data), len(data))
    assert show(old2) == show(old)
    e = Empty().load(io.BytesIO(V(len(data)) + data), SIZE_DELIMITED)
    assert e._unknown_fields == data and bytes(e) == data
    if len(data) > 1:
        r1, p1 = run_load(Rich, data, len(data) - 1)
        r2, p2 = run_load(Rich, data, len(data) + 1)
        assert r1[:2] == ("raise", "ValueError") and r2[:2] == ("raise", "ValueError")
        note(r1, p1, r2, p2)


# --------------------------------------------------------------------------- 3. delimited streams
def write_stream(msgs):
    stream = io.BytesIO()
    ends = []
    for m in msgs:
        m.dump(stream, SIZE_DELIMITED)
        ends.append(stream.tell())
    return stream.getvalue(), ends


for round_ in range(4):
    seq, readers = [], []
    for _ in range(9):
        k = rng.randrange(6)
        if k == 0:
            seq.append(Empty())
            readers.append(Empty)
        elif k == 1:
            seq.append(rnd_inner(rng))
            readers.append(Inner)
        elif k == 2:
            seq.append(rnd_rich(rng, 0.12))
            readers.append(Old)  # older reader
        elif k == 3:
            seq.append(rnd_rich(rng, 0.1))
            readers.append(Empty)  # reader that knows nothing
        else:
            seq.append(rnd_rich(rng, rng.choice([0.0, 0.08, 0.2])))
            readers.append(Rich)
    data, ends = write_stream(seq)
    note(data, ends)

    # google reads and re-writes the stream frame by frame; betterproto reads both
    gin, gout = io.BytesIO(data), io.BytesIO()
    for m in seq:
        ref = gproto.parse_length_prefixed(RefRich, gin)
        assert ref is not None
        if isinstance(m, Rich):
            gproto.serialize_length_prefixed(ref, gout)
    assert gin.read() == b""
    gout.seek(0)
    for m in seq:
        if isinstance(m, Rich):
            assert Rich().load(gout, SIZE_DELIMITED) == m
    assert gout.read() == b""

    for cut in range(len(data) + 1):
        stream = io.BytesIO(data[:cut])
        for i, (m, cls, end) in enumerate(zip(seq, readers, ends)):
            try:
                got = cls().load(stream, SIZE_DELIMITED)
            except (EOFError, ValueError) as e:
                assert end > cut, (round_, cut, i)
                note(cut, i, type(e).__name__, str(e), stream.tell())
                break
            assert end <= cut and stream.tell() == end, (round_, cut, i)
            if cls is type(m):
                assert got == m
            else:
                assert len(got) == len(bytes(got)) == len(bytes(m))
                assert cls is Old or bytes(got) == bytes(m)
                assert type(m)().parse(bytes(got)) == m
            note(cut, i, show(got))

# bare bodies cut anywhere, no declared size: clean field boundary or an error
for m in messages[::40]:
    data = bytes(m)
    for cut in range(len(data) + 1):
        note("bare", cut, run_load(Rich, data[:cut], None))

GOLDEN = "fae15d061eb09b66fbbddf540ab03db1d1d6fe9c671bc42cfa0761de63c6e0a1"  # recorded on the pristine tree
final = digest.hexdigest()
if GOLDEN.startswith("@@"):
    print("digest", final)
else:
    assert final == GOLDEN, final
print("C10 keep2 equivalence OK")
