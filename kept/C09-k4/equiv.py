"""Equivalence checks for _preprocess_single / _len_preprocessed_single (value ->
wire payload and its size) and the C09 statement for every kind of field value they
handle: plain varints, zig-zag, fixed, strings, bytes, nested messages, datetime /
timedelta, google wrapper values (None / zero / non-zero), repeated and map members.
Compared against independent reference encoders and google.protobuf.  Must pass on the
pristine tree and with the refactor applied.
"""
import math
import random
import struct
from dataclasses import dataclass
from datetime import datetime, timedelta, timezone
from io import BytesIO
from typing import Dict, List, Optional

import betterproto
from betterproto import _len_preprocessed_single, _preprocess_single
from google.protobuf import (
    descriptor_pb2,
    descriptor_pool,
    duration_pb2,
    message_factory,
    timestamp_pb2,
    wrappers_pb2,
)

rng = random.Random(0xC092)
B = betterproto


def ref_varint(n: int) -> bytes:
    if n < 0:
        n += 1 << 64
    out = []
    while n > 0x7F:
        out.append((n & 0x7F) | 0x80)
        n >>= 7
    out.append(n)
    return bytes(out)


def ref_zigzag(n: int, bits: int) -> int:
    return ((n << 1) ^ (n >> (bits - 1))) & ((1 << bits) - 1)


# ------------------------------------------------ the two functions directly ---
def both(proto_type, wraps, value, want):
    got = _preprocess_single(proto_type, wraps, value)
    assert got == want, (proto_type, wraps, value, got, want)
    n = _len_preprocessed_single(proto_type, wraps, value)
    assert type(n) is int and n == len(want), (proto_type, wraps, value, n, len(want))


class Colour(betterproto.Enum):
    ZERO = 0
    ONE = 1
    BIG = 70000
    NEG = -5


EDGE = sorted(
    {s * ((1 << k) + d) for k in range(0, 64) for d in (-1, 0, 1) for s in (1, -1)}
    | set(range(-130, 131))
)
for v in EDGE:
    if -(2**31) <= v < 2**31:
        both(B.TYPE_INT32, "", v, ref_varint(v))
        both(B.TYPE_ENUM, "", v, ref_varint(v))
        both(B.TYPE_SINT32, "", v, ref_varint(ref_zigzag(v, 32)))
        both(B.TYPE_SFIXED32, "", v, struct.pack("<i", v))
    if 0 <= v < 2**32:
        both(B.TYPE_UINT32, "", v, ref_varint(v))
        both(B.TYPE_FIXED32, "", v, struct.pack("<I", v))
    if -(2**63) <= v < 2**63:
        both(B.TYPE_INT64, "", v, ref_varint(v))
        both(B.TYPE_SINT64, "", v, ref_varint(ref_zigzag(v, 64)))
        both(B.TYPE_SFIXED64, "", v, struct.pack("<q", v))
    if 0 <= v < 2**64:
        both(B.TYPE_UINT64, "", v, ref_varint(v))
        both(B.TYPE_FIXED64, "", v, struct.pack("<Q", v))
both(B.TYPE_UINT64, "", 2**64 - 1, b"\xff" * 9 + b"\x01")
both(B.TYPE_FIXED64, "", 2**64 - 1, b"\xff" * 8)
for v in (True, False):
    both(B.TYPE_BOOL, "", v, bytes([int(v)]))
for v in Colour:
    both(B.TYPE_ENUM, "", v, ref_varint(int(v)))
for v in (0.0, -0.0, 1.5, -1.5, 1e38, 1e-45, math.inf, -math.inf, math.nan, 3.4028234663852886e38):
    both(B.TYPE_FLOAT, "", v, struct.pack("<f", v))
    both(B.TYPE_DOUBLE, "", v, struct.pack("<d", v))
both(B.TYPE_DOUBLE, "", 1.7976931348623157e308, struct.pack("<d", 1.7976931348623157e308))
for v in ("", "a", "a" * 127, "a" * 128, "é", "é" * 64, "日本語" * 43, "\U0001f600" * 32, "\x00", "a\x00b"):
    both(B.TYPE_STRING, "", v, v.encode("utf-8"))
for v in (b"", b"\x00", b"\xff" * 127, b"\xff" * 128, bytearray(b"abc"), b"\x80" * 16384):
    both(B.TYPE_BYTES, "", v, v)
    both(B.TYPE_MAP, "", v, v)  # a map entry body arrives pre-serialized

# errors are the same kind as before
for pt, bad, excs in (
    (B.TYPE_INT64, -(2**63) - 1, (ValueError,)),
    (B.TYPE_SINT64, "x", (TypeError,)),
    (B.TYPE_SINT32, None, (TypeError,)),
    (B.TYPE_FIXED32, -1, (struct.error,)),
    (B.TYPE_FIXED32, 2**32, (struct.error,)),
    (B.TYPE_SFIXED64, 2**63, (struct.error,)),
    (B.TYPE_STRING, b"bytes", (AttributeError,)),
    (B.TYPE_MESSAGE, None, (TypeError,)),
):
    for fn in (_preprocess_single, _len_preprocessed_single):
        try:
            fn(pt, "", bad)
        except excs:
            pass
        else:
            raise AssertionError((fn.__name__, pt, bad))


# message-typed values
@dataclass(eq=False, repr=False)
class Leaf(betterproto.Message):
    n: int = betterproto.sint64_field(1)
    t: str = betterproto.string_field(2)


def ref_ts(seconds, nanos):
    return timestamp_pb2.Timestamp(seconds=seconds, nanos=nanos).SerializeToString()


def ref_dur(seconds, nanos):
    return duration_pb2.Duration(seconds=seconds, nanos=nanos).SerializeToString()


UTC = timezone.utc
DTS = [
    (datetime(1970, 1, 1, tzinfo=UTC), 0, 0),
    (datetime(1970, 1, 1, 0, 0, 0, 1, tzinfo=UTC), 0, 1000),
    (datetime(1970, 1, 1, 0, 0, 1, tzinfo=UTC), 1, 0),
    (datetime(1969, 12, 31, 23, 59, 59, 999999, tzinfo=UTC), -1, 999999000),
    (datetime(1969, 12, 31, 23, 59, 59, tzinfo=UTC), -1, 0),
    (datetime(2038, 1, 19, 3, 14, 8, tzinfo=UTC), 2**31, 0),
    (datetime(1, 1, 1, tzinfo=UTC), -62135596800, 0),
    (datetime(9999, 12, 31, 23, 59, 59, 999999, tzinfo=UTC), 253402300799, 999999000),
    (datetime(2020, 5, 17, 12, 30, 15, 123456, tzinfo=timezone(timedelta(hours=5, minutes=30))), 1589698815, 123456000),
]
for dt, sec, nanos in DTS:
    both(B.TYPE_MESSAGE, "", dt, ref_ts(sec, nanos))
    # `wraps` is ignored for datetime / timedelta values
    both(B.TYPE_MESSAGE, B.TYPE_INT32, dt, ref_ts(sec, nanos))
TDS = [
    (timedelta(0), 0, 0),
    (timedelta(microseconds=1), 0, 1000),
    (timedelta(microseconds=-1), 0, -1000),
    (timedelta(seconds=1), 1, 0),
    (timedelta(seconds=-1), -1, 0),
    (timedelta(seconds=-1, microseconds=-500000), -1, -500000000),
    (timedelta(days=1, seconds=127, microseconds=999999), 86527, 999999000),
    (timedelta(days=-999999999), -86399999913600, 0),
    (timedelta(days=999999999, hours=23, minutes=59, seconds=59, microseconds=999999), 86399999999999, 999999000),
]
for td, sec, nanos in TDS:
    both(B.TYPE_MESSAGE, "", td, ref_dur(sec, nanos))
    both(B.TYPE_MESSAGE, B.TYPE_STRING, td, ref_dur(sec, nanos))

WRAPS = [
    (B.TYPE_BOOL, wrappers_pb2.BoolValue, [False, True]),
    (B.TYPE_INT32, wrappers_pb2.Int32Value, [0, 1, -1, 127, 128, 2**31 - 1, -(2**31)]),
    (B.TYPE_INT64, wrappers_pb2.Int64Value, [0, 1, -1, 2**63 - 1, -(2**63), 2**56]),
    (B.TYPE_UINT32, wrappers_pb2.UInt32Value, [0, 1, 2**32 - 1]),
    (B.TYPE_UINT64, wrappers_pb2.UInt64Value, [0, 1, 2**63, 2**64 - 1]),
    (B.TYPE_FLOAT, wrappers_pb2.FloatValue, [0.0, 1.5, -2.25, math.inf]),
    (B.TYPE_DOUBLE, wrappers_pb2.DoubleValue, [0.0, 1.5, -2.25, 1e300, -math.inf]),
    (B.TYPE_STRING, wrappers_pb2.StringValue, ["", "a", "é" * 64, "x" * 200]),
    (B.TYPE_BYTES, wrappers_pb2.BytesValue, [b"", b"\x00", b"\xff" * 127, b"q" * 128]),
]
for wt, pbcls, values in WRAPS:
    both(B.TYPE_MESSAGE, wt, None, b"")
    for v in values:
        both(B.TYPE_MESSAGE, wt, v, pbcls(value=v).SerializeToString())

for leaf, want in (
    (Leaf(), b""),
    (Leaf(n=-1), b"\x08\x01"),
    (Leaf(n=2**63 - 1, t="é"), b"\x08" + ref_varint(2**64 - 2) + b"\x12\x02\xc3\xa9"),
    (Leaf(t="t" * 200), b"\x12\xc8\x01" + b"t" * 200),
):
    both(B.TYPE_MESSAGE, "", leaf, want)


# ------------------------------------------------------------- message level ---
@dataclass(eq=False, repr=False)
class M(betterproto.Message):
    s32: int = betterproto.sint32_field(1)
    s64: int = betterproto.sint64_field(2)
    f32: int = betterproto.fixed32_field(3)
    f64: int = betterproto.fixed64_field(4)
    sf32: int = betterproto.sfixed32_field(5)
    sf64: int = betterproto.sfixed64_field(6)
    fl: float = betterproto.float_field(7)
    db: float = betterproto.double_field(8)
    s: str = betterproto.string_field(9)
    by: bytes = betterproto.bytes_field(10)
    ts: datetime = betterproto.message_field(11)
    du: timedelta = betterproto.message_field(12)
    w_i32: Optional[int] = betterproto.message_field(13, wraps=betterproto.TYPE_INT32)
    w_u64: Optional[int] = betterproto.message_field(14, wraps=betterproto.TYPE_UINT64)
    w_str: Optional[str] = betterproto.message_field(15, wraps=betterproto.TYPE_STRING)
    w_bool: Optional[bool] = betterproto.message_field(16, wraps=betterproto.TYPE_BOOL)
    w_dbl: Optional[float] = betterproto.message_field(17, wraps=betterproto.TYPE_DOUBLE)
    w_by: Optional[bytes] = betterproto.message_field(18, wraps=betterproto.TYPE_BYTES)
    leaf: Leaf = betterproto.message_field(19)
    r_s64: List[int] = betterproto.sint64_field(20)
    r_db: List[float] = betterproto.double_field(21)
    r_sf32: List[int] = betterproto.sfixed32_field(22)
    r_s: List[str] = betterproto.string_field(23)
    r_ts: List[datetime] = betterproto.message_field(24)
    r_du: List[timedelta] = betterproto.message_field(25)
    r_leaf: List[Leaf] = betterproto.message_field(26)
    m_ss: Dict[str, int] = betterproto.map_field(27, betterproto.TYPE_STRING, betterproto.TYPE_SINT64)
    m_il: Dict[int, Leaf] = betterproto.map_field(28, betterproto.TYPE_SINT32, betterproto.TYPE_MESSAGE)
    o_s32: Optional[int] = betterproto.sint32_field(29, optional=True)
    o_s: Optional[str] = betterproto.string_field(30, optional=True)
    o_leaf: Optional[Leaf] = betterproto.message_field(31, optional=True)
    g_s64: int = betterproto.sint64_field(32, group="g")
    g_s: str = betterproto.string_field(33, group="g")
    g_leaf: Leaf = betterproto.message_field(34, group="g")
    g_fl: float = betterproto.float_field(35, group="g")
    r_w: List[Optional[int]] = betterproto.message_field(36, wraps=betterproto.TYPE_INT32)


def build_pb_class():
    F = descriptor_pb2.FieldDescriptorProto
    O, R = F.LABEL_OPTIONAL, F.LABEL_REPEATED
    fdp = descriptor_pb2.FileDescriptorProto(
        name="c09_keep2.proto",
        package="c09k2",
        syntax="proto3",
        dependency=[
            "google/protobuf/timestamp.proto",
            "google/protobuf/duration.proto",
            "google/protobuf/wrappers.proto",
        ],
    )
    leaf = fdp.message_type.add(name="Leaf")
    leaf.field.add(name="n", number=1, type=F.TYPE_SINT64, label=O)
    leaf.field.add(name="t", number=2, type=F.TYPE_STRING, label=O)
    m = fdp.message_type.add(name="M")
    e1 = m.nested_type.add(name="MSsEntry")
    e1.options.map_entry = True
    e1.field.add(name="key", number=1, type=F.TYPE_STRING, label=O)
    e1.field.add(name="value", number=2, type=F.TYPE_SINT64, label=O)
    e2 = m.nested_type.add(name="MIlEntry")
    e2.options.map_entry = True
    e2.field.add(name="key", number=1, type=F.TYPE_SINT32, label=O)
    e2.field.add(name="value", number=2, type=F.TYPE_MESSAGE, label=O, type_name=".c09k2.Leaf")
    m.oneof_decl.add(name="g")
    m.oneof_decl.add(name="_o_s32")
    m.oneof_decl.add(name="_o_s")
    m.oneof_decl.add(name="_o_leaf")
    GP = ".google.protobuf."
    spec = [
        ("s32", 1, F.TYPE_SINT32, O, None), ("s64", 2, F.TYPE_SINT64, O, None),
        ("f32", 3, F.TYPE_FIXED32, O, None), ("f64", 4, F.TYPE_FIXED64, O, None),
        ("sf32", 5, F.TYPE_SFIXED32, O, None), ("sf64", 6, F.TYPE_SFIXED64, O, None),
        ("fl", 7, F.TYPE_FLOAT, O, None), ("db", 8, F.TYPE_DOUBLE, O, None),
        ("s", 9, F.TYPE_STRING, O, None), ("by", 10, F.TYPE_BYTES, O, None),
        ("ts", 11, F.TYPE_MESSAGE, O, GP + "Timestamp"), ("du", 12, F.TYPE_MESSAGE, O, GP + "Duration"),
        ("w_i32", 13, F.TYPE_MESSAGE, O, GP + "Int32Value"), ("w_u64", 14, F.TYPE_MESSAGE, O, GP + "UInt64Value"),
        ("w_str", 15, F.TYPE_MESSAGE, O, GP + "StringValue"), ("w_bool", 16, F.TYPE_MESSAGE, O, GP + "BoolValue"),
        ("w_dbl", 17, F.TYPE_MESSAGE, O, GP + "DoubleValue"), ("w_by", 18, F.TYPE_MESSAGE, O, GP + "BytesValue"),
        ("leaf", 19, F.TYPE_MESSAGE, O, ".c09k2.Leaf"),
        ("r_s64", 20, F.TYPE_SINT64, R, None), ("r_db", 21, F.TYPE_DOUBLE, R, None),
        ("r_sf32", 22, F.TYPE_SFIXED32, R, None), ("r_s", 23, F.TYPE_STRING, R, None),
        ("r_ts", 24, F.TYPE_MESSAGE, R, GP + "Timestamp"), ("r_du", 25, F.TYPE_MESSAGE, R, GP + "Duration"),
        ("r_leaf", 26, F.TYPE_MESSAGE, R, ".c09k2.Leaf"),
        ("m_ss", 27, F.TYPE_MESSAGE, R, ".c09k2.M.MSsEntry"), ("m_il", 28, F.TYPE_MESSAGE, R, ".c09k2.M.MIlEntry"),
    ]
    for name, num, typ, label, tn in spec:
        f = m.field.add(name=name, number=num, type=typ, label=label)
        if tn:
            f.type_name = tn
    m.field.add(name="o_s32", number=29, type=F.TYPE_SINT32, label=O, oneof_index=1, proto3_optional=True)
    m.field.add(name="o_s", number=30, type=F.TYPE_STRING, label=O, oneof_index=2, proto3_optional=True)
    m.field.add(name="o_leaf", number=31, type=F.TYPE_MESSAGE, label=O, oneof_index=3, proto3_optional=True, type_name=".c09k2.Leaf")
    m.field.add(name="g_s64", number=32, type=F.TYPE_SINT64, label=O, oneof_index=0)
    m.field.add(name="g_s", number=33, type=F.TYPE_STRING, label=O, oneof_index=0)
    m.field.add(name="g_leaf", number=34, type=F.TYPE_MESSAGE, label=O, oneof_index=0, type_name=".c09k2.Leaf")
    m.field.add(name="g_fl", number=35, type=F.TYPE_FLOAT, label=O, oneof_index=0)
    m.field.add(name="r_w", number=36, type=F.TYPE_MESSAGE, label=R, type_name=GP + "Int32Value")
    pool = descriptor_pool.Default()
    pool.Add(fdp)
    return message_factory.GetMessageClass(pool.FindMessageTypeByName("c09k2.M"))


PbM = build_pb_class()
TS_OF = {dt: (sec, nanos) for dt, sec, nanos in DTS}
TD_OF = {td: (sec, nanos) for td, sec, nanos in TDS}


def fill_leaf(pbleaf, leaf):
    pbleaf.SetInParent()
    pbleaf.n, pbleaf.t = leaf.n, leaf.t


def to_pb(kw):
    pb = PbM()
    for k, v in kw.items():
        if k == "ts":
            pb.ts.SetInParent()
            pb.ts.seconds, pb.ts.nanos = TS_OF[v]
        elif k == "du":
            pb.du.SetInParent()
            pb.du.seconds, pb.du.nanos = TD_OF[v]
        elif k.startswith("w_"):
            if v is not None:
                getattr(pb, k).SetInParent()
                getattr(pb, k).value = v
        elif k == "leaf" and not betterproto.serialized_on_wire(v):
            # a never-touched sub-message in a plain field counts as unset
            continue
        elif k in ("leaf", "o_leaf", "g_leaf"):
            fill_leaf(getattr(pb, k), v)
        elif k == "r_ts":
            for it in v:
                sec, nanos = TS_OF[it]
                pb.r_ts.add(seconds=sec, nanos=nanos)
        elif k == "r_du":
            for it in v:
                sec, nanos = TD_OF[it]
                pb.r_du.add(seconds=sec, nanos=nanos)
        elif k == "r_leaf":
            for it in v:
                pb.r_leaf.add(n=it.n, t=it.t)
        elif k == "r_w":
            for it in v:
                pb.r_w.add(value=it)
        elif k == "m_ss":
            for kk, vv in v.items():
                pb.m_ss[kk] = vv
        elif k == "m_il":
            for kk, vv in v.items():
                fill_leaf(pb.m_il[kk], vv)
        elif isinstance(v, list):
            getattr(pb, k).extend(v)
        else:
            setattr(pb, k, v)
    return pb


class ChunkStream:
    def __init__(self):
        self.chunks = []

    def write(self, b):
        self.chunks.append(bytes(b))


def check(msg, kw=None, unknown=b""):
    raw = bytes(msg)
    assert type(raw) is bytes
    assert msg.SerializeToString() == raw
    assert len(msg) == len(raw), (len(msg), len(raw), kw)
    s = BytesIO()
    msg.dump(s)
    assert s.getvalue() == raw
    cs = ChunkStream()
    msg.dump(cs)
    assert b"".join(cs.chunks) == raw
    s = BytesIO()
    msg.dump(s, betterproto.SIZE_DELIMITED)
    assert s.getvalue() == ref_varint(len(raw)) + raw
    back = type(msg)().load(BytesIO(s.getvalue()), betterproto.SIZE_DELIMITED)
    assert bytes(back) == raw and len(back) == len(raw)
    if kw is not None and pb_comparable(kw):
        pb = to_pb(kw)
        want = pb.SerializeToString(deterministic=True) + unknown
        assert raw == want, (kw, raw, want)
        assert pb.ByteSize() + len(unknown) == len(msg)


def pb_comparable(kw):
    # google.protobuf always writes both members of a map entry, betterproto leaves
    # out an empty string key / empty message value; such entries are only checked
    # for self-consistency (len / bytes / dump / delimited / reload).
    for k, v in kw.get("m_ss", {}).items():
        if k == "":
            return False
    for k, v in kw.get("m_il", {}).items():
        if not bytes(v):
            return False
    return True


S32 = [0, 1, -1, 63, -64, 64, -65, 8191, -8192, 8192, -8193, 2**20, -(2**20), -(2**20) - 1, 2**27 - 1, -(2**27), 2**31 - 1, -(2**31)]
S64 = S32 + [2**34 - 1, -(2**34), 2**41, -(2**41) - 1, 2**48 - 1, -(2**48), 2**55 - 1, -(2**55), 2**55, 2**62 - 1, -(2**62), 2**62, 2**63 - 1, -(2**63)]
STRS = ["", "a", "é", "a" * 127, "a" * 128, "é" * 63, "é" * 64, "日本語" * 43, "\U0001f600" * 32, "z" * 16384]
LEAVES = [Leaf(), Leaf(n=-1), Leaf(n=-(2**63), t="é" * 62), Leaf(t="t" * 125), Leaf(t="t" * 126)]

check(M(), {})
for v in S32:
    check(M(s32=v), {"s32": v})
    check(M(o_s32=v), {"o_s32": v})
    check(M(sf32=v), {"sf32": v})
    check(M(r_sf32=[v, 0, v]), {"r_sf32": [v, 0, v]})
    check(M(f32=v & 0xFFFFFFFF), {"f32": v & 0xFFFFFFFF})
    check(M(m_il={v: Leaf(n=v)}), {"m_il": {v: Leaf(n=v)}})
for v in S64:
    check(M(s64=v), {"s64": v})
    check(M(g_s64=v), {"g_s64": v})
    check(M(sf64=v), {"sf64": v})
    check(M(f64=v & (2**64 - 1)), {"f64": v & (2**64 - 1)})
    check(M(r_s64=[v]), {"r_s64": [v]})
    check(M(r_s64=[v, 0, -1, v]), {"r_s64": [v, 0, -1, v]})
    check(M(m_ss={"k": v}), {"m_ss": {"k": v}})
    check(M(leaf=Leaf(n=v)), {"leaf": Leaf(n=v)})
for v in (0.0, 1.5, -2.25, 1e-45, math.inf, -math.inf, 3.4028234663852886e38):
    check(M(fl=v), {"fl": v})
    check(M(db=v), {"db": v})
    check(M(g_fl=v), {"g_fl": v})
    check(M(w_dbl=v), {"w_dbl": v})
    check(M(r_db=[v, 0.0, -v]), {"r_db": [v, 0.0, -v]})
check(M(fl=math.nan))
check(M(db=math.nan, r_db=[math.nan]))
check(M(fl=-0.0, db=-0.0, r_db=[-0.0]))
for v in STRS:
    check(M(s=v), {"s": v})
    check(M(o_s=v), {"o_s": v})
    check(M(g_s=v), {"g_s": v})
    check(M(w_str=v), {"w_str": v})
    check(M(r_s=[v, "", v]), {"r_s": [v, "", v]})
    check(M(m_ss={v: 1}), {"m_ss": {v: 1}})
    check(M(by=v.encode()), {"by": v.encode()})
    check(M(w_by=v.encode()), {"w_by": v.encode()})
for dt, _, _ in DTS:
    check(M(ts=dt), {} if dt == DTS[0][0] else {"ts": dt})
    check(M(r_ts=[dt, DTS[0][0]]), {"r_ts": [dt, DTS[0][0]]})
for td, _, _ in TDS:
    check(M(du=td), {} if td == timedelta(0) else {"du": td})
    check(M(r_du=[td, timedelta(0)]), {"r_du": [td, timedelta(0)]})
for v in (None, 0, 1, -1, 127, 128, -(2**31), 2**31 - 1):
    check(M(w_i32=v), {"w_i32": v})
    if v is not None:
        check(M(r_w=[v, 0]), {"r_w": [v, 0]})
for v in (None, 0, 1, 2**63, 2**64 - 1):
    check(M(w_u64=v), {"w_u64": v})
for v in (None, False, True):
    check(M(w_bool=v), {"w_bool": v})
for lf in LEAVES:
    check(M(leaf=lf), {"leaf": lf})
    check(M(o_leaf=lf), {"o_leaf": lf})
    check(M(g_leaf=lf), {"g_leaf": lf})
    check(M(r_leaf=[lf, Leaf(), lf]), {"r_leaf": [lf, Leaf(), lf]})
    check(M(m_il={0: lf}), {"m_il": {0: lf}})
    check(M(m_il={-1: lf}), {"m_il": {-1: lf}})

# unknown fields carried through
tail = b"\xc0\x3e\x01" + b"\xca\x3e\x02hi"
msg = M().parse(bytes(M(s64=-1, w_str="", o_s="", ts=DTS[3][0])) + tail)
assert msg._unknown_fields == tail
check(msg, {"s64": -1, "w_str": "", "o_s": "", "ts": DTS[3][0]}, unknown=tail)

# oneof switching and in-place filling
m = M(g_s="")
check(m, {"g_s": ""})
m.g_s64 = 0
check(m, {"g_s64": 0})
m.g_leaf = Leaf()
check(m, {"g_leaf": Leaf()})
m = M()
m.leaf.n = -5
m.r_s64.append(-(2**63))
m.m_ss["é"] = -1
check(m, {"leaf": Leaf(n=-5), "r_s64": [-(2**63)], "m_ss": {"é": -1}})

# random composites
def rand_kw():
    kw = {}
    c = rng.choice
    if rng.random() < 0.4: kw["s32"] = c(S32)
    if rng.random() < 0.4: kw["s64"] = c(S64)
    if rng.random() < 0.3: kw["sf64"] = c(S64)
    if rng.random() < 0.3: kw["f32"] = c(S32) & 0xFFFFFFFF
    if rng.random() < 0.3: kw["db"] = c([0.0, 1.5, -3.75, math.inf])
    if rng.random() < 0.4: kw["s"] = c(STRS[:9])
    if rng.random() < 0.3: kw["by"] = c(STRS[:9]).encode()
    if rng.random() < 0.3: kw["ts"] = c(DTS[1:])[0]
    if rng.random() < 0.3: kw["du"] = c(TDS[1:])[0]
    if rng.random() < 0.3: kw["w_i32"] = c([None, 0, -1, 128])
    if rng.random() < 0.3: kw["w_str"] = c([None, "", "é" * 64])
    if rng.random() < 0.3: kw["w_bool"] = c([None, False, True])
    if rng.random() < 0.3: kw["leaf"] = c(LEAVES)
    if rng.random() < 0.4: kw["r_s64"] = [c(S64) for _ in range(rng.randrange(0, 40))]
    if rng.random() < 0.3: kw["r_db"] = [c([0.0, 1.5, -3.75]) for _ in range(rng.randrange(0, 20))]
    if rng.random() < 0.3: kw["r_s"] = [c(STRS[:9]) for _ in range(rng.randrange(0, 5))]
    if rng.random() < 0.3: kw["r_ts"] = [c(DTS)[0] for _ in range(rng.randrange(0, 4))]
    if rng.random() < 0.3: kw["r_du"] = [c(TDS)[0] for _ in range(rng.randrange(0, 4))]
    if rng.random() < 0.3: kw["r_leaf"] = [c(LEAVES) for _ in range(rng.randrange(0, 4))]
    if rng.random() < 0.3: kw["m_ss"] = {c(STRS[:9]): c(S64)}
    if rng.random() < 0.3: kw["m_il"] = {c(S32): c(LEAVES)}
    if rng.random() < 0.3: kw["o_s32"] = c(S32)
    if rng.random() < 0.3: kw["o_s"] = c(STRS[:9])
    if rng.random() < 0.3: kw["o_leaf"] = c(LEAVES)
    if rng.random() < 0.4:
        k = c(["g_s64", "g_s", "g_leaf", "g_fl"])
        kw[k] = {"g_s64": c(S64), "g_s": c(STRS[:9]), "g_leaf": c(LEAVES), "g_fl": c([0.0, 1.5])}[k]
    if rng.random() < 0.2: kw["r_w"] = [c([0, 1, -1, 300]) for _ in range(rng.randrange(0, 4))]
    return kw


for _ in range(600):
    kw = rand_kw()
    check(M(**kw), kw)

print("ok")
