"""Equivalence check for betterproto._preprocess_single (payload encoding of a single
value, used for every enum number written to the wire) and for the serializers built
on it.  Expectations come from an independent encoder in this file and from
google.protobuf (byte-exact comparison).
"""
import random
import struct
from dataclasses import dataclass
from datetime import datetime, timedelta, timezone
from typing import Dict, List, Optional

import betterproto
from betterproto import _preprocess_single, _serialize_single

INT32_MIN, INT32_MAX = -(2**31), 2**31 - 1
INT64_MIN, INT64_MAX = -(2**63), 2**63 - 1


class Colour(betterproto.Enum):
    NONE = 0
    RED = 1
    CRIMSON = 1  # alias
    GREEN = 2
    DEEP = -7
    LOW = INT32_MIN
    HIGH = INT32_MAX


class NoZero(betterproto.Enum):
    A = 5
    B = -5


DEFINED = {0, 1, 2, -7, INT32_MIN, INT32_MAX}


# ------------------------------------------------------------------ independent oracle
def varint(n: int) -> bytes:
    assert INT64_MIN <= n < 2**64
    if n < 0:
        n += 2**64
    out = bytearray()
    while True:
        low = n % 128
        n //= 128
        if n:
            out.append(low + 128)
        else:
            out.append(low)
            return bytes(out)


def zigzag(n: int) -> int:
    return 2 * n if n >= 0 else -2 * n - 1


rng = random.Random(2020)
INT32S = sorted(
    {0, 1, 2, 3, -1, -2, -7, 5, -5, 63, 64, 127, 128, 129, 255, 256, 16383, 16384, 2**21 - 1, 2**21,
     2**28 - 1, 2**28, INT32_MIN, INT32_MIN + 1, INT32_MAX, INT32_MAX - 1, -(2**30), 2**30}
    | {rng.randint(INT32_MIN, INT32_MAX) for _ in range(2500)}
    | {rng.randint(-1000, 1000) for _ in range(300)}
)
INT64S = sorted(
    set(INT32S[::7])
    | {INT64_MIN, INT64_MIN + 1, INT64_MAX, INT64_MAX - 1, 2**35, -(2**35), 2**56 - 1, 2**56, 2**62}
    | {rng.randint(INT64_MIN, INT64_MAX) for _ in range(800)}
)
UINT64S = sorted({0, 1, 127, 128, 2**32 - 1, 2**32, 2**63, 2**64 - 1} | {rng.randint(0, 2**64 - 1) for _ in range(800)})

# ------------------------------------------------------------------ 1. _preprocess_single directly
# enum: plain numbers, members, placeholders for undefined numbers -> same varint
for n in INT32S:
    want = varint(n)
    forms = [n, Colour.try_value(n), NoZero.try_value(n)]
    if n in DEFINED:
        forms.append(Colour(n))
    for form in forms:
        got = _preprocess_single(betterproto.TYPE_ENUM, "", form)
        assert type(got) is bytes and got == want, (n, form, got)
        # `wraps` is irrelevant for non-message types
        assert _preprocess_single(betterproto.TYPE_ENUM, betterproto.TYPE_INT32, form) == want
    assert len(want) == (10 if n < 0 else max(1, -(-n.bit_length() // 7)))
    assert _preprocess_single(betterproto.TYPE_INT32, "", n) == want
    assert _preprocess_single(betterproto.TYPE_SINT32, "", n) == varint(zigzag(n))
    assert _preprocess_single(betterproto.TYPE_SFIXED32, "", n) == struct.pack("<i", n)
    assert _serialize_single(3, betterproto.TYPE_ENUM, n) == b"\x18" + want
    assert _serialize_single(300, betterproto.TYPE_ENUM, Colour.try_value(n)) == varint(300 << 3) + want
for n in INT64S:
    assert _preprocess_single(betterproto.TYPE_INT64, "", n) == varint(n)
    assert _preprocess_single(betterproto.TYPE_SINT64, "", n) == varint(zigzag(n))
    assert _preprocess_single(betterproto.TYPE_SFIXED64, "", n) == struct.pack("<q", n)
for n in UINT64S:
    assert _preprocess_single(betterproto.TYPE_UINT64, "", n) == varint(n)
    assert _preprocess_single(betterproto.TYPE_FIXED64, "", n) == struct.pack("<Q", n)
    assert _preprocess_single(betterproto.TYPE_UINT32, "", n % 2**32) == varint(n % 2**32)
    assert _preprocess_single(betterproto.TYPE_FIXED32, "", n % 2**32) == struct.pack("<I", n % 2**32)
assert _preprocess_single(betterproto.TYPE_BOOL, "", True) == b"\x01"
assert _preprocess_single(betterproto.TYPE_BOOL, "", False) == b"\x00"
for x in (0.0, -0.0, 1.5, -2.25, 1e300, float("inf"), float("-inf"), 3.4e38):
    assert _preprocess_single(betterproto.TYPE_DOUBLE, "", x) == struct.pack("<d", x)
for x in (0.0, -0.0, 1.5, -2.25, float("inf"), 3.0e38):
    assert _preprocess_single(betterproto.TYPE_FLOAT, "", x) == struct.pack("<f", x)
for text in ("", "abc", "héllo 世界 \U0001f600"):
    assert _preprocess_single(betterproto.TYPE_STRING, "", text) == text.encode("utf-8")
# types without an adjustment are passed through as the very same object
for passthrough_type in (betterproto.TYPE_BYTES, betterproto.TYPE_MAP, "no-such-type"):
    for payload in (b"", b"\x00\x01raw", bytearray(b"xyz")):
        assert _preprocess_single(passthrough_type, "", payload) is payload
# message payloads: sub-messages, well-known types, wrappers
assert _preprocess_single(betterproto.TYPE_MESSAGE, betterproto.TYPE_INT32, None) == b""
assert _preprocess_single(betterproto.TYPE_MESSAGE, betterproto.TYPE_INT32, 0) == b""
assert _preprocess_single(betterproto.TYPE_MESSAGE, betterproto.TYPE_INT32, -1) == b"\x08" + varint(-1)
assert _preprocess_single(betterproto.TYPE_MESSAGE, betterproto.TYPE_STRING, "ab") == b"\x0a\x02ab"
assert _preprocess_single(betterproto.TYPE_MESSAGE, "", b"already") == b"already"
assert _preprocess_single(
    betterproto.TYPE_MESSAGE, "", datetime(1970, 1, 1, 0, 0, 5, tzinfo=timezone.utc)
) == b"\x08\x05"
assert _preprocess_single(betterproto.TYPE_MESSAGE, "", timedelta(seconds=7, microseconds=1)) == b"\x08\x07\x10\xe8\x07"
# a datetime wins over `wraps`
assert _preprocess_single(
    betterproto.TYPE_MESSAGE, betterproto.TYPE_INT32, datetime(1970, 1, 1, 0, 0, 5, tzinfo=timezone.utc)
) == b"\x08\x05"
# error behaviour
for bad_type, bad_value, exc in (
    (betterproto.TYPE_ENUM, INT64_MIN - 1, ValueError),
    (betterproto.TYPE_ENUM, "1", TypeError),
    (betterproto.TYPE_ENUM, None, TypeError),
    (betterproto.TYPE_SINT32, None, TypeError),
    (betterproto.TYPE_FIXED32, -1, struct.error),
    (betterproto.TYPE_SFIXED32, 2**31, struct.error),
    (betterproto.TYPE_STRING, 5, AttributeError),
    (betterproto.TYPE_MESSAGE, "text", TypeError),
):
    try:
        _preprocess_single(bad_type, "", bad_value)
    except exc:
        pass
    else:
        raise AssertionError((bad_type, bad_value))


# ------------------------------------------------------------------ 2. whole messages vs google.protobuf
@dataclass(eq=False, repr=False)
class Inner(betterproto.Message):
    inner_colour: Colour = betterproto.enum_field(1)
    inner_many: List[Colour] = betterproto.enum_field(2)


@dataclass(eq=False, repr=False)
class M(betterproto.Message):
    one: Colour = betterproto.enum_field(1)
    many: List[Colour] = betterproto.enum_field(2)
    by_key: Dict[str, Colour] = betterproto.map_field(3, betterproto.TYPE_STRING, betterproto.TYPE_ENUM)
    pick: Colour = betterproto.enum_field(4, group="choice")
    other: int = betterproto.int32_field(5, group="choice")
    maybe: Optional[Colour] = betterproto.enum_field(6, optional=True, group="_maybe")
    s32: int = betterproto.sint32_field(7)
    s64: int = betterproto.sint64_field(8)
    f32: int = betterproto.fixed32_field(9)
    sf64: int = betterproto.sfixed64_field(10)
    d: float = betterproto.double_field(11)
    f: float = betterproto.float_field(12)
    s: str = betterproto.string_field(13)
    b: bytes = betterproto.bytes_field(14)
    u64: int = betterproto.uint64_field(15)
    flag: bool = betterproto.bool_field(16)
    i64: int = betterproto.int64_field(17)
    inner: Inner = betterproto.message_field(18)
    ts: datetime = betterproto.message_field(19)
    du: timedelta = betterproto.message_field(20)
    w: Optional[int] = betterproto.message_field(21, wraps=betterproto.TYPE_INT32)
    int_key: Dict[int, Colour] = betterproto.map_field(22, betterproto.TYPE_SINT32, betterproto.TYPE_ENUM)
    inners: List[Inner] = betterproto.message_field(23)


from google.protobuf import (  # noqa: E402
    descriptor_pb2,
    descriptor_pool,
    duration_pb2,
    message_factory,
    timestamp_pb2,
    wrappers_pb2,
)

F = descriptor_pb2.FieldDescriptorProto
fdp = descriptor_pb2.FileDescriptorProto(name="c20_keep2.proto", package="c20k2", syntax="proto3")
fdp.dependency.extend(
    ["google/protobuf/timestamp.proto", "google/protobuf/duration.proto", "google/protobuf/wrappers.proto"]
)
en = fdp.enum_type.add(name="Colour")
en.options.allow_alias = True
for name, number in (("NONE", 0), ("RED", 1), ("CRIMSON", 1), ("GREEN", 2), ("DEEP", -7),
                     ("LOW", INT32_MIN), ("HIGH", INT32_MAX)):
    en.value.add(name=name, number=number)
inner_d = fdp.message_type.add(name="Inner")
inner_d.field.add(name="inner_colour", number=1, type=F.TYPE_ENUM, type_name=".c20k2.Colour", label=F.LABEL_OPTIONAL)
inner_d.field.add(name="inner_many", number=2, type=F.TYPE_ENUM, type_name=".c20k2.Colour", label=F.LABEL_REPEATED)
md = fdp.message_type.add(name="M")
md.oneof_decl.add(name="choice")
md.oneof_decl.add(name="_maybe")


def add_map(field_name, number, key_type):
    entry_name = "".join(p.capitalize() for p in field_name.split("_")) + "Entry"
    entry = md.nested_type.add(name=entry_name)
    entry.options.map_entry = True
    entry.field.add(name="key", number=1, type=key_type, label=F.LABEL_OPTIONAL)
    entry.field.add(name="value", number=2, type=F.TYPE_ENUM, type_name=".c20k2.Colour", label=F.LABEL_OPTIONAL)
    md.field.add(name=field_name, number=number, type=F.TYPE_MESSAGE,
                 type_name=f".c20k2.M.{entry_name}", label=F.LABEL_REPEATED)


md.field.add(name="one", number=1, type=F.TYPE_ENUM, type_name=".c20k2.Colour", label=F.LABEL_OPTIONAL)
md.field.add(name="many", number=2, type=F.TYPE_ENUM, type_name=".c20k2.Colour", label=F.LABEL_REPEATED)
add_map("by_key", 3, F.TYPE_STRING)
md.field.add(name="pick", number=4, type=F.TYPE_ENUM, type_name=".c20k2.Colour", label=F.LABEL_OPTIONAL, oneof_index=0)
md.field.add(name="other", number=5, type=F.TYPE_INT32, label=F.LABEL_OPTIONAL, oneof_index=0)
md.field.add(name="maybe", number=6, type=F.TYPE_ENUM, type_name=".c20k2.Colour", label=F.LABEL_OPTIONAL,
             oneof_index=1, proto3_optional=True)
for fname, num, ftype in (
    ("s32", 7, F.TYPE_SINT32), ("s64", 8, F.TYPE_SINT64), ("f32", 9, F.TYPE_FIXED32), ("sf64", 10, F.TYPE_SFIXED64),
    ("d", 11, F.TYPE_DOUBLE), ("f", 12, F.TYPE_FLOAT), ("s", 13, F.TYPE_STRING), ("b", 14, F.TYPE_BYTES),
    ("u64", 15, F.TYPE_UINT64), ("flag", 16, F.TYPE_BOOL), ("i64", 17, F.TYPE_INT64),
):
    md.field.add(name=fname, number=num, type=ftype, label=F.LABEL_OPTIONAL)
md.field.add(name="inner", number=18, type=F.TYPE_MESSAGE, type_name=".c20k2.Inner", label=F.LABEL_OPTIONAL)
md.field.add(name="ts", number=19, type=F.TYPE_MESSAGE, type_name=".google.protobuf.Timestamp", label=F.LABEL_OPTIONAL)
md.field.add(name="du", number=20, type=F.TYPE_MESSAGE, type_name=".google.protobuf.Duration", label=F.LABEL_OPTIONAL)
md.field.add(name="w", number=21, type=F.TYPE_MESSAGE, type_name=".google.protobuf.Int32Value", label=F.LABEL_OPTIONAL)
add_map("int_key", 22, F.TYPE_SINT32)
md.field.add(name="inners", number=23, type=F.TYPE_MESSAGE, type_name=".c20k2.Inner", label=F.LABEL_REPEATED)

assert timestamp_pb2 and duration_pb2 and wrappers_pb2  # loaded into the default pool
pool = descriptor_pool.Default()
pool.AddSerializedFile(fdp.SerializeToString())
PbM = message_factory.GetMessageClass(pool.FindMessageTypeByName("c20k2.M"))


def check(ours: M, **pb_kwargs):
    """ours and the protobuf message built from pb_kwargs serialize to the same bytes,
    and each library reads the other's bytes back to the same enum numbers."""
    theirs = PbM()
    for k, v in pb_kwargs.items():
        field = getattr(theirs, k)
        if callable(v):
            v(field)
        elif isinstance(v, dict):
            for kk, vv in v.items():
                field[kk] = vv
        elif isinstance(v, list):
            field.extend(v)
        else:
            setattr(theirs, k, v)
    want = theirs.SerializeToString(deterministic=True)
    got = bytes(ours)
    assert got == want, (ours, got.hex(), want.hex())
    assert len(ours) == len(want)
    return M().parse(want)


count = 0
for n in INT32S[::3] + sorted(DEFINED):
    for form in (n, Colour.try_value(n)):
        # singular
        back = check(M(one=form), one=n)
        assert back.one == n and isinstance(back.one, Colour)
        assert (back.one is Colour(n)) if n in DEFINED else back.one.name is None
        # repeated (packed)
        back = check(M(many=[form, 0, form, 1]), many=[n, 0, n, 1])
        assert back.many == [n, 0, n, 1] and back.many[1] is Colour.NONE and back.many[3] is Colour.RED
        # map value, string and sint32 keys
        back = check(M(by_key={"k": form}), by_key={"k": n})
        assert back.by_key == {"k": n} and isinstance(back.by_key["k"], Colour)
        back = check(M(int_key={n: form}), int_key={n: n})
        assert back.int_key == {n: n}
        # oneof: serialized even when 0
        back = check(M(pick=form), pick=n)
        assert back.pick == n and betterproto.which_one_of(back, "choice") == ("pick", n)
        # optional: serialized even when 0
        back = check(M(maybe=form), maybe=n)
        assert back.maybe == n and back.maybe is not None
        # nested
        back = check(
            M(inner=Inner(inner_colour=form, inner_many=[form])),
            inner=lambda f, n=n: (setattr(f, "inner_colour", n), f.inner_many.append(n)),
        )
        assert back.inner.inner_colour == n and back.inner.inner_many == [n]
        count += 1
assert count > 1500, count

# the other value kinds _preprocess_single handles
for n in INT32S[::40]:
    check(M(s32=n, s64=n * 3, f32=n % 2**32, sf64=n * 5, i64=n * 7, u64=(n * 11) % 2**64, flag=bool(n % 2)),
          s32=n, s64=n * 3, f32=n % 2**32, sf64=n * 5, i64=n * 7, u64=(n * 11) % 2**64, flag=bool(n % 2))
for n in INT64S[::25]:
    check(M(s64=n, sf64=n, i64=n), s64=n, sf64=n, i64=n)
check(M(d=1.5, f=-2.25, s="héllo 世界", b=b"\x00\xffraw"), d=1.5, f=-2.25, s="héllo 世界", b=b"\x00\xffraw")
check(M(d=float("inf"), f=float("-inf")), d=float("inf"), f=float("-inf"))
when = datetime(2024, 2, 29, 12, 30, 15, 250000, tzinfo=timezone.utc)
check(M(ts=when), ts=lambda f: f.FromDatetime(when))
check(M(du=timedelta(seconds=-3, microseconds=250)), du=lambda f: f.FromTimedelta(timedelta(seconds=-3, microseconds=250)))
check(M(w=0), w=lambda f: f.CopyFrom(wrappers_pb2.Int32Value(value=0)))
check(M(w=-12345), w=lambda f: f.CopyFrom(wrappers_pb2.Int32Value(value=-12345)))
check(M(w=None))
check(M())
check(
    M(inners=[Inner(), Inner(inner_colour=-7), Inner(inner_many=[99, INT32_MIN])]),
    inners=lambda f: (f.add(), f.add(inner_colour=-7), f.add(inner_many=[99, INT32_MIN])),
)

print("ok")
