"""Equivalence check for the Message.load restructuring (C17).

Exercises Message.parse / FromString / load (unsized, sized, size-delimited) on
  * valid encodings produced by google.protobuf for random messages,
  * every truncation of them,
  * single-byte corruptions,
  * wire-type substitutions on every field kind,
  * random byte strings,
and checks
  1. semantic facts that hold for the reference tree (agreement with google.protobuf on
     valid input, rejection of every mid-field truncation, isolation of wire-type
     mismatches, the stream position left behind by sized loads, ...), and
  2. that a digest over the complete observable outcome of every single call (exception
     type and text, or every raw field value, the unknown-field bytes, the presence
     flag, the re-encoding and the stream position) is the one of the reference tree.
"""
import hashlib
import io
import math
import random
import struct
from dataclasses import dataclass
from datetime import datetime, timedelta
from typing import Dict, List, Optional

import betterproto
from google.protobuf import descriptor_pb2, descriptor_pool, message_factory
from google.protobuf.message import DecodeError

EXPECTED_DIGEST = "96e3762a802a809059be9b7a66f1758acbd5d9c9ba0e83afd0174c121a228735"


# --------------------------------------------------------------------------- schema
class Color(betterproto.Enum):
    ZERO = 0
    ONE = 1
    TWO = 2
    NEG = -1


@dataclass(eq=False, repr=False)
class Child(betterproto.Message):
    x: int = betterproto.int32_field(1)
    s: str = betterproto.string_field(2)
    kids: List["Child"] = betterproto.message_field(3)


@dataclass(eq=False, repr=False)
class Big(betterproto.Message):
    i32: int = betterproto.int32_field(1)
    i64: int = betterproto.int64_field(2)
    u32: int = betterproto.uint32_field(3)
    u64: int = betterproto.uint64_field(4)
    s32: int = betterproto.sint32_field(5)
    s64: int = betterproto.sint64_field(6)
    b: bool = betterproto.bool_field(7)
    e: Color = betterproto.enum_field(8)
    f32: int = betterproto.fixed32_field(9)
    sf32: int = betterproto.sfixed32_field(10)
    f64: int = betterproto.fixed64_field(11)
    sf64: int = betterproto.sfixed64_field(12)
    fl: float = betterproto.float_field(13)
    db: float = betterproto.double_field(14)
    st: str = betterproto.string_field(15)
    by: bytes = betterproto.bytes_field(16)
    child: Child = betterproto.message_field(17)
    r_i32: List[int] = betterproto.int32_field(18)
    r_fl: List[float] = betterproto.float_field(19)
    r_db: List[float] = betterproto.double_field(20)
    r_st: List[str] = betterproto.string_field(21)
    r_child: List[Child] = betterproto.message_field(22)
    m: Dict[str, int] = betterproto.map_field(
        23, betterproto.TYPE_STRING, betterproto.TYPE_INT32
    )
    m2: Dict[int, Child] = betterproto.map_field(
        24, betterproto.TYPE_INT32, betterproto.TYPE_MESSAGE
    )
    oa: str = betterproto.string_field(25, group="choice")
    ob: int = betterproto.int32_field(26, group="choice")
    opt: Optional[int] = betterproto.int32_field(27, optional=True)
    r_s64: List[int] = betterproto.sint64_field(28)
    r_e: List[Color] = betterproto.enum_field(29)
    r_b: List[bool] = betterproto.bool_field(30)
    ts: datetime = betterproto.message_field(31)
    du: timedelta = betterproto.message_field(32)
    w: Optional[int] = betterproto.message_field(33, wraps=betterproto.TYPE_INT32)
    r_f64: List[int] = betterproto.fixed64_field(34)
    oc: Child = betterproto.message_field(35, group="choice")


def build_google():
    F = descriptor_pb2.FieldDescriptorProto
    fp = descriptor_pb2.FileDescriptorProto(
        name="c17_equiv_keep1.proto", package="c17k1", syntax="proto3"
    )
    fp.dependency.extend(
        [
            "google/protobuf/timestamp.proto",
            "google/protobuf/duration.proto",
            "google/protobuf/wrappers.proto",
        ]
    )
    en = fp.enum_type.add(name="Color")
    for name, num in (("ZERO", 0), ("ONE", 1), ("TWO", 2), ("NEG", -1)):
        en.value.add(name=name, number=num)

    child = fp.message_type.add(name="Child")
    child.field.add(name="x", number=1, type=F.TYPE_INT32, label=F.LABEL_OPTIONAL)
    child.field.add(name="s", number=2, type=F.TYPE_STRING, label=F.LABEL_OPTIONAL)
    child.field.add(
        name="kids",
        number=3,
        type=F.TYPE_MESSAGE,
        label=F.LABEL_REPEATED,
        type_name=".c17k1.Child",
    )

    big = fp.message_type.add(name="Big")
    big.oneof_decl.add(name="choice")
    big.oneof_decl.add(name="_opt")

    def add(name, number, ftype, label=F.LABEL_OPTIONAL, type_name=None, **kw):
        f = big.field.add(name=name, number=number, type=ftype, label=label, **kw)
        if type_name:
            f.type_name = type_name
        return f

    scalars = [
        ("i32", 1, F.TYPE_INT32),
        ("i64", 2, F.TYPE_INT64),
        ("u32", 3, F.TYPE_UINT32),
        ("u64", 4, F.TYPE_UINT64),
        ("s32", 5, F.TYPE_SINT32),
        ("s64", 6, F.TYPE_SINT64),
        ("b", 7, F.TYPE_BOOL),
        ("f32", 9, F.TYPE_FIXED32),
        ("sf32", 10, F.TYPE_SFIXED32),
        ("f64", 11, F.TYPE_FIXED64),
        ("sf64", 12, F.TYPE_SFIXED64),
        ("fl", 13, F.TYPE_FLOAT),
        ("db", 14, F.TYPE_DOUBLE),
        ("st", 15, F.TYPE_STRING),
        ("by", 16, F.TYPE_BYTES),
    ]
    for name, number, ftype in scalars:
        add(name, number, ftype)
    add("e", 8, F.TYPE_ENUM, type_name=".c17k1.Color")
    add("child", 17, F.TYPE_MESSAGE, type_name=".c17k1.Child")
    add("r_i32", 18, F.TYPE_INT32, F.LABEL_REPEATED)
    add("r_fl", 19, F.TYPE_FLOAT, F.LABEL_REPEATED)
    add("r_db", 20, F.TYPE_DOUBLE, F.LABEL_REPEATED)
    add("r_st", 21, F.TYPE_STRING, F.LABEL_REPEATED)
    add("r_child", 22, F.TYPE_MESSAGE, F.LABEL_REPEATED, ".c17k1.Child")
    for entry_name, ktype, vtype, vname in (
        ("MEntry", F.TYPE_STRING, F.TYPE_INT32, None),
        ("M2Entry", F.TYPE_INT32, F.TYPE_MESSAGE, ".c17k1.Child"),
    ):
        entry = big.nested_type.add(name=entry_name)
        entry.options.map_entry = True
        entry.field.add(name="key", number=1, type=ktype, label=F.LABEL_OPTIONAL)
        v = entry.field.add(name="value", number=2, type=vtype, label=F.LABEL_OPTIONAL)
        if vname:
            v.type_name = vname
    add("m", 23, F.TYPE_MESSAGE, F.LABEL_REPEATED, ".c17k1.Big.MEntry")
    add("m2", 24, F.TYPE_MESSAGE, F.LABEL_REPEATED, ".c17k1.Big.M2Entry")
    add("oa", 25, F.TYPE_STRING, oneof_index=0)
    add("ob", 26, F.TYPE_INT32, oneof_index=0)
    add("opt", 27, F.TYPE_INT32, oneof_index=1, proto3_optional=True)
    add("r_s64", 28, F.TYPE_SINT64, F.LABEL_REPEATED)
    add("r_e", 29, F.TYPE_ENUM, F.LABEL_REPEATED, ".c17k1.Color")
    add("r_b", 30, F.TYPE_BOOL, F.LABEL_REPEATED)
    add("ts", 31, F.TYPE_MESSAGE, type_name=".google.protobuf.Timestamp")
    add("du", 32, F.TYPE_MESSAGE, type_name=".google.protobuf.Duration")
    add("w", 33, F.TYPE_MESSAGE, type_name=".google.protobuf.Int32Value")
    add("r_f64", 34, F.TYPE_FIXED64, F.LABEL_REPEATED)
    add("oc", 35, F.TYPE_MESSAGE, type_name=".c17k1.Child", oneof_index=0)

    from google.protobuf import duration_pb2, timestamp_pb2, wrappers_pb2  # noqa: F401

    pool = descriptor_pool.Default()
    pool.Add(fp)
    return message_factory.GetMessageClass(pool.FindMessageTypeByName("c17k1.Big"))


GBig = build_google()


# --------------------------------------------------------------- random valid messages
def fill_child(rnd, c, depth=0):
    if rnd.random() < 0.7:
        c.x = rnd.choice([0, 1, -1, 2**31 - 1, -(2**31), rnd.randrange(-1000, 1000)])
    if rnd.random() < 0.7:
        c.s = rnd.choice(["", "a", "héllo", "日本語", "x" * rnd.randrange(0, 140)])
    if depth < 2:
        for _ in range(rnd.choice([0, 0, 1, 2])):
            fill_child(rnd, c.kids.add(), depth + 1)


def random_gmsg(rnd):
    g = GBig()
    p = rnd.random

    def ri(bits, signed):
        lo, hi = (-(1 << bits - 1), (1 << bits - 1) - 1) if signed else (0, (1 << bits) - 1)
        return rnd.choice([lo, hi, 0, 1, rnd.randrange(lo, hi + 1), rnd.randrange(0, 200)])

    if p() < 0.4:
        g.i32 = ri(32, True)
    if p() < 0.4:
        g.i64 = ri(64, True)
    if p() < 0.4:
        g.u32 = ri(32, False)
    if p() < 0.4:
        g.u64 = ri(64, False)
    if p() < 0.4:
        g.s32 = ri(32, True)
    if p() < 0.4:
        g.s64 = ri(64, True)
    if p() < 0.4:
        g.b = True
    if p() < 0.4:
        g.e = rnd.choice([0, 1, 2, -1, 77, -5])
    if p() < 0.4:
        g.f32 = ri(32, False)
    if p() < 0.4:
        g.sf32 = ri(32, True)
    if p() < 0.4:
        g.f64 = ri(64, False)
    if p() < 0.4:
        g.sf64 = ri(64, True)
    if p() < 0.4:
        g.fl = rnd.choice([1.5, -2.0, float("inf"), float("nan"), 3.25e10])
    if p() < 0.4:
        g.db = rnd.choice([1.5, -2.0, float("-inf"), float("nan"), 1e300, rnd.random()])
    if p() < 0.4:
        g.st = rnd.choice(["a", "héllo", "\U0001f600", "y" * rnd.randrange(1, 300)])
    if p() < 0.4:
        g.by = bytes(rnd.randrange(256) for _ in range(rnd.randrange(1, 20)))
    if p() < 0.4:
        fill_child(rnd, g.child)
        g.child.SetInParent()
    if p() < 0.4:
        g.r_i32.extend(ri(32, True) for _ in range(rnd.randrange(1, 5)))
    if p() < 0.4:
        g.r_fl.extend(rnd.choice([0.0, 1.5, -2.25]) for _ in range(rnd.randrange(1, 5)))
    if p() < 0.4:
        g.r_db.extend(rnd.random() for _ in range(rnd.randrange(1, 4)))
    if p() < 0.4:
        g.r_st.extend(rnd.choice(["", "a", "日本"]) for _ in range(rnd.randrange(1, 4)))
    if p() < 0.4:
        for _ in range(rnd.randrange(1, 4)):
            fill_child(rnd, g.r_child.add())
    if p() < 0.4:
        for _ in range(rnd.randrange(1, 4)):
            g.m[rnd.choice(["", "k", "key2", "ключ"])] = ri(32, True)
    if p() < 0.4:
        for _ in range(rnd.randrange(1, 3)):
            fill_child(rnd, g.m2[rnd.choice([0, 1, -1, 500])])
    r = p()
    if r < 0.2:
        g.oa = rnd.choice(["", "chosen"])
    elif r < 0.4:
        g.ob = rnd.choice([0, 5, -5])
    elif r < 0.5:
        fill_child(rnd, g.oc)
        g.oc.SetInParent()
    if p() < 0.4:
        g.opt = rnd.choice([0, 7, -7])
    if p() < 0.4:
        g.r_s64.extend(ri(64, True) for _ in range(rnd.randrange(1, 5)))
    if p() < 0.4:
        g.r_e.extend(rnd.choice([0, 1, 2, -1, 9]) for _ in range(rnd.randrange(1, 5)))
    if p() < 0.4:
        g.r_b.extend(rnd.choice([True, False]) for _ in range(rnd.randrange(1, 5)))
    if p() < 0.4:
        g.ts.seconds = rnd.choice([0, 1, 1700000000, -1000])
        g.ts.nanos = rnd.choice([0, 1000, 999999000])
        g.ts.SetInParent()
    if p() < 0.4:
        g.du.seconds = rnd.choice([0, 1, 86400 * 365, -5])
        g.du.nanos = 0 if g.du.seconds < 0 else rnd.choice([0, 5000])
        g.du.SetInParent()
    if p() < 0.4:
        g.w.value = rnd.choice([0, 3, -3])
        g.w.SetInParent()
    if p() < 0.4:
        g.r_f64.extend(ri(64, False) for _ in range(rnd.randrange(1, 4)))
    return g


# ------------------------------------------------------------------- outcome recording
def raw(msg, name):
    return object.__getattribute__(msg, name)


def show_value(v):
    if isinstance(v, betterproto.Message):
        return show(v)
    if isinstance(v, list):
        return ["list"] + [show_value(x) for x in v]
    if isinstance(v, dict):
        return ["dict"] + [(show_value(k), show_value(x)) for k, x in v.items()]
    if isinstance(v, float):
        return ("float", struct.pack("<d", v).hex())
    if isinstance(v, betterproto.Enum):
        return ("enum", type(v).__name__, int(v), v.name)
    return (type(v).__name__, repr(v))


def show(msg):
    fields = []
    for name in msg._betterproto.sorted_field_names:
        v = raw(msg, name)
        fields.append((name, "<unset>" if v is betterproto.PLACEHOLDER else show_value(v)))
    return (
        type(msg).__name__,
        fields,
        msg._unknown_fields.hex(),
        msg._serialized_on_wire,
        sorted(msg._group_current.items(), key=repr),
    )


def check_types(msg):
    def is_int(v):
        return isinstance(v, int) and not isinstance(v, bool)

    def child_ok(c):
        assert type(c) is Child
        assert is_int(c.x) and isinstance(c.s, str) and isinstance(c.kids, list)
        for k in c.kids:
            child_ok(k)

    for name in ("i32", "i64", "u32", "u64", "s32", "s64", "f32", "sf32", "f64", "sf64"):
        assert is_int(getattr(msg, name)), name
    assert isinstance(msg.b, bool)
    assert isinstance(msg.e, Color)
    assert isinstance(msg.fl, float) and isinstance(msg.db, float)
    assert isinstance(msg.st, str) and isinstance(msg.by, bytes)
    child_ok(msg.child)
    for name, pred in (
        ("r_i32", is_int),
        ("r_fl", lambda v: isinstance(v, float)),
        ("r_db", lambda v: isinstance(v, float)),
        ("r_st", lambda v: isinstance(v, str)),
        ("r_s64", is_int),
        ("r_e", lambda v: isinstance(v, Color)),
        ("r_b", lambda v: isinstance(v, bool)),
        ("r_f64", is_int),
    ):
        value = getattr(msg, name)
        assert isinstance(value, list) and all(pred(v) for v in value), name
    assert isinstance(msg.r_child, list)
    for c in msg.r_child:
        child_ok(c)
    assert isinstance(msg.m, dict)
    assert all(isinstance(k, str) and is_int(v) for k, v in msg.m.items())
    assert isinstance(msg.m2, dict)
    for k, v in msg.m2.items():
        assert is_int(k)
        child_ok(v)
    which, value = betterproto.which_one_of(msg, "choice")
    assert which in ("", "oa", "ob", "oc")
    if which == "oa":
        assert isinstance(value, str)
    elif which == "ob":
        assert is_int(value)
    elif which == "oc":
        child_ok(value)
    assert msg.opt is None or is_int(msg.opt)
    assert isinstance(msg.ts, datetime) and isinstance(msg.du, timedelta)
    assert msg.w is None or is_int(msg.w)


class Recorder:
    def __init__(self):
        self.h = hashlib.sha256()
        self.calls = 0
        self.accepted = 0
        self.rejected = 0

    def add(self, *parts):
        self.h.update(repr(parts).encode("utf-8", "backslashreplace"))
        self.h.update(b"\n")


REC = Recorder()


def outcome_of(call):
    """Runs call() -> message; returns ('ok', msg) or ('err', exc) and records it."""
    REC.calls += 1
    try:
        msg = call()
    except RecursionError:
        raise
    except Exception as exc:  # noqa: BLE001 - every exception type is an outcome
        REC.rejected += 1
        REC.add("err", type(exc).__name__, str(exc))
        return "err", exc
    REC.accepted += 1
    check_types(msg)
    encoded = bytes(msg)
    assert len(msg) == len(encoded)
    REC.add("ok", show(msg), encoded.hex())
    return "ok", msg


def norm(data):
    """Reference serialisation, minus the presence of an all-zero Timestamp/Duration
    (which betterproto represents by the default datetime/timedelta: another property)."""
    g = GBig.FromString(data)
    for name in ("ts", "du"):
        v = getattr(g, name)
        if g.HasField(name) and v.seconds == 0 and v.nanos == 0:
            g.ClearField(name)
    return g.SerializeToString(deterministic=True)


def g_accepts(data):
    try:
        g = GBig.FromString(data)
    except DecodeError:
        return None
    return g


def parse_all_ways(data, label):
    """parse / FromString / load / sized load must all tell the same story."""
    kind, res = outcome_of(lambda: Big().parse(data))
    kind2, res2 = outcome_of(lambda: Big.FromString(data))
    assert kind == kind2, label
    stream = io.BytesIO(data + b"\x08\x01trailing")
    kind3, res3 = outcome_of(lambda: Big().load(stream, len(data)))
    REC.add("pos", stream.tell())
    if kind == "ok":
        assert kind3 == "ok", label
        assert show(res) == show(res2) == show(res3), label
        # a sized load leaves the stream right behind the message
        assert stream.tell() == len(data), label
    else:
        assert kind3 == "err", label
        assert type(res) is type(res2), label
    return kind, res


def field_spans(data):
    """(start, end) of every top-level field of a valid encoding."""
    spans = []
    with io.BytesIO(data) as s:
        pos = 0
        for f in betterproto.load_fields(s):
            spans.append((pos, pos + len(f.raw), f))
            pos += len(f.raw)
    assert pos == len(data)
    return spans


def varint(n):
    return betterproto.encode_varint(n)


def tag(number, wire):
    return varint(number << 3 | wire)


WIRE_OF = {
    "i32": 0, "i64": 0, "u32": 0, "u64": 0, "s32": 0, "s64": 0, "b": 0, "e": 0,
    "f32": 5, "sf32": 5, "f64": 1, "sf64": 1, "fl": 5, "db": 1,
    "st": 2, "by": 2, "child": 2, "r_i32": 0, "r_fl": 5, "r_db": 1, "r_st": 2,
    "r_child": 2, "m": 2, "m2": 2, "oa": 2, "ob": 0, "opt": 0, "r_s64": 0,
    "r_e": 0, "r_b": 0, "ts": 2, "du": 2, "w": 2, "r_f64": 1, "oc": 2,
}  # fmt: skip
REPEATED_SCALARS = {"r_i32", "r_fl", "r_db", "r_s64", "r_e", "r_b", "r_f64"}
NUMBER_OF = {
    name: Big._betterproto.meta_by_field_name[name].number for name in WIRE_OF
}

PAYLOADS = {
    0: [b"\x00", b"\x01", b"\x96\x01", b"\xff" * 9 + b"\x01"],
    1: [b"\x00" * 8, b"\x01\x02\x03\x04\x05\x06\x07\x08", b"\x08\x01\x10\x02" * 2],
    5: [b"\x00" * 4, b"\x08\x01\x10\x02", b"\x0a\x02hi"],
    2: [b"\x00", b"\x02hi", b"\x04\x08\x01\x10\x02", b"\x08" + b"\x01" * 8, b"\x02\xff\xfe"],
}


# ------------------------------------------------------------------------------ main
def main():
    rnd = random.Random(20170917)
    corpus = [b""]
    gmsgs = [GBig()]
    for _ in range(90):
        g = random_gmsg(rnd)
        gmsgs.append(g)
        corpus.append(g.SerializeToString(deterministic=True))

    # 1. valid encodings: accepted, same content as the reference implementation
    for g, data in zip(gmsgs, corpus):
        kind, msg = parse_all_ways(data, "valid")
        assert kind == "ok"
        assert msg._unknown_fields == b""
        assert norm(bytes(msg)) == norm(data)
        # unsized load reads to the end of the stream
        stream = io.BytesIO(data)
        kind, msg2 = outcome_of(lambda: Big().load(stream))
        assert kind == "ok" and stream.tell() == len(data)
        assert show(msg2) == show(msg)

    # 2. every truncation point of every valid encoding
    for index, data in enumerate(corpus[:50]):
        spans = field_spans(data)
        boundaries = {0} | {end for _, end, _ in spans}
        for cut in range(len(data)):
            prefix = data[:cut]
            kind, res = outcome_of(lambda: Big().parse(prefix))
            g = g_accepts(prefix)
            if cut in boundaries:
                assert kind == "ok" and g is not None, (cut, data.hex())
            else:
                # a field cut in the middle is rejected, as the reference decoder does
                assert kind == "err" and g is None, (cut, data.hex())
                assert isinstance(res, EOFError), (cut, res)
            if index >= 20:
                continue
            # the same prefix through a sized load that expects the whole message:
            stream = io.BytesIO(prefix)
            kind, res = outcome_of(lambda: Big().load(stream, len(data)))
            REC.add("pos", stream.tell())
            assert kind == "err" and isinstance(res, (EOFError, ValueError))
            # a declared size that ends inside a field of a complete stream
            stream = io.BytesIO(data)
            kind, res = outcome_of(lambda: Big().load(stream, cut))
            REC.add("pos", stream.tell())
            if cut in boundaries:
                assert kind == "ok" and stream.tell() == cut
            else:
                assert kind == "err" and isinstance(res, ValueError)

    # 3. sized loads with sizes around the real size, and size-delimited streams
    for data in corpus[:40]:
        for size in (0, 1, len(data) - 1, len(data), len(data) + 1, len(data) + 7, -5):
            stream = io.BytesIO(data)
            kind, res = outcome_of(lambda: Big().load(stream, size))
            REC.add("pos", stream.tell(), size)
            if size == 0 or size == -5:
                assert kind == "ok" and stream.tell() == 0
            if size > len(data):
                assert kind == "err" and isinstance(res, ValueError)
    for start in range(0, 60, 3):
        msgs = corpus[start : start + 3]
        blob = b"".join(varint(len(d)) + d for d in msgs)
        stream = io.BytesIO(blob)
        for d in msgs:
            kind, msg = outcome_of(lambda: Big().load(stream, betterproto.SIZE_DELIMITED))
            REC.add("pos", stream.tell())
            assert kind == "ok"
            assert norm(bytes(msg)) == norm(d)
        assert stream.read() == b""
        # ... and with every truncation of the delimited stream
        for cut in range(0, len(blob), max(1, len(blob) // 40)):
            stream = io.BytesIO(blob[:cut])
            results = []
            for _ in msgs:
                kind, _res = outcome_of(
                    lambda: Big().load(stream, betterproto.SIZE_DELIMITED)
                )
                REC.add("pos", stream.tell())
                results.append(kind)
                if kind == "err":
                    break
            assert "err" in results

    # 4. single-byte corruptions (tags, lengths, payloads alike)
    agree = disagree = 0
    for data in corpus[1:45]:
        for _ in range(60):
            pos = rnd.randrange(len(data)) if data else 0
            if not data:
                continue
            mutated = bytearray(data)
            mutated[pos] = rnd.choice(
                [mutated[pos] ^ (1 << rnd.randrange(8)), rnd.randrange(256), 0, 0xFF, 0x80]
            )
            mutated = bytes(mutated)
            kind, _res = parse_all_ways(mutated, "corrupt")
            if (kind == "ok") == (g_accepts(mutated) is not None):
                agree += 1
            else:
                disagree += 1
    REC.add("agreement", agree, disagree)

    # 5. wire-type substitutions on every field kind
    base = corpus[5]
    for name, declared in WIRE_OF.items():
        number = NUMBER_OF[name]
        for wire in (0, 1, 2, 5):
            for payload in PAYLOADS[wire]:
                occurrence = tag(number, wire) + payload
                for data in (occurrence, base + occurrence, occurrence + base):
                    kind, msg = parse_all_ways(data, (name, wire))
                    fits = wire == declared or (wire == 2 and name in REPEATED_SCALARS)
                    if fits:
                        continue
                    # kept as an unknown field, never decoded into the field,
                    # and the known fields are those of the rest of the input
                    assert kind == "ok", (name, wire, payload)
                    assert msg._unknown_fields == occurrence
                    rest = Big().parse(base if len(data) > len(occurrence) else b"")
                    rest._unknown_fields = occurrence
                    rest._serialized_on_wire = True
                    check_types(rest)  # materialises the same lazy defaults
                    assert show(msg) == show(rest), (name, wire, payload)
                    assert g_accepts(data) is not None
        # invalid wire types and groups are rejected, wherever they occur
        for wire in (3, 4, 6, 7):
            for data in (tag(number, wire), base + tag(number, wire) + b"\x00"):
                kind, res = parse_all_ways(data, (name, wire))
                assert kind == "err" and isinstance(res, ValueError)
    # field number 0
    for wire in range(8):
        for data in (tag(0, wire) + b"\x00", base + tag(0, wire) + b"\x00" * 9):
            kind, res = parse_all_ways(data, ("zero", wire))
            assert kind == "err" and isinstance(res, ValueError)
    # unknown field numbers of every supported wire type are kept verbatim
    for wire in (0, 1, 2, 5):
        for payload in PAYLOADS[wire]:
            for number in (36, 100, 1000, 2**29 - 1):
                occurrence = tag(number, wire) + payload
                kind, msg = parse_all_ways(base + occurrence + occurrence, "unknown")
                assert kind == "ok" and msg._unknown_fields == occurrence * 2
                assert bytes(msg).endswith(occurrence * 2)

    # 6. merging: repeated occurrences, split packed runs, oneof switching, map updates
    merge_cases = [
        tag(1, 0) + b"\x05" + tag(1, 0) + b"\x07",
        tag(18, 0) + b"\x01" + tag(18, 2) + b"\x02\x02\x03" + tag(18, 0) + b"\x04",
        tag(18, 2) + b"\x00" + tag(18, 2) + b"\x01\x09",
        tag(19, 2) + b"\x08" + struct.pack("<ff", 1.5, 2.5) + tag(19, 5) + struct.pack("<f", 3),
        tag(19, 2) + b"\x06" + struct.pack("<f", 1.5) + b"\x00\x00",
        tag(34, 2) + b"\x09" + b"\x01" * 9,
        tag(28, 2) + b"\x02\xff\xff",
        tag(25, 2) + b"\x01a" + tag(26, 0) + b"\x03" + tag(25, 2) + b"\x01b",
        tag(26, 0) + b"\x03" + tag(35, 2) + b"\x02\x08\x01",
        tag(35, 2) + b"\x02\x08\x01" + tag(35, 2) + b"\x03\x12\x01z",
        tag(23, 2) + b"\x05\x0a\x01k\x10\x01" + tag(23, 2) + b"\x05\x0a\x01k\x10\x02",
        tag(23, 2) + b"\x00",
        tag(24, 2) + b"\x06\x08\x01\x12\x02\x08\x09",
        tag(24, 2) + b"\x04\x08\x01\x10\x09",
        tag(17, 2) + b"\x02\x08\x01" + tag(17, 2) + b"\x03\x12\x01s",
        tag(17, 2) + b"\x02\x08",
        tag(22, 2) + b"\x00" + tag(22, 2) + b"\x04\x1a\x02\x08\x01",
        tag(31, 2) + b"\x02\x08\x01" + tag(32, 2) + b"\x02\x08\x01" + tag(33, 2) + b"\x02\x08\x01",
        tag(31, 2) + b"\x0b\x08" + b"\xff" * 9 + b"\x01",
        tag(33, 2) + b"\x00" + tag(27, 0) + b"\x00",
        tag(15, 2) + b"\x02\xc3\x28",
        tag(8, 0) + b"\xff" * 9 + b"\x01" + tag(29, 2) + b"\x02\x01\x09",
        tag(7, 0) + b"\x02" + tag(30, 2) + b"\x03\x00\x01\x02",
    ]
    for data in merge_cases:
        for prefix in (b"", base):
            parse_all_ways(prefix + data, "merge")
    # parsing into an instance that already holds data merges into it
    target = Big().parse(corpus[7])
    for data in merge_cases[:12]:
        outcome_of(lambda: target.parse(data))

    # 7. random byte strings
    for _ in range(3000):
        n = rnd.randrange(0, 24)
        data = bytes(rnd.randrange(256) for _ in range(n))
        parse_all_ways(data, "random")
    for _ in range(1500):
        # random sequences of plausible tags and payloads
        parts = []
        for _ in range(rnd.randrange(1, 5)):
            number = rnd.choice(list(NUMBER_OF.values()) + [0, 36, 99])
            wire = rnd.choice([0, 0, 1, 2, 2, 2, 5, 3, 4, 6, 7])
            parts.append(tag(number, wire))
            parts.append(bytes(rnd.randrange(256) for _ in range(rnd.randrange(0, 10))))
        parse_all_ways(b"".join(parts), "structured random")

    digest = REC.h.hexdigest()
    print(
        f"calls={REC.calls} accepted={REC.accepted} rejected={REC.rejected} "
        f"reference agreement on corruptions={agree}/{agree + disagree}"
    )
    print("digest", digest)
    assert REC.accepted > 3000 and REC.rejected > 3000
    assert digest == EXPECTED_DIGEST, "observable outcomes differ from the reference tree"
    print("ok")


if __name__ == "__main__":
    assert math.isnan(float("nan"))
    main()
