"""Equivalence checks for Message.load: size accounting (explicit size and
SIZE_DELIMITED), the underrun / overrun / exact-stop outcomes with their exact
messages, unknown fields, empty messages, and decoding of packed repeated
fields of every element type.  Must pass on the pristine tree and with the
refactor applied."""
import itertools
import random
import struct
from dataclasses import dataclass
from io import BytesIO
from typing import Dict, List, Optional

import betterproto
from betterproto import SIZE_DELIMITED

rnd = random.Random(0x10AD)


def varint(value: int) -> bytes:
    if value < 0:
        value += 1 << 64
    out = bytearray()
    while True:
        b = value & 0x7F
        value >>= 7
        if value:
            out.append(b | 0x80)
        else:
            out.append(b)
            return bytes(out)


def zigzag(v: int) -> int:
    return (v << 1) ^ (v >> 63)


def outcome(fn):
    try:
        return ("ok", fn())
    except Exception as e:  # noqa
        return (type(e).__name__, str(e))


# ------------------------------------------------------------ model of load()
def split_fields(data: bytes):
    """Independent wire parser: yields lengths of complete fields, then
    'end' (clean end) or 'eof' (data ends inside a field) or 'bad'."""

    def rv(pos):
        n = 0
        while True:
            if pos + n >= len(data):
                return None
            n += 1
            if not data[pos + n - 1] & 0x80:
                break
        val = 0
        for i in range(n):
            val |= (data[pos + i] & 0x7F) << (7 * i)
        return val, n

    pos = 0
    while True:
        if pos == len(data):
            yield "end"
            return
        t = rv(pos)
        if t is None:
            yield "eof"
            return
        tagv, n = t
        wt = tagv & 7
        if tagv >> 3 == 0 or wt in (3, 4, 6, 7):
            yield "bad"
            return
        p = pos + n
        if wt == 0:
            t = rv(p)
            if t is None:
                yield "eof"
                return
            p += t[1]
        elif wt == 1:
            p += 8
        elif wt == 5:
            p += 4
        else:
            t = rv(p)
            if t is None:
                yield "eof"
                return
            p += t[1] + t[0]
        if p > len(data):
            yield "eof"
            return
        yield p - pos
        pos = p


def model(data: bytes, size):
    """(kind, message-or-None, bytes consumed when ok)"""
    read = 0
    it = split_fields(data)
    while size is None or read < size:
        f = next(it)
        if f == "end":
            break
        if f == "eof":
            return ("EOFError", None, None)
        if f == "bad":
            return ("ValueError", None, None)
        read += f
        if size is not None and read > size:
            return (
                "ValueError",
                f"Expected message of size {size}, can only read "
                f"either {read - f} or {read} bytes - there is no "
                "message of the expected size in the stream.",
                None,
            )
    if size is not None and read < size:
        return (
            "ValueError",
            f"Expected message of size {size}, but was only able to "
            f"read {read} bytes - the stream may have ended too soon,"
            " or the expected size may have been incorrect.",
            None,
        )
    return ("ok", None, read)


# ------------------------------------------------------------ message classes
@dataclass(eq=False, repr=False)
class Sub(betterproto.Message):
    a: int = betterproto.sint64_field(1)
    b: str = betterproto.string_field(20)


@dataclass(eq=False, repr=False)
class Big(betterproto.Message):
    i32: int = betterproto.int32_field(1)
    u64: int = betterproto.uint64_field(2)
    s: str = betterproto.string_field(3)
    raw: bytes = betterproto.bytes_field(4)
    d: float = betterproto.double_field(5)
    f32: int = betterproto.fixed32_field(6)
    sub: Sub = betterproto.message_field(7)
    rep: List[int] = betterproto.int64_field(16)
    names: List[str] = betterproto.string_field(17)
    subs: List[Sub] = betterproto.message_field(18)
    m: Dict[str, int] = betterproto.map_field(19, betterproto.TYPE_STRING, betterproto.TYPE_SINT32)
    opt: Optional[int] = betterproto.uint32_field(300, optional=True, group="_opt")
    x: int = betterproto.sfixed64_field(2000, group="one")
    y: str = betterproto.string_field(2001, group="one")


@dataclass(eq=False, repr=False)
class Old(betterproto.Message):
    i32: int = betterproto.int32_field(1)
    s: str = betterproto.string_field(3)
    rep: List[int] = betterproto.int64_field(16)


@dataclass(eq=False, repr=False)
class Nothing(betterproto.Message):
    pass


class Color(betterproto.Enum):
    ZERO = 0
    ONE = 1
    NEG = -3


@dataclass(eq=False, repr=False)
class Packed(betterproto.Message):
    i32: List[int] = betterproto.int32_field(1)
    i64: List[int] = betterproto.int64_field(2)
    u32: List[int] = betterproto.uint32_field(3)
    u64: List[int] = betterproto.uint64_field(4)
    s32: List[int] = betterproto.sint32_field(5)
    s64: List[int] = betterproto.sint64_field(6)
    bl: List[bool] = betterproto.bool_field(7)
    en: List[Color] = betterproto.enum_field(8)
    fx32: List[int] = betterproto.fixed32_field(9)
    sf32: List[int] = betterproto.sfixed32_field(10)
    fl: List[float] = betterproto.float_field(11)
    fx64: List[int] = betterproto.fixed64_field(12)
    sf64: List[int] = betterproto.sfixed64_field(13)
    db: List[float] = betterproto.double_field(14)
    one: int = betterproto.int32_field(15)
    st: List[str] = betterproto.string_field(16)


def rand_sub():
    return Sub(a=rnd.choice([0, -1, 63, -64, 64, -65, 2**62, -(2**63)]), b=rnd.choice(["", "x", "é" * 70]))


def rand_big():
    kw = {}
    if rnd.random() < 0.6:
        kw["i32"] = rnd.choice([0, 1, -1, 127, 128, 2**31 - 1, -(2**31)])
    if rnd.random() < 0.5:
        kw["u64"] = rnd.choice([0, 2**63, 2**64 - 1, 300])
    if rnd.random() < 0.5:
        kw["s"] = rnd.choice(["", "a", "b" * 127, "c" * 128, "d" * 20000])
    if rnd.random() < 0.4:
        kw["raw"] = bytes(rnd.randrange(256) for _ in range(rnd.choice([0, 1, 126, 130])))
    if rnd.random() < 0.3:
        kw["d"] = rnd.choice([0.0, -1.5, 1e300])
    if rnd.random() < 0.3:
        kw["f32"] = rnd.choice([0, 1, 2**32 - 1])
    if rnd.random() < 0.4:
        kw["sub"] = rand_sub()
    if rnd.random() < 0.4:
        kw["rep"] = [rnd.choice([0, -1, 2**40, 127, 128]) for _ in range(rnd.randint(0, 40))]
    if rnd.random() < 0.3:
        kw["names"] = [rnd.choice(["", "n", "nn" * 80]) for _ in range(rnd.randint(0, 4))]
    if rnd.random() < 0.3:
        kw["subs"] = [rnd.choice([Sub(), rand_sub()]) for _ in range(rnd.randint(0, 3))]
    if rnd.random() < 0.3:
        kw["m"] = {rnd.choice(["", "k", "kk"]): rnd.choice([0, -1, 5]) for _ in range(rnd.randint(0, 3))}
    if rnd.random() < 0.3:
        kw["opt"] = rnd.choice([0, 7])
    r = rnd.random()
    if r < 0.2:
        kw["x"] = rnd.choice([0, -5])
    elif r < 0.4:
        kw["y"] = rnd.choice(["", "why"])
    return Big(**kw)


def rand_packed():
    def lst(choices):
        return [rnd.choice(choices) for _ in range(rnd.choice([0, 0, 1, 2, 5, 40]))]

    return Packed(
        i32=lst([0, 1, -1, 2**31 - 1, -(2**31), 128]),
        i64=lst([0, 1, -1, 2**63 - 1, -(2**63), 300]),
        u32=lst([0, 1, 2**32 - 1, 127, 128]),
        u64=lst([0, 1, 2**64 - 1, 2**63]),
        s32=lst([0, -1, 1, 2**31 - 1, -(2**31), 63, -64, 64]),
        s64=lst([0, -1, 1, 2**63 - 1, -(2**63)]),
        bl=lst([True, False]),
        en=lst([Color.ZERO, Color.ONE, Color.NEG]),
        fx32=lst([0, 1, 2**32 - 1]),
        sf32=lst([0, -1, 2**31 - 1, -(2**31)]),
        fl=lst([0.0, 1.5, -2.25, float("inf")]),
        fx64=lst([0, 1, 2**64 - 1]),
        sf64=lst([0, -1, 2**63 - 1, -(2**63)]),
        db=lst([0.0, 1e300, -1.1, float("-inf")]),
        one=rnd.choice([0, 5]),
        st=lst(["", "a", "bb"]),
    )


def rand_msg():
    r = rnd.random()
    if r < 0.1:
        return Nothing()
    if r < 0.2:
        return Big()
    if r < 0.3:
        return rand_sub()
    if r < 0.4:
        return Old().parse(bytes(rand_big()))
    if r < 0.6:
        return rand_packed()
    return rand_big()


def frame(payload: bytes) -> bytes:
    return varint(len(payload)) + payload


# ------------------------------------------------------------ 1. packed decoding
for _ in range(300):
    m = rand_packed()
    data = bytes(m)
    back = Packed().parse(data)
    assert back == m, (m, back)
    for name in ("i32", "i64", "u32", "u64", "s32", "s64", "bl", "en", "fx32", "sf32", "fl", "fx64", "sf64", "db", "st"):
        a, b = getattr(back, name), getattr(m, name)
        assert a == b and [type(x) for x in a] == [type(x) for x in b], name
    assert bytes(back) == data
    via_stream = Packed().load(BytesIO(frame(data) + b"\xff"), SIZE_DELIMITED)
    assert via_stream == m and bytes(via_stream) == data

# hand-made packed payloads: several chunks, mixed packed/unpacked occurrences
blob = (
    b"\x0a\x03\x01\x80\x01"  # i32 packed [1, 128]
    + b"\x08\x05"  # i32 unpacked 5
    + b"\x0a\x0b" + varint(-1) + b"\x07"  # i32 packed [-1, 7]
    + b"\x0a\x00"  # empty chunk
    + b"\x2a\x02\x01\x02"  # s32 packed [-1, 1]
    + b"\x3a\x03\x00\x01\x05"  # bool packed
    + b"\x42\x0b\x01" + varint(-3)  # enum packed [ONE, NEG]
    + b"\x4a\x08" + struct.pack("<II", 1, 2**32 - 1)
    + b"\x4d" + struct.pack("<I", 9)  # fixed32 unpacked
    + b"\x52\x04" + struct.pack("<i", -2)
    + b"\x5a\x08" + struct.pack("<ff", 1.5, -2.0)
    + b"\x62\x10" + struct.pack("<QQ", 3, 2**64 - 1)
    + b"\x6a\x08" + struct.pack("<q", -9)
    + b"\x72\x10" + struct.pack("<dd", 0.5, -1e10)
    + b"\x71" + struct.pack("<d", 2.0)  # double unpacked
)
p = Packed().parse(blob)
assert p.i32 == [1, 128, 5, -1, 7]
assert p.s32 == [-1, 1]
assert p.bl == [False, True, True] and all(type(x) is bool for x in p.bl)
assert p.en == [Color.ONE, Color.NEG] and all(isinstance(x, Color) for x in p.en)
assert p.fx32 == [1, 2**32 - 1, 9]
assert p.sf32 == [-2]
assert p.fl == [1.5, -2.0]
assert p.fx64 == [3, 2**64 - 1]
assert p.sf64 == [-9]
assert p.db == [0.5, -1e10, 2.0]
p2 = Packed().load(BytesIO(frame(blob)), SIZE_DELIMITED)
assert p2 == p and bytes(p2) == bytes(p)

# malformed packed payloads: exact error type (and text where it is ours)
for bad, exp in [
    (b"\x0a\x02\x01\x80", ("EOFError", "Stream ended unexpectedly while attempting to load varint.")),
    (b"\x0a\x0b" + b"\x80" * 10 + b"\x01", ("ValueError", "Too many bytes when decoding varint.")),
    (b"\x4a\x03\x01\x02\x03", ("error", None)),
    (b"\x4a\x05\x01\x02\x03\x04\x05", ("error", None)),
    (b"\x62\x07" + b"\x00" * 7, ("error", None)),
    (b"\x72\x09" + b"\x00" * 9, ("error", None)),
    (b"\x5a\x02\x00\x00", ("error", None)),
]:
    for how in ("parse", "stream"):
        target = Packed()
        if how == "parse":
            res = outcome(lambda: target.parse(b"\x78\x05" + bad))
        else:
            res = outcome(lambda: target.load(BytesIO(frame(b"\x78\x05" + bad)), SIZE_DELIMITED))
        if exp[1] is None:
            assert res[0] == "error" and "unpack requires a buffer of" in res[1], (bad, res)
        else:
            assert res == exp, (bad, res)
        # nothing of the broken field was stored, the field before it was
        assert target.one == 5
        assert target.i32 == [] and target.fx32 == [] and target.fx64 == [] and target.db == [] and target.fl == []


# ------------------------------------------------------------ 2. explicit sizes against the model
def readers_for(msgs):
    """Schemas that can decode all of ``msgs`` (Nothing can read anything)."""
    readers = [Nothing]
    if all(isinstance(m, (Big, Old, Sub, Nothing)) for m in msgs):
        readers += [Big, Old]
    if all(isinstance(m, (Packed, Nothing)) for m in msgs):
        readers += [Packed]
    return readers


def check_sized(cls, data: bytes, size):
    s = BytesIO(data)
    res = outcome(lambda: cls().load(s, size))
    kind, msg, consumed = model(data, size)
    assert res[0] == kind, (data, size, res, kind)
    if kind == "ok":
        assert s.tell() == consumed, (data, size, s.tell(), consumed)
        assert isinstance(res[1], cls)
        if cls is Nothing:
            assert bytes(res[1]) == data[:consumed]
    elif msg is not None:
        assert res[1] == msg, (data, size, res, msg)


for _ in range(100):
    msgs = [rand_msg() for _ in range(rnd.randint(0, 3))]
    data = b"".join(bytes(m) for m in msgs)
    if len(data) > 600:
        continue
    sizes = set(range(0, min(len(data) + 4, 70))) | {len(data), len(data) + 1, len(data) - 1, None}
    sizes |= set(itertools.accumulate(len(bytes(m)) for m in msgs))
    for size in sizes:
        if size is not None and size < 0:
            continue
        for cls in readers_for(msgs):
            check_sized(cls, data, size)
    # truncated input with the original size
    for cut in rnd.sample(range(len(data) + 1), min(len(data) + 1, 25)):
        for cls in readers_for(msgs):
            check_sized(cls, data[:cut], len(data))
            check_sized(cls, data[:cut], None)

# a few fixed cases with the messages spelled out
fixed = [
    (b"\x08\x01\x08\x02", 3, ("ValueError", "Expected message of size 3, can only read either 2 or 4 bytes - there is no message of the expected size in the stream.")),
    (b"\x08\x01\x08\x02", 1, ("ValueError", "Expected message of size 1, can only read either 0 or 2 bytes - there is no message of the expected size in the stream.")),
    (b"\x08\x01\x08\x02", 6, ("ValueError", "Expected message of size 6, but was only able to read 4 bytes - the stream may have ended too soon, or the expected size may have been incorrect.")),
    (b"", 1, ("ValueError", "Expected message of size 1, but was only able to read 0 bytes - the stream may have ended too soon, or the expected size may have been incorrect.")),
    (b"\x1a\x03abc", 200, ("ValueError", "Expected message of size 200, but was only able to read 5 bytes - the stream may have ended too soon, or the expected size may have been incorrect.")),
    (b"\x08\x01\x08", 4, ("EOFError", "Stream ended unexpectedly while attempting to load varint.")),
    (b"\x08\x01\x1a\x05ab", 9, ("EOFError", "Stream ended unexpectedly: expected 5 bytes but got 2.")),
    (b"\x08\x01\x00\x00", 4, ("ValueError", "Invalid field number 0.")),
]
for data, size, exp in fixed:
    for cls in (Nothing, Big, Old, Packed):
        assert outcome(lambda: cls().load(BytesIO(data), size)) == exp, (data, size, cls)
        assert outcome(lambda: cls().load(BytesIO(varint(size) + data), SIZE_DELIMITED)) == exp, (data, size, cls)
for cls in (Nothing, Big, Old, Packed):
    s = BytesIO(b"\x08\x01\x08\x02")
    assert bytes(cls().load(s, 0)) == b"" and s.tell() == 0
    m = cls().load(s, 2)
    assert s.tell() == 2 and bytes(m) == bytes(cls().parse(b"\x08\x01")) != b""
    m = cls().load(s)
    assert s.tell() == 4 and bytes(m) == bytes(cls().parse(b"\x08\x02")) != b""
    m = cls().load(s)
    assert bytes(m) == b"" and betterproto.serialized_on_wire(m)
    # sizes below zero (other than the SIZE_DELIMITED marker) read nothing
    s = BytesIO(b"\x08\x01")
    assert bytes(cls().load(s, -7)) == b"" and s.tell() == 0


# ------------------------------------------------------------ 3. delimited streams
for it in range(80):
    msgs = [rand_msg() for _ in range(rnd.randint(0, 6))]
    out = BytesIO()
    for m in msgs:
        m.dump(out, SIZE_DELIMITED)
    data = out.getvalue()
    frames = [frame(bytes(m)) for m in msgs]
    assert data == b"".join(frames)
    ends = list(itertools.accumulate(len(f) for f in frames))

    s = BytesIO(data)
    for m, end in zip(msgs, ends):
        got = type(m)().load(s, SIZE_DELIMITED)
        assert s.tell() == end
        assert got == m and bytes(got) == bytes(m)
    assert outcome(lambda: Nothing().load(s, SIZE_DELIMITED)) == (
        "EOFError",
        "Stream ended unexpectedly while attempting to load varint.",
    )

    for reader in readers_for(msgs):
        s = BytesIO(data)
        for m, end in zip(msgs, ends):
            got = reader().load(s, SIZE_DELIMITED)
            assert s.tell() == end
            if reader is Nothing:
                assert bytes(got) == bytes(m)

    if len(data) < 500:
        cuts = range(len(data) + 1)
    else:
        cuts = sorted(set(rnd.sample(range(len(data) + 1), 200)) | set(ends) | {0})
    for cut in cuts:
        s = BytesIO(data[:cut])
        start = 0
        for m, fr, end in zip(msgs, frames, ends):
            res = outcome(lambda: type(m)().load(s, SIZE_DELIMITED))
            if end <= cut:
                assert res[0] == "ok" and bytes(res[1]) == bytes(m), (cut, end, res)
                assert s.tell() == end
            else:
                # exactly what the model says for this broken frame
                plen = len(varint(len(fr) - len(varint(len(bytes(m))))))
                avail = data[start:cut]
                if len(avail) < plen:
                    assert res == ("EOFError", "Stream ended unexpectedly while attempting to load varint."), res
                else:
                    kind, msg, _ = model(avail[plen:], len(bytes(m)))
                    assert kind != "ok" and res[0] == kind, (cut, res, kind)
                    if msg is not None:
                        assert res[1] == msg, (res, msg)
                break
            start = end

print("C10 keep2 equiv: OK")
