"""C08 equivalence check: wire-field records (ParsedField), load_fields / parse_fields and
Message.load - unknown fields of every wire type at every position, random older schemas,
google.protobuf as the reference encoder / decoder.

Only behaviour is checked (attribute values of the records, bytes, decoded values,
exception types), so the script passes on the pristine tree and on the refactored one.
"""
import dataclasses
import io
import random
import struct
from dataclasses import dataclass
from typing import Dict, List

import betterproto
from google.protobuf import descriptor_pb2, descriptor_pool, message_factory

rng = random.Random(0xC08)


# --------------------------------------------------------------------------- wire helpers
def varint(n: int) -> bytes:
    assert n >= 0
    out = bytearray()
    while True:
        b = n & 0x7F
        n >>= 7
        if n:
            out.append(b | 0x80)
        else:
            out.append(b)
            return bytes(out)


def read_varint(buf: bytes, pos: int):
    shift = result = 0
    while True:
        b = buf[pos]
        pos += 1
        result |= (b & 0x7F) << shift
        shift += 7
        if not b & 0x80:
            return result, pos


def split(buf: bytes):
    """Independent splitter: [(number, wire_type, value, raw)]."""
    out = []
    pos = 0
    while pos < len(buf):
        start = pos
        key, pos = read_varint(buf, pos)
        number, wt = key >> 3, key & 7
        if wt == 0:
            value, pos = read_varint(buf, pos)
        elif wt == 1:
            value, pos = buf[pos : pos + 8], pos + 8
        elif wt == 5:
            value, pos = buf[pos : pos + 4], pos + 4
        elif wt == 2:
            n, pos = read_varint(buf, pos)
            value, pos = buf[pos : pos + n], pos + n
        else:
            raise AssertionError(wt)
        assert pos <= len(buf)
        out.append((number, wt, value, buf[start:pos]))
    return out


def tag(number, wt):
    return varint((number << 3) | wt)


# --------------------------------------------------------------------------- schemas
@dataclass(eq=False, repr=False)
class ChildFull(betterproto.Message):
    x: int = betterproto.int32_field(1)
    y: str = betterproto.string_field(2)
    q: List[int] = betterproto.fixed64_field(3)
    sub: "ChildFull" = betterproto.message_field(4)


@dataclass(eq=False, repr=False)
class ChildX(betterproto.Message):
    x: int = betterproto.int32_field(1)


@dataclass(eq=False, repr=False)
class ChildYQ(betterproto.Message):
    y: str = betterproto.string_field(2)
    q: List[int] = betterproto.fixed64_field(3)


@dataclass(eq=False, repr=False)
class ChildSub(betterproto.Message):
    sub: "ChildSub" = betterproto.message_field(4)


@dataclass(eq=False, repr=False)
class ChildNone(betterproto.Message):
    pass


CHILD_VARIANTS = [ChildFull, ChildX, ChildYQ, ChildSub, ChildNone]


def top_fields(child):
    """name -> (type, field) of the newest schema, `child` being the sub-message class."""
    return [
        ("a", int, betterproto.int32_field(1)),
        ("s", str, betterproto.string_field(2)),
        ("p", List[int], betterproto.int32_field(3)),
        ("c", child, betterproto.message_field(4)),
        ("d", float, betterproto.double_field(5)),
        ("f", int, betterproto.fixed32_field(6)),
        ("z", int, betterproto.sint64_field(7)),
        ("rc", List[child], betterproto.message_field(8)),
        ("m", Dict[str, child], betterproto.map_field(9, betterproto.TYPE_STRING, betterproto.TYPE_MESSAGE)),
        ("b", bytes, betterproto.bytes_field(10)),
        ("o1", str, betterproto.string_field(11, group="o")),
        ("o2", int, betterproto.int32_field(12, group="o")),
        ("o3", child, betterproto.message_field(17, group="o")),
        ("rs", List[str], betterproto.string_field(13)),
        ("sf", int, betterproto.sfixed64_field(14)),
        ("flag", bool, betterproto.bool_field(15)),
        ("big", int, betterproto.uint64_field(16)),
        ("far", int, betterproto.int32_field(100000)),
        ("fl", List[float], betterproto.float_field(536870911)),
    ]


_counter = [0]


def make_top(child, keep=None):
    _counter[0] += 1
    fields = [f for f in top_fields(child) if keep is None or f[0] in keep]
    return dataclasses.make_dataclass(
        f"Top{_counter[0]}", fields, bases=(betterproto.Message,), eq=False, repr=False
    )


Newest = make_top(ChildFull)
ALL_NAMES = [f[0] for f in top_fields(ChildFull)]
NUMBER_OF = {f[0]: f[2].metadata["betterproto"].number for f in top_fields(ChildFull)}

# reference implementation of the newest schema
F = descriptor_pb2.FieldDescriptorProto
fdp = descriptor_pb2.FileDescriptorProto(name="c08_equiv.proto", package="c08", syntax="proto3")
ch = fdp.message_type.add(name="Child")
ch.field.add(name="x", number=1, type=F.TYPE_INT32, label=F.LABEL_OPTIONAL)
ch.field.add(name="y", number=2, type=F.TYPE_STRING, label=F.LABEL_OPTIONAL)
ch.field.add(name="q", number=3, type=F.TYPE_FIXED64, label=F.LABEL_REPEATED)
ch.field.add(name="sub", number=4, type=F.TYPE_MESSAGE, type_name=".c08.Child", label=F.LABEL_OPTIONAL)
top = fdp.message_type.add(name="Top")
entry = top.nested_type.add(name="MEntry")
entry.options.map_entry = True
entry.field.add(name="key", number=1, type=F.TYPE_STRING, label=F.LABEL_OPTIONAL)
entry.field.add(name="value", number=2, type=F.TYPE_MESSAGE, type_name=".c08.Child", label=F.LABEL_OPTIONAL)
top.oneof_decl.add(name="o")
O, R = F.LABEL_OPTIONAL, F.LABEL_REPEATED
top.field.add(name="a", number=1, type=F.TYPE_INT32, label=O)
top.field.add(name="s", number=2, type=F.TYPE_STRING, label=O)
top.field.add(name="p", number=3, type=F.TYPE_INT32, label=R)
top.field.add(name="c", number=4, type=F.TYPE_MESSAGE, type_name=".c08.Child", label=O)
top.field.add(name="d", number=5, type=F.TYPE_DOUBLE, label=O)
top.field.add(name="f", number=6, type=F.TYPE_FIXED32, label=O)
top.field.add(name="z", number=7, type=F.TYPE_SINT64, label=O)
top.field.add(name="rc", number=8, type=F.TYPE_MESSAGE, type_name=".c08.Child", label=R)
top.field.add(name="m", number=9, type=F.TYPE_MESSAGE, type_name=".c08.Top.MEntry", label=R)
top.field.add(name="b", number=10, type=F.TYPE_BYTES, label=O)
top.field.add(name="o1", number=11, type=F.TYPE_STRING, label=O, oneof_index=0)
top.field.add(name="o2", number=12, type=F.TYPE_INT32, label=O, oneof_index=0)
top.field.add(name="o3", number=17, type=F.TYPE_MESSAGE, type_name=".c08.Child", label=O, oneof_index=0)
top.field.add(name="rs", number=13, type=F.TYPE_STRING, label=R)
top.field.add(name="sf", number=14, type=F.TYPE_SFIXED64, label=O)
top.field.add(name="flag", number=15, type=F.TYPE_BOOL, label=O)
top.field.add(name="big", number=16, type=F.TYPE_UINT64, label=O)
top.field.add(name="far", number=100000, type=F.TYPE_INT32, label=O)
top.field.add(name="fl", number=536870911, type=F.TYPE_FLOAT, label=R)
pool = descriptor_pool.DescriptorPool()
pool.Add(fdp)
RefTop = message_factory.GetMessageClass(pool.FindMessageTypeByName("c08.Top"))
RefChild = message_factory.GetMessageClass(pool.FindMessageTypeByName("c08.Child"))

INT32S = [0, 1, -1, 127, 128, 16383, 16384, 2**31 - 1, -(2**31)]
WORDS = ["", "a", "xyz", "é中", "q" * 127, "r" * 128, "s" * 300]


def fill_child(c, depth=0):
    if rng.random() < 0.6:
        c.x = rng.choice(INT32S)
    if rng.random() < 0.6:
        c.y = rng.choice(WORDS)
    for _ in range(rng.choice([0, 0, 1, 3])):
        c.q.append(rng.choice([0, 1, 2**64 - 1, 2**63, rng.getrandbits(64)]))
    if depth < 3 and rng.random() < 0.4:
        c.sub.SetInParent()
        fill_child(c.sub, depth + 1)


def fill_top(t):
    if rng.random() < 0.6:
        t.a = rng.choice(INT32S)
    if rng.random() < 0.6:
        t.s = rng.choice(WORDS)
    for _ in range(rng.choice([0, 0, 1, 5])):
        t.p.append(rng.choice(INT32S))
    if rng.random() < 0.6:
        t.c.SetInParent()
        fill_child(t.c)
    if rng.random() < 0.5:
        t.d = rng.choice([0.5, -1e300, 3.25, float("inf")])
    if rng.random() < 0.5:
        t.f = rng.choice([1, 2**32 - 1, 0xDEADBEEF])
    if rng.random() < 0.5:
        t.z = rng.choice([-1, 1, -(2**63), 2**63 - 1, 12345])
    for _ in range(rng.choice([0, 0, 1, 3])):
        fill_child(t.rc.add())
    for k in rng.sample(["", "k1", "k2", "k3"], rng.choice([0, 0, 1, 3])):
        t.m[k].SetInParent()
        fill_child(t.m[k])
    if rng.random() < 0.5:
        t.b = rng.choice([b"\x00", b"\xff\x00\x80", bytes(range(200))])
    which = rng.choice([None, "o1", "o2", "o3"])
    if which == "o1":
        t.o1 = rng.choice(WORDS)
    elif which == "o2":
        t.o2 = rng.choice(INT32S)
    elif which == "o3":
        t.o3.SetInParent()
        fill_child(t.o3)
    for _ in range(rng.choice([0, 0, 2])):
        t.rs.append(rng.choice(WORDS))
    if rng.random() < 0.5:
        t.sf = rng.choice([-1, -(2**63), 7])
    if rng.random() < 0.5:
        t.flag = True
    if rng.random() < 0.5:
        t.big = rng.choice([1, 2**64 - 1, 2**63])
    if rng.random() < 0.5:
        t.far = rng.choice(INT32S[1:])
    for _ in range(rng.choice([0, 0, 2])):
        t.fl.append(rng.choice([1.5, -0.25, 1e10]))


def interleave(chunks):
    """Shuffle top-level fields, keeping the relative order of equal field numbers."""
    by_number = {}
    for c in chunks:
        by_number.setdefault(c[0], []).append(c)
    order = [c[0] for c in chunks]
    rng.shuffle(order)
    return [by_number[n].pop(0) for n in order]


def records(it):
    return [(p.number, p.wire_type, p.value, p.raw) for p in it]


# --------------------------------------------------------------------------- 1. field records
def check_records(wire: bytes):
    expected = split(wire)
    from_stream = records(betterproto.load_fields(io.BytesIO(wire)))
    from_bytes = records(betterproto.parse_fields(wire))
    assert from_stream == expected, (from_stream, expected)
    assert from_bytes == expected
    assert b"".join(r[3] for r in from_stream) == wire
    for rec in betterproto.load_fields(io.BytesIO(wire)):
        assert isinstance(rec.number, int) and isinstance(rec.wire_type, int)
        assert isinstance(rec.raw, bytes)
        assert type(rec).__name__ == "ParsedField"
        assert rec == rec and not (rec != rec)
        try:
            rec.raw = b""  # records are immutable
        except AttributeError:
            pass
        else:
            raise AssertionError("ParsedField must be immutable")


hand_made = [
    b"",
    tag(1, 0) + varint(0),
    tag(1, 0) + varint(2**64 - 1),
    tag(2**29 - 1, 0) + varint(1),
    tag(16, 2) + varint(0),
    tag(15, 2) + varint(128) + bytes(128),
    tag(2047, 5) + b"\x01\x02\x03\x04",
    tag(2048, 1) + b"\x01\x02\x03\x04\x05\x06\x07\x08",
    tag(7, 0) + b"\x80\x80\x00",  # over-long but valid varint is kept verbatim
    tag(1, 2) + varint(3) + b"abc" + tag(1, 0) + varint(5) + tag(1, 5) + bytes(4) + tag(1, 1) + bytes(8),
]
for w in hand_made:
    check_records(w)

# malformed input: same exception types from both readers
for bad, exc in [
    (b"\x00\x01", ValueError),  # field number 0
    (tag(1, 3), ValueError),  # group wire types
    (tag(1, 4), ValueError),
    (tag(1, 6), ValueError),
    (tag(1, 7) + b"\x00", ValueError),
    (tag(1, 5) + b"\x00\x00", EOFError),
    (tag(1, 1) + b"\x00" * 7, EOFError),
    (tag(1, 2) + varint(5) + b"abc", EOFError),
    (tag(1, 0), EOFError),
    (b"\x80", EOFError),
    (tag(1, 0) + b"\xff" * 10 + b"\x01", ValueError),
]:
    for reader in (lambda d: betterproto.load_fields(io.BytesIO(d)), betterproto.parse_fields):
        try:
            list(reader(bad))
        except exc:
            pass
        else:
            raise AssertionError((bad, exc))
    # ... and a message refuses them too, keeping what it had decoded so far
    good = tag(99, 0) + varint(7)
    m = ChildX()
    try:
        m.parse(good + bad)
    except exc:
        pass
    else:
        raise AssertionError((bad, exc))
    assert bytes(m) == good, (bad, bytes(m))


# --------------------------------------------------------------------------- 2. schema evolution
def known_view(older, newest, keep, child_cls):
    """Known fields of the older reader hold what the newest reader sees."""
    for name in keep:
        try:
            new_val = getattr(newest, name)
        except AttributeError:  # unselected oneof member
            try:
                getattr(older, name)
            except AttributeError:
                continue
            raise AssertionError(name)
        old_val = getattr(older, name)
        if name in ("c", "o3"):
            assert ChildFull().parse(bytes(old_val)) == new_val, name
        elif name == "rc":
            assert [ChildFull().parse(bytes(v)) for v in old_val] == new_val
        elif name == "m":
            assert {k: ChildFull().parse(bytes(v)) for k, v in old_val.items()} == new_val
        else:
            assert old_val == new_val or (old_val != old_val and new_val != new_val), name


N_CASES = 350
sized_stream = io.BytesIO()
sized_expect = []
for case in range(N_CASES):
    ref = RefTop()
    fill_top(ref)
    data = ref.SerializeToString()
    chunks = split(data)
    if case % 3:
        chunks = interleave(chunks)
    if case % 5 == 0:
        # foreign fields nobody knows, one of each wire type, anywhere
        extra = [
            (200, 0, None, tag(200, 0) + varint(rng.getrandbits(rng.choice([1, 7, 8, 35, 64])))),
            (201, 1, None, tag(201, 1) + struct.pack("<Q", rng.getrandbits(64))),
            (202, 2, None, tag(202, 2) + varint(rng.choice([0, 1, 127, 128, 300])) ),
            (203, 5, None, tag(203, 5) + struct.pack("<I", rng.getrandbits(32))),
        ]
        n = read_varint(extra[2][3], len(tag(202, 2)))[0]
        extra[2] = (202, 2, None, extra[2][3] + bytes(rng.getrandbits(8) for _ in range(n)))
        for e in extra:
            chunks.insert(rng.randrange(len(chunks) + 1), e)
    wire = b"".join(c[3] for c in chunks)
    check_records(wire)

    ref_view = RefTop.FromString(wire)
    newest = Newest().parse(wire)

    child_cls = rng.choice(CHILD_VARIANTS)
    keep = set(n for n in ALL_NAMES if rng.random() < rng.choice([0.0, 0.3, 0.7, 1.0]))
    Older = make_top(child_cls, keep)
    known_numbers = {NUMBER_OF[n] for n in keep}

    older = Older().parse(wire)
    out = bytes(older)
    assert len(older) == len(out)

    # unknown top-level fields: verbatim, in arrival order, after the known ones
    expected_unknown = b"".join(c[3] for c in chunks if c[0] not in known_numbers)
    assert out.endswith(expected_unknown)
    known_part = out[: len(out) - len(expected_unknown)]
    assert all(n in known_numbers for n, _, _, _ in split(known_part))
    if not keep:
        assert out == wire

    known_view(older, newest, keep, child_cls)

    # lossless for the reference decoder and for the newest betterproto schema
    assert RefTop.FromString(out) == ref_view, case
    again = Newest().parse(out)
    assert again == newest, case
    assert RefTop.FromString(bytes(again)) == ref_view

    # a second hop through yet another older schema
    Older2 = make_top(rng.choice(CHILD_VARIANTS), set(rng.sample(ALL_NAMES, rng.randrange(len(ALL_NAMES)))))
    out2 = bytes(Older2().parse(out))
    assert RefTop.FromString(out2) == ref_view, case

    # size-delimited framing of the re-emitted message
    if case % 4 == 0:
        older.dump(sized_stream, betterproto.SIZE_DELIMITED)
        sized_expect.append((Older, out, ref_view))

    # explicit size: exact, too small, too large
    m = Older().load(io.BytesIO(wire + b"\x08\x01"), len(wire))
    assert bytes(m) == out
    if wire:
        for wrong in (len(wire) - 1, len(wire) + 1):
            if wrong == 0:
                continue
            try:
                Older().load(io.BytesIO(wire), wrong)
            except ValueError:
                pass
            else:
                # a shorter size is fine when it falls on a field boundary
                assert wrong < len(wire) and any(
                    sum(len(c[3]) for c in chunks[:k]) == wrong for k in range(len(chunks) + 1)
                ), (case, wrong)

sized_stream.seek(0)
for Older, out, ref_view in sized_expect:
    m = Older().load(sized_stream, betterproto.SIZE_DELIMITED)
    assert bytes(m) == out
    assert RefTop.FromString(bytes(m)) == ref_view
assert sized_stream.read() == b""

# --------------------------------------------------------------------------- 3. packed / unpacked chunks around unknown fields
@dataclass(eq=False, repr=False)
class Packed(betterproto.Message):
    v: List[int] = betterproto.sint32_field(1)
    w: List[float] = betterproto.double_field(2)
    u: List[int] = betterproto.fixed32_field(3)


def zz(n):
    return (n << 1) ^ (n >> 63)


wire = (
    tag(1, 0) + varint(zz(-3))
    + tag(50, 5) + b"\x01\x00\x00\x00"
    + tag(1, 2) + varint(3) + varint(zz(1)) + varint(zz(-64)) + varint(zz(63))
    + tag(2, 1) + struct.pack("<d", 2.5)
    + tag(51, 2) + varint(2) + b"hi"
    + tag(2, 2) + varint(16) + struct.pack("<dd", -1.0, 8.0)
    + tag(3, 2) + varint(8) + struct.pack("<II", 7, 2**32 - 1)
    + tag(52, 0) + varint(2**40)
    + tag(3, 5) + struct.pack("<I", 5)
    + tag(1, 5) + b"\x09\x00\x00\x00"  # number 1 with a wire type that does not fit: kept as is
)
m = Packed().parse(wire)
assert m.v == [-3, 1, -64, 63] and m.w == [2.5, -1.0, 8.0] and m.u == [7, 2**32 - 1, 5]
tail = (
    tag(50, 5) + b"\x01\x00\x00\x00" + tag(51, 2) + varint(2) + b"hi" + tag(52, 0) + varint(2**40)
    + tag(1, 5) + b"\x09\x00\x00\x00"
)
assert bytes(m).endswith(tail)
m2 = Packed().parse(bytes(m))
assert (m2.v, m2.w, m2.u) == (m.v, m.w, m.u) and bytes(m2) == bytes(m)

print(f"C08 keep1 equiv: OK ({N_CASES} random cases)")
