"""Equivalence checks for the restructured field-emission halves of Message.dump and
Message.__len__ (maps, singular values incl. oneof / optional members, packed and
non-packed lists) and of the trailing unknown fields.

Reference: google.protobuf parses everything betterproto writes, before and after the
bytes went through reader/writers that use older schemas (random subsets of fields
deleted), plus hand-computed byte strings for the corner cases.
"""
import dataclasses
import random
from dataclasses import dataclass
from datetime import datetime, timedelta, timezone
from io import BytesIO
from typing import Dict, List, Optional

import betterproto
from google.protobuf import (
    descriptor_pb2,
    descriptor_pool,
    duration_pb2,  # noqa: F401  (registers the well-known types in the default pool)
    message_factory,
    timestamp_pb2,  # noqa: F401
    wrappers_pb2,  # noqa: F401
)

rng = random.Random(0xC0802)


class Recorder:
    """A write-only stream that remembers every write."""

    def __init__(self):
        self.writes = []

    def write(self, data):
        self.writes.append(bytes(data))
        return len(data)


class Color(betterproto.Enum):
    ZERO = 0
    ONE = 1
    TWO = 2
    NEG = -1


# ------------------------------------------------ 1. hand-computed corner cases
@dataclass(eq=False, repr=False)
class Leaf(betterproto.Message):
    a: int = betterproto.int32_field(1)
    s: str = betterproto.string_field(2)


@dataclass(eq=False, repr=False)
class Corner(betterproto.Message):
    o_int: int = betterproto.int32_field(1, group="g")
    o_str: str = betterproto.string_field(2, group="g")
    o_leaf: Leaf = betterproto.message_field(3, group="g")
    o_bytes: bytes = betterproto.bytes_field(4, group="g")
    opt_i: Optional[int] = betterproto.int32_field(5, optional=True, group="_opt_i")
    opt_s: Optional[str] = betterproto.string_field(6, optional=True, group="_opt_s")
    plain_s: str = betterproto.string_field(7)
    leaf: Leaf = betterproto.message_field(8)
    leaves: List[Leaf] = betterproto.message_field(9)
    nums: List[int] = betterproto.int32_field(10)
    strs: List[str] = betterproto.string_field(11)
    m: Dict[str, int] = betterproto.map_field(12, betterproto.TYPE_STRING, betterproto.TYPE_INT32)
    ml: Dict[int, Leaf] = betterproto.map_field(13, betterproto.TYPE_INT32, betterproto.TYPE_MESSAGE)
    w: Optional[int] = betterproto.message_field(14, wraps=betterproto.TYPE_INT32)
    ws: List[Optional[int]] = betterproto.message_field(15, wraps=betterproto.TYPE_INT32)
    fl: List[float] = betterproto.float_field(16)


def enc(msg, expected):
    assert bytes(msg) == expected, (bytes(msg), expected)
    assert len(msg) == len(expected), (len(msg), len(expected))
    rec = Recorder()
    msg.dump(rec)
    assert b"".join(rec.writes) == expected
    # the unknown fields are what is written last
    assert rec.writes[-1] == msg._unknown_fields
    rec = Recorder()
    msg.dump(rec, betterproto.SIZE_DELIMITED)
    assert b"".join(rec.writes) == betterproto.encode_varint(len(expected)) + expected


enc(Corner(), b"")
enc(Corner(o_int=0), b"\x08\x00")
enc(Corner(o_str=""), b"\x12\x00")
enc(Corner(o_bytes=b""), b"\x22\x00")
enc(Corner(o_leaf=Leaf()), b"\x1a\x00")
enc(Corner(o_leaf=Leaf(a=1)), b"\x1a\x02\x08\x01")
enc(Corner(opt_i=0), b"\x28\x00")
enc(Corner(opt_s=""), b"\x32\x00")
enc(Corner(opt_i=3, opt_s="x"), b"\x28\x03\x32\x01x")
enc(Corner(plain_s=""), b"")
enc(Corner(plain_s="ab"), b"\x3a\x02ab")
enc(Corner(leaf=Leaf()), b"")  # never set: not sent
enc(Corner(leaf=Leaf().parse(b"")), b"\x42\x00")  # received empty: sent empty
enc(Corner(leaves=[Leaf(), Leaf(a=2), Leaf()]), b"\x4a\x00\x4a\x02\x08\x02\x4a\x00")
enc(Corner(nums=[0]), b"\x52\x01\x00")
enc(Corner(nums=[1, 300, -1]), b"\x52\x0d\x01\xac\x02" + b"\xff" * 9 + b"\x01")
enc(Corner(strs=["", "a", ""]), b"\x5a\x00\x5a\x01a\x5a\x00")
enc(Corner(m={"": 0}), b"\x62\x02\x10\x00")
enc(Corner(m={"a": 0, "": 5}), b"\x62\x05\x0a\x01a\x10\x00\x62\x02\x10\x05")
enc(Corner(ml={0: Leaf()}), b"\x6a\x02\x08\x00")
enc(Corner(ml={7: Leaf(s="z")}), b"\x6a\x07\x08\x07\x12\x03\x12\x01z")
enc(Corner(w=0), b"\x72\x00")
enc(Corner(w=9), b"\x72\x02\x08\x09")
enc(Corner(ws=[0, 4]), b"\x7a\x00\x7a\x02\x08\x04")
enc(Corner(fl=[1.0, -2.0]), b"\x82\x01\x08\x00\x00\x80\x3f\x00\x00\x00\xc0")

# unknown fields: after the known ones, whatever these are
UNK = b"\xa0\x06\x01" + b"\xaa\x06\x02hi" + b"\xa5\x06\x01\x02\x03\x04" + b"\xa9\x06" + bytes(8)
for known_msg, known_bytes in (
    (lambda: Corner(), b""),
    (lambda: Corner(o_str=""), b"\x12\x00"),
    (lambda: Corner(nums=[1, 2]), b"\x52\x02\x01\x02"),
    (lambda: Corner(m={"k": 1}), b"\x62\x05\x0a\x01k\x10\x01"),
    (lambda: Corner(leaves=[Leaf()], strs=["q"]), b"\x4a\x00\x5a\x01q"),
):
    msg = known_msg().parse(UNK)
    enc(msg, known_bytes + UNK)
    msg = Corner().parse(UNK[:3] + known_bytes + UNK[3:])
    enc(msg, known_bytes + UNK)

# children that carry unknown fields, in every container
kid = Leaf().parse(b"\x78\x05")  # field 15 is unknown to Leaf
enc(Corner(leaf=kid), b"\x42\x02\x78\x05")
enc(Corner(o_leaf=kid), b"\x1a\x02\x78\x05")
enc(Corner(leaves=[kid, Leaf(a=1), kid]), b"\x4a\x02\x78\x05\x4a\x02\x08\x01\x4a\x02\x78\x05")
enc(Corner(ml={0: kid}), b"\x6a\x06\x08\x00\x12\x02\x78\x05")
got = Corner().parse(b"\x6a\x06\x08\x01\x12\x02\x78\x05" + b"\x42\x02\x78\x05" + b"\x4a\x02\x78\x05")
enc(got, b"\x42\x02\x78\x05" + b"\x4a\x02\x78\x05" + b"\x6a\x06\x08\x01\x12\x02\x78\x05")


# ------------------------------------- 2. whole messages against google.protobuf
def build_reference():
    F = descriptor_pb2.FieldDescriptorProto
    fd = descriptor_pb2.FileDescriptorProto(
        name="c08_keep2_equiv.proto",
        package="c08k2",
        syntax="proto3",
        dependency=[
            "google/protobuf/wrappers.proto",
            "google/protobuf/timestamp.proto",
            "google/protobuf/duration.proto",
        ],
    )

    def add(msg, name, number, ftype, label=F.LABEL_OPTIONAL, type_name=None, oneof=None, opt=False):
        f = msg.field.add(name=name, number=number, type=ftype, label=label)
        if type_name:
            f.type_name = type_name
        if oneof is not None:
            f.oneof_index = oneof
        if opt:
            f.proto3_optional = True
        return f

    en = fd.enum_type.add(name="Color")
    for n, v in (("ZERO", 0), ("ONE", 1), ("TWO", 2), ("NEG", -1)):
        en.value.add(name=n, number=v)

    child = fd.message_type.add(name="Child")
    add(child, "a", 1, F.TYPE_INT32)
    add(child, "b", 2, F.TYPE_STRING)
    add(child, "c", 3, F.TYPE_DOUBLE)
    add(child, "d", 4, F.TYPE_SINT64)
    add(child, "sub", 5, F.TYPE_MESSAGE, type_name=".c08k2.Child")

    m = fd.message_type.add(name="Newer")

    def entry(name, ktype, vtype, vtype_name=None):
        e = m.nested_type.add(name=name)
        e.options.map_entry = True
        add(e, "key", 1, ktype)
        add(e, "value", 2, vtype, type_name=vtype_name)

    entry("MEntry", F.TYPE_STRING, F.TYPE_MESSAGE, ".c08k2.Child")
    entry("MiEntry", F.TYPE_INT32, F.TYPE_STRING)
    entry("MbEntry", F.TYPE_BOOL, F.TYPE_DOUBLE)
    entry("MzEntry", F.TYPE_SINT64, F.TYPE_BYTES)
    m.oneof_decl.add(name="g")  # 0
    m.oneof_decl.add(name="_opt_i")  # 1
    m.oneof_decl.add(name="_opt_s")  # 2
    m.oneof_decl.add(name="_opt_c")  # 3
    add(m, "foo", 1, F.TYPE_BOOL)
    add(m, "bar", 2, F.TYPE_INT32)
    add(m, "baz", 3, F.TYPE_STRING)
    add(m, "fx", 4, F.TYPE_FIXED32)
    add(m, "dbl", 5, F.TYPE_DOUBLE)
    add(m, "child", 6, F.TYPE_MESSAGE, type_name=".c08k2.Child")
    add(m, "kids", 7, F.TYPE_MESSAGE, F.LABEL_REPEATED, ".c08k2.Child")
    add(m, "s32", 8, F.TYPE_SINT32)
    add(m, "col", 9, F.TYPE_ENUM, type_name=".c08k2.Color")
    add(m, "cols", 10, F.TYPE_ENUM, F.LABEL_REPEATED, ".c08k2.Color")
    add(m, "sf64", 11, F.TYPE_SFIXED64)
    add(m, "fls", 12, F.TYPE_FLOAT, F.LABEL_REPEATED)
    add(m, "raws", 13, F.TYPE_BYTES, F.LABEL_REPEATED)
    add(m, "packed", 14, F.TYPE_INT32, F.LABEL_REPEATED)
    add(m, "zz", 15, F.TYPE_SINT64, F.LABEL_REPEATED)
    add(m, "f64s", 16, F.TYPE_FIXED64, F.LABEL_REPEATED)
    add(m, "m", 17, F.TYPE_MESSAGE, F.LABEL_REPEATED, ".c08k2.Newer.MEntry")
    add(m, "w", 18, F.TYPE_MESSAGE, type_name=".google.protobuf.Int32Value")
    add(m, "ts", 19, F.TYPE_MESSAGE, type_name=".google.protobuf.Timestamp")
    add(m, "tags", 2000, F.TYPE_STRING, F.LABEL_REPEATED)
    add(m, "du", 21, F.TYPE_MESSAGE, type_name=".google.protobuf.Duration")
    add(m, "mi", 22, F.TYPE_MESSAGE, F.LABEL_REPEATED, ".c08k2.Newer.MiEntry")
    add(m, "mb", 23, F.TYPE_MESSAGE, F.LABEL_REPEATED, ".c08k2.Newer.MbEntry")
    add(m, "mz", 24, F.TYPE_MESSAGE, F.LABEL_REPEATED, ".c08k2.Newer.MzEntry")
    add(m, "bools", 25, F.TYPE_BOOL, F.LABEL_REPEATED)
    add(m, "o_int", 30, F.TYPE_INT32, oneof=0)
    add(m, "o_str", 31, F.TYPE_STRING, oneof=0)
    add(m, "o_child", 32, F.TYPE_MESSAGE, type_name=".c08k2.Child", oneof=0)
    add(m, "o_bytes", 33, F.TYPE_BYTES, oneof=0)
    add(m, "o_dbl", 34, F.TYPE_DOUBLE, oneof=0)
    add(m, "opt_i", 40, F.TYPE_INT32, oneof=1, opt=True)
    add(m, "opt_s", 41, F.TYPE_STRING, oneof=2, opt=True)
    add(m, "opt_c", 42, F.TYPE_MESSAGE, type_name=".c08k2.Child", oneof=3, opt=True)
    add(m, "i64", 536870911, F.TYPE_INT64)
    pool = descriptor_pool.Default()
    pool.AddSerializedFile(fd.SerializeToString())
    return message_factory.GetMessageClass(pool.FindMessageTypeByName("c08k2.Newer"))


GNewer = build_reference()

bp = betterproto
CHILD_FIELDS = [
    ("a", int, lambda: bp.int32_field(1)),
    ("b", str, lambda: bp.string_field(2)),
    ("c", float, lambda: bp.double_field(3)),
    ("d", int, lambda: bp.sint64_field(4)),
    ("sub", "CHILD", lambda: bp.message_field(5)),
]
NEWER_FIELDS = [
    ("foo", bool, lambda: bp.bool_field(1)),
    ("bar", int, lambda: bp.int32_field(2)),
    ("baz", str, lambda: bp.string_field(3)),
    ("fx", int, lambda: bp.fixed32_field(4)),
    ("dbl", float, lambda: bp.double_field(5)),
    ("child", "CHILD", lambda: bp.message_field(6)),
    ("kids", "LIST_CHILD", lambda: bp.message_field(7)),
    ("s32", int, lambda: bp.sint32_field(8)),
    ("col", Color, lambda: bp.enum_field(9)),
    ("cols", List[Color], lambda: bp.enum_field(10)),
    ("sf64", int, lambda: bp.sfixed64_field(11)),
    ("fls", List[float], lambda: bp.float_field(12)),
    ("raws", List[bytes], lambda: bp.bytes_field(13)),
    ("packed", List[int], lambda: bp.int32_field(14)),
    ("zz", List[int], lambda: bp.sint64_field(15)),
    ("f64s", List[int], lambda: bp.fixed64_field(16)),
    ("m", "MAP_CHILD", lambda: bp.map_field(17, bp.TYPE_STRING, bp.TYPE_MESSAGE)),
    ("w", Optional[int], lambda: bp.message_field(18, wraps=bp.TYPE_INT32)),
    ("ts", datetime, lambda: bp.message_field(19)),
    ("tags", List[str], lambda: bp.string_field(2000)),
    ("du", timedelta, lambda: bp.message_field(21)),
    ("mi", Dict[int, str], lambda: bp.map_field(22, bp.TYPE_INT32, bp.TYPE_STRING)),
    ("mb", Dict[bool, float], lambda: bp.map_field(23, bp.TYPE_BOOL, bp.TYPE_DOUBLE)),
    ("mz", Dict[int, bytes], lambda: bp.map_field(24, bp.TYPE_SINT64, bp.TYPE_BYTES)),
    ("bools", List[bool], lambda: bp.bool_field(25)),
    ("o_int", int, lambda: bp.int32_field(30, group="g")),
    ("o_str", str, lambda: bp.string_field(31, group="g")),
    ("o_child", "CHILD", lambda: bp.message_field(32, group="g")),
    ("o_bytes", bytes, lambda: bp.bytes_field(33, group="g")),
    ("o_dbl", float, lambda: bp.double_field(34, group="g")),
    ("opt_i", Optional[int], lambda: bp.int32_field(40, optional=True, group="_opt_i")),
    ("opt_s", Optional[str], lambda: bp.string_field(41, optional=True, group="_opt_s")),
    ("opt_c", "OPT_CHILD", lambda: bp.message_field(42, optional=True, group="_opt_c")),
    ("i64", int, lambda: bp.int64_field(536870911)),
]

_counter = [0]


def make_child_class(keep):
    _counter[0] += 1
    name = f"Child{_counter[0]}"
    fields = []
    for fname, ftype, mk in CHILD_FIELDS:
        if fname in keep:
            # self reference by name: resolved through this module's globals
            fields.append((fname, name if ftype == "CHILD" else ftype, mk()))
    cls = dataclasses.make_dataclass(name, fields, bases=(bp.Message,), eq=False, repr=False)
    cls.__module__ = __name__
    globals()[name] = cls
    return cls


def make_newer_class(keep, child_cls):
    _counter[0] += 1
    name = f"Msg{_counter[0]}"
    sub = {
        "CHILD": child_cls,
        "LIST_CHILD": List[child_cls],
        "MAP_CHILD": Dict[str, child_cls],
        "OPT_CHILD": Optional[child_cls],
    }
    fields = [
        (fname, sub[ftype] if isinstance(ftype, str) else ftype, mk())
        for fname, ftype, mk in NEWER_FIELDS
        if fname in keep
    ]
    cls = dataclasses.make_dataclass(name, fields, bases=(bp.Message,), eq=False, repr=False)
    cls.__module__ = __name__
    globals()[name] = cls
    return cls


ALL_CHILD = [f[0] for f in CHILD_FIELDS]
ALL_NEWER = [f[0] for f in NEWER_FIELDS]
ChildFull = make_child_class(set(ALL_CHILD))
NewerFull = make_newer_class(set(ALL_NEWER), ChildFull)


def rnd_int(bits, signed):
    k = rng.choice([0, 1, 7, 8, 14, 15, 21, 28, bits - 1, bits])
    hi = (1 << min(k, bits - (1 if signed else 0))) - 1
    v = rng.randint(0, hi)
    if signed and rng.random() < 0.5:
        v = -v - 1 if rng.random() < 0.5 else -v
    return v


def rnd_str():
    return "".join(rng.choice("abé€\U0001F600 z") for _ in range(rng.choice([0, 0, 1, 3, 130])))


def rnd_bytes():
    return bytes(rng.randrange(256) for _ in range(rng.choice([0, 0, 1, 5, 200])))


def rnd_child(depth=0):
    c = ChildFull()
    if rng.random() < 0.5:
        c.a = rnd_int(32, True)
    if rng.random() < 0.5:
        c.b = rnd_str()
    if rng.random() < 0.5:
        c.c = rng.choice([0.0, 1.5, -2.25, 1e300, float("inf")])
    if rng.random() < 0.5:
        c.d = rnd_int(64, True)
    if depth < 2 and rng.random() < 0.4:
        c.sub = rnd_child(depth + 1)
    return c


def count():
    return rng.choice([1, 1, 2, 5, 40])


def rnd_newer():
    n = NewerFull()
    p = rng.choice([0.1, 0.4, 0.9])

    def on():
        return rng.random() < p

    if on():
        n.foo = rng.random() < 0.7
    if on():
        n.bar = rnd_int(32, True)
    if on():
        n.baz = rnd_str()
    if on():
        n.fx = rnd_int(32, False)
    if on():
        n.dbl = rng.choice([0.0, -0.0, 2.5, -1e-300, float("-inf")])
    if on():
        n.child = rnd_child()
    if on():
        n.kids = [rnd_child() for _ in range(count())]
    if on():
        n.s32 = rnd_int(32, True)
    if on():
        n.col = rng.choice(list(Color))
    if on():
        n.cols = [rng.choice(list(Color)) for _ in range(count())]
    if on():
        n.sf64 = rnd_int(64, True)
    if on():
        n.fls = [rng.choice([0.0, 1.5, -0.25, 65536.0]) for _ in range(count())]
    if on():
        n.raws = [rnd_bytes() for _ in range(count())]
    if on():
        n.packed = [rnd_int(32, True) for _ in range(count())]
    if on():
        n.zz = [rnd_int(64, True) for _ in range(count())]
    if on():
        n.f64s = [rnd_int(64, False) for _ in range(count())]
    if on():
        n.m = {rnd_str() + str(i % 3): rnd_child() for i in range(count())}
        if rng.random() < 0.3:
            n.m[""] = ChildFull()
    if on():
        n.w = rng.choice([0, 1, -5, (1 << 31) - 1])
    if on():
        n.ts = datetime(1970, 1, 1, tzinfo=timezone.utc) + timedelta(
            seconds=rng.randrange(-10**9, 4 * 10**9), microseconds=rng.randrange(10**6)
        )
    if on():
        n.tags = [rnd_str() for _ in range(count())]
    if on():
        n.du = timedelta(seconds=rng.randrange(-10**8, 10**8), microseconds=rng.randrange(10**6))
    if on():
        n.mi = {rng.choice([0, 1, -1, rnd_int(32, True)]): rnd_str() for _ in range(count())}
    if on():
        n.mb = {rng.random() < 0.5: rng.choice([0.0, 1.25]) for _ in range(rng.choice([1, 2, 3]))}
    if on():
        n.mz = {rnd_int(64, True): rnd_bytes() for _ in range(count())}
    if on():
        n.bools = [rng.random() < 0.5 for _ in range(count())]
    which = rng.choice([None, None, "o_int", "o_str", "o_child", "o_bytes", "o_dbl"])
    if which == "o_int":
        n.o_int = rng.choice([0, 0, rnd_int(32, True)])
    elif which == "o_str":
        n.o_str = rng.choice(["", "", rnd_str()])
    elif which == "o_child":
        n.o_child = rng.choice([ChildFull(), rnd_child()])
    elif which == "o_bytes":
        n.o_bytes = rng.choice([b"", rnd_bytes()])
    elif which == "o_dbl":
        n.o_dbl = rng.choice([0.0, -0.0, 3.5])
    if on():
        n.opt_i = rng.choice([0, 0, rnd_int(32, True)])
    if on():
        n.opt_s = rng.choice(["", "", rnd_str()])
    if on():
        n.opt_c = rng.choice([ChildFull(), rnd_child()])
    if on():
        n.i64 = rnd_int(64, True)
    return n


def older_classes():
    child_keep = {f for f in ALL_CHILD if rng.random() < rng.choice([0.0, 0.5, 0.8])}
    child_cls = make_child_class(child_keep)
    keep = {f for f in ALL_NEWER if rng.random() < rng.choice([0.0, 0.3, 0.7])}
    return make_newer_class(keep, child_cls)


olders = [older_classes() for _ in range(30)]
olders.append(make_newer_class(set(), make_child_class(set())))  # everything deleted
containers = {"child", "kids", "m", "o_child", "opt_c"}
olders.append(make_newer_class(containers, make_child_class(set())))
olders.append(make_newer_class(containers, make_child_class({"sub"})))
olders.append(make_newer_class(set(ALL_NEWER) - containers, make_child_class(set())))
olders.append(make_newer_class(set(ALL_NEWER), make_child_class({"a"})))


def check_sizes(msg, data):
    assert len(msg) == len(data), (len(msg), len(data))
    rec = Recorder()
    msg.dump(rec)
    assert b"".join(rec.writes) == data
    assert rec.writes[-1] == msg._unknown_fields
    rec = Recorder()
    msg.dump(rec, bp.SIZE_DELIMITED)
    assert b"".join(rec.writes) == bp.encode_varint(len(data)) + data


for i in range(220):
    newer = rnd_newer()
    data = bytes(newer)
    check_sizes(newer, data)
    ref = GNewer.FromString(data)
    # betterproto can read what the reference writes, and sees the same message
    from_ref = NewerFull().parse(ref.SerializeToString())
    assert from_ref == newer, i
    assert GNewer.FromString(bytes(from_ref)) == ref, i
    assert len(from_ref) == len(bytes(from_ref))
    for Older in rng.sample(olders, 6):
        older = Older().parse(data)
        again = bytes(older)
        check_sizes(older, again)
        assert again.endswith(older._unknown_fields)
        # reference decoder's view of the re-emitted bytes is unchanged
        assert GNewer.FromString(again) == ref, (i, Older)
        # and so is the newer schema's own view
        assert NewerFull().parse(again) == newer, (i, Older)
        # a second hop through another older schema changes nothing either
        Other = rng.choice(olders)
        hop = bytes(Other().parse(again))
        assert GNewer.FromString(hop) == ref, (i, Older, Other)
        # size-delimited stream API
        buf = BytesIO()
        older.dump(buf, bp.SIZE_DELIMITED)
        buf.write(b"\x08\x01")
        buf.seek(0)
        back = Older().load(buf, bp.SIZE_DELIMITED)
        assert buf.read() == b"\x08\x01"
        assert bytes(back) == again, (i, Older)

print("ok")
