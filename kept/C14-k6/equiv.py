"""Equivalence check for the single-field encoder / sizer / wire-type check
(_serialize_single, _len_single, _wire_type_matches) that bytes(), len(), pickle
and parse are built on (C14: bytes / len are pure observers, copy / deepcopy /
pickle are byte-faithful).

1. _serialize_single / _len_single against an independent encoder written here,
   for every proto type x boundary values x field numbers x serialize_empty x
   wraps, including unknown proto types (NotImplementedError) and bytearray input.
2. _wire_type_matches against an explicit truth table.
3. Whole messages against google.protobuf (built from a descriptor at run time):
   identical bytes, len() == len(bytes()), bytes stable across repeated observer
   calls, copy / deepcopy / pickle byte-identical and independent, fields that
   arrive with a foreign wire type kept as unknown fields.
"""
import copy
import itertools
import pickle
import random
import struct
from dataclasses import dataclass
from datetime import datetime, timedelta, timezone
from typing import Dict, List, Optional

import betterproto
from betterproto import (
    _len_single,
    _serialize_single,
    _wire_type_matches,
)
from google.protobuf import descriptor_pb2, descriptor_pool, message_factory

# --------------------------------------------------------------------------
# 1. independent single-field encoder
# --------------------------------------------------------------------------
VARINT = ["enum", "bool", "int32", "int64", "uint32", "uint64", "sint32", "sint64"]
FIXED32 = {"float": "<f", "fixed32": "<I", "sfixed32": "<i"}
FIXED64 = {"double": "<d", "fixed64": "<Q", "sfixed64": "<q"}
LEN_DELIM = ["string", "bytes", "message", "map"]


def ref_varint(n: int) -> bytes:
    assert n >= -(1 << 63)
    if n < 0:
        n += 1 << 64
    out = bytearray()
    while True:
        low = n & 0x7F
        n >>= 7
        if n:
            out.append(low | 0x80)
        else:
            out.append(low)
            return bytes(out)


def ref_single(number, proto_type, payload, serialize_empty, wraps) -> bytes:
    """payload is the already pre-processed value for len-delimited types."""
    if proto_type in VARINT:
        if proto_type in ("sint32", "sint64"):
            payload = (payload << 1) if payload >= 0 else ((payload << 1) ^ -1)
        return ref_varint(number << 3 | 0) + ref_varint(int(payload))
    if proto_type in FIXED32:
        return ref_varint(number << 3 | 5) + struct.pack(FIXED32[proto_type], payload)
    if proto_type in FIXED64:
        return ref_varint(number << 3 | 1) + struct.pack(FIXED64[proto_type], payload)
    assert proto_type in LEN_DELIM
    if not payload and not serialize_empty and not wraps:
        return b""
    return ref_varint(number << 3 | 2) + ref_varint(len(payload)) + bytes(payload)


NUMBERS = [1, 2, 15, 16, 2047, 2048, 2**28, 2**29 - 1]
VALUES = {
    "enum": [0, 1, 127, 128, -1, 2**31 - 1, -(2**31)],
    "bool": [False, True],
    "int32": [0, 1, -1, 127, 128, 16383, 16384, 2**31 - 1, -(2**31)],
    "int64": [0, 1, -1, 2**63 - 1, -(2**63), 2**35],
    "uint32": [0, 1, 2**32 - 1, 300],
    "uint64": [0, 1, 2**64 - 1, 2**63],
    "sint32": [0, 1, -1, 63, -64, 64, -65, 2**31 - 1, -(2**31)],
    "sint64": [0, 1, -1, 2**62, -(2**62), 2**63 - 1, -(2**63)],
    "float": [0.0, -0.0, 1.5, -2.25, float("inf"), float("-inf"), 3.4028234663852886e38],
    "fixed32": [0, 1, 2**32 - 1],
    "sfixed32": [0, -1, 2**31 - 1, -(2**31)],
    "double": [0.0, -0.0, 1e308, -1e-308, float("inf"), 0.1],
    "fixed64": [0, 1, 2**64 - 1],
    "sfixed64": [0, -1, 2**63 - 1, -(2**63)],
}

single_checks = 0
for proto_type, values in VALUES.items():
    for number, value, empty in itertools.product(NUMBERS, values, (False, True)):
        want = ref_single(number, proto_type, value, empty, "")
        got = _serialize_single(number, proto_type, value, serialize_empty=empty)
        assert type(got) is bytes and got == want, (proto_type, number, value, got, want)
        assert _len_single(number, proto_type, value, serialize_empty=empty) == len(want)
        single_checks += 1
    # positional defaults
    assert _serialize_single(3, proto_type, values[0]) == ref_single(3, proto_type, values[0], False, "")
    assert _len_single(3, proto_type, values[0]) == len(ref_single(3, proto_type, values[0], False, ""))

# NaN payloads: compare bytes only
for proto_type in ("float", "double"):
    got = _serialize_single(7, proto_type, float("nan"))
    assert got == ref_single(7, proto_type, float("nan"), False, "")
    assert _len_single(7, proto_type, float("nan")) == len(got)

STRINGS = ["", "a", "é", "x" * 127, "x" * 128, "y" * 16384, "€\U0001f600"]
BLOBS = [b"", b"\x00", b"\xff" * 127, b"\xff" * 128, bytes(range(256)) * 70]
for number, empty in itertools.product(NUMBERS, (False, True)):
    for s in STRINGS:
        want = ref_single(number, "string", s.encode("utf-8"), empty, "")
        got = _serialize_single(number, "string", s, serialize_empty=empty)
        assert type(got) is bytes and got == want
        assert _len_single(number, "string", s, serialize_empty=empty) == len(want)
        assert bool(got) == bool(s or empty)
        single_checks += 1
    for b in BLOBS:
        for payload in (b, bytearray(b)):  # packed runs are handed over as bytearray
            want = ref_single(number, "bytes", b, empty, "")
            got = _serialize_single(number, "bytes", payload, serialize_empty=empty)
            assert type(got) is bytes and got == want
            assert _len_single(number, "bytes", payload, serialize_empty=empty) == len(want)
            single_checks += 1
        # map entries are pre-encoded bytes
        want = ref_single(number, "map", b, empty, "")
        assert _serialize_single(number, "map", b, serialize_empty=empty) == want
        assert _len_single(number, "map", b, serialize_empty=empty) == len(want)


@dataclass(eq=False, repr=False)
class Inner(betterproto.Message):
    a: int = betterproto.int32_field(1)
    s: str = betterproto.string_field(2)


@dataclass(eq=False, repr=False)
class NoFields(betterproto.Message):
    pass


UTC = timezone.utc
MESSAGE_VALUES = [
    (Inner(), b""),
    (Inner(a=1), b"\x08\x01"),
    (Inner(a=-1, s="zz"), b"\x08" + b"\xff" * 9 + b"\x01" + b"\x12\x02zz"),
    (Inner(s="q" * 200), b"\x12\xc8\x01" + b"q" * 200),
    (NoFields(), b""),
    (datetime(1970, 1, 1, tzinfo=UTC), b""),
    (datetime(1970, 1, 1, 0, 0, 1, tzinfo=UTC), b"\x08\x01"),
    (datetime(2020, 1, 1, 0, 0, 0, 5000, tzinfo=UTC), b"\x08" + ref_varint(1577836800) + b"\x10" + ref_varint(5000000)),
    (timedelta(0), b""),
    (timedelta(seconds=3, microseconds=1), b"\x08\x03\x10\xe8\x07"),
]
for number, empty in itertools.product(NUMBERS, (False, True)):
    for value, payload in MESSAGE_VALUES:
        want = ref_single(number, "message", payload, empty, "")
        got = _serialize_single(number, "message", value, serialize_empty=empty)
        assert type(got) is bytes and got == want, (value, got, want)
        assert _len_single(number, "message", value, serialize_empty=empty) == len(want)
        single_checks += 1

# wrapper values: a wrapped field is always emitted, None encodes as an empty wrapper
WRAPPED = [
    ("int32", 0, b""), ("int32", 5, b"\x08\x05"), ("int32", None, b""),
    ("int64", -1, b"\x08" + b"\xff" * 9 + b"\x01"), ("uint64", 2**64 - 1, b"\x08" + b"\xff" * 9 + b"\x01"),
    ("bool", False, b""), ("bool", True, b"\x08\x01"), ("bool", None, b""),
    ("string", "", b""), ("string", "hi", b"\x0a\x02hi"), ("string", None, b""),
    ("bytes", b"", b""), ("bytes", b"\x01", b"\x0a\x01\x01"),
    ("double", 0.0, b""), ("double", 1.0, b"\x09" + struct.pack("<d", 1.0)),
    ("float", 2.0, b"\x0d" + struct.pack("<f", 2.0)), ("float", None, b""),
]
for number, empty in itertools.product(NUMBERS, (False, True)):
    for wraps, value, payload in WRAPPED:
        want = ref_single(number, "message", payload, empty, wraps)
        assert want  # never omitted
        got = _serialize_single(number, "message", value, serialize_empty=empty, wraps=wraps)
        assert type(got) is bytes and got == want, (wraps, value, got, want)
        assert _len_single(number, "message", value, serialize_empty=empty, wraps=wraps) == len(want)
        single_checks += 1

# unknown proto types are rejected (after the value has been passed through as is)
for bogus in ("group", "", "INT32", "Message", "varint", "int", "wrapper"):
    for fn in (_serialize_single, _len_single):
        for kwargs in ({}, {"serialize_empty": True}, {"wraps": "int32"}):
            try:
                fn(1, bogus, b"abc", **kwargs)
            except NotImplementedError as exc:
                assert exc.args == (bogus,)
            else:
                raise AssertionError((fn, bogus))

# --------------------------------------------------------------------------
# 2. _wire_type_matches truth table
# --------------------------------------------------------------------------
PACKABLE = set(VARINT) | set(FIXED32) | set(FIXED64)
EXPECTED_WIRE = {**{t: 0 for t in VARINT}, **{t: 5 for t in FIXED32}, **{t: 1 for t in FIXED64}, **{t: 2 for t in LEN_DELIM}}
for proto_type in list(EXPECTED_WIRE) + ["group", ""]:
    for wire_type in range(-1, 9):
        for repeated in (False, True):
            want = EXPECTED_WIRE.get(proto_type, "none") == wire_type or (
                wire_type == 2 and repeated and proto_type in PACKABLE
            )
            got = _wire_type_matches(wire_type, proto_type, repeated)
            assert got is want, (wire_type, proto_type, repeated, got)

# --------------------------------------------------------------------------
# 3. whole messages against google.protobuf
# --------------------------------------------------------------------------
F = descriptor_pb2.FieldDescriptorProto
fdp = descriptor_pb2.FileDescriptorProto(name="c14_keep2.proto", package="c14k2", syntax="proto3")
inner = fdp.message_type.add(name="Inner")
inner.field.add(name="a", number=1, type=F.TYPE_INT32, label=F.LABEL_OPTIONAL)
inner.field.add(name="s", number=2, type=F.TYPE_STRING, label=F.LABEL_OPTIONAL)
allm = fdp.message_type.add(name="All")
SCALARS = [
    ("int32", F.TYPE_INT32), ("int64", F.TYPE_INT64), ("uint32", F.TYPE_UINT32),
    ("uint64", F.TYPE_UINT64), ("sint32", F.TYPE_SINT32), ("sint64", F.TYPE_SINT64),
    ("bool", F.TYPE_BOOL), ("float", F.TYPE_FLOAT), ("double", F.TYPE_DOUBLE),
    ("fixed32", F.TYPE_FIXED32), ("fixed64", F.TYPE_FIXED64), ("sfixed32", F.TYPE_SFIXED32),
    ("sfixed64", F.TYPE_SFIXED64), ("string", F.TYPE_STRING), ("bytes", F.TYPE_BYTES),
]
for i, (name, t) in enumerate(SCALARS, start=1):
    allm.field.add(name=f"f_{name}", number=i, type=t, label=F.LABEL_OPTIONAL)
    allm.field.add(name=f"r_{name}", number=100 + i, type=t, label=F.LABEL_REPEATED)
allm.field.add(name="child", number=40, type=F.TYPE_MESSAGE, type_name=".c14k2.Inner", label=F.LABEL_OPTIONAL)
allm.field.add(name="kids", number=41, type=F.TYPE_MESSAGE, type_name=".c14k2.Inner", label=F.LABEL_REPEATED)
allm.oneof_decl.add(name="pick")
allm.field.add(name="o_int", number=2000, type=F.TYPE_INT32, label=F.LABEL_OPTIONAL, oneof_index=0)
allm.field.add(name="o_str", number=2001, type=F.TYPE_STRING, label=F.LABEL_OPTIONAL, oneof_index=0)
allm.field.add(name="o_msg", number=2002, type=F.TYPE_MESSAGE, type_name=".c14k2.Inner", label=F.LABEL_OPTIONAL, oneof_index=0)
pool = descriptor_pool.DescriptorPool()
pool.Add(fdp)
GAll = message_factory.GetMessageClass(pool.FindMessageTypeByName("c14k2.All"))
GInner = message_factory.GetMessageClass(pool.FindMessageTypeByName("c14k2.Inner"))


@dataclass(eq=False, repr=False)
class All(betterproto.Message):
    f_int32: int = betterproto.int32_field(1)
    f_int64: int = betterproto.int64_field(2)
    f_uint32: int = betterproto.uint32_field(3)
    f_uint64: int = betterproto.uint64_field(4)
    f_sint32: int = betterproto.sint32_field(5)
    f_sint64: int = betterproto.sint64_field(6)
    f_bool: bool = betterproto.bool_field(7)
    f_float: float = betterproto.float_field(8)
    f_double: float = betterproto.double_field(9)
    f_fixed32: int = betterproto.fixed32_field(10)
    f_fixed64: int = betterproto.fixed64_field(11)
    f_sfixed32: int = betterproto.sfixed32_field(12)
    f_sfixed64: int = betterproto.sfixed64_field(13)
    f_string: str = betterproto.string_field(14)
    f_bytes: bytes = betterproto.bytes_field(15)
    child: Inner = betterproto.message_field(40)
    kids: List[Inner] = betterproto.message_field(41)
    r_int32: List[int] = betterproto.int32_field(101)
    r_int64: List[int] = betterproto.int64_field(102)
    r_uint32: List[int] = betterproto.uint32_field(103)
    r_uint64: List[int] = betterproto.uint64_field(104)
    r_sint32: List[int] = betterproto.sint32_field(105)
    r_sint64: List[int] = betterproto.sint64_field(106)
    r_bool: List[bool] = betterproto.bool_field(107)
    r_float: List[float] = betterproto.float_field(108)
    r_double: List[float] = betterproto.double_field(109)
    r_fixed32: List[int] = betterproto.fixed32_field(110)
    r_fixed64: List[int] = betterproto.fixed64_field(111)
    r_sfixed32: List[int] = betterproto.sfixed32_field(112)
    r_sfixed64: List[int] = betterproto.sfixed64_field(113)
    r_string: List[str] = betterproto.string_field(114)
    r_bytes: List[bytes] = betterproto.bytes_field(115)
    o_int: int = betterproto.int32_field(2000, group="pick")
    o_str: str = betterproto.string_field(2001, group="pick")
    o_msg: Inner = betterproto.message_field(2002, group="pick")


@dataclass(eq=False, repr=False)
class Shifted(betterproto.Message):
    """Same field numbers as All, but each with a type of another wire type."""
    f_int32: str = betterproto.string_field(1)
    f_int64: float = betterproto.double_field(2)
    f_float: int = betterproto.int32_field(8)
    f_double: int = betterproto.fixed32_field(9)
    f_string: int = betterproto.int64_field(14)
    child: int = betterproto.sfixed64_field(40)
    o_int: Inner = betterproto.message_field(2000)
    f_bool: List[int] = betterproto.fixed32_field(7)  # repeated packable, arrives as varint
    r_int32: List[bytes] = betterproto.bytes_field(101)  # a packed run read as plain bytes
    r_fixed32: List[bytes] = betterproto.bytes_field(110)
    r_string: List[bytes] = betterproto.bytes_field(114)


@dataclass(eq=False, repr=False)
class WithMaps(betterproto.Message):
    m1: Dict[str, int] = betterproto.map_field(1, betterproto.TYPE_STRING, betterproto.TYPE_SINT32)
    m2: Dict[int, Inner] = betterproto.map_field(2, betterproto.TYPE_FIXED32, betterproto.TYPE_MESSAGE)
    w: Optional[int] = betterproto.message_field(3, wraps=betterproto.TYPE_INT32)
    t: datetime = betterproto.message_field(4)
    d: timedelta = betterproto.message_field(5)
    e: NoFields = betterproto.message_field(6)


rng = random.Random(14)
INT_RANGES = {
    "int32": (-(2**31), 2**31 - 1), "int64": (-(2**63), 2**63 - 1), "uint32": (0, 2**32 - 1),
    "uint64": (0, 2**64 - 1), "sint32": (-(2**31), 2**31 - 1), "sint64": (-(2**63), 2**63 - 1),
    "fixed32": (0, 2**32 - 1), "fixed64": (0, 2**64 - 1), "sfixed32": (-(2**31), 2**31 - 1),
    "sfixed64": (-(2**63), 2**63 - 1),
}
F32 = [0.0, 1.5, -2.25, 1024.0, float("inf"), float("-inf"), 2.0**-20]
F64 = F32 + [0.1, 1e300, -1e-300]


def rnd_scalar(name):
    if name in INT_RANGES:
        lo, hi = INT_RANGES[name]
        return rng.choice([0, 1, lo, hi, rng.randint(lo, hi), rng.randint(-100, 100) if lo < 0 else rng.randint(0, 300)])
    if name == "bool":
        return rng.random() < 0.5
    if name == "float":
        return rng.choice(F32)
    if name == "double":
        return rng.choice(F64)
    if name == "string":
        return rng.choice(["", "a", "héllo", "z" * rng.randint(0, 300)])
    return rng.choice([b"", b"\x00", bytes(rng.randrange(256) for _ in range(rng.randint(0, 200)))])


def rnd_inner_kwargs():
    kw = {}
    if rng.random() < 0.6:
        kw["a"] = rnd_scalar("int32")
    if rng.random() < 0.6:
        kw["s"] = rnd_scalar("string")
    return kw


def rnd_all():
    bp_kw, g = {}, GAll()
    for name, _ in SCALARS:
        if rng.random() < 0.45:
            v = rnd_scalar(name)
            bp_kw[f"f_{name}"] = v
            setattr(g, f"f_{name}", v)
        if rng.random() < 0.35:
            vs = [rnd_scalar(name) for _ in range(rng.randint(0, 4))]
            bp_kw[f"r_{name}"] = list(vs)
            getattr(g, f"r_{name}").extend(vs)
    if rng.random() < 0.4:
        kw = rnd_inner_kwargs()
        bp_kw["child"] = Inner(**kw)
        # (a child constructed without any value is not "present" for betterproto)
        for k, v in kw.items():
            setattr(g.child, k, v)
    if rng.random() < 0.4:
        kws = [rnd_inner_kwargs() for _ in range(rng.randint(0, 3))]
        bp_kw["kids"] = [Inner(**kw) for kw in kws]
        for kw in kws:
            g.kids.add(**kw)
    pick = rng.choice([None, "o_int", "o_str", "o_msg"])
    if pick == "o_int":
        v = rng.choice([0, rnd_scalar("int32")])
        bp_kw[pick] = v
        g.o_int = v
    elif pick == "o_str":
        v = rng.choice(["", rnd_scalar("string")])
        bp_kw[pick] = v
        g.o_str = v
    elif pick == "o_msg":
        kw = rng.choice([{}, rnd_inner_kwargs()])
        bp_kw[pick] = Inner(**kw)
        g.o_msg.SetInParent()
        for k, v in kw.items():
            setattr(g.o_msg, k, v)
    return All(**bp_kw), g


def check_faithful(m, wire):
    """bytes / len are stable observers; copy / deepcopy / pickle are byte-faithful."""
    assert bytes(m) == wire and bytes(m) == wire
    assert len(m) == len(wire)
    assert m.SerializeToString() == wire
    for clone in (copy.copy(m), copy.deepcopy(m), pickle.loads(pickle.dumps(m))):
        assert bytes(clone) == wire and len(clone) == len(wire)
        assert clone == m and m == clone
    assert bytes(m) == wire


message_checks = 0
for _ in range(400):
    m, g = rnd_all()
    wire = g.SerializeToString(deterministic=True)
    # google.protobuf emits fields in field-number order, and so does the field
    # order of All; repeated scalars are packed by both.
    assert bytes(m) == wire, (m, wire, bytes(m))
    check_faithful(m, wire)

    decoded = All().parse(wire)
    assert decoded == m, (decoded, m)
    check_faithful(decoded, wire)
    assert betterproto.which_one_of(decoded, "pick")[0] == (g.WhichOneof("pick") or "")

    # the same bytes read by a class whose fields have other wire types: fields
    # that do not fit are kept as unknown fields and written back at the end
    other = Shifted().parse(wire)
    rewire = bytes(other)
    assert len(other) == len(rewire)
    assert sorted(rewire) == sorted(wire)  # same bytes, possibly other field order
    back = GAll.FromString(rewire)
    assert back == g, (back, g)
    check_faithful(other, rewire)

    # independence of deep / unpickled copies
    for clone in (copy.deepcopy(m), pickle.loads(pickle.dumps(m))):
        clone.f_int32 = 77
        clone.kids.append(Inner(a=1))
        clone.r_string.append("extra")
        clone.child.s = "changed"
        assert bytes(m) == wire
    message_checks += 1

# maps, wrappers, well-known types, field-less messages
MAP_CASES = [
    (WithMaps(), b""),
    (WithMaps(m1={"": 0}), b"\x0a\x02\x10\x00"),
    (WithMaps(m1={"k": -1}), b"\x0a\x05\x0a\x01k\x10\x01"),
    (WithMaps(m2={0: Inner()}), b"\x12\x05\x0d\x00\x00\x00\x00"),
    (WithMaps(m2={7: Inner(a=3)}), b"\x12\x09\x0d\x07\x00\x00\x00\x12\x02\x08\x03"),
    (WithMaps(w=0), b"\x1a\x00"),
    (WithMaps(w=9), b"\x1a\x02\x08\x09"),
    (WithMaps(t=datetime(1970, 1, 1, 0, 0, 2, tzinfo=UTC)), b"\x22\x02\x08\x02"),
    (WithMaps(d=timedelta(seconds=-1)), b"\x2a\x0b\x08" + b"\xff" * 9 + b"\x01"),
    (WithMaps(e=NoFields()), b"\x32\x00"),
]
for m, wire in MAP_CASES:
    assert bytes(m) == wire, (m, bytes(m), wire)
    check_faithful(m, wire)
    again = WithMaps().parse(wire)
    assert again == m and bytes(again) == wire
    check_faithful(again, wire)
    message_checks += 1

# lazily read defaults do not change the encoding either
lazy = All()
lazy.child, lazy.kids, lazy.r_int32, lazy.child.s  # noqa: B018
check_faithful(lazy, b"")
assert GAll.FromString(bytes(All(child=Inner()))) == GAll()

print(f"ok: {single_checks} single-field checks, {message_checks} message checks")
