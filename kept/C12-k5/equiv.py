"""
Equivalence check for the consumer side of C12: ServiceStub._send_messages (draining a
message source -- in particular an AsyncChannel -- into a grpclib stream) and
ServiceStub._stream_stream (running the sender as a task and cancelling it whenever the
response iteration ends abnormally).

Run:  PYTHONPATH=/tmp/wt/R6C12/src /venv/bin/python equiv.py
Exits 0 on the pristine tree and with the refactor applied.
"""
import asyncio
import gc
import itertools
from dataclasses import dataclass
from typing import Dict

import grpclib
import grpclib.const
import grpclib.exceptions
from grpclib.testing import ChannelFor

import betterproto
from betterproto.grpc.grpclib_client import ServiceStub
from betterproto.grpc.util.async_channel import AsyncChannel


@dataclass(eq=False, repr=False)
class Req(betterproto.Message):
    name: str = betterproto.string_field(1)


@dataclass(eq=False, repr=False)
class Resp(betterproto.Message):
    name: str = betterproto.string_field(1)
    seq: int = betterproto.int32_field(2)


# --------------------------------------------------------------------------------------
# Part 1: _send_messages against a recording fake stream, driven by hand so that the
# exact number of suspensions is observable.
# --------------------------------------------------------------------------------------


class Yield:
    """Awaitable that suspends the running coroutine exactly `n` times."""

    def __init__(self, n=1):
        self.n = n

    def __await__(self):
        for _ in range(self.n):
            yield "tick"


class FakeStream:
    def __init__(self, yields_per_send=0, fail_at=None, yields_on_end=0):
        self.log = []
        self.yields_per_send = yields_per_send
        self.fail_at = fail_at
        self.yields_on_end = yields_on_end

    async def send_message(self, message, **kwargs):
        assert not kwargs, kwargs
        if self.fail_at is not None and len(self.log) == self.fail_at:
            self.log.append(("send-failed", message))
            raise ConnectionError("boom")
        if self.yields_per_send:
            await Yield(self.yields_per_send)
        self.log.append(("send", message))

    async def end(self):
        if self.yields_on_end:
            await Yield(self.yields_on_end)
        self.log.append(("end",))


def drive(coro, throw_at=None, throw=None):
    """
    Run a coroutine by hand.  Returns (number of suspensions, outcome) where outcome is
    ("return", value) or ("raise", exception type, str(exception)).
    """
    ticks = 0
    try:
        while True:
            if throw_at is not None and ticks == throw_at:
                throw_at = None
                got = coro.throw(throw)
            else:
                got = coro.send(None)
            assert got == "tick", got
            ticks += 1
            assert ticks < 10_000
    except StopIteration as stop:
        return ticks, ("return", stop.value)
    except BaseException as exc:  # noqa
        return ticks, ("raise", type(exc), str(exc))


class Pulled:
    """Sync iterable that records how many items were pulled and whether it was closed."""

    def __init__(self, items, fail_at=None):
        self.items = list(items)
        self.fail_at = fail_at
        self.pulled = 0
        self.iter_calls = 0

    def __iter__(self):
        self.iter_calls += 1
        return self._gen()

    def _gen(self):
        for i, item in enumerate(self.items):
            if self.fail_at == i:
                raise KeyError("source failed")
            self.pulled += 1
            yield item


class APulled:
    """Async iterable (not an async generator) with optional suspension per item."""

    def __init__(self, items, yields_per_item=0, fail_at=None):
        self.items = list(items)
        self.yields_per_item = yields_per_item
        self.fail_at = fail_at
        self.pulled = 0
        self.aiter_calls = 0

    def __aiter__(self):
        self.aiter_calls += 1
        return self

    async def __anext__(self):
        if self.yields_per_item:
            await Yield(self.yields_per_item)
        if self.fail_at == self.pulled:
            raise KeyError("source failed")
        if self.pulled >= len(self.items):
            raise StopAsyncIteration
        self.pulled += 1
        return self.items[self.pulled - 1]


class Both(APulled):
    """Both Iterable and AsyncIterable: the async protocol must be preferred."""

    def __iter__(self):
        raise AssertionError("sync iteration used on an AsyncIterable source")


async def agen(items, yields_per_item=0):
    for item in items:
        if yields_per_item:
            await Yield(yields_per_item)
        yield item


def part1():
    checks = 0
    msgs = [Req(name=f"m{i}") for i in range(4)]
    for n in range(0, 5):
        items = msgs[:n]
        for ys, ye in itertools.product((0, 1, 3), (0, 2)):
            sync_sources = {
                "list": lambda: list(items),
                "tuple": lambda: tuple(items),
                "iterator": lambda: iter(list(items)),
                "generator": lambda: (m for m in items),
                "dict-keys": lambda: {id(m): m for m in items}.values(),
                "Pulled": lambda: Pulled(items),
            }
            for label, make in sync_sources.items():
                stream = FakeStream(ys, None, ye)
                ticks, outcome = drive(ServiceStub._send_messages(stream, make()))
                assert outcome == ("return", None), (label, outcome)
                assert stream.log == [("send", m) for m in items] + [("end",)], label
                # iterating a plain iterable adds no suspension of its own
                assert ticks == n * ys + ye, (label, n, ys, ye, ticks)
                checks += 1
            for yi in (0, 1, 2):
                async_sources = {
                    "APulled": lambda: APulled(items, yi),
                    "Both": lambda: Both(items, yi),
                    "agen": lambda: agen(items, yi),
                }
                for label, make in async_sources.items():
                    stream = FakeStream(ys, None, ye)
                    src = make()
                    ticks, outcome = drive(ServiceStub._send_messages(stream, src))
                    assert outcome == ("return", None), (label, outcome)
                    assert stream.log == [("send", m) for m in items] + [("end",)]
                    extra = yi * n if label == "agen" else yi * (n + 1)
                    assert ticks == n * ys + ye + extra, (label, n, ys, ye, yi, ticks)
                    if label != "agen":
                        assert src.aiter_calls == 1
                    checks += 1

    # identity and order of the forwarded objects, iter() called exactly once
    src = Pulled(msgs)
    stream = FakeStream()
    assert drive(ServiceStub._send_messages(stream, src)) == (0, ("return", None))
    assert src.iter_calls == 1 and src.pulled == 4
    assert all(a[1] is b for a, b in zip(stream.log, msgs))
    checks += 1

    # error paths: send_message fails at the k-th message -> propagates unchanged, the
    # source is not advanced any further and end() is not called
    for k in range(4):
        for make in (
            lambda: Pulled(msgs),
            lambda: APulled(msgs),
            lambda: APulled(msgs, 1),
        ):
            src = make()
            stream = FakeStream(1, fail_at=k)
            ticks, outcome = drive(ServiceStub._send_messages(stream, src))
            assert outcome == ("raise", ConnectionError, "boom"), outcome
            assert stream.log == [("send", m) for m in msgs[:k]] + [
                ("send-failed", msgs[k])
            ]
            assert src.pulled == k + 1, (src.pulled, k)
            checks += 1

    # error paths: the source fails at the k-th item -> propagates unchanged, no end()
    for k in range(4):
        for make in (
            lambda: Pulled(msgs, fail_at=k),
            lambda: APulled(msgs, 0, fail_at=k),
            lambda: APulled(msgs, 2, fail_at=k),
        ):
            stream = FakeStream(1)
            ticks, outcome = drive(ServiceStub._send_messages(stream, make()))
            assert outcome[:2] == ("raise", KeyError), outcome
            assert stream.log == [("send", m) for m in msgs[:k]]
            checks += 1

    # not iterable at all: TypeError before anything is sent
    for bad in (None, 5, object()):
        stream = FakeStream()
        ticks, outcome = drive(ServiceStub._send_messages(stream, bad))
        assert outcome[:2] == ("raise", TypeError) and ticks == 0, outcome
        assert stream.log == []
        checks += 1

    # cancellation thrown in while suspended inside send_message / inside the source
    for at in range(0, 6):
        for make in (lambda: Pulled(msgs), lambda: APulled(msgs, 1), lambda: list(msgs)):
            stream = FakeStream(1)
            src = make()
            ticks, outcome = drive(
                ServiceStub._send_messages(stream, src),
                throw_at=at,
                throw=asyncio.CancelledError(),
            )
            if isinstance(src, APulled):
                total = 4 + 5
            else:
                total = 4
            if at <= total:
                assert outcome[:2] == ("raise", asyncio.CancelledError), (at, outcome)
                assert ("end",) not in stream.log
            else:
                # the throw lands after the coroutine already finished -> never thrown
                assert outcome == ("return", None)
            checks += 1
    return checks


# --------------------------------------------------------------------------------------
# Part 2: AsyncChannel as the message source of _send_messages under asyncio
# --------------------------------------------------------------------------------------


class LoopStream:
    def __init__(self, delay_steps=0):
        self.log = []
        self.delay_steps = delay_steps

    async def send_message(self, message):
        for _ in range(self.delay_steps):
            await asyncio.sleep(0)
        self.log.append(message)

    async def end(self):
        self.log.append("END")


async def spin(n=10):
    for _ in range(n):
        await asyncio.sleep(0)


async def part2():
    checks = 0
    for limit, delay, n, pre in itertools.product((0, 1, 2), (0, 1, 2), (0, 1, 3, 6), (0, 1, 2)):
        ch = AsyncChannel(buffer_limit=limit)
        msgs = [Req(name=f"c{i}") for i in range(n)]
        stream = LoopStream(delay)
        first = msgs[: min(pre, limit or pre)]
        for m in first:
            await ch.send(m)
        task = asyncio.ensure_future(ServiceStub._send_messages(stream, ch))
        await spin(2)
        await ch.send_from(msgs[len(first):])
        await spin(3)
        assert not task.done() and "END" not in stream.log
        ch.close()
        await asyncio.wait_for(task, 2)
        assert stream.log == msgs + ["END"], (limit, delay, n, pre)
        assert all(a is b for a, b in zip(stream.log, msgs))
        assert ch.done()
        checks += 1

    # closed and pre-filled before the sender starts
    for n in range(0, 5):
        ch = AsyncChannel()
        msgs = [Req(name=f"p{i}") for i in range(n)]
        await ch.send_from(msgs, close=True)
        stream = LoopStream(1)
        await asyncio.wait_for(ServiceStub._send_messages(stream, ch), 2)
        assert stream.log == msgs + ["END"]
        checks += 1

    # cancelling the sender while it is blocked on the channel: surfaces as cancellation,
    # end() is not sent, the channel stays usable and loses nothing
    for sent_before in range(0, 3):
        ch = AsyncChannel()
        stream = LoopStream()
        task = asyncio.ensure_future(ServiceStub._send_messages(stream, ch))
        msgs = [Req(name=f"x{i}") for i in range(sent_before)]
        for m in msgs:
            await ch.send(m)
        await spin()
        assert stream.log == msgs
        task.cancel()
        try:
            await task
        except asyncio.CancelledError:
            pass
        assert task.cancelled() and stream.log == msgs
        late = Req(name="late")
        await ch.send(late)
        assert await asyncio.wait_for(ch.receive(), 2) is late
        checks += 1

    # two senders draining one channel: every message forwarded exactly once, in order
    ch = AsyncChannel()
    s1, s2 = LoopStream(1), LoopStream(2)
    t1 = asyncio.ensure_future(ServiceStub._send_messages(s1, ch))
    t2 = asyncio.ensure_future(ServiceStub._send_messages(s2, ch))
    msgs = [Req(name=f"d{i}") for i in range(9)]
    for m in msgs:
        await ch.send(m)
        await asyncio.sleep(0)
    ch.close()
    await asyncio.wait_for(asyncio.gather(t1, t2), 2)
    assert s1.log[-1] == "END" and s2.log[-1] == "END"
    merged = s1.log[:-1] + s2.log[:-1]
    assert sorted(map(id, merged)) == sorted(map(id, msgs))
    for log in (s1.log[:-1], s2.log[:-1]):
        idx = [msgs.index(m) for m in log]
        assert idx == sorted(idx)
    checks += 1
    return checks


# --------------------------------------------------------------------------------------
# Part 3: the real thing -- grpclib client and server in one process
# --------------------------------------------------------------------------------------


class EchoService:
    def __init__(self, fail_after=None):
        self.fail_after = fail_after
        self.seen = []
        self.echo_finished = asyncio.Event()

    async def echo(self, stream):
        seq = 0
        try:
            async for request in stream:
                self.seen.append(request.name)
                seq += 1
                if self.fail_after is not None and seq > self.fail_after:
                    raise grpclib.exceptions.GRPCError(
                        grpclib.const.Status.INVALID_ARGUMENT, "enough"
                    )
                await stream.send_message(Resp(name=request.name, seq=seq))
        finally:
            self.echo_finished.set()

    async def collect(self, stream):
        names = [request.name async for request in stream]
        self.seen.extend(names)
        await stream.send_message(Resp(name=",".join(names), seq=len(names)))

    def __mapping__(self) -> Dict[str, grpclib.const.Handler]:
        return {
            "/t.Echo/Echo": grpclib.const.Handler(
                self.echo, grpclib.const.Cardinality.STREAM_STREAM, Req, Resp
            ),
            "/t.Echo/Collect": grpclib.const.Handler(
                self.collect, grpclib.const.Cardinality.STREAM_UNARY, Req, Resp
            ),
        }


class EchoStub(ServiceStub):
    def echo(self, requests):
        return self._stream_stream("/t.Echo/Echo", requests, Req, Resp)

    async def collect(self, requests):
        return await self._stream_unary("/t.Echo/Collect", requests, Req, Resp)


class NeverEnding:
    """Async source: yields the given items, then blocks forever; records cancellation."""

    def __init__(self, items):
        self.items = list(items)
        self.cancelled = False
        self.blocked = asyncio.Event()

    def __aiter__(self):
        return self

    async def __anext__(self):
        if self.items:
            return self.items.pop(0)
        self.blocked.set()
        try:
            await asyncio.get_running_loop().create_future()
        except asyncio.CancelledError:
            self.cancelled = True
            raise


def names(n, prefix="n"):
    return [f"{prefix}{i}" for i in range(n)]


async def part3():
    checks = 0
    # plain iterables, generators, async generators and channels as request source
    for n in (0, 1, 2, 5):
        for kind in ("list", "gen", "agen", "chan-closed", "chan-live", "chan-bounded"):
            service = EchoService()
            async with ChannelFor([service]) as channel:
                stub = EchoStub(channel)
                reqs = [Req(name=x) for x in names(n)]
                feeder = None
                if kind == "list":
                    source = reqs
                elif kind == "gen":
                    source = (r for r in reqs)
                elif kind == "agen":

                    async def _agen():
                        for r in reqs:
                            await asyncio.sleep(0)
                            yield r

                    source = _agen()
                elif kind == "chan-closed":
                    source = AsyncChannel()
                    await source.send_from(reqs, close=True)
                else:
                    source = AsyncChannel(buffer_limit=1 if kind == "chan-bounded" else 0)
                    feeder = asyncio.ensure_future(source.send_from(reqs, close=True))
                got = []

                async def consume():
                    async for resp in stub.echo(source):
                        got.append((resp.name, resp.seq))

                await asyncio.wait_for(consume(), 5)
                if feeder is not None:
                    await asyncio.wait_for(feeder, 2)
                assert got == [(x, i + 1) for i, x in enumerate(names(n))], (kind, got)
                assert service.seen == names(n)

                # stream-unary through the same _send_messages
                if kind in ("list", "chan-closed"):
                    if kind == "list":
                        source2 = [Req(name=x) for x in names(n, "u")]
                    else:
                        source2 = AsyncChannel()
                        await source2.send_from(
                            [Req(name=x) for x in names(n, "u")], close=True
                        )
                    resp = await asyncio.wait_for(stub.collect(source2), 5)
                    assert (resp.name, resp.seq) == (",".join(names(n, "u")), n)
            checks += 1

    # interactive: more requests sent while responses are being received, then close
    service = EchoService()
    async with ChannelFor([service]) as channel:
        stub = EchoStub(channel)
        ch = AsyncChannel()
        await ch.send(Req(name="q0"))
        got = []
        async for resp in stub.echo(ch):
            got.append((resp.name, resp.seq))
            if resp.seq < 6:
                await ch.send(Req(name=f"q{resp.seq}"))
            else:
                ch.close()
        assert got == [(f"q{i}", i + 1) for i in range(6)], got
        try:
            await ch.send(Req(name="late"))
        except Exception as exc:  # noqa
            assert type(exc).__name__ == "ChannelClosed"
        else:
            raise AssertionError("send after close accepted")
    checks += 1

    # server fails -> the error reaches the caller and the blocked sender is cancelled
    for k in (0, 1, 3):
        service = EchoService(fail_after=k)
        async with ChannelFor([service]) as channel:
            stub = EchoStub(channel)
            source = NeverEnding([Req(name=x) for x in names(k + 1)])
            got = []
            try:
                async for resp in stub.echo(source):
                    got.append(resp.seq)
            except grpclib.exceptions.GRPCError as err:
                assert err.status is grpclib.const.Status.INVALID_ARGUMENT
                assert err.message == "enough"
            else:
                raise AssertionError("server error swallowed")
            assert got == list(range(1, k + 1))[: len(got)], got
            await spin()
            assert source.cancelled, "sender task left running after a server error"
        checks += 1

    # same with a never-closed AsyncChannel as the source: afterwards nobody is draining
    # the channel any more and it is still usable
    service = EchoService(fail_after=1)
    async with ChannelFor([service]) as channel:
        stub = EchoStub(channel)
        ch = AsyncChannel()
        await ch.send_from([Req(name="a"), Req(name="b")])
        got = []
        try:
            async for resp in stub.echo(ch):
                got.append(resp.name)
        except grpclib.exceptions.GRPCError:
            pass
        else:
            raise AssertionError("server error swallowed")
        assert got == ["a"][: len(got)], got
        await spin()
        kept = Req(name="kept")
        await ch.send(kept)
        await spin()
        assert await asyncio.wait_for(ch.receive(), 2) is kept
    checks += 1

    # the caller abandons the response iterator (aclose / break) -> sender cancelled
    for how in ("aclose", "break+del"):
        service = EchoService()
        async with ChannelFor([service]) as channel:
            stub = EchoStub(channel)
            source = NeverEnding([Req(name="a"), Req(name="b")])
            responses = stub.echo(source)
            first = await asyncio.wait_for(responses.__anext__(), 5)
            assert (first.name, first.seq) == ("a", 1)
            await asyncio.wait_for(source.blocked.wait(), 5)
            if how == "aclose":
                await responses.aclose()
            else:
                del responses
                gc.collect()
            await spin(20)
            assert source.cancelled, f"sender task left running after {how}"
        checks += 1

    # the consuming task itself is cancelled while waiting for a response
    service = EchoService()
    async with ChannelFor([service]) as channel:
        stub = EchoStub(channel)
        source = NeverEnding([Req(name="a")])
        got = []

        async def consume():
            async for resp in stub.echo(source):
                got.append(resp.name)

        task = asyncio.ensure_future(consume())
        await asyncio.wait_for(source.blocked.wait(), 5)
        await spin(20)
        assert got == ["a"] and not task.done()
        task.cancel()
        try:
            await task
        except asyncio.CancelledError:
            pass
        assert task.cancelled()
        await spin(20)
        assert source.cancelled, "sender task left running after consumer cancellation"
    checks += 1

    # normal completion does NOT cancel the sender: it finishes on its own (end sent,
    # server handler returns normally)
    service = EchoService()
    async with ChannelFor([service]) as channel:
        stub = EchoStub(channel)
        ch = AsyncChannel()
        await ch.send_from([Req(name="a"), Req(name="b")], close=True)
        got = [resp.name async for resp in stub.echo(ch)]
        assert got == ["a", "b"]
        await asyncio.wait_for(service.echo_finished.wait(), 5)
        assert ch.done()
    checks += 1
    return checks


def main():
    c1 = part1()
    c2 = asyncio.run(part2())
    c3 = asyncio.run(part3())
    print(f"OK: {c1} hand-driven checks, {c2} channel checks, {c3} grpclib checks")


if __name__ == "__main__":
    main()
