"""C15 keep2: parsing the Duration JSON form ("-1.500s") into a timedelta.

Exercises _Duration.delta_from_json directly and through Message.from_dict / from_json
(singular, repeated and map fields), and _Duration.to_timedelta through Message.parse,
against an exact integer model and against google.protobuf's Duration codec.
"""
import json
import random
from dataclasses import dataclass
from datetime import timedelta
from typing import Dict, List

from google.protobuf import duration_pb2

import betterproto
from betterproto import _Duration

US = timedelta(microseconds=1)
MAX_S = 315_576_000_000
MAX_US = MAX_S * 10**6


@dataclass(eq=False, repr=False)
class Msg(betterproto.Message):
    d: timedelta = betterproto.message_field(1)
    ds: List[timedelta] = betterproto.message_field(2)
    dm: Dict[str, timedelta] = betterproto.map_field(
        3, betterproto.TYPE_STRING, betterproto.TYPE_MESSAGE
    )


def model(text: str) -> timedelta:
    """Exact reading of '<sign><digits>[.<digits>]s': the fraction is cut to nanoseconds
    and then rounded half-to-even to microseconds; the sign applies to the whole value."""
    body = text[:-1]  # the trailing unit is dropped unseen
    negative = body.startswith("-")
    body = body.lstrip("+-")
    whole, _, frac = body.partition(".")
    nanos = int((frac[:9] + "000000000")[:9]) if frac else 0
    us, rem = divmod(nanos, 1000)
    total = int(whole or "0") * 10**6 + us  # magnitude floored to microseconds
    if rem > 500 or (rem == 500 and total % 2 == 1):
        total += 1
    return (-total if negative else total) * US


def fmt(total_us: int, digits: int) -> str:
    """Decimal-seconds text of an integer number of microseconds with 0/3/6/9 digits
    (only called when the value is representable with that many digits)."""
    sign = "-" if total_us < 0 else ""
    sec, us = divmod(abs(total_us), 10**6)
    if digits == 0:
        assert us == 0
        return f"{sign}{sec}s"
    if digits == 3:
        assert us % 1000 == 0
        return f"{sign}{sec}.{us // 1000:03d}s"
    if digits == 6:
        return f"{sign}{sec}.{us:06d}s"
    return f"{sign}{sec}.{us:06d}000s"


rnd = random.Random(0xD0C15)

# ------------------------------------------------------------ microsecond-resolution values
values = [
    0, 1, -1, 10, -10, 999, 1000, -1000, 999999, -999999, 10**6, -(10**6),
    10**6 + 1, -(10**6) - 1, 1_500_000, -1_500_000, 500_000, -500_000,
    3_000_001, -3_000_001, 86400 * 10**6,
    2**53 - 1, 2**53, 2**53 + 1, -(2**53) - 1, 8640000000 * 10**6 + 999999,
    MAX_US, -MAX_US, MAX_US - 1, -MAX_US + 1, MAX_US - 999999, -MAX_US + 999999,
]
for _ in range(6000):
    k = rnd.random()
    if k < 0.4:
        values.append(rnd.randrange(-MAX_US, MAX_US + 1))
    elif k < 0.7:
        values.append(rnd.randrange(-3 * 10**6, 3 * 10**6 + 1))
    elif k < 0.85:
        values.append(rnd.choice([-1, 1]) * rnd.randrange(0, MAX_S + 1) * 10**6)
    else:
        values.append(rnd.choice([-1, 1]) * (rnd.randrange(0, 10**6) * 10**6 + rnd.randrange(1000) * 1000))

n = 0
for total in values:
    want = total * US
    texts = [fmt(total, 6), fmt(total, 9)]
    if total % 1000 == 0:
        texts.append(fmt(total, 3))
    if total % 10**6 == 0:
        texts.append(fmt(total, 0))
    if total >= 0:
        texts.append("+" + fmt(total, 6))
    for text in texts:
        got = _Duration.delta_from_json(text)
        assert type(got) is timedelta and got == want, (text, got, want)
        assert model(text) == want
        # reference implementation reads the same (seconds, nanos)
        ref = duration_pb2.Duration()
        if not text.startswith("+"):
            ref.FromJsonString(text)
            assert ref.ToTimedelta() == want, (text, ref)
            enc = _Duration.from_timedelta(got)
            assert (enc.seconds, enc.nanos) == (ref.seconds, ref.nanos), (text, enc, ref)
        n += 1
    # through the message API: singular, repeated, map; dict and JSON text
    m = Msg().from_dict({"d": texts[0], "ds": texts, "dm": {str(i): t for i, t in enumerate(texts)}})
    assert m.d == want and m.ds == [want] * len(texts)
    assert m.dm == {str(i): want for i in range(len(texts))}
    # own JSON output parses back to the identical value
    out = Msg(d=want, ds=[want, -want], dm={"a": want}).to_json()
    back = Msg().from_json(out)
    assert back.d == want and back.ds == [want, -want] and back.dm == {"a": want}, (total, out)
    # wire: decode (to_timedelta) of the reference encoding gives the same value
    ref = duration_pb2.Duration()
    ref.FromTimedelta(want)
    wire = b"\x0a" + bytes([len(ref.SerializeToString())]) + ref.SerializeToString() if total else b""
    assert Msg().parse(wire).d == want, (total, wire)
    assert bytes(Msg(d=want)) == wire, (total, bytes(Msg(d=want)), wire)
    dec = _Duration().parse(ref.SerializeToString())
    assert (dec.seconds, dec.nanos) == (ref.seconds, ref.nanos)
    assert dec.to_timedelta() == want

# ------------------------------------------------------------ odd but accepted spellings
for text, want_us in [
    ("0s", 0), ("-0s", 0), ("+0s", 0), ("0.s", 0), (".5s", 500000), ("-.5s", -500000),
    ("+.5s", 500000), ("-0.5s", -500000), ("-0.000001s", -1), ("0.000001s", 1),
    ("1.5s", 1500000), ("-1.5s", -1500000), ("1.50s", 1500000), ("-1.05s", -1050000),
    ("-1.500s", -1500000), ("-3.000001s", -3000001), ("3s", 3000000), ("-3s", -3000000),
    ("00012.25s", 12250000), ("-00012.25s", -12250000), ("1.1s", 1100000), ("1.12s", 1120000),
    ("1.1234s", 1123400), ("1.12345s", 1123450), ("-1.12345s", -1123450),
    ("8640000000.999999s", 8640000000999999), ("-8640000000.999999s", -8640000000999999),
    ("315576000000.999999s", MAX_US + 999999), ("-315576000000.999999s", -MAX_US - 999999),
]:
    got = _Duration.delta_from_json(text)
    assert got == want_us * US == model(text), (text, got)
    assert Msg().from_dict({"d": text}).d == want_us * US

# ------------------------------------------------------------ nanosecond digits: cut to 9, rounded half-even
for _ in range(20000):
    sec = rnd.choice([0, 0, 1, 2, 7, rnd.randrange(0, MAX_S)])
    us = rnd.choice([rnd.randrange(10**6), rnd.randrange(0, 20), 999999, 999998])
    tail = rnd.choice(["5", "500", "50", "05", "499", "501", "4", "6", "999", "001", "5000", "4999", "49999999"])
    sign = rnd.choice(["", "-"])
    text = f"{sign}{sec}.{us:06d}{tail}s"
    got = _Duration.delta_from_json(text)
    assert got == model(text), (text, got, model(text))
for us in list(range(0, 2000)) + [999998, 999999]:
    for tail in ("5", "500", "499", "501"):
        for sec in (0, 1, 2, MAX_S - 1):
            for sign in ("", "-"):
                text = f"{sign}{sec}.{us:06d}{tail}s"
                assert _Duration.delta_from_json(text) == model(text), text

# ------------------------------------------------------------ error paths keep their exception types
for bad in ["abcs", "1.xs", "1.5.5s", "--", "s", "1e3s", "1,5s", " 1s"]:
    try:
        got = _Duration.delta_from_json(bad)
    except ValueError:
        continue
    # "s" -> "" -> zero; anything else accepted must agree with the model
    assert got == model(bad), (bad, got)
for bad in [f"{10**15}s", f"-{10**15}s"]:
    try:
        _Duration.delta_from_json(bad)
    except OverflowError:
        pass
    else:
        raise AssertionError(bad)

print(f"C15 keep2 equiv OK ({n} texts over {len(values)} values)")
