"""C10 / keep2: Message.__len__ (the SIZE_DELIMITED length prefix written by dump)
for packed repeated fields and map fields must be exactly the number of bytes
that dump writes, for every value.

Checks len(m) == len(bytes(m)) == google ByteSize() and the exact delimited
framing on boundary values of every packed type and many map key/value types,
round-trips mixed streams through betterproto and google.protobuf, and checks
the error behaviour for unrepresentable values.
Runs unchanged on the pristine tree and on the refactored one.
"""
import io
import random
import struct
from dataclasses import dataclass
from typing import Dict, List

import betterproto
from betterproto import SIZE_DELIMITED

from google.protobuf import descriptor_pb2, descriptor_pool, message_factory
from google.protobuf import proto as gproto

FDP = descriptor_pb2.FieldDescriptorProto
T = betterproto


class Kind(betterproto.Enum):
    K0 = 0
    K1 = 1
    K200 = 200
    KNEG = -1


@dataclass(eq=False, repr=False)
class Leaf(betterproto.Message):
    n: int = betterproto.int64_field(1)
    t: str = betterproto.string_field(2)
    xs: List[int] = betterproto.sint32_field(3)
    mm: Dict[int, int] = betterproto.map_field(4, T.TYPE_INT32, T.TYPE_INT32)


@dataclass(eq=False, repr=False)
class Packed(betterproto.Message):
    i32: List[int] = betterproto.int32_field(1)
    i64: List[int] = betterproto.int64_field(2)
    u32: List[int] = betterproto.uint32_field(3)
    u64: List[int] = betterproto.uint64_field(4)
    s32: List[int] = betterproto.sint32_field(5)
    s64: List[int] = betterproto.sint64_field(6)
    bl: List[bool] = betterproto.bool_field(7)
    en: List[Kind] = betterproto.enum_field(8)
    f32: List[int] = betterproto.fixed32_field(9)
    f64: List[int] = betterproto.fixed64_field(10)
    sf32: List[int] = betterproto.sfixed32_field(11)
    sf64: List[int] = betterproto.sfixed64_field(12)
    fl: List[float] = betterproto.float_field(13)
    db: List[float] = betterproto.double_field(14)
    far: List[int] = betterproto.uint32_field(3000)  # three byte tag
    # not packed, for contrast
    st: List[str] = betterproto.string_field(15)
    by: List[bytes] = betterproto.bytes_field(16)
    lf: List[Leaf] = betterproto.message_field(17)


@dataclass(eq=False, repr=False)
class Maps(betterproto.Message):
    si: Dict[str, int] = betterproto.map_field(1, T.TYPE_STRING, T.TYPE_INT32)
    i64s: Dict[int, str] = betterproto.map_field(2, T.TYPE_INT64, T.TYPE_STRING)
    bb: Dict[bool, bytes] = betterproto.map_field(3, T.TYPE_BOOL, T.TYPE_BYTES)
    u64d: Dict[int, float] = betterproto.map_field(4, T.TYPE_UINT64, T.TYPE_DOUBLE)
    s32f: Dict[int, float] = betterproto.map_field(5, T.TYPE_SINT32, T.TYPE_FLOAT)
    f32e: Dict[int, Kind] = betterproto.map_field(6, T.TYPE_FIXED32, T.TYPE_ENUM)
    sf64m: Dict[int, Leaf] = betterproto.map_field(7, T.TYPE_SFIXED64, T.TYPE_MESSAGE)
    s64s64: Dict[int, int] = betterproto.map_field(8, T.TYPE_SINT64, T.TYPE_SINT64)
    sm: Dict[str, Leaf] = betterproto.map_field(2000, T.TYPE_STRING, T.TYPE_MESSAGE)
    u32u64: Dict[int, int] = betterproto.map_field(9, T.TYPE_UINT32, T.TYPE_UINT64)
    f64sf32: Dict[int, int] = betterproto.map_field(10, T.TYPE_FIXED64, T.TYPE_SFIXED32)
    tail: str = betterproto.string_field(11)


@dataclass(eq=False, repr=False)
class Outer(betterproto.Message):
    p: Packed = betterproto.message_field(1)
    m: Maps = betterproto.message_field(2)
    ps: List[Packed] = betterproto.message_field(3)
    pm: Dict[str, Packed] = betterproto.map_field(4, T.TYPE_STRING, T.TYPE_MESSAGE)


@dataclass(eq=False, repr=False)
class Nothing(betterproto.Message):
    pass


# ------------------------------------------------------------------ google counterpart
def build_google():
    f = descriptor_pb2.FileDescriptorProto(
        name="c10_keep2.proto", package="c10k2", syntax="proto3"
    )
    e = f.enum_type.add(name="Kind")
    for n, v in (("K0", 0), ("K1", 1), ("K200", 200), ("KNEG", -1)):
        e.value.add(name=n, number=v)
    O, R = FDP.LABEL_OPTIONAL, FDP.LABEL_REPEATED

    def add_map(msg, name, number, kt, vt, vtype_name=None):
        ename = name.capitalize() + "Entry"
        entry = msg.nested_type.add(name=ename)
        entry.options.map_entry = True
        entry.field.add(name="key", number=1, type=kt, label=O)
        kw = {"type_name": vtype_name} if vtype_name else {}
        entry.field.add(name="value", number=2, type=vt, label=O, **kw)
        msg.field.add(
            name=name, number=number, type=FDP.TYPE_MESSAGE, label=R,
            type_name=f".c10k2.{msg.name}.{ename}",
        )

    leaf = f.message_type.add(name="Leaf")
    leaf.field.add(name="n", number=1, type=FDP.TYPE_INT64, label=O)
    leaf.field.add(name="t", number=2, type=FDP.TYPE_STRING, label=O)
    leaf.field.add(name="xs", number=3, type=FDP.TYPE_SINT32, label=R)
    add_map(leaf, "mm", 4, FDP.TYPE_INT32, FDP.TYPE_INT32)

    p = f.message_type.add(name="Packed")
    for i, (name, t) in enumerate(
        [
            ("i32", FDP.TYPE_INT32), ("i64", FDP.TYPE_INT64), ("u32", FDP.TYPE_UINT32),
            ("u64", FDP.TYPE_UINT64), ("s32", FDP.TYPE_SINT32), ("s64", FDP.TYPE_SINT64),
            ("bl", FDP.TYPE_BOOL), ("en", FDP.TYPE_ENUM), ("f32", FDP.TYPE_FIXED32),
            ("f64", FDP.TYPE_FIXED64), ("sf32", FDP.TYPE_SFIXED32),
            ("sf64", FDP.TYPE_SFIXED64), ("fl", FDP.TYPE_FLOAT), ("db", FDP.TYPE_DOUBLE),
        ],
        start=1,
    ):
        kw = {"type_name": ".c10k2.Kind"} if t == FDP.TYPE_ENUM else {}
        p.field.add(name=name, number=i, type=t, label=R, **kw)
    p.field.add(name="far", number=3000, type=FDP.TYPE_UINT32, label=R)
    p.field.add(name="st", number=15, type=FDP.TYPE_STRING, label=R)
    p.field.add(name="by", number=16, type=FDP.TYPE_BYTES, label=R)
    p.field.add(name="lf", number=17, type=FDP.TYPE_MESSAGE, label=R, type_name=".c10k2.Leaf")

    m = f.message_type.add(name="Maps")
    add_map(m, "si", 1, FDP.TYPE_STRING, FDP.TYPE_INT32)
    add_map(m, "i64s", 2, FDP.TYPE_INT64, FDP.TYPE_STRING)
    add_map(m, "bb", 3, FDP.TYPE_BOOL, FDP.TYPE_BYTES)
    add_map(m, "u64d", 4, FDP.TYPE_UINT64, FDP.TYPE_DOUBLE)
    add_map(m, "s32f", 5, FDP.TYPE_SINT32, FDP.TYPE_FLOAT)
    add_map(m, "f32e", 6, FDP.TYPE_FIXED32, FDP.TYPE_ENUM, ".c10k2.Kind")
    add_map(m, "sf64m", 7, FDP.TYPE_SFIXED64, FDP.TYPE_MESSAGE, ".c10k2.Leaf")
    add_map(m, "s64s64", 8, FDP.TYPE_SINT64, FDP.TYPE_SINT64)
    add_map(m, "sm", 2000, FDP.TYPE_STRING, FDP.TYPE_MESSAGE, ".c10k2.Leaf")
    add_map(m, "u32u64", 9, FDP.TYPE_UINT32, FDP.TYPE_UINT64)
    add_map(m, "f64sf32", 10, FDP.TYPE_FIXED64, FDP.TYPE_SFIXED32)
    m.field.add(name="tail", number=11, type=FDP.TYPE_STRING, label=O)

    o = f.message_type.add(name="Outer")
    o.field.add(name="p", number=1, type=FDP.TYPE_MESSAGE, label=O, type_name=".c10k2.Packed")
    o.field.add(name="m", number=2, type=FDP.TYPE_MESSAGE, label=O, type_name=".c10k2.Maps")
    o.field.add(name="ps", number=3, type=FDP.TYPE_MESSAGE, label=R, type_name=".c10k2.Packed")
    add_map(o, "pm", 4, FDP.TYPE_STRING, FDP.TYPE_MESSAGE, ".c10k2.Packed")

    pool = descriptor_pool.DescriptorPool()
    pool.Add(f)
    get = lambda n: message_factory.GetMessageClass(pool.FindMessageTypeByName("c10k2." + n))
    return {Leaf: get("Leaf"), Packed: get("Packed"), Maps: get("Maps"), Outer: get("Outer"),
            Nothing: get("Leaf")}


G = build_google()

# ------------------------------------------------------------------------------ values
B32 = [0, 1, -1, 63, 64, -64, -65, 127, 128, 16383, 16384, -8192, -8193, 2**21 - 1, 2**21,
       2**28 - 1, 2**28, 2**31 - 1, -(2**31)]
B64 = B32 + [2**35 - 1, 2**35, 2**42, 2**49, 2**56 - 1, 2**56, 2**62, 2**63 - 1, -(2**63),
             -(2**62), -(2**34) - 1]
U32 = [0, 1, 127, 128, 16383, 16384, 2**21, 2**28 - 1, 2**28, 2**32 - 1]
U64 = U32 + [2**35, 2**42 - 1, 2**49, 2**56, 2**63 - 1, 2**63, 2**64 - 1]
FL = [0.0, -0.0, 1.5, -2.25, 2.0**34, float("inf"), float("-inf")]
STR = ["", "k", "é", "s" * 127, "s" * 128, "t" * 1000]
BYT = [b"", b"\x00", b"\xff" * 127, b"\x01" * 128, b"\x02" * 16383, b"\x03" * 16384]
KINDS = [Kind.K0, Kind.K1, Kind.K200, Kind.KNEG]

VALUES = {
    "i32": B32, "i64": B64, "u32": U32, "u64": U64, "s32": B32, "s64": B64,
    "bl": [True, False], "en": KINDS, "f32": U32, "f64": U64, "sf32": B32, "sf64": B64,
    "fl": FL, "db": FL + [1e300, 5e-324], "far": U32,
}

rnd = random.Random(0xC1002)


def leaf(i=0):
    return [Leaf(), Leaf(n=-1), Leaf(t="x" * 126), Leaf(xs=[-1, 1, -64, 64, 2**31 - 1]),
            Leaf(n=5, mm={0: 0, -1: 7})][i % 5]


def check(m):
    """len == bytes written == google's size; delimited framing; google agrees."""
    body = bytes(m)
    assert len(m) == len(body), (len(m), len(body), m)
    buf = io.BytesIO()
    m.dump(buf, SIZE_DELIMITED)
    assert buf.getvalue() == T.encode_varint(len(body)) + body
    g = G[type(m)]()
    g.ParseFromString(body)
    if isinstance(m, Packed) and not any(x.mm for x in m.lf):
        # (google always writes key and value of a map entry, betterproto omits
        # default strings / bytes / messages there, so sizes are only comparable
        # for messages without maps)
        assert g.ByteSize() == len(m), (g.ByteSize(), len(m))
        assert len(g.SerializeToString()) == len(m)
    back = type(m)().parse(g.SerializeToString())
    assert back == m
    assert len(back) == len(m)
    return body


def test_packed_boundaries():
    # every single boundary value on its own, and all of them together
    for name, vals in VALUES.items():
        for v in vals:
            check(Packed(**{name: [v]}))
        check(Packed(**{name: list(vals)}))
        # payload length crossing the 1 -> 2 and 2 -> 3 byte length varint
        for count in (1, 2, 15, 16, 31, 32, 63, 64, 126, 127, 128, 129, 2047, 2048, 4096, 16383, 16384, 16385):
            check(Packed(**{name: [vals[i % len(vals)] for i in range(count)]}))
    # exact payload sizes 127 / 128 / 16383 / 16384 with one byte items
    for count in (127, 128, 16383, 16384):
        m = Packed(bl=[True] * count)
        assert len(m) == 1 + len(T.encode_varint(count)) + count
        check(m)
        m = Packed(far=[1] * count)
        assert len(m) == len(T.encode_varint(3000 << 3 | 2)) + len(T.encode_varint(count)) + count
        check(m)
    # all fields together, unpacked ones too
    m = Packed(**{k: list(v) for k, v in VALUES.items()})
    m.st = list(STR)
    m.by = list(BYT)
    m.lf = [leaf(i) for i in range(7)]
    check(m)
    assert len(Packed()) == 0 and bytes(Packed()) == b""
    # python ints accepted where bools / enums are declared, and vice versa
    check(Packed(bl=[1, 0, 1]))
    check(Packed(en=[0, 1, 200, -1]))
    check(Packed(i32=[True, False]))
    check(Packed(u64=[Kind.K200]))


def test_map_boundaries():
    for k in STR:
        for v in B32:
            check(Maps(si={k: v}))
    for k in B64:
        for v in STR[:4]:
            check(Maps(i64s={k: v}))
    for k in (True, False):
        for v in BYT:
            check(Maps(bb={k: v}))
    for k in U64:
        for v in FL + [1e300]:
            check(Maps(u64d={k: v}))
    for k in B32:
        for v in FL:
            check(Maps(s32f={k: v}))
    for k in U32:
        for v in KINDS:
            check(Maps(f32e={k: v}))
    for k in B64:
        for i in range(5):
            check(Maps(sf64m={k: leaf(i)}))
            check(Maps(sm={str(k): leaf(i)}))
    for k in B64:
        for v in B64:
            check(Maps(s64s64={k: v}))
    for k in U32:
        for v in U64:
            check(Maps(u32u64={k: v}))
    for k in U64:
        for v in B32:
            check(Maps(f64sf32={k: v}))
    # entries whose key and value are both default are still entries
    m = Maps(si={"": 0}, i64s={0: ""}, bb={False: b""}, u64d={0: 0.0}, s32f={0: 0.0},
             f32e={0: Kind.K0}, sf64m={0: Leaf()}, s64s64={0: 0}, sm={"": Leaf()},
             u32u64={0: 0}, f64sf32={0: 0})
    body = check(m)
    assert body.count(b"\x00") >= 9 and len(m) > 20
    assert len(Maps(si={"": 0})) == 4 and bytes(Maps(si={"": 0})) == b"\x0a\x02\x10\x00"
    assert len(Maps(bb={False: b""})) == 4 and bytes(Maps(bb={False: b""})) == b"\x1a\x02\x08\x00"
    assert len(Maps(sm={"": Leaf()})) == 3 and bytes(Maps(sm={"": Leaf()})) == b"\x82\x7d\x00"
    assert len(Maps(s64s64={0: 0})) == 6
    # entry sizes crossing the length varint boundaries
    for n in (120, 121, 122, 123, 124, 125, 126, 127, 128, 16375, 16376, 16377, 16378, 16379, 16380, 16384):
        check(Maps(si={"k" * n: 1}))
        check(Maps(bb={True: b"v" * n}))
        check(Maps(sm={"a": Leaf(t="v" * n)}))
        check(Maps(i64s={-1: "v" * n}))
    # big maps
    check(Maps(si={str(i): i * 37 - 5000 for i in range(3000)}, tail="end"))
    check(Maps(s64s64={(-1) ** i * (1 << (i % 63)): -(1 << (i % 60)) for i in range(500)}))
    assert len(Maps()) == 0


def rand_packed():
    m = Packed()
    for name, vals in VALUES.items():
        if rnd.random() < 0.35:
            setattr(m, name, [rnd.choice(vals) for _ in range(rnd.choice([1, 2, 5, 40, 130]))])
    if rnd.random() < 0.3:
        m.st = [rnd.choice(STR) for _ in range(3)]
    if rnd.random() < 0.3:
        m.by = [rnd.choice(BYT[:4]) for _ in range(3)]
    if rnd.random() < 0.3:
        m.lf = [leaf(rnd.randrange(5)) for _ in range(3)]
    return m


def rand_maps():
    m = Maps()
    n = lambda: rnd.choice([1, 2, 6])
    if rnd.random() < 0.4:
        m.si = {rnd.choice(STR): rnd.choice(B32) for _ in range(n())}
    if rnd.random() < 0.4:
        m.i64s = {rnd.choice(B64): rnd.choice(STR) for _ in range(n())}
    if rnd.random() < 0.4:
        m.bb = {rnd.choice([True, False]): rnd.choice(BYT[:4]) for _ in range(n())}
    if rnd.random() < 0.4:
        m.u64d = {rnd.choice(U64): rnd.choice(FL) for _ in range(n())}
    if rnd.random() < 0.4:
        m.s32f = {rnd.choice(B32): rnd.choice(FL) for _ in range(n())}
    if rnd.random() < 0.4:
        m.f32e = {rnd.choice(U32): rnd.choice(KINDS) for _ in range(n())}
    if rnd.random() < 0.4:
        m.sf64m = {rnd.choice(B64): leaf(rnd.randrange(5)) for _ in range(n())}
    if rnd.random() < 0.4:
        m.s64s64 = {rnd.choice(B64): rnd.choice(B64) for _ in range(n())}
    if rnd.random() < 0.4:
        m.sm = {rnd.choice(STR[:4]): leaf(rnd.randrange(5)) for _ in range(n())}
    if rnd.random() < 0.4:
        m.u32u64 = {rnd.choice(U32): rnd.choice(U64) for _ in range(n())}
    if rnd.random() < 0.4:
        m.f64sf32 = {rnd.choice(U64): rnd.choice(B32) for _ in range(n())}
    if rnd.random() < 0.3:
        m.tail = rnd.choice(STR)
    return m


def rand_outer():
    o = Outer()
    if rnd.random() < 0.6:
        o.p = rand_packed()
    if rnd.random() < 0.6:
        o.m = rand_maps()
    if rnd.random() < 0.4:
        o.ps = [rand_packed() if rnd.random() < 0.7 else Packed() for _ in range(3)]
    if rnd.random() < 0.4:
        o.pm = {rnd.choice(STR[:3]): rand_packed() if rnd.random() < 0.7 else Packed()
                for _ in range(3)}
    return o


def test_random_streams():
    n_cut = 0
    for it in range(150):
        seq = []
        for _ in range(rnd.randrange(1, 6)):
            seq.append(rnd.choice([rand_packed, rand_maps, rand_outer, Nothing, Maps, leaf])())
        buf = io.BytesIO()
        ends = []
        for m in seq:
            check(m)
            m.dump(buf, SIZE_DELIMITED)
            ends.append(buf.tell())
        data = buf.getvalue()
        assert data == b"".join(T.encode_varint(len(bytes(m))) + bytes(m) for m in seq)
        # betterproto reads it back frame by frame
        st = io.BytesIO(data)
        for m, end in zip(seq, ends):
            got = type(m)().load(st, SIZE_DELIMITED)
            assert got == m and bytes(got) == bytes(m)
            assert st.tell() == end
        assert st.read() == b""
        # the reference implementation agrees on the framing
        st = io.BytesIO(data)
        gout = io.BytesIO()
        for m, end in zip(seq, ends):
            g = gproto.parse_length_prefixed(G[type(m)], st)
            assert g is not None and st.tell() == end
            assert type(m)().parse(g.SerializeToString()) == m
            gproto.serialize_length_prefixed(g, gout)
        st = io.BytesIO(gout.getvalue())
        for m in seq:
            assert type(m)().load(st, SIZE_DELIMITED) == m
        assert st.read() == b""
        # truncation
        if len(data) < 600:
            n_cut += 1
            for cut in range(len(data) + 1):
                st = io.BytesIO(data[:cut])
                for idx, m in enumerate(seq):
                    try:
                        got = type(m)().load(st, SIZE_DELIMITED)
                    except (EOFError, ValueError, struct.error):
                        assert cut < ends[idx]
                        break
                    assert cut >= ends[idx]
                    assert got == m and bytes(got) == bytes(m)
    assert n_cut >= 10, n_cut


def raises(exc, fn, text=None):
    try:
        fn()
    except exc as e:
        if text is not None:
            assert text in str(e), str(e)
        return
    raise AssertionError(f"{exc.__name__} not raised")


def test_errors():
    msg = "Negative value is not representable as a 64-bit integer"
    too_small = -(2**63) - 1
    for m in (
        Packed(i64=[1, too_small]),
        Packed(i32=[0, 0, too_small]),
        Maps(i64s={too_small: "x"}),
        Maps(si={"k": too_small}),
        Maps(u32u64={too_small: 0}),
        Maps(u32u64={0: too_small}),
    ):
        raises(ValueError, lambda: len(m), msg)
        raises(ValueError, lambda: bytes(m), msg)
        raises(ValueError, lambda: m.dump(io.BytesIO(), SIZE_DELIMITED), msg)
    for m in (
        Packed(f32=[2**32]),
        Packed(sf32=[2**31]),
        Packed(f64=[-1]),
        Packed(fl=[1e300]),
        Maps(f32e={2**32: Kind.K0}),
        Maps(f64sf32={1: 2**31}),
        Maps(f64sf32={-1: 0}),
    ):
        raises((struct.error, OverflowError), lambda: len(m))
        raises((struct.error, OverflowError), lambda: bytes(m))
    # oversized positive varints are not rejected by either side; sizes still agree
    # (zig-zag turns even a too small negative number into a positive one)
    for m in (
        Packed(u64=[2**64, 2**70]),
        Maps(u32u64={1: 2**77}),
        Packed(s64=[2**63, 2**64, too_small]),
        Maps(s64s64={0: too_small, too_small: 0}),
    ):
        assert len(m) == len(bytes(m))


test_packed_boundaries()
test_map_boundaries()
test_random_streams()
test_errors()
print("C10 keep2 equiv OK")
