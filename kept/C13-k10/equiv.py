"""Shared harness: build descriptor requests for arbitrary package topologies, run the
betterproto plugin in-process, write the generated packages to a temp dir, import them."""
import asyncio
import importlib
import itertools
import os
import shutil
import sys
import tempfile
import typing

import betterproto
from betterproto.lib.google.protobuf import (
    DescriptorProto,
    EnumDescriptorProto,
    EnumValueDescriptorProto,
    FieldDescriptorProto,
    FieldDescriptorProtoLabel as L,
    FieldDescriptorProtoType as T,
    FileDescriptorProto,
    MessageOptions,
    MethodDescriptorProto,
    OneofDescriptorProto,
    ServiceDescriptorProto,
)
from betterproto.lib.google.protobuf.compiler import CodeGeneratorRequest
from betterproto.plugin import compiler as plugin_compiler
from betterproto.plugin.models import monkey_patch_oneof_index

plugin_compiler.subprocess.check_output = lambda cmd, input, encoding: input
monkey_patch_oneof_index()
from betterproto.plugin.parser import generate_code  # noqa: E402

KINDS = {
    # kind -> (proto type suffix, generated class name, is_enum)
    "msg": ("Target", "Target", False),
    "nested": ("Outer.Inner", "OuterInner", False),
    "enum": ("Color", "Color", True),
    "nenum": ("Outer.Kind", "OuterKind", True),
}


def fq(pkg, suffix):
    return f".{pkg}.{suffix}" if pkg else f".{suffix}"


def enum_proto(name):
    return EnumDescriptorProto(
        name=name,
        value=[
            EnumValueDescriptorProto(name="ZERO", number=0),
            EnumValueDescriptorProto(name="ONE", number=1),
        ],
    )


def field(name, number, type_, type_name="", label=L.LABEL_OPTIONAL, oneof=None, optional=False):
    kw = dict(name=name, number=number, type=type_, label=label, json_name=name)
    if optional:
        kw["proto3_optional"] = True
    if type_name:
        kw["type_name"] = type_name
    if oneof is not None:
        kw["oneof_index"] = oneof
    return FieldDescriptorProto(**kw)


def camel(name):
    return "".join(p.capitalize() for p in name.split("_"))


def build_file(pkg, refs, rpcs=(), fname=None, holder="Holder", define_targets=True,
               extra_deps=()):
    """refs: list of (field_name, site, type_name, is_enum); site in single/repeated/map/oneof.
    rpcs: list of (method_name, input_type_name, output_type_name, client_stream, server_stream)
    """
    messages, enums = [], []
    if define_targets:
        messages.append(DescriptorProto(name="Target", field=[field("v", 1, T.TYPE_INT32)]))
        messages.append(
            DescriptorProto(
                name="Outer",
                field=[field("w", 1, T.TYPE_INT32)],
                nested_type=[DescriptorProto(name="Inner", field=[field("v", 1, T.TYPE_INT32)])],
                enum_type=[enum_proto("Kind")],
            )
        )
        enums.append(enum_proto("Color"))
    fields, nested, oneofs = [], [], []
    if any(site == "oneof" for _, site, _, _ in refs):
        oneofs.append(OneofDescriptorProto(name="choice"))
    n = 0
    for fname_, site, tname, is_enum in refs:
        n += 1
        ptype = T.TYPE_ENUM if is_enum else T.TYPE_MESSAGE
        if site == "single":
            fields.append(field(fname_, n, ptype, tname))
        elif site == "repeated":
            fields.append(field(fname_, n, ptype, tname, label=L.LABEL_REPEATED))
        elif site == "oneof":
            fields.append(field(fname_, n, ptype, tname, oneof=0))
        elif site == "optional":
            # proto3 optional: member of a synthetic oneof declared after the real ones
            oneofs.append(OneofDescriptorProto(name="_" + fname_))
            fields.append(field(fname_, n, ptype, tname, oneof=len(oneofs) - 1, optional=True))
        elif site == "map":
            entry = camel(fname_) + "Entry"
            nested.append(
                DescriptorProto(
                    name=entry,
                    field=[field("key", 1, T.TYPE_STRING), field("value", 2, ptype, tname)],
                    options=MessageOptions(map_entry=True),
                )
            )
            fields.append(
                field(fname_, n, T.TYPE_MESSAGE, fq(pkg, f"{holder}.{entry}"), label=L.LABEL_REPEATED)
            )
        else:
            raise AssertionError(site)
    messages.append(DescriptorProto(name=holder, field=fields, nested_type=nested, oneof_decl=oneofs))
    services = []
    if rpcs:
        services.append(
            ServiceDescriptorProto(
                name="Svc",
                method=[
                    MethodDescriptorProto(
                        name=m, input_type=i, output_type=o, client_streaming=cs, server_streaming=ss
                    )
                    for m, i, o, cs, ss in rpcs
                ],
            )
        )
    return FileDescriptorProto(
        name=fname or ((pkg.replace(".", "/") or "root") + ".proto"),
        package=pkg,
        message_type=messages,
        enum_type=enums,
        service=services,
        syntax="proto3",
        dependency=list(extra_deps),
    )


_counter = itertools.count()
_tmpdirs = []


def generate(files, parameter="", to_generate=None):
    """Run the plugin on the files (through a serialise/parse cycle as protoc would),
    write the response under a fresh importable root package; return its name."""
    request = CodeGeneratorRequest(
        file_to_generate=to_generate or [f.name for f in files],
        parameter=parameter,
        proto_file=files,
    )
    request = CodeGeneratorRequest().parse(bytes(request))
    tmp = tempfile.mkdtemp(prefix="c13_")
    _tmpdirs.append(tmp)
    root = f"gen{next(_counter)}_{os.getpid()}"
    cwd = os.getcwd()
    os.chdir(tmp)  # generate_code looks for existing __init__.py relative to the cwd
    stderr = sys.stderr
    sys.stderr = open(os.devnull, "w")
    try:
        response = generate_code(request)
    finally:
        sys.stderr.close()
        sys.stderr = stderr
        os.chdir(cwd)
    names = [f.name for f in response.file]
    assert len(names) == len(set(names)), f"duplicate response files: {sorted(names)}"
    for f in response.file:
        path = os.path.join(tmp, root, f.name)
        os.makedirs(os.path.dirname(path), exist_ok=True)
        with open(path, "w") as fh:
            fh.write(f.content)
    if tmp not in sys.path:
        sys.path.insert(0, tmp)
    importlib.invalidate_caches()
    return root, {f.name: f.content for f in response.file}


def cleanup():
    for t in _tmpdirs:
        shutil.rmtree(t, ignore_errors=True)


def mod(root, pkg):
    return importlib.import_module(f"{root}.{pkg}" if pkg else root)


def strip_hint(hint):
    """List[X] / Dict[str, X] / Optional[X] -> X"""
    args = getattr(hint, "__args__", None)
    if args:
        origin = typing.get_origin(hint)
        if origin is dict:
            return args[1]
        return args[0]
    return hint




def plan_refs(src, targets, sites=("single", "repeated", "map", "oneof"), kinds=tuple(KINDS)):
    refs, expect = [], []
    for j, tgt in enumerate(targets):
        for kind in kinds:
            suffix, cls_name, is_enum = KINDS[kind]
            for site in sites:
                name = f"r{j}_{kind}_{site}"
                refs.append((name, site, fq(tgt, suffix), is_enum))
                expect.append((name, site, tgt, cls_name, is_enum))
    return refs, expect


def plan_rpcs(targets):
    rpcs, expect = [], []
    shapes = [(False, False), (False, True), (True, False), (True, True)]
    for j, tgt in enumerate(targets):
        cs, ss = shapes[j % 4]
        rpcs.append((f"Call{j}", fq(tgt, "Target"), fq(tgt, "Outer.Inner"), cs, ss))
        expect.append((f"call{j}", tgt, "Target", tgt, "OuterInner", cs, ss))
    return rpcs, expect


def check_world(world, parameter="", sites=("single", "repeated", "map", "oneof")):
    """world: {src_pkg: [target pkgs]}; every package of the world (sources and targets)
    defines Target/Outer.Inner/Color/Outer.Kind and a Holder + Svc referring to its targets."""
    pkgs = sorted(set(world) | {t for ts in world.values() for t in ts})
    files, expects = [], {}
    for p in pkgs:
        refs, e1 = plan_refs(p, world.get(p, []), sites=sites)
        rpcs, e2 = plan_rpcs(world.get(p, []))
        files.append(build_file(p, refs, rpcs))
        expects[p] = (e1, e2)
    root, contents = generate(files, parameter)
    modules = {p: mod(root, p) for p in pkgs}
    n = 0
    for p in pkgs:
        m = modules[p]
        e1, e2 = expects[p]
        Holder = m.Holder
        hints = Holder._type_hints()
        pub = typing.get_type_hints(Holder, vars(m), {})
        for name, site, tgt, cls_name, is_enum in e1:
            want = getattr(modules[tgt], cls_name)
            assert want.__module__ == modules[tgt].__name__
            got = strip_hint(hints[name])
            assert got is want, (p, name, got, want)
            assert strip_hint(pub[name]) is want, (p, name)
            # round trip through the referencing field
            val = want(1) if is_enum else want(v=7)
            if site in ("single", "oneof", "optional"):
                h = Holder(**{name: val})
            elif site == "repeated":
                h = Holder(**{name: [val, val]})
            else:
                h = Holder(**{name: {"k": val}})
            back = Holder().parse(bytes(h))
            out = getattr(back, name)
            if site == "repeated":
                assert len(out) == 2
                out = out[0]
            elif site == "map":
                out = out["k"]
            assert type(out) is want, (p, name, type(out), want)
            assert out == val, (p, name, out, val)
            again = Holder().from_dict(h.to_dict())
            out2 = getattr(again, name)
            out2 = out2[0] if site == "repeated" else out2["k"] if site == "map" else out2
            assert type(out2) is want and out2 == val, (p, name)
            n += 1
        if e2:
            mapping = m.SvcBase().__mapping__()
            seen = []

            class Rec(m.SvcStub):
                async def _unary_unary(self, route, request, response_type, **kw):
                    seen.append((route, None, response_type))
                    return response_type()

                async def _stream_unary(self, route, it, request_type, response_type, **kw):
                    seen.append((route, request_type, response_type))
                    return response_type()

                async def _unary_stream(self, route, request, response_type, **kw):
                    seen.append((route, None, response_type))
                    yield response_type()

                async def _stream_stream(self, route, it, request_type, response_type, **kw):
                    seen.append((route, request_type, response_type))
                    yield response_type()

            stub = Rec(channel=None)
            for meth, ipkg, icls, opkg, ocls, cs, ss in e2:
                want_in = getattr(modules[ipkg], icls)
                want_out = getattr(modules[opkg], ocls)
                route = f"/{p + '.' if p else ''}Svc/{meth.replace('call', 'Call')}"
                handler = mapping[route]
                assert handler.request_type is want_in, (p, meth)
                assert handler.reply_type is want_out, (p, meth)
                seen.clear()

                async def run():
                    arg = [want_in()] if cs else want_in()
                    if ss:
                        return [r async for r in getattr(stub, meth)(arg)]
                    return [await getattr(stub, meth)(arg)]

                res = asyncio.run(run())
                assert type(res[0]) is want_out, (p, meth)
                (r, rt, ot), = seen
                assert r == route and ot is want_out and (rt is None or rt is want_in), (p, meth)
                ann = getattr(m.SvcStub, meth).__annotations__
                ret = eval(ann["return"], dict(vars(m), AsyncIterator=typing.AsyncIterator))
                assert strip_hint(ret) is want_out, (p, meth, ret)
                n += 1
    return n




import hashlib
import random
import re
from datetime import datetime, timedelta, timezone

import betterproto.lib.google.protobuf as bundled
from betterproto.compile.importing import WRAPPER_TYPES, get_type_reference, parse_source_type_name
from betterproto.plugin.typing_compiler import (
    DirectImportTypingCompiler,
    NoTyping310TypingCompiler,
    TypingImportTypingCompiler,
)

W = ".google.protobuf."
SCALAR_OF = {
    "DoubleValue": "float", "FloatValue": "float", "Int32Value": "int", "Int64Value": "int",
    "UInt32Value": "int", "UInt64Value": "int", "BoolValue": "bool", "StringValue": "str",
    "BytesValue": "bytes",
}
WELL_KNOWN = sorted(SCALAR_OF) + [
    "Duration", "Timestamp", "Any", "Empty", "Struct", "Value", "ListValue", "FieldMask",
    "EnumValue", "Type", "NullValue", "Duration.Nested", "Timestampx", "XDuration",
]


def oracle_parse(name):
    m = re.match(r"^\.?([^A-Z]+)\.(.+)", name)
    return (m.group(1), m.group(2)) if m else ("", name.lstrip("."))


def check_parse():
    rnd = random.Random(13)
    n = 0
    fixed = [
        "", ".", "..", "A", ".A", "a", ".a", "a.B", ".a.B", "a.b", ".a.b.c", "a.B.C", ".a.b.C.D.E",
        ".A.B", "A.b", ".google.protobuf.Int32Value", "a..B", ".a.", "a.", "a.B.", ".a1._b.C9",
        "package.lower_case_message", "a.b\nC.d", "\n.A", "a.\nB", ".1.2", "...A", "x.y.Z.w",
    ]
    alphabet = ["a", "b", "A", "B", ".", ".", "_", "1", "\n"]
    cases = fixed + ["".join(rnd.choice(alphabet) for _ in range(rnd.randint(0, 9))) for _ in range(40000)]
    for c in cases:
        got = parse_source_type_name(c)
        assert type(got) is tuple and got == oracle_parse(c), (c, got)
        n += 1
    # exhaustive over short strings
    for length in range(0, 6):
        for chars in itertools.product("aA._", repeat=length):
            c = "".join(chars)
            assert parse_source_type_name(c) == oracle_parse(c), c
            n += 1
    return n


def compilers():
    return DirectImportTypingCompiler(), TypingImportTypingCompiler(), NoTyping310TypingCompiler()


def check_well_known_strings():
    """Spec-level expectations for every well known type from many current packages."""
    n = 0
    currents = ["", "a", "a.b", "a.b.c", "google", "google.type", "google.protobuf.compiler", "betterproto", "protobuf"]
    for cur in currents:
        for pydantic in (False, True):
            alias = "betterproto_lib_pydantic_google_protobuf" if pydantic else "betterproto_lib_google_protobuf"
            module = "betterproto.lib.pydantic.google.protobuf" if pydantic else "betterproto.lib.google.protobuf"
            for name in WELL_KNOWN:
                for unwrap in (True, False):
                    for tc in compilers():
                        imports = set()
                        got = get_type_reference(
                            package=cur, imports=imports, source_type=W + name,
                            typing_compiler=tc, unwrap=unwrap, pydantic=pydantic,
                        )
                        if unwrap and name in SCALAR_OF:
                            want = {
                                DirectImportTypingCompiler: f"Optional[{SCALAR_OF[name]}]",
                                TypingImportTypingCompiler: f"typing.Optional[{SCALAR_OF[name]}]",
                                NoTyping310TypingCompiler: f'"{SCALAR_OF[name]} | None"',
                            }[type(tc)]
                            assert got == want and imports == set(), (cur, name, got)
                            want_imports = {
                                DirectImportTypingCompiler: {"typing": {"Optional"}},
                                TypingImportTypingCompiler: {"typing": None},
                                NoTyping310TypingCompiler: {},
                            }[type(tc)]
                            assert tc.imports() == want_imports, (cur, name, tc.imports())
                        elif unwrap and name in ("Duration", "Timestamp"):
                            assert got == {"Duration": "timedelta", "Timestamp": "datetime"}[name]
                            assert imports == set() and tc.imports() == {}
                        else:
                            flat = name.replace(".", "")
                            assert got == f'"{alias}.{flat}"', (cur, name, got)
                            assert imports == {f"import {module} as {alias}"}, (cur, name, imports)
                            assert tc.imports() == {}
                        n += 1
    # compiling google.protobuf itself: the types are siblings, wrappers still unwrap
    for name in WELL_KNOWN:
        for pydantic in (False, True):
            imports = set()
            got = get_type_reference(package="google.protobuf", imports=imports, source_type=W + name,
                                     typing_compiler=DirectImportTypingCompiler(), unwrap=False, pydantic=pydantic)
            assert got == '"%s"' % name.replace(".", "") and imports == set(), (name, got)
            got = get_type_reference(package="google.protobuf", imports=imports, source_type=W + name,
                                     typing_compiler=DirectImportTypingCompiler(), pydantic=pydantic)
            if name in SCALAR_OF:
                assert got == f"Optional[{SCALAR_OF[name]}]"
            elif name in ("Duration", "Timestamp"):
                assert got == {"Duration": "timedelta", "Timestamp": "datetime"}[name]
            else:
                assert got == '"%s"' % name.replace(".", "")
            assert imports == set()
            n += 2
    # a user package below betterproto is imported absolutely, whatever the current package
    for cur in currents:
        imports = set()
        got = get_type_reference(package=cur, imports=imports, source_type=".betterproto.extra.Thing.Part",
                                 typing_compiler=DirectImportTypingCompiler())
        assert got == '"betterproto_extra.ThingPart"', got
        assert imports == {"import betterproto.extra as betterproto_extra"}
        n += 1
    # the table the models module relies on is untouched
    assert {k: v.__name__ for k, v in WRAPPER_TYPES.items()} == {W + k: k for k in SCALAR_OF}
    assert all(getattr(bundled, k) is WRAPPER_TYPES[W + k] for k in SCALAR_OF)
    return n


def grid_digest():
    """Fingerprint of get_type_reference over a large grid of (current package, type, flags)."""
    alphabet = ["a", "b"]
    paths = [""]
    for d in (1, 2, 3):
        paths += [".".join(c) for c in itertools.product(alphabet, repeat=d)]
    paths += ["google", "google.protobuf", "google.protobuf.compiler", "google.type", "betterproto",
              "betterproto.lib", "foo.bar", "foo.barista.x", "p.q.r.s", "v1.api", "api.v1"]
    names = ["Target", "Outer.Inner", "Outer.Mid.Leaf", "lower_case", "HTTPInfo", "None", "Int32Value",
             "Duration", "Timestamp", "Any"]
    h = hashlib.sha256()
    count = 0
    for cur in paths:
        for tgt in paths:
            for name in names:
                for unwrap in (True, False):
                    for pydantic in (False, True):
                        for tc in compilers():
                            imports = set()
                            got = get_type_reference(
                                package=cur, imports=imports, source_type=fq(tgt, name),
                                typing_compiler=tc, unwrap=unwrap, pydantic=pydantic,
                            )
                            assert len(imports) <= 1
                            rec = (cur, tgt, name, unwrap, pydantic, type(tc).__name__, got,
                                   sorted(imports), sorted((k, sorted(v) if v else None) for k, v in tc.imports().items()))
                            h.update(repr(rec).encode())
                            count += 1
    return count, h.hexdigest()


def check_well_known_world(parameter=""):
    """Generated code: well known types at every site resolve to the bundled classes."""
    refs = []
    for site in ("single", "repeated", "map", "oneof", "optional"):
        for name in ("Any", "Empty", "Struct", "BoolValue", "StringValue", "Timestamp", "Duration"):
            refs.append((f"{site}_{name.lower()}", site, W + name, False))
    rpcs = [("Ping", W + "Empty", W + "Any", False, False), ("Feed", W + "Int32Value", W + "Timestamp", True, True)]
    n = 0
    for pkg in ("", "a", "a.b.c", "google.type"):
        root, contents = generate([build_file(pkg, refs, rpcs, define_targets=False)], parameter)
        m = mod(root, pkg)
        hints = m.Holder._type_hints()
        for fname, site, tname, _ in refs:
            name = tname[len(W):]
            hint = hints[fname]
            if site == "map" and name in SCALAR_OF:
                want = getattr(bundled, name)  # map values keep the wrapper message
            elif name in SCALAR_OF:
                want = {"bool": bool, "str": str}[SCALAR_OF[name]]
            elif name == "Timestamp":
                want = datetime
            elif name == "Duration":
                want = timedelta
            else:
                want = getattr(bundled, name)
            if name in SCALAR_OF and site != "map":
                # wrappers are unwrapped to Optional[scalar] (repeated: list of them)
                inner = strip_hint(hint) if site == "repeated" else hint
                assert type(None) in inner.__args__ and inner.__args__[0] is want, (pkg, fname, hint)
            else:
                assert strip_hint(hint) is want, (pkg, fname, hint, want)
            n += 1
        mapping = m.SvcBase().__mapping__()
        route = f"/{pkg + '.' if pkg else ''}Svc/"
        assert mapping[route + "Ping"].request_type is bundled.Empty
        assert mapping[route + "Ping"].reply_type is bundled.Any
        assert mapping[route + "Feed"].request_type is bundled.Int32Value
        assert mapping[route + "Feed"].reply_type is bundled.Timestamp
        when = datetime(2021, 3, 4, 5, 6, 7, tzinfo=timezone.utc)
        h = m.Holder(
            single_any=bundled.Any(type_url="t", value=b"v"), single_boolvalue=True, single_stringvalue="",
            single_timestamp=when, single_duration=timedelta(seconds=3),
            repeated_struct=[bundled.Struct(fields={"k": bundled.Value(number_value=1.0)})],
            map_boolvalue={"k": bundled.BoolValue(value=True)}, map_any={"a": bundled.Any(type_url="u")},
            map_timestamp={"t": when}, oneof_stringvalue="s", optional_duration=timedelta(0),
        )
        back = m.Holder().parse(bytes(h))
        assert back == h, (pkg, back, h)
        assert type(back.single_any) is bundled.Any and type(back.map_boolvalue["k"]) is bundled.BoolValue
        assert type(back.repeated_struct[0]) is bundled.Struct and back.map_timestamp == {"t": when}
        assert back.single_stringvalue == "" and back.oneof_stringvalue == "s"
        assert betterproto.which_one_of(back, "choice") == ("oneof_stringvalue", "s")
        n += 1
    return n


GOLDEN_GRID = (81120, "3dfd3f88a30179d2037c8063baa8e5ff132c5cc3bb2065958067826d8fecf41a")


def main():
    print("parse_source_type_name cases:", check_parse())
    print("well known reference cases:", check_well_known_strings())
    got = grid_digest()
    if os.environ.get("C13_PRINT_GOLDEN"):
        print("GRID", got)
    else:
        assert got == GOLDEN_GRID, got
    checked = 0
    for parameter in ("", "typing.root", "typing.310"):
        checked += check_well_known_world(parameter)
    shapes = [
        ("", ""), ("", "a"), ("", "a.b.c"), ("a", ""), ("a", "a"), ("a", "a.b"), ("a.b.c", "a"),
        ("a.b.c", ""), ("a.x", "a.y"), ("a", "b"), ("a.b", "p"), ("a", "p.q"), ("a.b.c", "x.y.z"),
        ("google.type", "google.rpc"), ("google", "google.type"), ("a", "google.type"),
    ]
    for src, tgt in shapes:
        checked += check_world({src: [tgt]})
    pk = ["", "a", "a.b", "b", "google.type"]
    checked += check_world({p: pk for p in pk})
    cleanup()
    print("checked references:", checked)


if __name__ == "__main__":
    main()
