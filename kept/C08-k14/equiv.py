"""C08 equivalence check: per-instance bookkeeping set up by Message.__post_init__ and
maintained by Message.__setattr__ (_unknown_fields, _serialized_on_wire, _group_current and
the reset of one-of siblings), which every decoded known field and every stored unknown
field passes through - constructor states, one-of switching, older-schema readers/writers
over random schemas and values, google.protobuf as the reference encoder / decoder.

Only behaviour is checked, so the script passes on the pristine tree and on the refactored one.
"""
import copy
import dataclasses
import io
import random
import struct
from dataclasses import dataclass
from typing import Dict, List, Optional

import betterproto
from google.protobuf import descriptor_pb2, descriptor_pool, message_factory

rng = random.Random(0xC08)


# --------------------------------------------------------------------------- wire helpers
def varint(n: int) -> bytes:
    assert n >= 0
    out = bytearray()
    while True:
        b = n & 0x7F
        n >>= 7
        if n:
            out.append(b | 0x80)
        else:
            out.append(b)
            return bytes(out)


def read_varint(buf: bytes, pos: int):
    shift = result = 0
    while True:
        b = buf[pos]
        pos += 1
        result |= (b & 0x7F) << shift
        shift += 7
        if not b & 0x80:
            return result, pos


def split(buf: bytes):
    """Independent splitter: [(number, wire_type, value, raw)]."""
    out = []
    pos = 0
    while pos < len(buf):
        start = pos
        key, pos = read_varint(buf, pos)
        number, wt = key >> 3, key & 7
        if wt == 0:
            value, pos = read_varint(buf, pos)
        elif wt == 1:
            value, pos = buf[pos : pos + 8], pos + 8
        elif wt == 5:
            value, pos = buf[pos : pos + 4], pos + 4
        elif wt == 2:
            n, pos = read_varint(buf, pos)
            value, pos = buf[pos : pos + n], pos + n
        else:
            raise AssertionError(wt)
        assert pos <= len(buf)
        out.append((number, wt, value, buf[start:pos]))
    return out


def tag(number, wt):
    return varint((number << 3) | wt)


# --------------------------------------------------------------------------- schemas
@dataclass(eq=False, repr=False)
class ChildFull(betterproto.Message):
    x: int = betterproto.int32_field(1)
    y: str = betterproto.string_field(2)
    q: List[int] = betterproto.fixed64_field(3)
    sub: "ChildFull" = betterproto.message_field(4)


@dataclass(eq=False, repr=False)
class ChildX(betterproto.Message):
    x: int = betterproto.int32_field(1)


@dataclass(eq=False, repr=False)
class ChildYQ(betterproto.Message):
    y: str = betterproto.string_field(2)
    q: List[int] = betterproto.fixed64_field(3)


@dataclass(eq=False, repr=False)
class ChildSub(betterproto.Message):
    sub: "ChildSub" = betterproto.message_field(4)


@dataclass(eq=False, repr=False)
class ChildNone(betterproto.Message):
    pass


CHILD_VARIANTS = [ChildFull, ChildX, ChildYQ, ChildSub, ChildNone]


def top_fields(child):
    """name -> (type, field) of the newest schema, `child` being the sub-message class."""
    return [
        ("a", int, betterproto.int32_field(1)),
        ("s", str, betterproto.string_field(2)),
        ("p", List[int], betterproto.int32_field(3)),
        ("c", child, betterproto.message_field(4)),
        ("d", float, betterproto.double_field(5)),
        ("f", int, betterproto.fixed32_field(6)),
        ("z", int, betterproto.sint64_field(7)),
        ("rc", List[child], betterproto.message_field(8)),
        ("m", Dict[str, child], betterproto.map_field(9, betterproto.TYPE_STRING, betterproto.TYPE_MESSAGE)),
        ("b", bytes, betterproto.bytes_field(10)),
        ("o1", str, betterproto.string_field(11, group="o")),
        ("o2", int, betterproto.int32_field(12, group="o")),
        ("o3", child, betterproto.message_field(17, group="o")),
        ("rs", List[str], betterproto.string_field(13)),
        ("sf", int, betterproto.sfixed64_field(14)),
        ("flag", bool, betterproto.bool_field(15)),
        ("big", int, betterproto.uint64_field(16)),
        ("far", int, betterproto.int32_field(100000)),
        ("fl", List[float], betterproto.float_field(536870911)),
    ]


_counter = [0]


def make_top(child, keep=None):
    _counter[0] += 1
    fields = [f for f in top_fields(child) if keep is None or f[0] in keep]
    return dataclasses.make_dataclass(
        f"Top{_counter[0]}", fields, bases=(betterproto.Message,), eq=False, repr=False
    )


Newest = make_top(ChildFull)
ALL_NAMES = [f[0] for f in top_fields(ChildFull)]
NUMBER_OF = {f[0]: f[2].metadata["betterproto"].number for f in top_fields(ChildFull)}

# reference implementation of the newest schema
F = descriptor_pb2.FieldDescriptorProto
fdp = descriptor_pb2.FileDescriptorProto(name="c08_equiv.proto", package="c08", syntax="proto3")
ch = fdp.message_type.add(name="Child")
ch.field.add(name="x", number=1, type=F.TYPE_INT32, label=F.LABEL_OPTIONAL)
ch.field.add(name="y", number=2, type=F.TYPE_STRING, label=F.LABEL_OPTIONAL)
ch.field.add(name="q", number=3, type=F.TYPE_FIXED64, label=F.LABEL_REPEATED)
ch.field.add(name="sub", number=4, type=F.TYPE_MESSAGE, type_name=".c08.Child", label=F.LABEL_OPTIONAL)
top = fdp.message_type.add(name="Top")
entry = top.nested_type.add(name="MEntry")
entry.options.map_entry = True
entry.field.add(name="key", number=1, type=F.TYPE_STRING, label=F.LABEL_OPTIONAL)
entry.field.add(name="value", number=2, type=F.TYPE_MESSAGE, type_name=".c08.Child", label=F.LABEL_OPTIONAL)
top.oneof_decl.add(name="o")
O, R = F.LABEL_OPTIONAL, F.LABEL_REPEATED
top.field.add(name="a", number=1, type=F.TYPE_INT32, label=O)
top.field.add(name="s", number=2, type=F.TYPE_STRING, label=O)
top.field.add(name="p", number=3, type=F.TYPE_INT32, label=R)
top.field.add(name="c", number=4, type=F.TYPE_MESSAGE, type_name=".c08.Child", label=O)
top.field.add(name="d", number=5, type=F.TYPE_DOUBLE, label=O)
top.field.add(name="f", number=6, type=F.TYPE_FIXED32, label=O)
top.field.add(name="z", number=7, type=F.TYPE_SINT64, label=O)
top.field.add(name="rc", number=8, type=F.TYPE_MESSAGE, type_name=".c08.Child", label=R)
top.field.add(name="m", number=9, type=F.TYPE_MESSAGE, type_name=".c08.Top.MEntry", label=R)
top.field.add(name="b", number=10, type=F.TYPE_BYTES, label=O)
top.field.add(name="o1", number=11, type=F.TYPE_STRING, label=O, oneof_index=0)
top.field.add(name="o2", number=12, type=F.TYPE_INT32, label=O, oneof_index=0)
top.field.add(name="o3", number=17, type=F.TYPE_MESSAGE, type_name=".c08.Child", label=O, oneof_index=0)
top.field.add(name="rs", number=13, type=F.TYPE_STRING, label=R)
top.field.add(name="sf", number=14, type=F.TYPE_SFIXED64, label=O)
top.field.add(name="flag", number=15, type=F.TYPE_BOOL, label=O)
top.field.add(name="big", number=16, type=F.TYPE_UINT64, label=O)
top.field.add(name="far", number=100000, type=F.TYPE_INT32, label=O)
top.field.add(name="fl", number=536870911, type=F.TYPE_FLOAT, label=R)
pool = descriptor_pool.DescriptorPool()
pool.Add(fdp)
RefTop = message_factory.GetMessageClass(pool.FindMessageTypeByName("c08.Top"))
RefChild = message_factory.GetMessageClass(pool.FindMessageTypeByName("c08.Child"))

INT32S = [0, 1, -1, 127, 128, 16383, 16384, 2**31 - 1, -(2**31)]
WORDS = ["", "a", "xyz", "é中", "q" * 127, "r" * 128, "s" * 300]


def fill_child(c, depth=0):
    if rng.random() < 0.6:
        c.x = rng.choice(INT32S)
    if rng.random() < 0.6:
        c.y = rng.choice(WORDS)
    for _ in range(rng.choice([0, 0, 1, 3])):
        c.q.append(rng.choice([0, 1, 2**64 - 1, 2**63, rng.getrandbits(64)]))
    if depth < 3 and rng.random() < 0.4:
        c.sub.SetInParent()
        fill_child(c.sub, depth + 1)


def fill_top(t):
    if rng.random() < 0.6:
        t.a = rng.choice(INT32S)
    if rng.random() < 0.6:
        t.s = rng.choice(WORDS)
    for _ in range(rng.choice([0, 0, 1, 5])):
        t.p.append(rng.choice(INT32S))
    if rng.random() < 0.6:
        t.c.SetInParent()
        fill_child(t.c)
    if rng.random() < 0.5:
        t.d = rng.choice([0.5, -1e300, 3.25, float("inf")])
    if rng.random() < 0.5:
        t.f = rng.choice([1, 2**32 - 1, 0xDEADBEEF])
    if rng.random() < 0.5:
        t.z = rng.choice([-1, 1, -(2**63), 2**63 - 1, 12345])
    for _ in range(rng.choice([0, 0, 1, 3])):
        fill_child(t.rc.add())
    for k in rng.sample(["", "k1", "k2", "k3"], rng.choice([0, 0, 1, 3])):
        t.m[k].SetInParent()
        fill_child(t.m[k])
    if rng.random() < 0.5:
        t.b = rng.choice([b"\x00", b"\xff\x00\x80", bytes(range(200))])
    which = rng.choice([None, "o1", "o2", "o3"])
    if which == "o1":
        t.o1 = rng.choice(WORDS)
    elif which == "o2":
        t.o2 = rng.choice(INT32S)
    elif which == "o3":
        t.o3.SetInParent()
        fill_child(t.o3)
    for _ in range(rng.choice([0, 0, 2])):
        t.rs.append(rng.choice(WORDS))
    if rng.random() < 0.5:
        t.sf = rng.choice([-1, -(2**63), 7])
    if rng.random() < 0.5:
        t.flag = True
    if rng.random() < 0.5:
        t.big = rng.choice([1, 2**64 - 1, 2**63])
    if rng.random() < 0.5:
        t.far = rng.choice(INT32S[1:])
    for _ in range(rng.choice([0, 0, 2])):
        t.fl.append(rng.choice([1.5, -0.25, 1e10]))


def interleave(chunks):
    """Shuffle top-level fields, keeping the relative order of equal field numbers."""
    by_number = {}
    for c in chunks:
        by_number.setdefault(c[0], []).append(c)
    order = [c[0] for c in chunks]
    rng.shuffle(order)
    return [by_number[n].pop(0) for n in order]


def records(it):
    return [(p.number, p.wire_type, p.value, p.raw) for p in it]



PLACEHOLDER = betterproto.PLACEHOLDER


def raw(msg, name):
    return object.__getattribute__(msg, name)


# --------------------------------------------------------------------------- 1. constructor state
@dataclass(eq=False, repr=False)
class Groups(betterproto.Message):
    plain: int = betterproto.int32_field(1)
    b1: str = betterproto.string_field(2, group="beta")
    a1: int = betterproto.int32_field(3, group="alpha")
    b2: ChildX = betterproto.message_field(4, group="beta")
    opt: Optional[int] = betterproto.int32_field(5, optional=True, group="_opt")
    a2: bytes = betterproto.bytes_field(6, group="alpha")
    optm: Optional[ChildX] = betterproto.message_field(7, optional=True, group="_optm")
    b3: bool = betterproto.bool_field(8, group="beta")
    items: List[int] = betterproto.int32_field(9)
    wrapped: Optional[int] = betterproto.message_field(10, wraps=betterproto.TYPE_INT32)


GROUP_OF = {"b1": "beta", "b2": "beta", "b3": "beta", "a1": "alpha", "a2": "alpha", "opt": "_opt", "optm": "_optm"}
ORDER = ["plain", "b1", "a1", "b2", "opt", "a2", "optm", "b3", "items", "wrapped"]
SAMPLE = {
    "plain": [0, 7],
    "b1": ["", "s"],
    "a1": [0, -1],
    "b2": [ChildX(), ChildX(x=3)],
    "opt": [None, 0, 9],
    "a2": [b"", b"\x00"],
    "optm": [None, ChildX(), ChildX(x=1)],
    "b3": [False, True],
    "items": [[], [1, 2]],
    "wrapped": [None, 0, 4],
}

g = Groups()
assert g._unknown_fields == b"" and g._serialized_on_wire is False
assert list(g._group_current.items()) == [("beta", None), ("alpha", None), ("_opt", None), ("_optm", None)]


def unset_raw(name):
    # proto3-optional fields default to None, everything else to the sentinel
    return None if name in ("opt", "optm") else PLACEHOLDER


assert all(raw(g, n) is unset_raw(n) for n in ORDER)
assert bytes(g) == b"" and len(g) == 0

for _ in range(1500):
    names = rng.sample(ORDER, rng.randrange(0, 6))
    kwargs = {n: copy.deepcopy(rng.choice(SAMPLE[n])) for n in names}
    g = Groups(**kwargs)
    for n in ORDER:
        if n not in kwargs:
            assert raw(g, n) is unset_raw(n), n
        else:
            assert raw(g, n) is kwargs[n], n
    # a field counts as given unless it is an optional one passed as None
    given = [n for n in ORDER if n in kwargs and not (n in ("opt", "optm") and kwargs[n] is None)]
    assert g._serialized_on_wire is bool(given), kwargs
    assert g._unknown_fields == b""
    expect = {"beta": None, "alpha": None, "_opt": None, "_optm": None}
    for n in given:  # declaration order: the last given member of a group is selected
        if n in GROUP_OF:
            expect[GROUP_OF[n]] = n
    assert list(g._group_current.items()) == list(expect.items()), (kwargs, g._group_current)
    for grp in ("beta", "alpha"):
        name, value = betterproto.which_one_of(g, grp)
        assert name == (expect[grp] or "")
        if name:
            assert value == kwargs[name]
    data = bytes(g)
    assert len(g) == len(data)
    back = Groups().parse(data)
    for grp in ("beta", "alpha"):
        assert betterproto.which_one_of(back, grp)[0] == (expect[grp] or ""), (kwargs, grp)
    assert bytes(back) == data

# --------------------------------------------------------------------------- 2. __setattr__: one-of switching and flags
for _ in range(600):
    g = Groups()
    selected = {"beta": None, "alpha": None, "_opt": None, "_optm": None}
    values = {}
    # some unknown fields first, so that every later step must keep them
    unknown = b"".join(
        rng.choice([tag(n, 0) + varint(rng.getrandbits(20)), tag(n, 5) + bytes(4), tag(n, 1) + bytes(8), tag(n, 2) + varint(2) + b"zz"])
        for n in rng.sample(range(20, 3000), rng.randrange(0, 4))
    )
    if unknown or rng.random() < 0.5:
        g.parse(unknown)
        assert g._serialized_on_wire is True
    else:
        assert g._serialized_on_wire is False
    assert g._unknown_fields == unknown
    for step in range(rng.randrange(1, 8)):
        n = rng.choice(ORDER)
        v = copy.deepcopy(rng.choice(SAMPLE[n]))
        setattr(g, n, v)
        values[n] = v
        assert g._serialized_on_wire is True
        if n in GROUP_OF:
            grp = GROUP_OF[n]
            selected[grp] = n
            for sibling, sg in GROUP_OF.items():
                if sg == grp and sibling != n:
                    values.pop(sibling, None)
                    assert raw(g, sibling) is PLACEHOLDER
                    try:
                        getattr(g, sibling)
                    except AttributeError:
                        pass
                    else:
                        raise AssertionError(sibling)
        assert raw(g, n) is v or raw(g, n) == v
        assert g._group_current == selected
        assert list(g._group_current) == ["beta", "alpha", "_opt", "_optm"]
        assert g._unknown_fields == unknown
        out = bytes(g)
        assert out.endswith(unknown) and len(g) == len(out)
        back = Groups().parse(out)
        for grp in ("beta", "alpha"):
            assert betterproto.which_one_of(back, grp)[0] == (selected[grp] or "")
            assert betterproto.which_one_of(g, grp)[0] == (selected[grp] or "")
        assert back._unknown_fields == unknown
        assert bytes(back) == out
        for name, val in values.items():
            if name in ("opt", "optm", "wrapped") and val is None:
                continue
            if isinstance(val, betterproto.Message):
                assert bytes(getattr(back, name)) == bytes(val)
            else:
                assert getattr(back, name) == val, (name, val)

# a child class without fields is marked as present when assigned; flags set directly stay as set
@dataclass(eq=False, repr=False)
class Holder(betterproto.Message):
    none: ChildNone = betterproto.message_field(1)
    x: ChildX = betterproto.message_field(2)


h = Holder()
assert h._serialized_on_wire is False
empty = ChildNone()
h.none = empty
assert empty._serialized_on_wire is True and h._serialized_on_wire is True
assert bytes(h) == tag(1, 2) + varint(0)
h2 = Holder()
cx = ChildX()
h2.x = cx
assert cx._serialized_on_wire is False and h2._serialized_on_wire is True and bytes(h2) == b""
h3 = Holder()
h3._serialized_on_wire = False
assert h3._serialized_on_wire is False
h3._serialized_on_wire = True
assert h3._serialized_on_wire is True and h3._unknown_fields == b"" and bytes(h3) == b""

# unknown-only child: received, so it is re-emitted with its payload
payload = tag(9, 0) + varint(5) + tag(8, 2) + varint(1) + b"q"
wire = tag(1, 2) + varint(len(payload)) + payload + tag(2, 2) + varint(len(payload)) + payload
h4 = Holder().parse(wire)
assert h4.none._unknown_fields == payload and h4.x._unknown_fields == payload
assert h4.none._serialized_on_wire and h4.x._serialized_on_wire
assert bytes(h4) == wire
h4.parse(tag(77, 0) + varint(1)).parse(tag(78, 5) + bytes(4))
assert h4._unknown_fields == tag(77, 0) + varint(1) + tag(78, 5) + bytes(4)
assert bytes(h4) == wire + tag(77, 0) + varint(1) + tag(78, 5) + bytes(4)

# --------------------------------------------------------------------------- 3. schema evolution with an older reader *and writer*
N_CASES = 300
for case in range(N_CASES):
    ref = RefTop()
    fill_top(ref)
    chunks = split(ref.SerializeToString())
    if case % 3:
        chunks = interleave(chunks)
    wire = b"".join(c[3] for c in chunks)
    ref_view = RefTop.FromString(wire)
    newest = Newest().parse(wire)

    child_cls = rng.choice(CHILD_VARIANTS)
    keep = set(n for n in ALL_NAMES if rng.random() < rng.choice([0.0, 0.3, 0.7, 1.0]))
    Older = make_top(child_cls, keep)
    known_numbers = {NUMBER_OF[n] for n in keep}
    expected_unknown = b"".join(c[3] for c in chunks if c[0] not in known_numbers)

    fresh = Older()
    assert fresh._unknown_fields == b"" and fresh._serialized_on_wire is False
    older_groups = {"o": None} if keep & {"o1", "o2", "o3"} else {}
    assert fresh._group_current == older_groups

    older = fresh.parse(wire)
    assert older._serialized_on_wire is True
    assert older._unknown_fields == expected_unknown
    out = bytes(older)
    assert out.endswith(expected_unknown) and len(older) == len(out)
    assert RefTop.FromString(out) == ref_view, case
    assert Newest().parse(out) == newest, case

    on_wire = [n for n in ("o1", "o2", "o3") if any(c[0] == NUMBER_OF[n] for c in chunks)]
    if older_groups:
        want = on_wire[0] if on_wire and on_wire[0] in keep else None
        assert older._group_current == {"o": want}, (case, older._group_current, want)

    # the older side edits what it knows, then writes: everything it does not know survives
    edits = {}
    if "a" in keep:
        edits["a"] = 4242
    if "s" in keep:
        edits["s"] = "edited"
    member = rng.choice(["o1", "o2"])
    if member in keep:
        edits[member] = "picked" if member == "o1" else 77
    for k, v in edits.items():
        setattr(older, k, v)
    assert older._unknown_fields == expected_unknown
    out = bytes(older)
    assert out.endswith(expected_unknown) and len(older) == len(out)
    seen = RefTop.FromString(out)
    want_ref = RefTop.FromString(wire)
    for k, v in edits.items():
        if k in ("a", "s"):
            setattr(want_ref, k, v)
    if member in edits:
        # the edited member is written before the unknown fields; a member of the same
        # one-of that the older schema does not know comes later on the wire and wins
        later = [n for n in on_wire if n not in keep]
        if not later:
            setattr(want_ref, member, edits[member])
    assert seen == want_ref, case
    again = Newest().parse(out)
    assert RefTop.FromString(bytes(again)) == want_ref, case

print(f"C08 keep2 equiv: OK ({N_CASES} random schema cases)")
