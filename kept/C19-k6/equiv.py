"""Equivalence check for the refactor of betterproto.casing.pascal_case (re.sub with a
callback -> explicit finditer loop that joins the pieces) and lowercase_first
(slice expression -> early return), which camel_case, the emitted JSON keys and the
generated class names are built on.

The reference below is the original implementation, copied verbatim; the library
functions must agree with it on every input, in strict and non-strict mode.
"""
import builtins
import itertools
import keyword
import random
import re
from dataclasses import make_dataclass

import betterproto
from betterproto import Casing, casing
from betterproto.compile.naming import pythonize_class_name, pythonize_field_name

# ---------------------------------------------------------------- reference (verbatim)
SYMBOLS = "[^a-zA-Z0-9]*"
WORD = "[A-Z]*[a-z]*[0-9]*"
WORD_UPPER = "[A-Z]+(?![a-z])[0-9]*"


def ref_pascal_case(value, strict=True):
    def substitute_word(symbols, word):
        if strict:
            return word.capitalize()  # Remove all delimiters

        if word.islower():
            delimiter_length = len(symbols[:-1])  # Lose one delimiter
        else:
            delimiter_length = len(symbols)  # Preserve all delimiters

        return ("_" * delimiter_length) + word.capitalize()

    return re.sub(
        f"({SYMBOLS})({WORD_UPPER}|{WORD})",
        lambda groups: substitute_word(groups[1], groups[2]),
        value,
    )


def ref_lowercase_first(value):
    return value[0:1].lower() + value[1:]


def ref_camel_case(value, strict=True):
    return ref_lowercase_first(ref_pascal_case(value, strict=strict))


def ref_sanitize_name(value):
    if keyword.iskeyword(value):
        return f"{value}_"
    if not value.isidentifier():
        return f"_{value}"
    return value


assert (casing.SYMBOLS, casing.WORD, casing.WORD_UPPER) == (SYMBOLS, WORD, WORD_UPPER)

checked = 0


def check(value):
    global checked
    checked += 1
    for strict in (True, False):
        want = ref_pascal_case(value, strict)
        assert casing.pascal_case(value, strict=strict) == want, (value, strict)
        assert casing.pascal_case(value, strict) == want, (value, strict)
        want = ref_camel_case(value, strict)
        assert casing.camel_case(value, strict=strict) == want, (value, strict)
    assert casing.pascal_case(value) == ref_pascal_case(value)
    assert casing.camel_case(value) == ref_camel_case(value)
    assert casing.lowercase_first(value) == ref_lowercase_first(value), value
    assert Casing.CAMEL(value) == ref_camel_case(value)
    # generated class name: same as before, valid, no keyword
    cls_name = pythonize_class_name(value)
    assert cls_name == ref_sanitize_name(ref_pascal_case(value)), value
    assert cls_name.isidentifier() and not keyword.iskeyword(cls_name), (value, cls_name)
    assert pythonize_class_name(cls_name) == ref_sanitize_name(ref_pascal_case(cls_name))


# ---------------------------------------------------------------- pinned examples
PINS_PASCAL = {
    "": "", "a": "A", "foobar": "Foobar", "fooBar": "FooBar", "FooBar": "FooBar",
    "foo.bar": "FooBar", "foo_bar": "FooBar", "FOOBAR": "Foobar", "FOOBar": "FooBar",
    "UInt32": "UInt32", "FOO_BAR": "FooBar", "FOOBAR1": "Foobar1", "FOOBAR_1": "Foobar1",
    "FOO1BAR2": "Foo1Bar2", "foo__bar": "FooBar", "_foobar": "Foobar", "foobaR": "FoobaR",
    "foo~bar": "FooBar", "foo:bar": "FooBar", "1foobar": "1Foobar",
}
for value, want in PINS_PASCAL.items():
    assert casing.pascal_case(value, strict=True) == want, value
    check(value)
PINS_CAMEL_LOOSE = {
    "foo_bar": "fooBar", "FooBar": "fooBar", "foo__bar": "foo_Bar", "foo__Bar": "foo__Bar",
}
for value, want in PINS_CAMEL_LOOSE.items():
    assert casing.camel_case(value, strict=False) == want, value
    check(value)

# ---------------------------------------------------------------- exhaustive short strings
for alphabet, max_len in (("abAB1_", 6), ("aZ09_.-~ ", 5), ("aAbBcC012_", 4)):
    for length in range(0, max_len + 1):
        for chars in itertools.product(alphabet, repeat=length):
            check("".join(chars))

# ---------------------------------------------------------------- keywords, builtins, corpus
CORPUS = [
    "address_line_1", "address_line1", "ipv4_address", "x_y_z", "x_yz", "HTTPStatus",
    "userID", "UserName", "sha256", "sha_256", "created_at", "Type", "Id", "_", "__", "___",
    "_1", "_1x", "_1_foo", "a__b", "a_", "_a", "a1b2", "A1B2", "GetUInt64", "UInt32",
    "HTTP2xx", "oauth2_token", "utf8", "kabob-case", "with space", "dotted.name.Here",
    ".google.protobuf.Timestamp", "Outer.Inner", "foo__Bar", "__foo", "foo___bar_",
    "été_field", "naïve", "İstanbul", "ǅx", "ßeta", "xßY",
    "中文", "a中b", "\n", "a\nb", "\t_x", "x" * 200, "Ab" * 100, "_" * 50,
]
for value in CORPUS:
    check(value)
for word in keyword.kwlist + keyword.softkwlist + dir(builtins):
    for spelling in (word, word.lower(), word.upper(), word.capitalize(), "_" + word, word + "_"):
        check(spelling)

# ---------------------------------------------------------------- random longer strings
rng = random.Random(19)
POOL = "abcxyzABCXYZ0189__..-~ :/éß"
for _ in range(40000):
    check("".join(rng.choice(POOL) for _ in range(rng.randint(7, 24))))

# ---------------------------------------------------------------- camelCase vs protobuf's json_name
# For lower-case snake names whose digits only end a word, betterproto's camelCase is
# protobuf's own JSON name.
from google.protobuf import descriptor_pb2, descriptor_pool

plain = set()
for length in range(1, 7):
    for chars in itertools.product("ab1_", repeat=length):
        name = "".join(chars)
        if re.fullmatch(r"[a-z]+[0-9]*(_[a-z]+[0-9]*)*", name):
            plain.add(name)
plain.update(n for n in CORPUS if re.fullmatch(r"[a-z]+[0-9]*(_[a-z]+[0-9]*)*", n))
plain = sorted(plain)
fdp = descriptor_pb2.FileDescriptorProto(name="c19.proto", package="c19", syntax="proto3")
mdp = fdp.message_type.add(name="M")
for number, name in enumerate(plain, start=1):
    mdp.field.add(name=name, number=number, type=5, label=1)
pool = descriptor_pool.DescriptorPool()
pool.Add(fdp)
for fd in pool.FindMessageTypeByName("c19.M").fields:
    assert casing.camel_case(fd.name) == fd.json_name, (fd.name, fd.json_name)

# ---------------------------------------------------------------- through Message.to_dict / from_dict
field_names = sorted(
    {pythonize_field_name(n) for n in CORPUS if n.isidentifier() and n.isascii()}
    | {pythonize_field_name(k) for k in keyword.kwlist}
)
for py_name in field_names:
    cls = make_dataclass(
        "M",
        [(py_name, int, betterproto.int32_field(1))],
        bases=(betterproto.Message,),
        eq=False,
        repr=False,
    )
    out = cls(**{py_name: 4}).to_dict()
    assert out == {ref_camel_case(py_name).rstrip("_"): 4}, (py_name, out)
    assert getattr(cls().from_dict(out), py_name) == 4, py_name
    assert ref_camel_case(py_name).rstrip("_") in cls._betterproto.field_name_by_key

print(f"ok ({checked} strings, {len(plain)} names against protobuf json_name)")
