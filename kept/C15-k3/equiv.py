"""C15 keep1: the JSON form of a Duration (decimal seconds, 3 or 6 fractional digits,
'-' prefix for negative spans) over the whole +-10000 year range, checked against an
independent integer oracle, against google.protobuf's parser, and through to_dict /
to_json / from_dict for singular, optional, repeated and map fields."""
import json
import random
from dataclasses import dataclass
from datetime import timedelta
from typing import Dict, List, Optional

from google.protobuf import duration_pb2

import betterproto
from betterproto import _Duration

US = timedelta(microseconds=1)
LIMIT_S = 315_576_000_000


def oracle(total_us: int) -> str:
    """Expected text built only from the integer microsecond count."""
    digits = str(abs(total_us)).rjust(7, "0")
    whole, frac = digits[:-6], digits[-6:]
    if frac.endswith("000"):
        frac = frac[:3]
    return ("-" if total_us < 0 else "") + whole + "." + frac + "s"


def check(total_us: int) -> None:
    delta = total_us * US
    text = _Duration.delta_to_json(delta)
    assert text == oracle(total_us), (total_us, text, oracle(total_us))
    assert type(text) is str
    # the reference parser reads it back to the same span
    ref = duration_pb2.Duration()
    ref.FromJsonString(text)
    assert ref.seconds * 10**9 + ref.nanos == total_us * 1000, (total_us, text)
    # and so does betterproto's own parser
    assert _Duration.delta_from_json(text) == delta, (total_us, text)
    # the argument is not modified / still equal
    assert delta == total_us * US


# ---- literal pins -------------------------------------------------------------------
PINS = {
    0: "0.000s",
    1: "0.000001s",
    -1: "-0.000001s",
    10: "0.000010s",
    999: "0.000999s",
    1000: "0.001s",
    -1000: "-0.001s",
    1001: "0.001001s",
    500_000: "0.500s",
    -500_000: "-0.500s",
    999_999: "0.999999s",
    -999_999: "-0.999999s",
    1_000_000: "1.000s",
    -1_000_000: "-1.000s",
    1_200_000: "1.200s",
    -1_500_000: "-1.500s",
    -1_000_001: "-1.000001s",
    86_400_000_000: "86400.000s",
    -86_400_000_000: "-86400.000s",
    -86_399_999_999: "-86399.999999s",
    LIMIT_S * 10**6: "315576000000.000s",
    -LIMIT_S * 10**6: "-315576000000.000s",
    LIMIT_S * 10**6 - 1: "315575999999.999999s",
    -(LIMIT_S * 10**6 - 1): "-315575999999.999999s",
    2**53 + 1: "9007199254.740993s",
    -(2**53 + 1): "-9007199254.740993s",
}
for total, expected in PINS.items():
    assert _Duration.delta_to_json(total * US) == expected, (total, expected)
    check(total)

# ---- systematic boundaries ----------------------------------------------------------
count = 0
wholes = [0, 1, 2, 9, 10, 59, 60, 61, 3599, 3600, 86399, 86400, 86401, 2 * 86400,
          10**6, 2**31 - 1, 2**31, 2**32, 2**33 + 7, 9_007_199_254, 9_007_199_255,
          10**11, LIMIT_S - 1]
fracs = [0, 1, 2, 9, 10, 99, 100, 999, 1000, 1001, 1999, 2000, 10_000, 99_999, 100_000,
         123_000, 123_400, 123_456, 499_999, 500_000, 500_001, 999_000, 999_001, 999_998,
         999_999]
for w in wholes:
    for f in fracs:
        for sign in (1, -1):
            check(sign * (w * 10**6 + f))
            count += 1
check(LIMIT_S * 10**6)
check(-LIMIT_S * 10**6)

# every microsecond around zero and around +-1 s, +-1 day
for centre in (0, 10**6, -(10**6), 86_400 * 10**6, -86_400 * 10**6):
    for d in range(-2500, 2501):
        check(centre + d)
        count += 1

# ---- random, whole range ------------------------------------------------------------
rng = random.Random(0xC15)
for _ in range(40_000):
    kind = rng.randrange(4)
    if kind == 0:
        total = rng.randint(-LIMIT_S * 10**6, LIMIT_S * 10**6)
    elif kind == 1:
        total = rng.randint(-5 * 10**6, 5 * 10**6)
    elif kind == 2:  # whole milliseconds
        total = rng.randint(-LIMIT_S * 1000, LIMIT_S * 1000) * 1000
    else:  # whole seconds
        total = rng.randint(-LIMIT_S, LIMIT_S) * 10**6
    check(total)
    count += 1

# timedeltas that were built from un-normalised components
for delta in (
    timedelta(days=-1, seconds=86399, microseconds=999_999),  # -1 us
    timedelta(days=1, seconds=-86400),  # 0
    timedelta(seconds=-0.5),
    timedelta(days=-1),
    timedelta(weeks=-2, milliseconds=1),
    timedelta(hours=-3, microseconds=-7),
):
    check(delta // US)


# ---- through the message API --------------------------------------------------------
@dataclass(eq=False, repr=False)
class Spans(betterproto.Message):
    one: timedelta = betterproto.message_field(1)
    maybe: Optional[timedelta] = betterproto.message_field(2, optional=True)
    many: List[timedelta] = betterproto.message_field(3)
    named: Dict[str, timedelta] = betterproto.map_field(
        4, betterproto.TYPE_STRING, betterproto.TYPE_MESSAGE
    )


samples = [t * US for t in (1, -1, -1_500_000, 1_200_000, -86_400_000_000, 2**53 + 1,
                           -(LIMIT_S * 10**6 - 1), 999_000, -999_001)]
for a in samples:
    for b in samples[::2]:
        msg = Spans(one=a, maybe=b, many=[a, b, timedelta(0)], named={"a": a, "b": b})
        d = msg.to_dict()
        assert d == {
            "one": oracle(a // US),
            "maybe": oracle(b // US),
            "many": [oracle(a // US), oracle(b // US), "0.000s"],
            "named": {"a": oracle(a // US), "b": oracle(b // US)},
        }, d
        assert json.loads(msg.to_json()) == d
        back = Spans.from_dict(d)
        assert (back.one, back.maybe, back.many, back.named) == (
            a, b, [a, b, timedelta(0)], {"a": a, "b": b})
        assert Spans().from_json(msg.to_json()).one == a

# a zero span is the default: omitted unless asked for / optional
assert Spans().to_dict() == {}
assert Spans().to_dict(include_default_values=True)["one"] == "0.000s"
assert Spans(maybe=timedelta(0)).to_dict() == {"maybe": "0.000s"}

print("ok", count, "durations")
