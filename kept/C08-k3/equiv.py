"""Behavioural check of betterproto.load_varint and everything built on it
(decode_varint, load_fields, Message.parse / unknown-field retention).

All expectations are computed independently (own reference decoder and
google.protobuf's encoder/decoder), so the script passes on any tree whose varint
reader behaves like the reference one.
"""
import random
from dataclasses import dataclass
from io import BytesIO
from typing import List

import betterproto
from betterproto import (
    ParsedField,
    decode_varint,
    encode_varint,
    load_fields,
    load_varint,
    parse_fields,
)
from google.protobuf.internal import decoder as pb_decoder
from google.protobuf.internal import encoder as pb_encoder

rnd = random.Random(0xC08)


class CountingStream:
    """A stream that records how it is read."""

    def __init__(self, data: bytes):
        self.inner = BytesIO(data)
        self.calls: List[int] = []

    def read(self, n: int = -1) -> bytes:
        self.calls.append(n)
        return self.inner.read(n)

    def tell(self) -> int:
        return self.inner.tell()


def ref_load(data: bytes):
    """Reference: returns ("ok", value, consumed) | ("eof", consumed) | ("long", consumed)."""
    result = 0
    for i in range(10):
        if i >= len(data):
            return ("eof", len(data))
        result |= (data[i] & 0x7F) << (7 * i)
        if not data[i] & 0x80:
            return ("ok", result, i + 1)
    return ("long", 10)


def pb_encode(value: int) -> bytes:
    out = []
    pb_encoder._EncodeVarint(out.append, value)
    return b"".join(out)


def check_stream(data: bytes, via_first: bool) -> None:
    expected = ref_load(data)
    if via_first:
        stream = CountingStream(data[1:])
        first = data[:1]
        offset = len(first)
    else:
        stream = CountingStream(data)
        first = b""
        offset = 0
    try:
        got = load_varint(stream, first) if via_first else load_varint(stream)
    except EOFError as e:
        assert expected[0] == "eof", (data, expected)
        assert str(e) == "Stream ended unexpectedly while attempting to load varint."
        assert stream.tell() + offset == expected[1]
    except ValueError as e:
        assert expected[0] == "long", (data, expected)
        assert str(e) == "Too many bytes when decoding varint."
        # exactly ten bytes consumed, the eleventh is left in the stream
        assert stream.tell() + offset == 10, (data, stream.tell())
    else:
        assert expected[0] == "ok", (data, expected, got)
        value, raw = got
        assert type(value) is int and type(raw) is bytes
        assert value == expected[1]
        assert raw == data[: expected[2]]
        assert stream.tell() + offset == expected[2]
        # never reads ahead, one byte at a time
        assert all(n == 1 for n in stream.calls), stream.calls


# ---------------------------------------------------------------- values
values = [0, 1, 2, 126, 127, 128, 129, 255, 256, 300, 16383, 16384, 2**21 - 1, 2**21]
for bits in range(1, 65):
    values += [2**bits - 1, 2**bits, 2**bits + 1]
values = [v for v in values if v < 2**64]
values += [rnd.getrandbits(rnd.randint(1, 64)) for _ in range(3000)]

for v in values:
    enc = encode_varint(v)
    assert enc == pb_encode(v)
    for suffix in (b"", b"\x00", b"\xff\xff", b"\x80"):
        data = enc + suffix
        with BytesIO(data) as s:
            assert load_varint(s) == (v, enc)
            assert s.tell() == len(enc)
        with BytesIO(data[1:]) as s:
            assert load_varint(s, data[:1]) == (v, enc)
            assert s.tell() == len(enc) - 1
        assert decode_varint(data, 0) == (v, len(enc))
        assert decode_varint(b"\x07" + data, 1) == (v, 1 + len(enc))
        assert pb_decoder._DecodeVarint(data, 0) == (v, len(enc))
        check_stream(data, False)
        check_stream(data, True)
    # every proper prefix of a multi-byte varint is truncated input
    for cut in range(len(enc)):
        check_stream(enc[:cut], False)
        if cut:
            check_stream(enc[:cut], True)
        try:
            decode_varint(enc[:cut], 0)
        except EOFError:
            pass
        else:
            raise AssertionError("truncated varint accepted")

# negative numbers are sent as 64-bit two's complement: ten bytes
for v in [-1, -2, -128, -(2**31), -(2**63)] + [-rnd.getrandbits(63) - 1 for _ in range(300)]:
    enc = encode_varint(v)
    assert len(enc) == 10 and enc == pb_encode(v + 2**64)
    with BytesIO(enc + b"\x01") as s:
        assert load_varint(s) == (v + 2**64, enc)
        assert s.tell() == 10

# ---------------------------------------------------------------- odd encodings
# non-canonical (padded) varints decode to the value and keep their raw bytes
for v in [0, 1, 127, 128, 300, 2**32 - 1]:
    enc = encode_varint(v)
    for pad in range(1, 10 - len(enc) + 1):
        padded = enc[:-1] + bytes([enc[-1] | 0x80]) + b"\x80" * (pad - 1) + b"\x00"
        assert len(padded) == len(enc) + pad <= 10
        with BytesIO(padded + b"\x55") as s:
            assert load_varint(s) == (v, padded)
            assert s.tell() == len(padded)
        check_stream(padded + b"\x55", False)
        check_stream(padded + b"\x55", True)

# ten-byte varints whose last byte has more than one payload bit: value keeps the bits
for last in range(0, 0x80):
    data = b"\xff" * 9 + bytes([last])
    with BytesIO(data) as s:
        value, raw = load_varint(s)
    assert raw == data
    assert value == (2**63 - 1) | (last << 63)

# more than ten bytes: ValueError after exactly ten bytes
for n in (10, 11, 12, 20):
    data = b"\x80" * n + b"\x01"
    check_stream(data, False)
    check_stream(data, True)
    with BytesIO(data) as s:
        try:
            load_varint(s)
        except ValueError as e:
            assert str(e) == "Too many bytes when decoding varint."
            assert s.tell() == 10
        else:
            raise AssertionError("overlong varint accepted")
# exactly ten continuation bytes and then nothing is still "too many", not EOF
with BytesIO(b"\xff" * 10) as s:
    try:
        load_varint(s)
    except ValueError:
        assert s.tell() == 10
    else:
        raise AssertionError
# nine continuation bytes and then nothing is EOF
with BytesIO(b"\xff" * 9) as s:
    try:
        load_varint(s)
    except EOFError:
        assert s.tell() == 9
    else:
        raise AssertionError
# empty stream
check_stream(b"", False)
for _ in range(3000):
    data = bytes(rnd.getrandbits(8) for _ in range(rnd.randint(0, 13)))
    check_stream(data, False)
    if data:
        check_stream(data, True)

# ---------------------------------------------------------------- load_fields / parse_fields


def tag(number: int, wire_type: int) -> bytes:
    return pb_encode(number << 3 | wire_type)


def random_field():
    number = rnd.choice([1, 2, 15, 16, 17, 2047, 2048, 2**21, 2**29 - 1, rnd.randint(1, 2**29 - 1)])
    wire_type = rnd.choice([0, 1, 2, 5])
    if wire_type == 0:
        value = rnd.choice([0, 1, 127, 128, 2**32, 2**64 - 1, rnd.getrandbits(64)])
        payload = pb_encode(value)
    elif wire_type == 1:
        value = payload = bytes(rnd.getrandbits(8) for _ in range(8))
    elif wire_type == 5:
        value = payload = bytes(rnd.getrandbits(8) for _ in range(4))
    else:
        value = bytes(rnd.getrandbits(8) for _ in range(rnd.choice([0, 1, 2, 127, 128, 129, 300, 20000])))
        payload = pb_encode(len(value)) + value
    raw = tag(number, wire_type) + payload
    return ParsedField(number=number, wire_type=wire_type, value=value, raw=raw)


for _ in range(400):
    fields = [random_field() for _ in range(rnd.randint(0, 8))]
    data = b"".join(f.raw for f in fields)
    with BytesIO(data) as s:
        assert list(load_fields(s)) == fields
    assert list(parse_fields(data)) == fields
    # truncation anywhere inside a field is an error, at a boundary it is not
    boundaries = {0}
    for f in fields:
        boundaries.add(max(boundaries) + len(f.raw))
    for cut in rnd.sample(range(len(data) + 1), min(len(data) + 1, 12)):
        with BytesIO(data[:cut]) as s:
            try:
                got = list(load_fields(s))
            except EOFError:
                assert cut not in boundaries
            else:
                assert cut in boundaries
                assert b"".join(f.raw for f in got) == data[:cut]

# ---------------------------------------------------------------- messages


@dataclass(eq=False, repr=False)
class Newer(betterproto.Message):
    a: int = betterproto.int64_field(1)
    b: int = betterproto.uint64_field(2)
    c: int = betterproto.sint64_field(3)
    d: str = betterproto.string_field(4)
    e: List[int] = betterproto.int32_field(5)
    f: int = betterproto.fixed32_field(6)
    g: float = betterproto.double_field(7)
    h: int = betterproto.int32_field(300)
    i: bytes = betterproto.bytes_field(70000)


@dataclass(eq=False, repr=False)
class Older(betterproto.Message):
    a: int = betterproto.int64_field(1)
    d: str = betterproto.string_field(4)
    h: int = betterproto.int32_field(300)


@dataclass(eq=False, repr=False)
class Oldest(betterproto.Message):
    g: float = betterproto.double_field(7)


def rand_int(bits, signed):
    v = rnd.getrandbits(rnd.randint(0, bits - 1 if signed else bits))
    return -v - 1 if signed and rnd.random() < 0.5 else v


for _ in range(600):
    newer = Newer(
        a=rand_int(64, True),
        b=rand_int(64, False),
        c=rand_int(64, True),
        d="".join(rnd.choice("aé漢 ") for _ in range(rnd.choice([0, 1, 5, 130]))),
        e=[rand_int(32, True) for _ in range(rnd.choice([0, 1, 3, 40]))],
        f=rand_int(32, False),
        g=rnd.choice([0.0, 1.5, -2.25, 1e300]),
        h=rand_int(32, True),
        i=bytes(rnd.getrandbits(8) for _ in range(rnd.choice([0, 1, 127, 128, 200]))),
    )
    data = bytes(newer)
    for cls in (Older, Oldest):
        older = cls().parse(data)
        for name in older._betterproto.meta_by_field_name:
            assert getattr(older, name) == getattr(newer, name)
        out = bytes(older)
        assert sorted(x.raw for x in parse_fields(out)) == sorted(x.raw for x in parse_fields(data))
        assert len(older) == len(out)
        again = Newer().parse(out)
        assert again == newer
        assert bytes(again) == data
    # size-delimited streams with unknown fields keep their framing
    buf = BytesIO()
    for cls in (Older, Oldest, Older):
        cls().parse(data).dump(buf, betterproto.SIZE_DELIMITED)
    buf.seek(0)
    for _i in range(3):
        assert Newer().load(buf, betterproto.SIZE_DELIMITED) == newer
    assert buf.read() == b""

# raw unknown fields (incl. padded varints in tag, value and length) interleaved with known ones
known = [tag(1, 0) + b"\x05", tag(4, 2) + b"\x02ok", tag(300, 0) + b"\x07"]
odd_unknown = [
    tag(9, 0) + b"\x80\x00",  # padded zero
    b"\xc8\x80\x00" + b"\x01",  # padded tag for field 9, varint
    tag(9, 2) + b"\x83\x80\x00abc",  # padded length
    tag(2**29 - 1, 0) + b"\xff" * 9 + b"\x01",
    tag(9, 5) + b"\x00\x00\x00\x80",
    tag(9, 1) + b"\x80" * 8,
    tag(9, 2) + b"\x00",
]
for u in odd_unknown:
    for pos in range(len(known) + 1):
        data = b"".join(known[:pos]) + u + b"".join(known[pos:])
        older = Older().parse(data)
        assert (older.a, older.d, older.h) == (5, "ok", 7)
        assert older._unknown_fields == u
        assert bytes(older) == b"".join(known) + u
data = b"".join(odd_unknown) + b"".join(known) + b"".join(odd_unknown)
assert bytes(Older().parse(data)) == b"".join(known) + b"".join(odd_unknown) * 2

print("equiv keep1 OK")
