"""C05 keep1: Message.to_dict / to_json for enum fields of every shape (plain, proto3
optional, oneof member, repeated, map value, nested), defined and undefined numbers,
members / plain ints / wire-decoded values, with and without include_default_values and
for both casings.  Expected dicts are spelled out, and every text is cross-checked
against google.protobuf.json_format in both directions.
"""
import itertools
import json
import random
from dataclasses import dataclass
from typing import Dict, List, Optional

import betterproto
from betterproto import Casing
from google.protobuf import descriptor_pb2, descriptor_pool, json_format, message_factory

# ----------------------------------------------------------------- reference schema
F = descriptor_pb2.FieldDescriptorProto
fdp = descriptor_pb2.FileDescriptorProto(
    name="c05keep1.proto", package="c05keep1", syntax="proto3"
)
en = fdp.enum_type.add(name="Color")
en.options.allow_alias = True
for n, v in [("COLOR_UNSPECIFIED", 0), ("RED", 1), ("GREEN", 2), ("NEGATIVE", -3),
             ("CRIMSON", 1)]:
    en.value.add(name=n, number=v)
en2 = fdp.enum_type.add(name="Size")
for n, v in [("SIZE_UNSPECIFIED", 0), ("SMALL", 1), ("LARGE", 2147483647)]:
    en2.value.add(name=n, number=v)


def enum_f(msg, name, number, tname, label=F.LABEL_OPTIONAL, **kw):
    msg.field.add(name=name, number=number, type=F.TYPE_ENUM,
                  type_name=".c05keep1." + tname, label=label, **kw)


inner = fdp.message_type.add(name="Inner")
enum_f(inner, "size", 1, "Size")
enum_f(inner, "sizes", 2, "Size", F.LABEL_REPEATED)
m = fdp.message_type.add(name="M")
enum_f(m, "color", 1, "Color")
enum_f(m, "color_list", 2, "Color", F.LABEL_REPEATED)
entry = m.nested_type.add(name="ByNameEntry")
entry.options.map_entry = True
entry.field.add(name="key", number=1, type=F.TYPE_STRING, label=F.LABEL_OPTIONAL)
enum_f(entry, "value", 2, "Color")
m.field.add(name="by_name", number=3, type=F.TYPE_MESSAGE,
            type_name=".c05keep1.M.ByNameEntry", label=F.LABEL_REPEATED)
m.oneof_decl.add(name="pick")
m.oneof_decl.add(name="_maybe_color")
m.oneof_decl.add(name="_maybe_size")
enum_f(m, "maybe_color", 4, "Color", proto3_optional=True, oneof_index=1)
enum_f(m, "chosen_color", 5, "Color", oneof_index=0)
m.field.add(name="other", number=6, type=F.TYPE_INT32, label=F.LABEL_OPTIONAL,
            oneof_index=0)
enum_f(m, "chosen_size", 7, "Size", oneof_index=0)
enum_f(m, "maybe_size", 8, "Size", proto3_optional=True, oneof_index=2)
m.field.add(name="inner", number=9, type=F.TYPE_MESSAGE, type_name=".c05keep1.Inner",
            label=F.LABEL_OPTIONAL)
m.field.add(name="inners", number=10, type=F.TYPE_MESSAGE, type_name=".c05keep1.Inner",
            label=F.LABEL_REPEATED)
enum_f(m, "size", 11, "Size")
pool = descriptor_pool.DescriptorPool()
pool.Add(fdp)
RefM = message_factory.GetMessageClass(pool.FindMessageTypeByName("c05keep1.M"))


# --------------------------------------------------------------- betterproto schema
class Color(betterproto.Enum):
    COLOR_UNSPECIFIED = 0
    RED = 1
    GREEN = 2
    NEGATIVE = -3
    CRIMSON = 1  # alias of RED


class Size(betterproto.Enum):
    SIZE_UNSPECIFIED = 0
    SMALL = 1
    LARGE = 2147483647


@dataclass(eq=False, repr=False)
class Inner(betterproto.Message):
    size: "Size" = betterproto.enum_field(1)
    sizes: List["Size"] = betterproto.enum_field(2)


@dataclass(eq=False, repr=False)
class M(betterproto.Message):
    # a mixture of string (forward) and direct annotations, typing.Optional and PEP 604
    color: "Color" = betterproto.enum_field(1)
    color_list: List[Color] = betterproto.enum_field(2)
    by_name: Dict[str, "Color"] = betterproto.map_field(
        3, betterproto.TYPE_STRING, betterproto.TYPE_ENUM
    )
    maybe_color: Optional["Color"] = betterproto.enum_field(4, optional=True)
    chosen_color: Color = betterproto.enum_field(5, group="pick")
    other: int = betterproto.int32_field(6, group="pick")
    chosen_size: "Size" = betterproto.enum_field(7, group="pick")
    maybe_size: "Size | None" = betterproto.enum_field(8, optional=True)
    inner: "Inner" = betterproto.message_field(9)
    inners: List["Inner"] = betterproto.message_field(10)
    size: Size = betterproto.enum_field(11)


def same(bp_msg, ref) -> bool:
    return RefM.FromString(bytes(bp_msg)) == ref


# ------------------------------------------------------------ 1. spelled-out results
assert M().to_dict() == {}
assert M().to_dict(include_default_values=True) == {
    "color": "COLOR_UNSPECIFIED",
    "colorList": [],
    "byName": {},
    "maybeColor": None,
    "chosenColor": "COLOR_UNSPECIFIED",
    "other": 0,
    "chosenSize": "SIZE_UNSPECIFIED",
    "maybeSize": None,
    "inner": {"size": "SIZE_UNSPECIFIED", "sizes": []},
    "inners": [],
    "size": "SIZE_UNSPECIFIED",
}, M().to_dict(include_default_values=True)
assert M().to_dict(casing=Casing.SNAKE, include_default_values=True) == {
    "color": "COLOR_UNSPECIFIED",
    "color_list": [],
    "by_name": {},
    "maybe_color": None,
    "chosen_color": "COLOR_UNSPECIFIED",
    "other": 0,
    "chosen_size": "SIZE_UNSPECIFIED",
    "maybe_size": None,
    "inner": {"size": "SIZE_UNSPECIFIED", "sizes": []},
    "inners": [],
    "size": "SIZE_UNSPECIFIED",
}

full = M(
    color=Color.GREEN,
    color_list=[Color.RED, Color.COLOR_UNSPECIFIED, 7, Color.NEGATIVE, 2, Color.CRIMSON],
    by_name={"a": Color.RED, "b": 0, "c": 99},
    maybe_color=Color.COLOR_UNSPECIFIED,
    chosen_size=Size.LARGE,
    maybe_size=5,
    inner=Inner(size=Size.SMALL, sizes=[Size.LARGE, 0, 3]),
    inners=[Inner(), Inner(size=2147483647), Inner(sizes=[1])],
    size=-1,
)
EXPECT_FULL = {
    "color": "GREEN",
    "colorList": ["RED", "COLOR_UNSPECIFIED", 7, "NEGATIVE", "GREEN", "RED"],
    "byName": {"a": "RED", "b": "COLOR_UNSPECIFIED", "c": 99},
    "maybeColor": "COLOR_UNSPECIFIED",
    "chosenSize": "LARGE",
    "maybeSize": 5,
    "inner": {"size": "SMALL", "sizes": ["LARGE", "SIZE_UNSPECIFIED", 3]},
    "inners": [{}, {"size": "LARGE"}, {"sizes": ["SMALL"]}],
    "size": -1,
}
assert full.to_dict() == EXPECT_FULL, full.to_dict()
assert json.loads(full.to_json()) == EXPECT_FULL
assert list(full.to_dict()) == list(EXPECT_FULL)  # same key order
EXPECT_FULL_DEFAULTS = dict(EXPECT_FULL)
EXPECT_FULL_DEFAULTS["inners"] = [
    {"size": "SIZE_UNSPECIFIED", "sizes": []},
    {"size": "LARGE", "sizes": []},
    {"size": "SIZE_UNSPECIFIED", "sizes": ["SMALL"]},
]
got = full.to_dict(include_default_values=True)
# unselected oneof members are reported with their default when defaults are requested
assert got.pop("chosenColor") == "COLOR_UNSPECIFIED" and got.pop("other") == 0
assert got == EXPECT_FULL_DEFAULTS, got
assert full.to_dict(casing=Casing.SNAKE) == {
    "color": "GREEN",
    "color_list": ["RED", "COLOR_UNSPECIFIED", 7, "NEGATIVE", "GREEN", "RED"],
    "by_name": {"a": "RED", "b": "COLOR_UNSPECIFIED", "c": 99},
    "maybe_color": "COLOR_UNSPECIFIED",
    "chosen_size": "LARGE",
    "maybe_size": 5,
    "inner": {"size": "SMALL", "sizes": ["LARGE", "SIZE_UNSPECIFIED", 3]},
    "inners": [{}, {"size": "LARGE"}, {"sizes": ["SMALL"]}],
    "size": -1,
}
# the same after a trip through the wire format (values become Enum instances, also
# the undefined ones) and through JSON (values are members or plain ints)
assert M().parse(bytes(full)).to_dict() == EXPECT_FULL
assert M().from_json(full.to_json()).to_dict() == EXPECT_FULL
assert M.from_dict(EXPECT_FULL).to_dict() == EXPECT_FULL

# oneof members: the selected member is emitted even with its default value
assert M(chosen_color=Color.COLOR_UNSPECIFIED).to_dict() == {
    "chosenColor": "COLOR_UNSPECIFIED"
}
assert M(chosen_color=0).to_dict() == {"chosenColor": "COLOR_UNSPECIFIED"}
assert M(chosen_size=Size.SIZE_UNSPECIFIED).to_dict() == {"chosenSize": "SIZE_UNSPECIFIED"}
assert M(chosen_size=4).to_dict() == {"chosenSize": 4}
assert M(other=0).to_dict() == {"other": 0}
x = M(chosen_color=Color.RED)
x.chosen_size = Size.SMALL
assert x.to_dict() == {"chosenSize": "SMALL"}
# proto3 optional: unset -> absent (None with defaults), set to 0 -> present
assert M(maybe_color=None).to_dict() == {}
assert M(maybe_size=Size.SIZE_UNSPECIFIED).to_dict() == {"maybeSize": "SIZE_UNSPECIFIED"}
assert M(maybe_size=0, maybe_color=1).to_dict() == {
    "maybeColor": "RED",
    "maybeSize": "SIZE_UNSPECIFIED",
}
d = M(maybe_size=Size.SMALL).to_dict(include_default_values=True)
assert d["maybeSize"] == "SMALL" and d["maybeColor"] is None
# a single value given for a repeated enum field is upgraded to a list
assert M(color_list=Color.GREEN).to_dict() == {"colorList": ["GREEN"]}
assert M(color_list=7).to_dict() == {"colorList": [7]}
assert M(color_list=(Color.RED, 3)).to_dict() == {"colorList": ["RED", 3]}
assert M(color_list=[]).to_dict() == {}
assert M(color_list=[]).to_dict(include_default_values=True)["colorList"] == []
# bool is an int: number 1 / 0
assert M(color=True).to_dict() == {"color": "RED"}

# ------------------------------------------ 2. against the reference, many messages
rng = random.Random(5)
COLOR_NUMS = [0, 1, 2, -3, 7, 99, -1, 2147483647, -2147483648]
SIZE_NUMS = [0, 1, 2147483647, 2, -5, 100000]


def as_value(enum_cls, n):
    """A number as the member (when defined), as an undefined Enum instance, or plain."""
    how = rng.randrange(3)
    if how == 0:
        return n
    return enum_cls.try_value(n)


def ref_from(spec) -> "RefM":
    r = RefM()
    for k, v in spec.items():
        if k in ("color_list",):
            r.color_list.extend(v)
        elif k == "by_name":
            for kk, vv in v.items():
                r.by_name[kk] = vv
        elif k == "inner":
            r.inner.size = v[0]
            r.inner.sizes.extend(v[1])
        elif k == "inners":
            for size, sizes in v:
                i = r.inners.add()
                i.size = size
                i.sizes.extend(sizes)
        else:
            setattr(r, k, v)
    return r


def bp_from(spec) -> M:
    kw = {}
    for k, v in spec.items():
        if k == "color_list":
            kw[k] = [as_value(Color, n) for n in v]
        elif k == "by_name":
            kw[k] = {kk: as_value(Color, vv) for kk, vv in v.items()}
        elif k == "inner":
            kw[k] = Inner(size=as_value(Size, v[0]), sizes=[as_value(Size, n) for n in v[1]])
        elif k == "inners":
            kw[k] = [
                Inner(size=as_value(Size, s), sizes=[as_value(Size, n) for n in ss])
                for s, ss in v
            ]
        elif k in ("color", "maybe_color", "chosen_color"):
            kw[k] = as_value(Color, v)
        elif k in ("size", "maybe_size", "chosen_size"):
            kw[k] = as_value(Size, v)
        else:
            kw[k] = v
    return M(**kw)


def random_spec():
    spec = {}
    if rng.random() < 0.6:
        spec["color"] = rng.choice(COLOR_NUMS)
    if rng.random() < 0.6:
        spec["color_list"] = [rng.choice(COLOR_NUMS) for _ in range(rng.randrange(5))]
    if rng.random() < 0.5:
        spec["by_name"] = {
            rng.choice("abcdef"): rng.choice(COLOR_NUMS) for _ in range(rng.randrange(4))
        }
    if rng.random() < 0.5:
        spec["maybe_color"] = rng.choice(COLOR_NUMS)
    if rng.random() < 0.5:
        spec["maybe_size"] = rng.choice(SIZE_NUMS)
    pick = rng.randrange(4)
    if pick == 0:
        spec["chosen_color"] = rng.choice(COLOR_NUMS)
    elif pick == 1:
        spec["chosen_size"] = rng.choice(SIZE_NUMS)
    elif pick == 2:
        spec["other"] = rng.choice([0, 1, -1])
    if rng.random() < 0.5:
        spec["inner"] = (
            rng.choice(SIZE_NUMS),
            [rng.choice(SIZE_NUMS) for _ in range(rng.randrange(4))],
        )
    if rng.random() < 0.4:
        spec["inners"] = [
            (rng.choice(SIZE_NUMS), [rng.choice(SIZE_NUMS) for _ in range(rng.randrange(3))])
            for _ in range(rng.randrange(4))
        ]
    if rng.random() < 0.5:
        spec["size"] = rng.choice(SIZE_NUMS)
    return spec


def name_or_number(ref_enum_values, n):
    return ref_enum_values.get(n, n)


COLOR_NAMES = {0: "COLOR_UNSPECIFIED", 1: "RED", 2: "GREEN", -3: "NEGATIVE"}
SIZE_NAMES = {0: "SIZE_UNSPECIFIED", 1: "SMALL", 2147483647: "LARGE"}

count = 0
for _ in range(1500):
    spec = random_spec()
    ref = ref_from(spec)
    msg = bp_from(spec)
    assert same(msg, ref), spec
    variants = [msg, M().parse(bytes(msg))]
    ref_text = json_format.MessageToJson(ref)
    from_ref = M().from_json(ref_text)
    assert same(from_ref, ref), (spec, ref_text)
    variants.append(from_ref)
    first = None
    for v in variants:
        d = v.to_dict()
        if first is None:
            first = d
        assert d == first, (spec, d, first)
        # the reference produces the very same JSON value
        assert d == json.loads(ref_text), (spec, d, ref_text)
        text = v.to_json()
        assert json.loads(text) == d
        assert json_format.Parse(text, RefM()) == ref, (spec, text)
        for idv, cas in itertools.product((False, True), (Casing.CAMEL, Casing.SNAKE)):
            dd = v.to_dict(casing=cas, include_default_values=idv)
            # the reference accepts lowerCamelCase and original names alike; the
            # default-valued members of an unselected oneof must be dropped first
            if idv:
                selected = betterproto.which_one_of(v, "pick")[0]
                for member, key in (("chosen_color", cas("chosen_color")),
                                    ("other", cas("other")),
                                    ("chosen_size", cas("chosen_size"))):
                    if member != selected:
                        dd.pop(key)
                for key in (cas("maybe_color"), cas("maybe_size")):
                    if dd[key] is None:
                        dd.pop(key)
                # the message field is reported as an all-default object when unset
                if "inner" not in spec:
                    assert dd.pop("inner") == {"size": "SIZE_UNSPECIFIED", "sizes": []}
            back = json_format.Parse(json.dumps(dd), RefM())
            assert back == ref, (spec, idv, cas, dd)
            count += 1
    # enum values spelled as expected
    if "color" in spec and spec["color"] != 0:
        assert first["color"] == name_or_number(COLOR_NAMES, spec["color"])
    if "size" in spec and spec["size"] != 0:
        assert first["size"] == name_or_number(SIZE_NAMES, spec["size"])
    if spec.get("color_list"):
        assert first["colorList"] == [name_or_number(COLOR_NAMES, n) for n in spec["color_list"]]
    if "maybe_size" in spec:
        assert first["maybeSize"] == name_or_number(SIZE_NAMES, spec["maybe_size"])
    if "chosen_color" in spec:
        assert first["chosenColor"] == name_or_number(COLOR_NAMES, spec["chosen_color"])

print("C05 keep1 equiv: OK (%d reference round trips)" % count)
