"""JSON form (Message.to_dict) of enum fields in every position: names for defined
numbers (canonical name for aliases), the plain number for undefined ones, checked
against an explicit model, against google.protobuf's json_format and through
from_dict / binary round trips."""
import json
import random
from dataclasses import dataclass
from typing import Dict, List, Optional

import betterproto
from betterproto import Casing
from google.protobuf import descriptor_pb2, descriptor_pool, json_format, message_factory


class Level(betterproto.Enum):
    ZERO = 0
    LOW = 1
    ALSO_LOW = 1
    NEG = -3
    HIGH = 40
    MIN = -2147483648
    MAX = 2147483647


class NoZero(betterproto.Enum):  # proto2 style: zero is not defined
    A = 5
    B = -5


@dataclass(eq=False, repr=False)
class Msg(betterproto.Message):
    single: Level = betterproto.enum_field(1)
    many: List[Level] = betterproto.enum_field(2)
    by_key: Dict[str, Level] = betterproto.map_field(
        3, betterproto.TYPE_STRING, betterproto.TYPE_ENUM
    )
    opt: Optional[Level] = betterproto.enum_field(4, optional=True)
    one: Level = betterproto.enum_field(5, group="g")
    other: str = betterproto.string_field(6, group="g")
    nz_single: NoZero = betterproto.enum_field(7)
    nz_many: List[NoZero] = betterproto.enum_field(8)
    nz_opt: Optional[NoZero] = betterproto.enum_field(9, optional=True)
    by_num: Dict[int, NoZero] = betterproto.map_field(
        10, betterproto.TYPE_INT32, betterproto.TYPE_ENUM
    )


NAMES = {Level: {0: "ZERO", 1: "LOW", -3: "NEG", 40: "HIGH", -2147483648: "MIN", 2147483647: "MAX"},
         NoZero: {5: "A", -5: "B"}}


def js(enum, n):
    return NAMES[enum].get(n, n)


rng = random.Random(2020)
NUMBERS = sorted(
    {0, 1, 2, -1, -2, -3, -4, 5, -5, 39, 40, 41, 127, 128, 2**31 - 1, -(2**31), 2**31 - 2, -(2**31) + 1}
    | {rng.randint(-(2**31), 2**31 - 1) for _ in range(200)}
    | {rng.randint(-50, 50) for _ in range(40)}
)

ALL_DEFAULTS_SNAKE = {
    "single": "ZERO", "many": [], "by_key": {}, "opt": None, "one": "ZERO", "other": "",
    "nz_single": 0, "nz_many": [], "nz_opt": None, "by_num": {},
}
assert Msg().to_dict() == {}
assert Msg().to_dict(casing=Casing.SNAKE, include_default_values=True) == ALL_DEFAULTS_SNAKE
assert Msg().to_dict(include_default_values=True) == {
    "single": "ZERO", "many": [], "byKey": {}, "opt": None, "one": "ZERO", "other": "",
    "nzSingle": 0, "nzMany": [], "nzOpt": None, "byNum": {},
}


def variants(n):
    """the same number as plain int, as what try_value gives, and as bool-free int subclass"""
    yield n
    yield Level.try_value(n)


for n in NUMBERS:
    for v in variants(n):
        # singular
        m = Msg(single=v)
        assert m.to_dict() == ({} if n == 0 else {"single": js(Level, n)}), (n, m.to_dict())
        d = m.to_dict(casing=Casing.SNAKE, include_default_values=True)
        assert d == {**ALL_DEFAULTS_SNAKE, "single": js(Level, n)}
        # repeated (lists, tuples, generators and the single value upgrade)
        m = Msg(many=[v, 1, v, 0])
        assert m.to_dict() == {"many": [js(Level, n), "LOW", js(Level, n), "ZERO"]}
        m = Msg(many=(v, v))
        assert m.to_dict() == {"many": [js(Level, n)] * 2}
        m = Msg()
        m.many = (x for x in [v, 40])
        assert m.to_dict() == {"many": [js(Level, n), "HIGH"]}
        m = Msg()
        m.many = v
        assert m.to_dict() == {"many": [js(Level, n)]}
        assert Msg(many=[v]).to_dict(include_default_values=True)["many"] == [js(Level, n)]
        # map value
        m = Msg(by_key={"k": v, "": 0, "a": Level.ALSO_LOW})
        assert m.to_dict() == {"byKey": {"k": js(Level, n), "": "ZERO", "a": "LOW"}}
        assert m.to_dict(casing=Casing.SNAKE) == {"by_key": {"k": js(Level, n), "": "ZERO", "a": "LOW"}}
        # optional
        m = Msg(opt=v)
        assert m.to_dict() == {"opt": js(Level, n)}
        assert m.to_dict(include_default_values=True)["opt"] == js(Level, n)
        # oneof
        m = Msg(one=v)
        assert m.to_dict() == {"one": js(Level, n)}
        m.other = "x"
        assert m.to_dict() == {"other": "x"}
        d = m.to_dict(include_default_values=True)
        assert d["one"] == "ZERO" and d["other"] == "x"

    # enum without a zero member
    m = Msg(nz_single=n, nz_many=[n, 5], nz_opt=n, by_num={n: n, 0: 0})
    want = {
        "nzMany": [js(NoZero, n), "A"],
        "nzOpt": js(NoZero, n),
        "byNum": {n: js(NoZero, n), 0: 0},
    }
    if n != 0:
        want["nzSingle"] = js(NoZero, n)
    assert m.to_dict() == want, (n, m.to_dict(), want)
    assert m.to_dict(include_default_values=True)["nzSingle"] == js(NoZero, n)

    # everything at once, through JSON text and back, and through the wire
    m = Msg(single=n, many=[n, -3, n], by_key={"k": n}, opt=n, one=n,
            nz_single=n, nz_many=[n], nz_opt=n, by_num={1: n})
    for idv in (False, True):
        d = m.to_dict(include_default_values=idv)
        assert d["many"] == [js(Level, n), "NEG", js(Level, n)]
        assert d["byKey"] == {"k": js(Level, n)} and d["opt"] == js(Level, n) and d["one"] == js(Level, n)
        assert d["nzMany"] == [js(NoZero, n)] and d["nzOpt"] == js(NoZero, n) and d["byNum"] == {1: js(NoZero, n)}
        d.pop("other", None)  # the unselected oneof sibling would win on from_dict
        back = Msg().from_dict(json.loads(json.dumps(d)))
        assert back.single == n and back.many == [n, -3, n] and back.by_key == {"k": n}
        assert back.opt == n and back.one == n and back.nz_single == n
        assert back.nz_many == [n] and back.nz_opt == n and back.by_num == {1: n}
        assert bytes(back) == bytes(m)
    assert Msg().parse(bytes(m)).to_dict() == m.to_dict()
    assert json.loads(m.to_json()) == json.loads(json.dumps(m.to_dict()))

# unset optionals
m = Msg(opt=None, nz_opt=None)
assert m.to_dict() == {}
assert m.to_dict(include_default_values=True)["opt"] is None
m = Msg(single=None)  # explicit None in a plain field
assert "single" not in m.to_dict()
assert m.to_dict(casing=Casing.SNAKE, include_default_values=True)["single"] is None

# ------------------------------------------------------------ google.protobuf
fdp = descriptor_pb2.FileDescriptorProto(name="c20_keep2.proto", package="c20k2", syntax="proto3")
e = fdp.enum_type.add(name="Level")
e.options.allow_alias = True
for name, number in (("ZERO", 0), ("LOW", 1), ("ALSO_LOW", 1), ("NEG", -3), ("HIGH", 40),
                     ("MIN", -2147483648), ("MAX", 2147483647)):
    e.value.add(name=name, number=number)
F = descriptor_pb2.FieldDescriptorProto
msg = fdp.message_type.add(name="Msg")
entry = msg.nested_type.add(name="ByKeyEntry")
entry.options.map_entry = True
entry.field.add(name="key", number=1, type=F.TYPE_STRING, label=F.LABEL_OPTIONAL)
entry.field.add(name="value", number=2, type=F.TYPE_ENUM, type_name=".c20k2.Level", label=F.LABEL_OPTIONAL)
msg.field.add(name="single", number=1, type=F.TYPE_ENUM, type_name=".c20k2.Level", label=F.LABEL_OPTIONAL)
msg.field.add(name="many", number=2, type=F.TYPE_ENUM, type_name=".c20k2.Level", label=F.LABEL_REPEATED)
msg.field.add(name="by_key", number=3, type=F.TYPE_MESSAGE, type_name=".c20k2.Msg.ByKeyEntry", label=F.LABEL_REPEATED)
msg.oneof_decl.add(name="g")
msg.oneof_decl.add(name="_opt")
msg.field.add(name="opt", number=4, type=F.TYPE_ENUM, type_name=".c20k2.Level", label=F.LABEL_OPTIONAL, oneof_index=1, proto3_optional=True)
msg.field.add(name="one", number=5, type=F.TYPE_ENUM, type_name=".c20k2.Level", label=F.LABEL_OPTIONAL, oneof_index=0)
msg.field.add(name="other", number=6, type=F.TYPE_STRING, label=F.LABEL_OPTIONAL, oneof_index=0)
pool = descriptor_pool.DescriptorPool()
pool.Add(fdp)
GMsg = message_factory.GetMessageClass(pool.FindMessageTypeByName("c20k2.Msg"))

for n in NUMBERS:
    for kwargs in ({"single": n}, {"many": [n, 1, n]}, {"opt": n}, {"one": n}, {"by_key": {"k": n, "z": 0}},
                   {"single": n, "many": [n], "opt": n, "one": n, "by_key": {"": n}}):
        b = Msg(**kwargs)
        g = GMsg(**{k: v for k, v in kwargs.items() if k != "by_key"})
        for k, v in kwargs.get("by_key", {}).items():
            g.by_key[k] = v
        assert b.to_dict() == json_format.MessageToDict(g), (n, kwargs, b.to_dict(), json_format.MessageToDict(g))
        # google reads betterproto's JSON, betterproto reads google's
        g2 = json_format.Parse(b.to_json(), GMsg())
        assert g2 == g
        b2 = Msg().from_json(json_format.MessageToJson(g))
        assert GMsg.FromString(bytes(b2)) == g, (n, kwargs)  # map order may differ
        assert GMsg.FromString(bytes(b)) == g, (n, kwargs)

print("ok")
