"""Equivalence check for the C17 keep1 refactor (Message.__getattribute__).

Runs with plain asserts; exits 0 on the pristine tree and with the refactor.
Usage: PYTHONPATH=/tmp/wt/R12C17/src /venv/bin/python equiv.py
"""
import hashlib
import random
import struct
import sys
from dataclasses import dataclass
from datetime import datetime, timedelta, timezone
from typing import Dict, List, Optional

import betterproto
from betterproto import PLACEHOLDER, Message

EXPECTED_DIGEST = "08ee7f56fe4224fb93616898c68c5c5a460e8bca4bab48183932e856005e874a"


class Color(betterproto.Enum):
    ZERO = 0
    RED = 1
    NEG = -2


@dataclass(eq=False, repr=False)
class Inner(Message):
    a: int = betterproto.int32_field(1)
    s: str = betterproto.string_field(2)


@dataclass(eq=False, repr=False)
class Msg(Message):
    i32: int = betterproto.int32_field(1)
    s64: int = betterproto.sint64_field(2)
    b: bool = betterproto.bool_field(3)
    f32: int = betterproto.fixed32_field(4)
    d: float = betterproto.double_field(5)
    s: str = betterproto.string_field(6)
    by: bytes = betterproto.bytes_field(7)
    inner: Inner = betterproto.message_field(8)
    rp: List[int] = betterproto.int32_field(9)
    rf: List[int] = betterproto.fixed64_field(10)
    rs: List[str] = betterproto.string_field(11)
    m: Dict[str, int] = betterproto.map_field(
        12, betterproto.TYPE_STRING, betterproto.TYPE_INT32
    )
    o_int: int = betterproto.int32_field(13, group="grp")
    o_str: str = betterproto.string_field(14, group="grp")
    o_msg: Inner = betterproto.message_field(15, group="grp")
    e: Color = betterproto.enum_field(16)
    opt: Optional[int] = betterproto.int32_field(17, optional=True, group="_opt")
    rm: List[Inner] = betterproto.message_field(18)
    w: Optional[int] = betterproto.message_field(19, wraps=betterproto.TYPE_INT32)
    ts: datetime = betterproto.message_field(20)
    du: timedelta = betterproto.message_field(21)


FIELD_NAMES = [f for f in Msg._betterproto.meta_by_field_name]
GROUP = ("o_int", "o_str", "o_msg")


def tag(number, wire):
    return betterproto.encode_varint((number << 3) | wire)


def ld(number, payload):
    return tag(number, 2) + betterproto.encode_varint(len(payload)) + payload


def vi(number, value):
    return tag(number, 0) + betterproto.encode_varint(value & (2**64 - 1))


# ---------------------------------------------------------------- observation
def observe_attr(msg, name):
    """What reading one attribute gives: value repr or the AttributeError."""
    try:
        v = getattr(msg, name)
    except AttributeError as exc:
        extra = ()
        if sys.version_info >= (3, 10):
            extra = (exc.name, exc.obj is msg)
        return ("AttributeError", exc.args, extra)
    return ("value", type(v).__name__, repr(v))


def observe(data):
    """Full outcome of decoding ``data`` with Msg."""
    msg = Msg()
    try:
        msg.parse(data)
    except Exception as exc:  # noqa: BLE001 - the outcome is what we record
        return ("raise", type(exc).__name__, str(exc))
    out = ["ok"]
    # raw state before any lazy default is materialised by a read
    raw = {n: object.__getattribute__(msg, n) for n in FIELD_NAMES}
    out.append(sorted(n for n, v in raw.items() if v is PLACEHOLDER))
    out.append(sorted(msg._group_current.items(), key=repr))
    out.append(betterproto.which_one_of(msg, "grp")[0])
    for n in FIELD_NAMES:
        out.append((n, observe_attr(msg, n)))
    # which lazily created defaults were stored by those reads
    raw2 = {n: object.__getattribute__(msg, n) for n in FIELD_NAMES}
    out.append(sorted(n for n, v in raw2.items() if v is PLACEHOLDER))
    out.append(msg._unknown_fields.hex())
    out.append(msg._serialized_on_wire)
    enc = bytes(msg)
    out.append(enc.hex())
    # decodes again, to the same bytes
    again = Msg().parse(enc)
    assert bytes(again) == enc, (data, enc)
    out.append(repr(msg))
    return tuple(out)


def check_types(data):
    """Property part: accepted input => every field has its declared type."""
    msg = Msg()
    try:
        msg.parse(data)
    except Exception:  # noqa: BLE001
        return False
    sel = msg._group_current["grp"]
    assert betterproto.which_one_of(msg, "grp")[0] == (sel or "")
    for n in GROUP:
        if n != sel:
            try:
                getattr(msg, n)
            except AttributeError as exc:
                assert exc.args == (f"'grp' is set to {sel!r}, not {n!r}",), exc.args
            else:
                raise AssertionError(f"unselected oneof member {n} readable")
    py = {
        "i32": int, "s64": int, "b": bool, "f32": int, "d": float, "s": str,
        "by": bytes, "inner": Inner, "rp": list, "rf": list, "rs": list,
        "m": dict, "e": Color, "ts": datetime, "du": timedelta, "rm": list,
    }
    for n, t in py.items():
        assert isinstance(getattr(msg, n), t), (n, getattr(msg, n), data)
    assert msg.w is None or isinstance(msg.w, int)
    if "_opt" in msg._group_current and msg._group_current["_opt"] == "opt":
        assert isinstance(msg.opt, int)
    if sel == "o_int":
        assert isinstance(msg.o_int, int)
    elif sel == "o_str":
        assert isinstance(msg.o_str, str)
    elif sel == "o_msg":
        assert isinstance(msg.o_msg, Inner)
    assert all(isinstance(x, int) for x in msg.rp + msg.rf)
    assert all(isinstance(x, str) for x in msg.rs)
    assert all(isinstance(x, Inner) for x in msg.rm)
    return True


# -------------------------------------------------------------------- corpus
def valid_messages():
    inner = Inner(a=-5, s="x")
    yield Msg()
    yield Msg(i32=-1, s64=-(2**40), b=True, f32=7, d=1.5, s="héllo", by=b"\x00\xff")
    yield Msg(inner=inner, rp=[1, -2, 300], rf=[1, 2**63], rs=["a", ""], m={"k": 1, "": 0})
    yield Msg(o_int=0)
    yield Msg(o_int=77)
    yield Msg(o_str="")
    yield Msg(o_str="sel")
    yield Msg(o_msg=Inner())
    yield Msg(o_msg=inner)
    yield Msg(e=Color.RED, opt=0, rm=[Inner(), inner], w=0)
    yield Msg(e=Color.NEG, opt=5, w=9, ts=datetime(2020, 1, 2, 3, 4, 5, tzinfo=timezone.utc), du=timedelta(seconds=3, microseconds=7))


def corpus():
    rnd = random.Random(1217)
    out = [b""]
    encs = [bytes(m) for m in valid_messages()]
    out += encs
    # oneof switching: every ordered pair / triple of members in one stream
    members = [vi(13, 0), vi(13, 5), ld(14, b""), ld(14, b"ab"), ld(15, b""), ld(15, vi(1, 3))]
    for x in members:
        for y in members:
            out.append(x + y)
            for z in members[::2]:
                out.append(x + vi(1, 9) + y + z)
    # all truncation points
    for e in encs:
        for k in range(len(e)):
            out.append(e[:k])
    # single-byte corruptions of every position (tags, lengths, payload)
    for e in encs:
        for k in range(len(e)):
            for _ in range(3):
                out.append(e[:k] + bytes([rnd.randrange(256)]) + e[k + 1 :])
    # wire-type substitution on every field number (and unknown ones, and 0)
    payloads = {
        0: betterproto.encode_varint(300),
        1: struct.pack("<d", 2.5),
        2: b"\x03abc",
        3: b"",
        4: b"",
        5: struct.pack("<f", 2.5),
        6: b"",
        7: b"",
    }
    for number in list(range(0, 24)) + [1000]:
        for wire, p in payloads.items():
            out.append(tag(number, wire) + p)
            out.append(vi(13, 4) + tag(number, wire) + p + ld(6, b"tail"))
            out.append(ld(14, b"s") + tag(number, wire) + p)
    # arbitrary random byte strings
    for _ in range(1500):
        out.append(bytes(rnd.randrange(256) for _ in range(rnd.randrange(1, 24))))
    # random strings built from plausible pieces
    pieces = members + [vi(1, 1), vi(17, 0), ld(8, vi(1, 2)), ld(12, ld(1, b"k") + vi(2, 3)),
                        ld(9, b"\x01\x02"), ld(19, vi(1, 4)), ld(20, vi(1, 10)), ld(21, vi(2, 5000)),
                        vi(16, -2), vi(99, 1), tag(13, 5) + b"abcd", tag(14, 0) + b"\x01"]
    for _ in range(800):
        out.append(b"".join(rnd.choice(pieces) for _ in range(rnd.randrange(1, 6))))
    return out


def getattribute_direct_checks():
    """The touched function, directly: unselected members, lazy defaults."""
    m = Msg()
    # nothing selected: every member raises, naming None as the selection
    for n in GROUP:
        r = observe_attr(m, n)
        assert r[0] == "AttributeError" and r[1] == (f"'grp' is set to None, not {n!r}",), r
        if sys.version_info >= (3, 10):
            assert r[2] == (n, True), r
        assert not hasattr(m, n)
    # __class__ and _betterproto are never subject to the oneof check
    assert m.__class__ is Msg and m._betterproto is Msg._betterproto
    # lazy defaults: mutable ones are stored, scalars are not
    assert object.__getattribute__(m, "rp") is PLACEHOLDER
    assert m.rp == [] and object.__getattribute__(m, "rp") is m.rp
    assert m.m == {} and object.__getattribute__(m, "m") is m.m
    assert isinstance(m.inner, Inner) and object.__getattribute__(m, "inner") is m.inner
    assert m.i32 == 0 and object.__getattribute__(m, "i32") is PLACEHOLDER
    assert m.s == "" and object.__getattribute__(m, "s") is PLACEHOLDER
    assert m.e is Color.ZERO and object.__getattribute__(m, "e") is PLACEHOLDER
    assert m.w is None
    r = observe_attr(m, "opt")  # proto3 optional: member of a synthetic oneof
    assert r[1] == ("'_opt' is set to None, not 'opt'",), r
    assert m._serialized_on_wire is False
    # unknown attribute: plain AttributeError from object
    try:
        m.no_such_attribute
    except AttributeError as exc:
        assert "no_such_attribute" in str(exc)
    else:
        raise AssertionError
    # selection by decoding, then reads of each member
    for data, sel in [(vi(13, 0), "o_int"), (ld(14, b""), "o_str"), (ld(15, b""), "o_msg"),
                      (vi(13, 1) + ld(14, b"z"), "o_str"), (ld(14, b"z") + ld(15, b"") + vi(13, 2), "o_int")]:
        m = Msg().parse(data)
        assert betterproto.which_one_of(m, "grp")[0] == sel
        for n in GROUP:
            r = observe_attr(m, n)
            if n == sel:
                assert r[0] == "value", r
            else:
                assert r[1] == (f"'grp' is set to {sel!r}, not {n!r}",), r
    # a wire-type mismatch on a oneof member neither selects nor alters it
    m = Msg().parse(ld(14, b"keep") + tag(13, 5) + b"abcd" + tag(15, 0) + b"\x01")
    assert betterproto.which_one_of(m, "grp") == ("o_str", "keep")
    assert m._unknown_fields == tag(13, 5) + b"abcd" + tag(15, 0) + b"\x01"
    # an object whose __post_init__ has not run (no _group_current yet)
    bare = object.__new__(Msg)
    # no oneof check is possible: the class-level placeholder gives the default
    assert bare.o_int == 0 and bare.o_str == "" and bare.rp == []
    assert bare.__class__ is Msg


def main():
    getattribute_direct_checks()
    inputs = corpus()
    h = hashlib.sha256()
    accepted = rejected = 0
    for data in inputs:
        o = observe(data)
        h.update(repr((data, o)).encode())
        if check_types(data):
            accepted += 1
            assert o[0] == "ok"
        else:
            rejected += 1
            assert o[0] == "raise"
    # truncations that cut a field in the middle are rejected
    for e in (bytes(m) for m in valid_messages()):
        bounds = set()
        pos = 0
        for f in betterproto.parse_fields(e):
            pos += len(f.raw)
            bounds.add(pos)
        for k in range(1, len(e)):
            if k not in bounds:
                assert observe(e[:k])[0] == "raise", (e, k)
    digest = h.hexdigest()
    print(f"inputs={len(inputs)} accepted={accepted} rejected={rejected} digest={digest}")
    assert accepted > 500 and rejected > 500
    assert digest == EXPECTED_DIGEST, digest
    print("equiv OK")


if __name__ == "__main__":
    main()
