"""C16 / keep2: scalar encodings of all 15 scalar kinds, as singular fields and - above all - as
packed / repeated fields (Message.dump, Message.__bytes__, Message.__len__), compared byte for
byte with google.protobuf (upb) and with an independent model of the packed layout.

Must exit 0 on the pristine tree and with the refactor applied.
"""
import io
import math
import random
import struct
from dataclasses import dataclass
from typing import List

import betterproto
from betterproto import encode_varint, size_varint
from google.protobuf import descriptor_pb2, descriptor_pool, message_factory

rng = random.Random(0xC1602)

F = descriptor_pb2.FieldDescriptorProto
KINDS = [
    # name, pb type, betterproto field fn, value generator
    ("double", F.TYPE_DOUBLE, betterproto.double_field),
    ("float", F.TYPE_FLOAT, betterproto.float_field),
    ("int32", F.TYPE_INT32, betterproto.int32_field),
    ("int64", F.TYPE_INT64, betterproto.int64_field),
    ("uint32", F.TYPE_UINT32, betterproto.uint32_field),
    ("uint64", F.TYPE_UINT64, betterproto.uint64_field),
    ("sint32", F.TYPE_SINT32, betterproto.sint32_field),
    ("sint64", F.TYPE_SINT64, betterproto.sint64_field),
    ("fixed32", F.TYPE_FIXED32, betterproto.fixed32_field),
    ("fixed64", F.TYPE_FIXED64, betterproto.fixed64_field),
    ("sfixed32", F.TYPE_SFIXED32, betterproto.sfixed32_field),
    ("sfixed64", F.TYPE_SFIXED64, betterproto.sfixed64_field),
    ("bool", F.TYPE_BOOL, betterproto.bool_field),
    ("string", F.TYPE_STRING, betterproto.string_field),
    ("bytes", F.TYPE_BYTES, betterproto.bytes_field),
]
# singular field numbers 1..15, repeated field numbers 21..35 (two-byte keys from 16 on),
# plus one repeated field with a big number
SING = {name: i + 1 for i, (name, _, _) in enumerate(KINDS)}
REP = {name: i + 21 for i, (name, _, _) in enumerate(KINDS)}
BIG = 300000

# --- reference message (proto3: repeated scalars are packed) -----------------------------------
fdp = descriptor_pb2.FileDescriptorProto(name="c16_keep2.proto", package="c16k2", syntax="proto3")
mp = fdp.message_type.add(name="All")
for name, t, _ in KINDS:
    mp.field.add(name="s_" + name, number=SING[name], type=t, label=F.LABEL_OPTIONAL)
    mp.field.add(name="r_" + name, number=REP[name], type=t, label=F.LABEL_REPEATED)
mp.field.add(name="r_big", number=BIG, type=F.TYPE_SINT64, label=F.LABEL_REPEATED)
pool = descriptor_pool.DescriptorPool()
pool.Add(fdp)
RefAll = message_factory.GetMessageClass(pool.FindMessageTypeByName("c16k2.All"))


# --- betterproto message --------------------------------------------------------------------------
@dataclass(eq=False, repr=False)
class All(betterproto.Message):
    s_double: float = betterproto.double_field(1)
    s_float: float = betterproto.float_field(2)
    s_int32: int = betterproto.int32_field(3)
    s_int64: int = betterproto.int64_field(4)
    s_uint32: int = betterproto.uint32_field(5)
    s_uint64: int = betterproto.uint64_field(6)
    s_sint32: int = betterproto.sint32_field(7)
    s_sint64: int = betterproto.sint64_field(8)
    s_fixed32: int = betterproto.fixed32_field(9)
    s_fixed64: int = betterproto.fixed64_field(10)
    s_sfixed32: int = betterproto.sfixed32_field(11)
    s_sfixed64: int = betterproto.sfixed64_field(12)
    s_bool: bool = betterproto.bool_field(13)
    s_string: str = betterproto.string_field(14)
    s_bytes: bytes = betterproto.bytes_field(15)
    r_double: List[float] = betterproto.double_field(21)
    r_float: List[float] = betterproto.float_field(22)
    r_int32: List[int] = betterproto.int32_field(23)
    r_int64: List[int] = betterproto.int64_field(24)
    r_uint32: List[int] = betterproto.uint32_field(25)
    r_uint64: List[int] = betterproto.uint64_field(26)
    r_sint32: List[int] = betterproto.sint32_field(27)
    r_sint64: List[int] = betterproto.sint64_field(28)
    r_fixed32: List[int] = betterproto.fixed32_field(29)
    r_fixed64: List[int] = betterproto.fixed64_field(30)
    r_sfixed32: List[int] = betterproto.sfixed32_field(31)
    r_sfixed64: List[int] = betterproto.sfixed64_field(32)
    r_bool: List[bool] = betterproto.bool_field(33)
    r_string: List[str] = betterproto.string_field(34)
    r_bytes: List[bytes] = betterproto.bytes_field(35)
    r_big: List[int] = betterproto.sint64_field(BIG)


for name in SING:
    assert All._betterproto.meta_by_field_name["s_" + name].number == SING[name]
    assert All._betterproto.meta_by_field_name["r_" + name].number == REP[name]


# --- value generators --------------------------------------------------------------------------
def int_values(lo, hi):
    vals = {lo, lo + 1, hi - 1, hi - 2, 0, 1, 2, 63, 64, 127, 128, 129, 255, 256, 16383, 16384}
    if lo < 0:
        vals |= {-1, -2, -63, -64, -65, -127, -128, -129, -16384, -16385}
    for k in range(7, 71, 7):
        for d in (-1, 0, 1):
            vals |= {(1 << k) + d, -(1 << k) + d, (1 << (k - 1)) + d, -(1 << (k - 1)) + d}
    for k in (31, 32, 63, 64):
        for d in (-2, -1, 0, 1):
            vals |= {(1 << k) + d, -(1 << k) + d}
    vals = [v for v in vals if lo <= v < hi]
    vals += [rng.randrange(lo, hi) for _ in range(150)]
    vals += [rng.randrange(0, min(hi, 1 << rng.randrange(1, 64))) for _ in range(150)]
    if lo < 0:
        vals += [max(lo, -rng.randrange(1, 1 << rng.randrange(1, 64))) for _ in range(150)]
    return vals


FLT_MAX = struct.unpack("<f", b"\xff\xff\x7f\x7f")[0]
DOUBLES = [
    0.0, -0.0, 1.0, -1.0, 0.1, 1.5, math.pi, 1e-320, 5e-324, 2.2250738585072014e-308,
    1.7976931348623157e308, -1.7976931348623157e308, float("inf"), -float("inf"), 1e100, 2.0**53 + 2,
] + [struct.unpack("<d", struct.pack("<Q", rng.getrandbits(64)))[0] for _ in range(300)]
DOUBLES = [d for d in DOUBLES if not math.isnan(d)]
FLOATS = [
    0.0, -0.0, 1.0, -1.0, 0.1, 1.5, math.pi, 1e-45, 1.1754943508222875e-38, FLT_MAX, -FLT_MAX,
    float("inf"), -float("inf"), 16777217.0, 0.30000001192092896,
] + [struct.unpack("<f", struct.pack("<I", rng.getrandbits(32)))[0] for _ in range(300)]
FLOATS = [f for f in FLOATS if not math.isnan(f)]
FLOATS += [rng.uniform(-1e30, 1e30) for _ in range(100)]  # doubles that need rounding to float32
STRINGS = ["", "a", "x" * 127, "y" * 128, "z" * 300, "é中\U0001f600", "\x00", "q" * 16384]
BYTESES = [b"", b"\x00", b"\xff" * 127, b"\x80" * 128, bytes(range(256)), b"k" * 20000]

VALUES = {
    "double": DOUBLES,
    "float": FLOATS,
    "int32": int_values(-(2**31), 2**31),
    "int64": int_values(-(2**63), 2**63),
    "uint32": int_values(0, 2**32),
    "uint64": int_values(0, 2**64),
    "sint32": int_values(-(2**31), 2**31),
    "sint64": int_values(-(2**63), 2**63),
    "fixed32": int_values(0, 2**32),
    "fixed64": int_values(0, 2**64),
    "sfixed32": int_values(-(2**31), 2**31),
    "sfixed64": int_values(-(2**63), 2**63),
    "bool": [True, False],
    "string": STRINGS,
    "bytes": BYTESES,
}


# --- independent model of one encoded scalar ------------------------------------------------
def uvarint(u):
    assert 0 <= u < 1 << 64
    out = bytearray()
    while u >= 0x80:
        out.append(0x80 | (u & 0x7F))
        u >>= 7
    out.append(u)
    return bytes(out)


def model_scalar(kind, v):
    if kind in ("int32", "int64", "uint32", "uint64"):
        return uvarint(v % (1 << 64))
    if kind == "bool":
        return b"\x01" if v else b"\x00"
    if kind in ("sint32", "sint64"):
        return uvarint(2 * v if v >= 0 else -2 * v - 1)
    fmt = {"double": "<d", "float": "<f", "fixed32": "<I", "fixed64": "<Q", "sfixed32": "<i", "sfixed64": "<q"}
    if kind in fmt:
        return struct.pack(fmt[kind], v)
    if kind == "string":
        return v.encode("utf-8")
    return v


def wire_type(kind):
    if kind in ("double", "fixed64", "sfixed64"):
        return 1
    if kind in ("float", "fixed32", "sfixed32"):
        return 5
    if kind in ("string", "bytes"):
        return 2
    return 0


def model_repeated(kind, number, values):
    if not values:
        return b""
    if kind in ("string", "bytes"):
        out = b""
        for v in values:
            p = model_scalar(kind, v)
            out += uvarint(number << 3 | 2) + uvarint(len(p)) + p
        return out
    payload = b"".join(model_scalar(kind, v) for v in values)
    return uvarint(number << 3 | 2) + uvarint(len(payload)) + payload


def check(bp, ref_kwargs, expected=None):
    data = bytes(bp)
    ref = RefAll(**ref_kwargs).SerializeToString(deterministic=True)
    assert data == ref, (ref_kwargs, data.hex(), ref.hex())
    if expected is not None:
        assert data == expected, (ref_kwargs, data.hex(), expected.hex())
    assert len(bp) == len(data)
    assert bp.SerializeToString() == data
    out = io.BytesIO()
    bp.dump(out)
    assert out.getvalue() == data
    out = io.BytesIO()
    bp.dump(out, betterproto.SIZE_DELIMITED)
    assert out.getvalue() == encode_varint(len(data)) + data
    back = All().parse(data)
    assert bytes(back) == data
    return data


# ---------------------------------------------------------------------------------------------
# 1. singular fields: every value of every kind, byte-identical with the reference
# ---------------------------------------------------------------------------------------------
for kind, _, _ in KINDS:
    for v in VALUES[kind]:
        if kind in ("double", "float") and v == 0 and math.copysign(1, v) < 0:
            # a singular proto3 -0.0 compares equal to the default and is left out by
            # betterproto (the reference emits it); not what this script is about - the
            # packed section below does cover -0.0.
            assert bytes(All(**{"s_" + kind: v})) == b""
            continue
        data = check(All(**{"s_" + kind: v}), {"s_" + kind: v})
        # defaults are absent in both implementations; everything else is
        # key + [length +] payload
        if data:
            p = model_scalar(kind, v)
            key = uvarint(SING[kind] << 3 | wire_type(kind))
            assert data == key + (uvarint(len(p)) if wire_type(kind) == 2 else b"") + p, (kind, v)
        if kind in ("int32", "int64", "uint32", "uint64"):
            assert encode_varint(v) == model_scalar(kind, v) and size_varint(v) == len(encode_varint(v))

# ---------------------------------------------------------------------------------------------
# 2. packed / repeated fields
# ---------------------------------------------------------------------------------------------
for kind, _, _ in KINDS:
    vals = VALUES[kind]
    num = REP[kind]
    # one-element lists: each value on its own (defaults included: a packed 0 is on the wire)
    for v in vals:
        check(All(**{"r_" + kind: [v]}), {"r_" + kind: [v]}, model_repeated(kind, num, [v]))
    # the whole pool at once, and random sub-lists whose payload length crosses 127/128/16383
    check(All(**{"r_" + kind: list(vals)}), {"r_" + kind: list(vals)}, model_repeated(kind, num, vals))
    for _ in range(60):
        n = rng.choice((0, 1, 2, 3, 12, 13, 15, 16, 17, 31, 32, 33, 63, 64, 65, 127, 128, 129, 200))
        lst = [rng.choice(vals) for _ in range(n)]
        check(All(**{"r_" + kind: lst}), {"r_" + kind: lst}, model_repeated(kind, num, lst))

# payload of exactly 127 / 128 / 16383 / 16384 bytes (length prefix grows by one byte)
for n in (126, 127, 128, 129, 16383, 16384, 16385):
    lst = [rng.randrange(0, 128) for _ in range(n)]
    check(All(r_uint32=lst), {"r_uint32": lst}, model_repeated("uint32", REP["uint32"], lst))
    lst = [rng.random() < 0.5 for _ in range(n)]
    check(All(r_bool=lst), {"r_bool": lst}, model_repeated("bool", REP["bool"], lst))
for n in (15, 16, 31, 32, 2047, 2048):
    lst = [rng.choice(VALUES["fixed64"]) for _ in range(n)]
    check(All(r_fixed64=lst), {"r_fixed64": lst}, model_repeated("fixed64", REP["fixed64"], lst))
    lst = [rng.choice(FLOATS) for _ in range(n * 2)]
    check(All(r_float=lst), {"r_float": lst}, model_repeated("float", REP["float"], lst))

# large field number (4-byte key) with zig-zag items
for _ in range(100):
    lst = [rng.choice(VALUES["sint64"]) for _ in range(rng.randrange(0, 30))]
    check(All(r_big=lst), {"r_big": lst}, model_repeated("sint64", BIG, lst))

# ---------------------------------------------------------------------------------------------
# 3. everything together (field order, several packed fields in one message)
# ---------------------------------------------------------------------------------------------
for _ in range(400):
    kwargs = {}
    for kind, _, _ in KINDS:
        if rng.random() < 0.5:
            v = rng.choice(VALUES[kind])
            if not (kind in ("double", "float") and v == 0):  # singular -0.0: see section 1
                kwargs["s_" + kind] = v
        if rng.random() < 0.6:
            kwargs["r_" + kind] = [rng.choice(VALUES[kind][:80]) for _ in range(rng.randrange(0, 6))]
    if rng.random() < 0.5:
        kwargs["r_big"] = [rng.choice(VALUES["sint64"]) for _ in range(rng.randrange(0, 6))]
    check(All(**kwargs), kwargs)

# ---------------------------------------------------------------------------------------------
# 4. error paths of the packed branch: out-of-range items raise the same way from bytes()
#    and len(), and nothing is emitted
# ---------------------------------------------------------------------------------------------
def outcome(fn):
    try:
        return ("ok", fn())
    except Exception as e:  # noqa: BLE001 - we compare type and text
        return (type(e).__name__, str(e))


for field, bad in (
    ("r_int64", -(2**63) - 1),
    ("r_uint64", -(2**64)),
    ("r_fixed32", -1),
    ("r_fixed32", 2**32),
    ("r_sfixed32", 2**31),
    ("r_fixed64", 2**64),
    ("r_sfixed64", -(2**63) - 1),
    ("r_float", 1e39),
    ("r_int32", None),
    ("r_double", "x"),
    ("r_int32", "7"),
):
    for lst in ([bad], [1, bad], [1, 2, bad, 3]):
        m = All(**{field: lst})
        a = outcome(lambda: bytes(m))
        b = outcome(lambda: len(m))
        assert a[0] != "ok" and a == b, (field, lst, a, b)
        out = io.BytesIO()
        c = outcome(lambda: m.dump(out))
        assert c == a and out.getvalue() == b""

EXPECTED_ERRORS = {
    ("r_int64", -(2**63) - 1): "ValueError",
    ("r_fixed32", -1): "error",
    ("r_fixed32", 2**32): "error",
    ("r_float", 1e39): "OverflowError",
    ("r_int32", None): "TypeError",
}
for (field, bad), exc_name in EXPECTED_ERRORS.items():
    assert outcome(lambda: bytes(All(**{field: [5, bad]})))[0] == exc_name, (field, bad)

# values beyond 64 bits are not in the property's domain but must keep doing what they did
assert bytes(All(r_uint64=[2**64])) == b"\xd2\x01\x0a" + b"\x80" * 9 + b"\x02"
assert len(All(r_uint64=[2**64])) == 13

print("ok")
