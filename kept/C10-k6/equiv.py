"""Equivalence check for the varint helper refactor (encode_varint / size_varint /
decode_varint no longer go through BytesIO + dump_varint / load_varint).

Checks the three helpers against an independent reference implementation, against
the unchanged stream functions dump_varint / load_varint, and against
google.protobuf's own varint codec - values, consumed positions, exception types and
messages - and then the behaviour that depends on them: length prefixes of delimited
streams (sizes around 127/128 and 16383/16384), tags of large field numbers, packed
varint fields, and truncation of streams and of packed payloads.
"""
import io
import random
from dataclasses import dataclass
from typing import List

import betterproto
from betterproto import (
    SIZE_DELIMITED,
    decode_varint,
    dump_varint,
    encode_varint,
    load_varint,
    size_varint,
)

from google.protobuf import descriptor_pb2, descriptor_pool, message_factory, proto
from google.protobuf.internal import decoder as g_decoder
from google.protobuf.internal import encoder as g_encoder

TOO_NEGATIVE = (
    "Negative value is not representable as a 64-bit integer - unable to encode a "
    "varint within 10 bytes."
)
EOF_MSG = "Stream ended unexpectedly while attempting to load varint."
TOO_MANY = "Too many bytes when decoding varint."


# --------------------------------------------------------------------------
# reference implementation
# --------------------------------------------------------------------------
def ref_encode(value):
    if value < 0:
        value += 1 << 64
    out = []
    while True:
        septet = value % 128
        value //= 128
        if value:
            out.append(septet + 128)
        else:
            out.append(septet)
            return bytes(out)


def ref_decode(buf, pos):
    """-> ("ok", value, newpos) | ("eof",) | ("toomany",)"""
    result = 0
    for n in range(10):
        if pos + n >= len(buf):
            return ("eof",)
        b = buf[pos + n]
        result += (b % 128) * (128**n)
        if b < 128:
            return ("ok", result, pos + n + 1)
    return ("toomany",)


def outcome_decode(buf, pos):
    try:
        value, newpos = decode_varint(buf, pos)
    except EOFError as e:
        assert str(e) == EOF_MSG, str(e)
        return ("eof",)
    except ValueError as e:
        assert str(e) == TOO_MANY, str(e)
        return ("toomany",)
    assert type(value) is int and type(newpos) is int
    return ("ok", value, newpos)


def outcome_load(buf, pos):
    s = io.BytesIO(bytes(buf))
    s.seek(pos)
    try:
        value, raw = load_varint(s)
    except EOFError as e:
        assert str(e) == EOF_MSG
        return ("eof",)
    except ValueError as e:
        assert str(e) == TOO_MANY
        return ("toomany",)
    assert raw == bytes(buf)[pos : pos + len(raw)]
    return ("ok", value, pos + len(raw))


# --------------------------------------------------------------------------
# 1. encode_varint / size_varint
# --------------------------------------------------------------------------
class Color(betterproto.Enum):
    ZERO = 0
    ONE = 1
    BIG = 300
    NEG = -3


def boundary_values():
    vals = {0, 1, 2, 126, 127, 128, 129, 255, 256, 300}
    for k in range(1, 11):
        for d in (-2, -1, 0, 1, 2):
            vals.add((1 << (7 * k)) + d)
    for k in (8, 15, 16, 31, 32, 33, 62, 63, 64):
        for d in (-1, 0, 1):
            vals.add((1 << k) + d)
    vals = {v for v in vals if v >= 0}
    negs = {-1, -2, -127, -128, -129, -(1 << 31), -(1 << 31) - 1, -(1 << 62), -(1 << 63), -(1 << 63) + 1}
    return sorted(vals) + sorted(negs)


def check_encode():
    rng = random.Random(10)
    values = boundary_values()
    values += [rng.randrange(0, 1 << rng.randrange(1, 65)) for _ in range(3000)]
    values += [-rng.randrange(1, (1 << rng.randrange(1, 64)) + 1) for _ in range(1500)]
    values += [(1 << 64) + 5, (1 << 70) - 1, 1 << 77]  # no upper check: longer than 10 bytes
    for v in values:
        enc = encode_varint(v)
        assert type(enc) is bytes
        assert enc == ref_encode(v), (v, enc.hex())
        s = io.BytesIO()
        dump_varint(v, s)
        assert s.getvalue() == enc
        assert size_varint(v) == len(enc), (v, size_varint(v), len(enc))
        assert type(size_varint(v)) is int
        if 0 <= v < (1 << 64):
            assert enc == g_encoder._VarintBytes(v)
            assert len(enc) == g_encoder._VarintSize(v)
            assert g_decoder._DecodeVarint(enc, 0) == (v, len(enc))
        elif -(1 << 63) <= v < 0:
            assert len(enc) == 10 == g_encoder._SignedVarintSize(v)
            assert g_decoder._DecodeSignedVarint(enc, 0) == (v, 10)
        # canonical: decodes back, consuming everything
        back = v + (1 << 64) if v < 0 else v
        if len(enc) <= 10:
            assert decode_varint(enc, 0) == (back, len(enc))

    # bool and enum members are ints
    assert encode_varint(True) == b"\x01" and encode_varint(False) == b"\x00"
    assert size_varint(True) == 1 and size_varint(False) == 1
    for member in Color:
        assert encode_varint(member) == ref_encode(int(member))
        assert size_varint(member) == len(ref_encode(int(member)))
    unknown = Color.try_value(123456)
    assert encode_varint(unknown) == ref_encode(123456)
    assert size_varint(unknown) == 3

    # error paths
    for bad in (-(1 << 63) - 1, -(1 << 64), -(1 << 100)):
        for fn in (encode_varint, size_varint):
            try:
                fn(bad)
            except ValueError as e:
                assert str(e) == TOO_NEGATIVE, str(e)
            else:
                raise AssertionError((fn, bad))
    for bad in (None, "1", b"\x01", 1.5, 300.0, [1]):
        try:
            encode_varint(bad)
        except TypeError:
            pass
        else:
            raise AssertionError(("encode_varint accepted", bad))


# --------------------------------------------------------------------------
# 2. decode_varint
# --------------------------------------------------------------------------
def check_decode():
    rng = random.Random(11)
    # explicit cases
    cases = [
        (b"", 0, ("eof",)),
        (b"\x00", 0, ("ok", 0, 1)),
        (b"\x00", 1, ("eof",)),
        (b"\x00", 5, ("eof",)),  # position past the end
        (b"\x7f", 0, ("ok", 127, 1)),
        (b"\x80", 0, ("eof",)),
        (b"\x80\x01", 0, ("ok", 128, 2)),
        (b"\x80\x01", 1, ("ok", 1, 2)),
        (b"\x80\x00", 0, ("ok", 0, 2)),  # non-canonical zero
        (b"\xff\x80\x80\x00", 0, ("ok", 127, 4)),  # non-canonical padding
        (b"\xff" * 9, 0, ("eof",)),
        (b"\xff" * 9 + b"\x01", 0, ("ok", (1 << 64) - 1, 10)),
        (b"\xff" * 9 + b"\x7f", 0, ("ok", (1 << 70) - 1, 10)),  # bits above 64 kept
        (b"\xff" * 10, 0, ("toomany",)),  # 10th byte still continues: no 11th read
        (b"\xff" * 10 + b"\x00", 0, ("toomany",)),
        (b"\x80" * 10 + b"\x00", 0, ("toomany",)),
        (b"\x80" * 10 + b"\x00", 1, ("ok", 0, 11)),
        (b"\x80" * 10 + b"\x00", 2, ("ok", 0, 11)),
        (b"\x01\x02\x03", 2, ("ok", 3, 3)),
        (b"\x01\x02\x83", 2, ("eof",)),
    ]
    for buf, pos, want in cases:
        for conv in (bytes, bytearray, memoryview):
            assert outcome_decode(conv(buf), pos) == want, (buf, pos, want)
        assert ref_decode(buf, pos) == want
        assert outcome_load(buf, pos) == want

    # negative positions are refused
    for pos in (-1, -5):
        try:
            decode_varint(b"\x01\x02", pos)
        except ValueError as e:
            assert str(e) == f"negative seek value {pos}", str(e)
        else:
            raise AssertionError("negative position accepted")

    # random buffers: every position, same outcome as the reference and as the
    # (unchanged) stream reader
    for _ in range(1500):
        n = rng.randrange(0, 24)
        style = rng.random()
        if style < 0.4:
            buf = bytes(rng.randrange(256) for _ in range(n))
        elif style < 0.7:
            buf = bytes(rng.choice((0x80, 0xFF, 0x81, 0x00, 0x7F)) for _ in range(n))
        else:
            buf = b"".join(
                encode_varint(rng.randrange(0, 1 << rng.randrange(1, 65)))
                for _ in range(rng.randrange(4))
            )
        for pos in range(len(buf) + 2):
            got = outcome_decode(buf, pos)
            assert got == ref_decode(buf, pos), (buf.hex(), pos, got)
            assert got == outcome_load(buf, pos)

    # walking over a concatenation of varints
    vals = [rng.randrange(0, 1 << rng.randrange(1, 65)) for _ in range(500)]
    buf = b"".join(map(encode_varint, vals))
    pos = 0
    for v in vals:
        got, pos = decode_varint(buf, pos)
        assert got == v
    assert pos == len(buf)
    # cut anywhere inside the last varint -> EOFError
    last = encode_varint((1 << 63) + 12345)
    for cut in range(len(last)):
        assert outcome_decode(last[:cut], 0) == ("eof",)


# --------------------------------------------------------------------------
# 3. messages and delimited streams
# --------------------------------------------------------------------------
@dataclass(eq=False, repr=False)
class Nums(betterproto.Message):
    a: int = betterproto.int32_field(1)
    b: int = betterproto.int64_field(2)
    c: int = betterproto.uint64_field(3)
    d: int = betterproto.sint64_field(4)
    e: bool = betterproto.bool_field(5)
    ra: List[int] = betterproto.int32_field(6)
    rb: List[int] = betterproto.int64_field(7)
    rc: List[int] = betterproto.uint64_field(8)
    rd: List[int] = betterproto.sint64_field(9)
    re: List[bool] = betterproto.bool_field(10)
    rcol: List[Color] = betterproto.enum_field(11)
    blob: bytes = betterproto.bytes_field(15)
    far: int = betterproto.uint32_field(16)  # two-byte tag
    farther: str = betterproto.string_field(2047)  # two-byte tag, largest
    farthest: int = betterproto.int32_field(2048)  # three-byte tag
    maxnum: int = betterproto.sint32_field(536870911)  # five-byte tag


@dataclass(eq=False, repr=False)
class Blob(betterproto.Message):
    data: bytes = betterproto.bytes_field(1)


@dataclass(eq=False, repr=False)
class Empty(betterproto.Message):
    pass


def _g_nums():
    F = descriptor_pb2.FieldDescriptorProto
    fd = descriptor_pb2.FileDescriptorProto()
    fd.name, fd.package, fd.syntax = "c10_keep2.proto", "c10k2", "proto3"
    en = fd.enum_type.add()
    en.name = "Color"
    for n, v in (("ZERO", 0), ("ONE", 1), ("BIG", 300), ("NEG", -3)):
        ev = en.value.add()
        ev.name, ev.number = n, v
    m = fd.message_type.add()
    m.name = "Nums"
    spec = [
        ("a", 1, F.TYPE_INT32, 0), ("b", 2, F.TYPE_INT64, 0), ("c", 3, F.TYPE_UINT64, 0),
        ("d", 4, F.TYPE_SINT64, 0), ("e", 5, F.TYPE_BOOL, 0),
        ("ra", 6, F.TYPE_INT32, 1), ("rb", 7, F.TYPE_INT64, 1), ("rc", 8, F.TYPE_UINT64, 1),
        ("rd", 9, F.TYPE_SINT64, 1), ("re", 10, F.TYPE_BOOL, 1), ("rcol", 11, F.TYPE_ENUM, 1),
        ("blob", 15, F.TYPE_BYTES, 0), ("far", 16, F.TYPE_UINT32, 0),
        ("farther", 2047, F.TYPE_STRING, 0), ("farthest", 2048, F.TYPE_INT32, 0),
        ("maxnum", 536870911, F.TYPE_SINT32, 0),
    ]
    for name, num, typ, rep in spec:
        f = m.field.add()
        f.name, f.number, f.type = name, num, typ
        f.label = F.LABEL_REPEATED if rep else F.LABEL_OPTIONAL
        if typ == F.TYPE_ENUM:
            f.type_name = ".c10k2.Color"
    pool = descriptor_pool.DescriptorPool()
    pool.Add(fd)
    return message_factory.GetMessageClass(pool.FindMessageTypeByName("c10k2.Nums"))


GNums = _g_nums()

I32 = [0, 1, -1, 127, 128, 16383, 16384, 2**31 - 1, -(2**31)]
I64 = [0, 1, -1, 2**35, -(2**35), 2**63 - 1, -(2**63)]
U64 = [0, 1, 127, 128, 2**32, 2**63, 2**64 - 1]
S64 = [0, -1, 1, -64, 63, 64, -65, 2**62, -(2**62) - 1, 2**63 - 1, -(2**63)]


def random_nums(rng):
    kw = {}
    pick = rng.choice
    opts = {
        "a": lambda: pick(I32), "b": lambda: pick(I64), "c": lambda: pick(U64),
        "d": lambda: pick(S64), "e": lambda: True,
        "ra": lambda: [pick(I32) for _ in range(rng.randrange(1, 30))],
        "rb": lambda: [pick(I64) for _ in range(rng.randrange(1, 20))],
        "rc": lambda: [pick(U64) for _ in range(rng.randrange(1, 20))],
        "rd": lambda: [pick(S64) for _ in range(rng.randrange(1, 20))],
        "re": lambda: [pick((True, False)) for _ in range(rng.randrange(1, 5))],
        "rcol": lambda: [pick((0, 1, 300, -3, 77)) for _ in range(rng.randrange(1, 5))],
        "blob": lambda: bytes(rng.randrange(256) for _ in range(pick((0, 1, 100, 127, 128, 300)))),
        "far": lambda: pick((0, 1, 2**32 - 1)),
        "farther": lambda: pick(("", "x", "é" * 70)),
        "farthest": lambda: pick(I32),
        "maxnum": lambda: pick((1, -1, 2**31 - 1, -(2**31))),
    }
    for name in rng.sample(sorted(opts), rng.randrange(0, 8)):
        kw[name] = opts[name]()
    return kw


def make(kw):
    bp_kw = dict(kw)
    if "rcol" in bp_kw:
        bp_kw["rcol"] = [Color.try_value(x) for x in bp_kw["rcol"]]
    return Nums(**bp_kw), GNums(**kw)


def check_messages():
    rng = random.Random(12)
    pairs = [make(random_nums(rng)) for _ in range(300)]
    pairs.append(make({"ra": I32, "rb": I64, "rc": U64, "rd": S64}))
    for bp, g in pairs:
        data = bytes(bp)
        assert len(bp) == len(data)
        parsed = GNums()
        parsed.ParseFromString(data)
        assert parsed == g
        assert Nums().parse(g.SerializeToString()) == bp
        assert Nums().parse(data) == bp

    # tags of large field numbers
    assert bytes(Nums(far=1)) == bytes.fromhex("800101")
    assert bytes(Nums(farther="x")) == bytes.fromhex("fa7f0178")
    assert bytes(Nums(farthest=1)) == bytes.fromhex("80800101")
    assert bytes(Nums(maxnum=-1)) == bytes.fromhex("f8ffffff0f01")
    assert bytes(Nums(ra=[-1, 300])) == bytes.fromhex("320c" + "ff" * 9 + "01" + "ac02")

    # a packed payload that ends inside a varint is rejected
    for payload in (b"\x80", b"\x01\x80", b"\xff" * 9, b"\x05\xac"):
        raw = b"\x32" + encode_varint(len(payload)) + payload
        try:
            Nums().parse(raw)
        except EOFError as e:
            assert str(e) == EOF_MSG
        else:
            raise AssertionError("truncated packed varint accepted")
        s = io.BytesIO(encode_varint(len(raw)) + raw)
        try:
            Nums().load(s, SIZE_DELIMITED)
        except EOFError:
            pass
        else:
            raise AssertionError("truncated packed varint accepted")
    # ... and an over-long varint in it as well
    payload = b"\xff" * 10 + b"\x01"
    try:
        Nums().parse(b"\x32" + encode_varint(len(payload)) + payload)
    except ValueError as e:
        assert str(e) == TOO_MANY
    else:
        raise AssertionError("over-long packed varint accepted")

    return pairs


def check_streams(pairs):
    rng = random.Random(13)
    # length prefixes around the varint size boundaries
    for n in (0, 1, 124, 125, 126, 127, 128, 129, 16380, 16381, 16382, 16383, 16384, 20000):
        b = Blob(data=b"\xab" * n)
        total = len(bytes(b))
        assert len(b) == total
        s = io.BytesIO()
        b.dump(s, SIZE_DELIMITED)
        Empty().dump(s, SIZE_DELIMITED)
        b.dump(s, SIZE_DELIMITED)
        frame = ref_encode(total) + bytes(b)
        assert s.getvalue() == frame + b"\x00" + frame
        s.seek(0)
        assert Blob().load(s, SIZE_DELIMITED) == b and s.tell() == len(frame)
        assert Empty().load(s, SIZE_DELIMITED) == Empty() and s.tell() == len(frame) + 1
        assert Blob().load(s, SIZE_DELIMITED) == b and s.read() == b""
    # payload sizes that make the *message* exactly 127 / 128 / 16383 / 16384 bytes long
    for total in (127, 128, 16383, 16384):
        for n in range(total - 4, total):
            b = Blob(data=b"z" * n)
            if len(bytes(b)) == total:
                s = io.BytesIO()
                b.dump(s, SIZE_DELIMITED)
                assert s.getvalue()[: len(ref_encode(total))] == ref_encode(total)
                assert len(s.getvalue()) == total + len(ref_encode(total))
                break
        else:
            raise AssertionError(total)

    for _ in range(40):
        items = []
        for _ in range(rng.randrange(1, 6)):
            items.append(rng.choice(pairs))
            if rng.random() < 0.3:
                items.append((Empty(), None))
        out = io.BytesIO()
        ends = []
        for bp, _g in items:
            bp.dump(out, SIZE_DELIMITED)
            ends.append(out.tell())
        data = out.getvalue()
        assert data == b"".join(ref_encode(len(bytes(bp))) + bytes(bp) for bp, _ in items)

        # google reads the stream, and writes the same framing
        s = io.BytesIO(data)
        gout = io.BytesIO()
        for (bp, g), end in zip(items, ends):
            if g is None:
                assert s.read(1) == b"\x00"
                gout.write(b"\x00")
                continue
            assert proto.parse_length_prefixed(GNums, s) == g
            assert s.tell() == end
            proto.serialize_length_prefixed(g, gout)
        s = io.BytesIO(gout.getvalue())
        for bp, g in items:
            assert type(bp)().load(s, SIZE_DELIMITED) == bp
        assert s.read() == b""

        # intact + all cuts (sampled when long); readers: same schema and Empty
        for reader_of in (type, lambda m: Empty):
            cuts = list(range(len(data) + 1))
            if len(cuts) > 260:
                cuts = sorted(set(rng.sample(cuts, 200)) | set(ends) | {e - 1 for e in ends} | {0, len(data)})
            for cut in cuts:
                s = io.BytesIO(data[:cut])
                for (bp, _g), end in zip(items, ends):
                    cls = reader_of(bp)
                    try:
                        got = cls().load(s, SIZE_DELIMITED)
                    except (EOFError, ValueError):
                        assert cut < end
                        break
                    assert cut >= end and s.tell() == end
                    want = cls().parse(bytes(bp))
                    assert got == want and bytes(got) == bytes(want) == bytes(bp)


check_encode()
check_decode()
PAIRS = check_messages()
check_streams(PAIRS)
print("ok")
