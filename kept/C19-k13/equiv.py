"""C19 keep1 equivalence check: to_dict / to_pydict keys, key order, values and the
from_dict / from_pydict round trip, for many field names, field kinds, both casings and
both include_default_values settings. All expectations are computed independently of
the code under test (or are literals), so the script passes on any correct tree.
"""
import dataclasses
import itertools
import keyword
from datetime import datetime, timedelta, timezone
from typing import Dict, List, Optional

import betterproto
from betterproto import Casing
from betterproto.casing import camel_case, safe_snake_case, snake_case


def make(name, fields):
    return dataclasses.make_dataclass(
        name, fields, bases=(betterproto.Message,), eq=False, repr=False
    )


def key_of(casing, field_name):
    fn = camel_case if casing is Casing.CAMEL else snake_case
    return fn(field_name).rstrip("_")


CASINGS = (Casing.CAMEL, Casing.SNAKE)

# ------------------------------------------------------------------ field names
ALPHABET = "abAB1_"
proto_names = [
    "".join(t)
    for n in range(1, 5)
    for t in itertools.product(ALPHABET, repeat=n)
    if not t[0].isdigit()
]
proto_names += keyword.kwlist + list(keyword.softkwlist)
proto_names += [
    "address_line_1", "address_line1", "ipv4_address", "x_y_z", "x_yz", "HTTPStatus",
    "fooBar", "FooBar", "foo__bar", "_foo", "foo_", "int", "str", "bytes", "list",
    "type", "self", "cls", "value", "key", "UInt32", "a1b2", "http2_xx", "HTTP2xx",
]
field_names = sorted({safe_snake_case(p) for p in proto_names})
assert all(f.isidentifier() and not keyword.iskeyword(f) for f in field_names)
print(len(proto_names), "proto names ->", len(field_names), "python field names")

# ------------------------------------------------------------------ 1. single scalar field
checked = 0
for i, fname in enumerate(field_names):
    cls = make(f"S{i}", [(fname, int, betterproto.int32_field(1))])
    for casing in CASINGS:
        key = key_of(casing, fname)
        msg = cls(**{fname: 7})
        assert msg.to_dict(casing) == {key: 7}, (fname, msg.to_dict(casing))
        assert msg.to_pydict(casing) == {key: 7}, (fname, msg.to_pydict(casing))
        assert cls().to_dict(casing) == {}
        assert cls().to_pydict(casing) == {}
        assert cls().to_dict(casing, include_default_values=True) == {key: 0}
        assert cls().to_pydict(casing, include_default_values=True) == {key: 0}
        # round trip of the emitted key
        for parsed in (
            cls.from_dict(msg.to_dict(casing)),
            cls().from_dict(msg.to_dict(casing)),
            cls().from_pydict(msg.to_pydict(casing)),
        ):
            assert getattr(parsed, fname) == 7, (fname, casing)
        checked += 1
print("single-field classes:", checked)

# ------------------------------------------------------------------ 2. all kinds of fields
class Colour(betterproto.Enum):
    ZERO = 0
    RED = 1


@dataclasses.dataclass(eq=False, repr=False)
class Inner(betterproto.Message):
    address_line_1: str = betterproto.string_field(1)
    x_y_z: int = betterproto.int64_field(2)
    class_: bool = betterproto.bool_field(3)


KINDS = [
    # (suffix, annotation, field factory, set value, JSON for camel, JSON for snake, pydict camel, pydict snake)
    ("i32", int, lambda n: betterproto.int32_field(n), 5),
    ("i64", int, lambda n: betterproto.int64_field(n), 2**40),
    ("s", str, lambda n: betterproto.string_field(n), "txt"),
    ("by", bytes, lambda n: betterproto.bytes_field(n), b"\x00\xff"),
    ("fl", float, lambda n: betterproto.double_field(n), 1.5),
    ("b", bool, lambda n: betterproto.bool_field(n), True),
    ("en", Colour, lambda n: betterproto.enum_field(n), Colour.RED),
    ("msg", Inner, lambda n: betterproto.message_field(n), Inner("a", 3, True)),
    ("rmsg", List[Inner], lambda n: betterproto.message_field(n), [Inner("b"), Inner(x_y_z=4)]),
    ("ri64", List[int], lambda n: betterproto.int64_field(n), [1, 2]),
    ("ren", List[Colour], lambda n: betterproto.enum_field(n), [Colour.RED, Colour.ZERO]),
    ("ts", datetime, lambda n: betterproto.message_field(n), datetime(2020, 1, 2, 3, 4, 5, tzinfo=timezone.utc)),
    ("du", timedelta, lambda n: betterproto.message_field(n), timedelta(seconds=3, microseconds=500000)),
    ("wr", Optional[int], lambda n: betterproto.message_field(n, wraps=betterproto.TYPE_INT32), 9),
    ("mp", Dict[str, Inner], lambda n: betterproto.map_field(n, betterproto.TYPE_STRING, betterproto.TYPE_MESSAGE), {"k": Inner(class_=True)}),
    ("mi", Dict[int, int], lambda n: betterproto.map_field(n, betterproto.TYPE_INT64, betterproto.TYPE_INT64), {1: 2}),
    ("opt", Optional[int], lambda n: betterproto.int32_field(n, optional=True), 0),
    ("omsg", Optional[Inner], lambda n: betterproto.message_field(n, optional=True), Inner()),
    ("one_a", int, lambda n: betterproto.int32_field(n, group="grp"), 0),
]

EXPECT_JSON = {  # value -> JSON form, per casing where it matters
    "i32": lambda c: 5,
    "i64": lambda c: str(2**40),
    "s": lambda c: "txt",
    "by": lambda c: "AP8=",
    "fl": lambda c: 1.5,
    "b": lambda c: True,
    "en": lambda c: "RED",
    "msg": lambda c: {key_of(c, "address_line_1"): "a", key_of(c, "x_y_z"): "3", "class": True},
    "rmsg": lambda c: [{key_of(c, "address_line_1"): "b"}, {key_of(c, "x_y_z"): "4"}],
    "ri64": lambda c: ["1", "2"],
    "ren": lambda c: ["RED", "ZERO"],
    "ts": lambda c: "2020-01-02T03:04:05Z",
    "du": lambda c: "3.500s",
    "wr": lambda c: 9,
    "mp": lambda c: {"k": {"class": True}},
    "mi": lambda c: {1: "2"},
    "opt": lambda c: 0,
    "omsg": lambda c: {},
    "one_a": lambda c: 0,
}

prefixes = ["address_line_1", "x_y_z", "class_", "ipv4", "http_status", "a_1", "_1", "b"]
for prefix in prefixes:
    specs = []
    values = {}
    for n, (suffix, ann, factory, value) in enumerate(KINDS, start=1):
        fname = safe_snake_case(f"{prefix}_{suffix}")
        specs.append((fname, ann, factory(n)))
        values[fname] = (suffix, value)
    cls = make("K_" + prefix.strip("_"), specs)
    full = cls(**{f: v for f, (_, v) in values.items()})
    empty = cls()
    for casing in CASINGS:
        got = full.to_dict(casing)
        want = {key_of(casing, f): EXPECT_JSON[s](casing) for f, (s, _) in values.items()}
        assert got == want, (prefix, casing, got, want)
        assert list(got) == list(want), "key order follows field declaration order"
        py = full.to_pydict(casing)
        assert list(py) == list(want), (list(py), list(want))
        assert py[key_of(casing, safe_snake_case(prefix + "_ts"))] == values[safe_snake_case(prefix + "_ts")][1]
        assert py[key_of(casing, safe_snake_case(prefix + "_i64"))] == 2**40
        assert py[key_of(casing, safe_snake_case(prefix + "_by"))] == b"\x00\xff"
        # defaults
        assert empty.to_dict(casing) == {}
        assert empty.to_pydict(casing) == {}
        for incl in (empty.to_dict(casing, True), empty.to_pydict(casing, True)):
            assert list(incl) == [key_of(casing, f) for f in values], (prefix, list(incl))
        # round trips
        # (from_pydict cannot fill an unset optional message field, on any tree, so the
        # pydict round trip leaves that key out and sets the field by hand)
        omsg_key = key_of(casing, safe_snake_case(prefix + "_omsg"))
        py_in = {k: v for k, v in py.items() if k != omsg_key}
        via_pydict = cls().from_pydict(py_in)
        setattr(via_pydict, safe_snake_case(prefix + "_omsg"), Inner())
        for back in (cls.from_dict(got), cls().from_dict(got), via_pydict):
            assert back.to_dict(casing) == got, (prefix, casing)
            assert back.to_pydict(casing) == py, (prefix, casing)
            assert bytes(back) == bytes(full)
        # JSON text too
        assert cls().from_json(full.to_json(casing=casing)).to_dict(casing) == got
print("multi-kind classes:", len(prefixes))

# ------------------------------------------------------------------ 3. colliding keys
@dataclasses.dataclass(eq=False, repr=False)
class Collide(betterproto.Message):
    address_line_1: int = betterproto.int32_field(1)
    other: int = betterproto.int32_field(2)
    address_line1: int = betterproto.int32_field(3)
    x_y_z: str = betterproto.string_field(4)
    xyz: str = betterproto.string_field(5)


c = Collide(1, 2, 3, "u", "v")
# both fields are emitted under addressLine1: the later one wins, at the first position
assert c.to_dict() == {"addressLine1": 3, "other": 2, "xYZ": "u", "xyz": "v"}
assert list(c.to_dict()) == ["addressLine1", "other", "xYZ", "xyz"]
assert c.to_pydict() == {"addressLine1": 3, "other": 2, "xYZ": "u", "xyz": "v"}
assert list(c.to_pydict()) == ["addressLine1", "other", "xYZ", "xyz"]
assert c.to_dict(Casing.SNAKE) == {
    "address_line_1": 1, "other": 2, "address_line1": 3, "x_y_z": "u", "xyz": "v",
}
assert list(c.to_dict(Casing.SNAKE)) == ["address_line_1", "other", "address_line1", "x_y_z", "xyz"]
assert Collide(address_line_1=1).to_dict() == {"addressLine1": 1}
assert Collide(address_line1=3).to_dict() == {"addressLine1": 3}
assert Collide(address_line1=3).to_dict(include_default_values=True) == {
    "addressLine1": 3, "other": 0, "xYZ": "", "xyz": "",
}
assert list(Collide().to_pydict(include_default_values=True)) == ["addressLine1", "other", "xYZ", "xyz"]

# a field whose cased key is the python name of another field
@dataclasses.dataclass(eq=False, repr=False)
class Cross(betterproto.Message):
    a_1: int = betterproto.int32_field(1)
    a1: int = betterproto.int32_field(2)
    class_: int = betterproto.int32_field(3)


assert Cross(1, 2, 3).to_dict() == {"a1": 2, "class": 3}
assert Cross(1, 0, 3).to_dict() == {"a1": 1, "class": 3}
assert Cross(1, 2, 3).to_dict(Casing.SNAKE) == {"a_1": 1, "a1": 2, "class": 3}
assert Cross(1, 2, 3).to_pydict() == {"a1": 2, "class": 3}
assert list(Cross(1, 2, 3).to_dict()) == ["a1", "class"]

# ------------------------------------------------------------------ 4. a custom casing callable
def shout(name: str) -> str:
    return name.upper() + "__"


assert Inner("q", 1, True).to_dict(shout) == {"ADDRESS_LINE_1": "q", "X_Y_Z": "1", "CLASS": True}
assert Inner("q", 1, True).to_pydict(shout) == {"ADDRESS_LINE_1": "q", "X_Y_Z": 1, "CLASS": True}

# ------------------------------------------------------------------ 5. well-known types shipped with the library
from betterproto.lib.google.protobuf import FieldMask, Struct, Value

s = Struct(fields={"some_key": Value(number_value=1.0), "otherKey": Value(string_value="x")})
# (Struct keeps its own keys verbatim; the Value messages below it are re-cased)
assert s.to_dict() == {
    "some_key": {"numberValue": 1.0}, "otherKey": {"stringValue": "x"},
}, s.to_dict()
assert s.to_dict(Casing.SNAKE) == {
    "some_key": {"number_value": 1.0}, "otherKey": {"string_value": "x"},
}, s.to_dict(Casing.SNAKE)
assert FieldMask(paths=["a_b"]).to_dict(include_default_values=True) == {"paths": ["a_b"]}

print("OK")
