"""Shared part of the C02 equivalence scripts (copied verbatim into each equiv.py).

A schema that covers every scalar type, repeated / packed fields, maps, a oneof,
proto3 optional fields, nested messages, Timestamp / Duration / wrappers and multi-byte
keys is defined twice: for google.protobuf (built from a FileDescriptorProto) and for
betterproto (hand written dataclasses).  Random + boundary values are pushed through
  D1  bytes(betterproto)            -> google.protobuf FromString
  D2  google.protobuf serialization -> betterproto parse
  D3  spec level re-encodings of the reference bytes (field permutation, packed <->
      unpacked, packed runs split into chunks, padded varints, duplicated singular /
      oneof records, interleaved unknown fields) -> betterproto parse
and the decoded messages are compared field by field, including presence.
"""
import math
import random
import struct
import sys
from dataclasses import dataclass
from datetime import datetime, timedelta, timezone
from typing import Dict, List, Optional

import betterproto
from google.protobuf import descriptor_pb2, descriptor_pool, message_factory
from google.protobuf import duration_pb2, timestamp_pb2, wrappers_pb2  # noqa: F401

PKG = "c02equiv" + "".join(random.Random().choice("abcdefghij") for _ in range(6))
F = descriptor_pb2.FieldDescriptorProto
T = {
    "int32": F.TYPE_INT32, "int64": F.TYPE_INT64, "uint32": F.TYPE_UINT32,
    "uint64": F.TYPE_UINT64, "sint32": F.TYPE_SINT32, "sint64": F.TYPE_SINT64,
    "bool": F.TYPE_BOOL, "enum": F.TYPE_ENUM, "fixed32": F.TYPE_FIXED32,
    "fixed64": F.TYPE_FIXED64, "sfixed32": F.TYPE_SFIXED32, "sfixed64": F.TYPE_SFIXED64,
    "float": F.TYPE_FLOAT, "double": F.TYPE_DOUBLE, "string": F.TYPE_STRING,
    "bytes": F.TYPE_BYTES,
}
VARINT_T = ("int32", "int64", "uint32", "uint64", "sint32", "sint64", "bool", "enum")
FIX32_T = ("fixed32", "sfixed32", "float")
FIX64_T = ("fixed64", "sfixed64", "double")
MAXNUM = 536870911

# (name, number, kind, type, extra)  kind: s singular, r repeated, o oneof, p optional,
#                                          m map (type=(ktype, vtype)), x special message
SUB_FIELDS = [
    ("x", 1, "s", "int32"), ("s", 2, "s", "string"), ("r", 3, "r", "sint64"),
]
ALL_FIELDS = [
    ("i32", 1, "s", "int32"), ("i64", 2, "s", "int64"), ("u32", 3, "s", "uint32"),
    ("u64", 4, "s", "uint64"), ("s32", 5, "s", "sint32"), ("s64", 6, "s", "sint64"),
    ("b", 7, "s", "bool"), ("e", 8, "s", "enum"), ("f32", 9, "s", "fixed32"),
    ("f64", 10, "s", "fixed64"), ("sf32", 11, "s", "sfixed32"),
    ("sf64", 12, "s", "sfixed64"), ("fl", 13, "s", "float"), ("db", 14, "s", "double"),
    ("st", 15, "s", "string"), ("by", 16, "s", "bytes"), ("sub", 17, "s", "Sub"),
    ("ri32", 18, "r", "int32"), ("rs32", 19, "r", "sint32"), ("rb", 20, "r", "bool"),
    ("re", 21, "r", "enum"), ("rf32", 22, "r", "fixed32"), ("rdb", 23, "r", "double"),
    ("rst", 24, "r", "string"), ("rby", 25, "r", "bytes"), ("rsub", 26, "r", "Sub"),
    ("ru64", 27, "r", "uint64"), ("rsf64", 28, "r", "sfixed64"),
    ("rfl", 29, "r", "float"), ("ri64", 2047, "r", "int64"),
    ("ru32", 2048, "r", "uint32"), ("rs64", 300000, "r", "sint64"),
    ("m_si", 30, "m", ("string", "int32")), ("m_is", 31, "m", ("int64", "string")),
    ("m_bs", 32, "m", ("bool", "Sub")), ("m_se", 33, "m", ("sint32", "enum")),
    ("m_fd", 34, "m", ("fixed64", "double")), ("m_sb", 35, "m", ("string", "bytes")),
    ("o_i", 40, "o", "int32"), ("o_s", 41, "o", "string"), ("o_sub", 42, "o", "Sub"),
    ("o_b", 43, "o", "bool"), ("o_by", 44, "o", "bytes"), ("o_e", 45, "o", "enum"),
    ("o_db", 46, "o", "double"),
    ("opt_i", 50, "p", "int32"), ("opt_s", 51, "p", "string"), ("opt_b", 52, "p", "bool"),
    ("opt_f", 53, "p", "float"), ("opt_e", 54, "p", "enum"),
    ("ts", 60, "x", "Timestamp"), ("du", 61, "x", "Duration"),
    ("w_i", 62, "x", "Int32Value"), ("w_s", 63, "x", "StringValue"),
    ("w_b", 64, "x", "BoolValue"), ("w_d", 65, "x", "DoubleValue"),
    ("w_u", 66, "x", "UInt64Value"), ("w_by", 67, "x", "BytesValue"),
    ("big", MAXNUM, "s", "int32"),
]
WRAP_SCALAR = {"Int32Value": "int32", "StringValue": "string", "BoolValue": "bool",
               "DoubleValue": "double", "UInt64Value": "uint64", "BytesValue": "bytes"}
SCHEMA = {"Sub": SUB_FIELDS, "All": ALL_FIELDS}


# ------------------------------------------------------------------ reference schema
def _build_reference():
    fdp = descriptor_pb2.FileDescriptorProto(
        name=PKG + ".proto", package=PKG, syntax="proto3")
    for dep in ("timestamp", "duration", "wrappers"):
        fdp.dependency.append(f"google/protobuf/{dep}.proto")
    en = fdp.enum_type.add(name="Color")
    for n, v in (("ZERO", 0), ("RED", 1), ("BLUE", 2), ("NEG", -1), ("BIG", 2**31 - 1)):
        en.value.add(name=n, number=v)

    def set_type(fd, typ):
        if typ in T:
            fd.type = T[typ]
            if typ == "enum":
                fd.type_name = f".{PKG}.Color"
        elif typ == "Sub":
            fd.type, fd.type_name = F.TYPE_MESSAGE, f".{PKG}.Sub"
        else:
            fd.type, fd.type_name = F.TYPE_MESSAGE, f".google.protobuf.{typ}"

    for mname, fields in SCHEMA.items():
        md = fdp.message_type.add(name=mname)
        if any(k == "o" for _, _, k, _ in fields):
            md.oneof_decl.add(name="choice")
        for name, number, kind, typ in fields:
            if kind == "p":
                md.oneof_decl.add(name="_" + name)
        n_syn = len(md.oneof_decl) - sum(1 for f in fields if f[2] == "p")
        for name, number, kind, typ in fields:
            fd = md.field.add(name=name, number=number, label=F.LABEL_OPTIONAL)
            if kind == "m":
                ename = "".join(p.capitalize() for p in name.split("_")) + "Entry"
                ed = md.nested_type.add(name=ename)
                ed.options.map_entry = True
                set_type(ed.field.add(name="key", number=1, label=F.LABEL_OPTIONAL), typ[0])
                set_type(ed.field.add(name="value", number=2, label=F.LABEL_OPTIONAL), typ[1])
                fd.type, fd.type_name = F.TYPE_MESSAGE, f".{PKG}.{mname}.{ename}"
                fd.label = F.LABEL_REPEATED
                continue
            set_type(fd, typ)
            if kind == "r":
                fd.label = F.LABEL_REPEATED
            elif kind == "o":
                fd.oneof_index = 0
            elif kind == "p":
                fd.proto3_optional = True
                fd.oneof_index = n_syn
                n_syn += 1
    pool = descriptor_pool.Default()
    pool.Add(fdp)
    return {m: message_factory.GetMessageClass(pool.FindMessageTypeByName(f"{PKG}.{m}"))
            for m in SCHEMA}


REF = _build_reference()


# ---------------------------------------------------------------- betterproto schema
class Color(betterproto.Enum):
    ZERO = 0
    RED = 1
    BLUE = 2
    NEG = -1
    BIG = 2**31 - 1


@dataclass(eq=False, repr=False)
class Sub(betterproto.Message):
    x: int = betterproto.int32_field(1)
    s: str = betterproto.string_field(2)
    r: List[int] = betterproto.sint64_field(3)


@dataclass(eq=False, repr=False)
class All(betterproto.Message):
    i32: int = betterproto.int32_field(1)
    i64: int = betterproto.int64_field(2)
    u32: int = betterproto.uint32_field(3)
    u64: int = betterproto.uint64_field(4)
    s32: int = betterproto.sint32_field(5)
    s64: int = betterproto.sint64_field(6)
    b: bool = betterproto.bool_field(7)
    e: Color = betterproto.enum_field(8)
    f32: int = betterproto.fixed32_field(9)
    f64: int = betterproto.fixed64_field(10)
    sf32: int = betterproto.sfixed32_field(11)
    sf64: int = betterproto.sfixed64_field(12)
    fl: float = betterproto.float_field(13)
    db: float = betterproto.double_field(14)
    st: str = betterproto.string_field(15)
    by: bytes = betterproto.bytes_field(16)
    sub: Sub = betterproto.message_field(17)
    ri32: List[int] = betterproto.int32_field(18)
    rs32: List[int] = betterproto.sint32_field(19)
    rb: List[bool] = betterproto.bool_field(20)
    re: List[Color] = betterproto.enum_field(21)
    rf32: List[int] = betterproto.fixed32_field(22)
    rdb: List[float] = betterproto.double_field(23)
    rst: List[str] = betterproto.string_field(24)
    rby: List[bytes] = betterproto.bytes_field(25)
    rsub: List[Sub] = betterproto.message_field(26)
    ru64: List[int] = betterproto.uint64_field(27)
    rsf64: List[int] = betterproto.sfixed64_field(28)
    rfl: List[float] = betterproto.float_field(29)
    ri64: List[int] = betterproto.int64_field(2047)
    ru32: List[int] = betterproto.uint32_field(2048)
    rs64: List[int] = betterproto.sint64_field(300000)
    m_si: Dict[str, int] = betterproto.map_field(
        30, betterproto.TYPE_STRING, betterproto.TYPE_INT32)
    m_is: Dict[int, str] = betterproto.map_field(
        31, betterproto.TYPE_INT64, betterproto.TYPE_STRING)
    m_bs: Dict[bool, Sub] = betterproto.map_field(
        32, betterproto.TYPE_BOOL, betterproto.TYPE_MESSAGE)
    m_se: Dict[int, Color] = betterproto.map_field(
        33, betterproto.TYPE_SINT32, betterproto.TYPE_ENUM)
    m_fd: Dict[int, float] = betterproto.map_field(
        34, betterproto.TYPE_FIXED64, betterproto.TYPE_DOUBLE)
    m_sb: Dict[str, bytes] = betterproto.map_field(
        35, betterproto.TYPE_STRING, betterproto.TYPE_BYTES)
    o_i: int = betterproto.int32_field(40, group="choice")
    o_s: str = betterproto.string_field(41, group="choice")
    o_sub: Sub = betterproto.message_field(42, group="choice")
    o_b: bool = betterproto.bool_field(43, group="choice")
    o_by: bytes = betterproto.bytes_field(44, group="choice")
    o_e: Color = betterproto.enum_field(45, group="choice")
    o_db: float = betterproto.double_field(46, group="choice")
    opt_i: Optional[int] = betterproto.int32_field(50, optional=True)
    opt_s: Optional[str] = betterproto.string_field(51, optional=True)
    opt_b: Optional[bool] = betterproto.bool_field(52, optional=True)
    opt_f: Optional[float] = betterproto.float_field(53, optional=True)
    opt_e: Optional[Color] = betterproto.enum_field(54, optional=True)
    ts: datetime = betterproto.message_field(60)
    du: timedelta = betterproto.message_field(61)
    w_i: Optional[int] = betterproto.message_field(62, wraps=betterproto.TYPE_INT32)
    w_s: Optional[str] = betterproto.message_field(63, wraps=betterproto.TYPE_STRING)
    w_b: Optional[bool] = betterproto.message_field(64, wraps=betterproto.TYPE_BOOL)
    w_d: Optional[float] = betterproto.message_field(65, wraps=betterproto.TYPE_DOUBLE)
    w_u: Optional[int] = betterproto.message_field(66, wraps=betterproto.TYPE_UINT64)
    w_by: Optional[bytes] = betterproto.message_field(67, wraps=betterproto.TYPE_BYTES)
    big: int = betterproto.int32_field(MAXNUM)


BP = {"Sub": Sub, "All": All}
EPOCH = datetime(1970, 1, 1, tzinfo=timezone.utc)
US = timedelta(microseconds=1)


# ------------------------------------------------------------------ value generation
def f32(x):
    return struct.unpack("<f", struct.pack("<f", x))[0]


BOUNDS = {
    "int32": [0, 1, -1, 127, 128, 2**31 - 1, -(2**31), 16383, 16384],
    "int64": [0, 1, -1, 2**63 - 1, -(2**63), 2**31, -(2**31) - 1, 2**56],
    "uint32": [0, 1, 127, 128, 2**32 - 1, 2**31],
    "uint64": [0, 1, 2**64 - 1, 2**63, 2**32, 2**56 - 1],
    "sint32": [0, 1, -1, 63, -64, 64, 2**31 - 1, -(2**31)],
    "sint64": [0, 1, -1, 2**63 - 1, -(2**63), 2**31, -(2**31) - 1],
    "bool": [False, True],
    "enum": [0, 1, 2, -1, 2**31 - 1, 77, -(2**31)],
    "fixed32": [0, 1, 2**32 - 1, 2**31],
    "fixed64": [0, 1, 2**64 - 1, 2**63],
    "sfixed32": [0, 1, -1, 2**31 - 1, -(2**31)],
    "sfixed64": [0, 1, -1, 2**63 - 1, -(2**63)],
    "float": [0.0, 1.5, -2.25, float("inf"), float("-inf"), float("nan"),
              f32(3.4e38), f32(1e-45), f32(0.1)],
    "double": [0.0, 1.5, -2.25, float("inf"), float("-inf"), float("nan"),
               1.7976931348623157e308, 5e-324, 0.1, 2.0**53 + 2],
    "string": ["", "a", "héllo", "日本語", "\U0001f600 emoji", "x" * 127, "y" * 128,
               "z" * 300, "\x00nul"],
    "bytes": [b"", b"\x00", b"\xff\xfe", bytes(range(256)), b"q" * 127, b"q" * 128],
}
RANGES = {
    "int32": (-(2**31), 2**31 - 1), "int64": (-(2**63), 2**63 - 1),
    "uint32": (0, 2**32 - 1), "uint64": (0, 2**64 - 1),
    "sint32": (-(2**31), 2**31 - 1), "sint64": (-(2**63), 2**63 - 1),
    "fixed32": (0, 2**32 - 1), "fixed64": (0, 2**64 - 1),
    "sfixed32": (-(2**31), 2**31 - 1), "sfixed64": (-(2**63), 2**63 - 1),
}


def gen_scalar(rng, typ, nonzero_ok=True):
    if rng.random() < 0.5:
        return rng.choice(BOUNDS[typ])
    if typ in RANGES:
        lo, hi = RANGES[typ]
        if rng.random() < 0.5:
            return rng.randint(max(lo, -300), min(hi, 300))
        return rng.randint(lo, hi)
    if typ == "bool":
        return rng.random() < 0.5
    if typ == "enum":
        return rng.choice([0, 1, 2, -1, rng.randint(-1000, 1000)])
    if typ == "float":
        return f32(rng.uniform(-1e6, 1e6))
    if typ == "double":
        return rng.uniform(-1e12, 1e12)
    if typ == "string":
        return "".join(rng.choice("abc é日\U0001f600") for _ in range(rng.randint(0, 12)))
    if typ == "bytes":
        return bytes(rng.randrange(256) for _ in range(rng.randint(0, 12)))
    raise AssertionError(typ)


def gen_value(rng, typ, depth=0):
    if typ == "Sub":
        return gen_spec(rng, "Sub", depth + 1)
    return gen_scalar(rng, typ)


def gen_key(rng, typ):
    v = gen_scalar(rng, typ)
    return v


def gen_spec(rng, mname, depth=0):
    """A plain description of a message: {field name: value}; absent = not set."""
    spec = {}
    fields = SCHEMA[mname]
    density = rng.choice([0.15, 0.5, 0.9])
    oneofs = [f for f in fields if f[2] == "o"]
    for name, number, kind, typ in fields:
        if kind == "o" or rng.random() > density:
            continue
        if kind in ("s", "p"):
            spec[name] = gen_value(rng, typ, depth)
        elif kind == "r":
            n = rng.choice([0, 1, 2, 3, 8, 40]) if typ != "Sub" else rng.choice([0, 1, 3])
            spec[name] = [gen_value(rng, typ, depth) for _ in range(n)]
        elif kind == "m":
            n = rng.choice([0, 1, 2, 5])
            spec[name] = {gen_key(rng, typ[0]): gen_value(rng, typ[1], depth)
                          for _ in range(n)}
        elif typ == "Timestamp":
            us = rng.choice([0, 1, -1, 10**6, -(10**6) - 1, 253402300799999999,
                             -62135596800000000, rng.randint(-(10**15), 4 * 10**15)])
            spec[name] = EPOCH + us * US
        elif typ == "Duration":
            us = rng.choice([0, 1, -1, 1500000, -1500000, 10**6, -(10**6),
                             315576000000 * 10**6, -315576000000 * 10**6,
                             rng.randint(-(10**16), 10**16)])
            spec[name] = us * US
        else:
            spec[name] = gen_scalar(rng, WRAP_SCALAR[typ])
    if oneofs and rng.random() < 0.7:
        name, number, kind, typ = rng.choice(oneofs)
        spec[name] = gen_value(rng, typ, depth)
    if mname == "Sub" and not spec:
        spec["x"] = 0  # Sub(x=0): set, but nothing but defaults inside
    return spec


# ---------------------------------------------------------- spec -> messages, views
def to_bp(mname, spec):
    kwargs = {}
    for name, number, kind, typ in SCHEMA[mname]:
        if name not in spec:
            continue
        v = spec[name]
        if typ == "Sub":
            if kind == "r":
                v = [to_bp("Sub", s) for s in v]
            else:
                v = to_bp("Sub", v)
        elif kind == "m" and typ[1] == "Sub":
            v = {k: to_bp("Sub", s) for k, s in v.items()}
        elif kind == "m":
            v = dict(v)
        elif kind == "r":
            v = list(v)
        kwargs[name] = v
    return BP[mname](**kwargs)


def fill_ref(msg, mname, spec):
    msg.SetInParent()
    for name, number, kind, typ in SCHEMA[mname]:
        if name not in spec:
            continue
        v = spec[name]
        if kind == "m":
            target = getattr(msg, name)
            for k, item in v.items():
                if typ[1] == "Sub":
                    fill_ref(target[k], "Sub", item)
                else:
                    target[k] = item
        elif kind == "r":
            target = getattr(msg, name)
            for item in v:
                if typ == "Sub":
                    fill_ref(target.add(), "Sub", item)
                else:
                    target.append(item)
        elif typ == "Sub":
            fill_ref(getattr(msg, name), "Sub", v)
        elif typ == "Timestamp":
            getattr(msg, name).FromDatetime(v)
        elif typ == "Duration":
            getattr(msg, name).FromTimedelta(v)
        elif kind == "x":
            getattr(msg, name).SetInParent()
            getattr(msg, name).value = v
        else:
            setattr(msg, name, v)
    return msg


def to_ref(mname, spec):
    return fill_ref(REF[mname](), mname, spec)


def norm(v):
    if isinstance(v, float):
        return "nan" if math.isnan(v) else v
    if isinstance(v, bool):
        return v
    if isinstance(v, int):
        return int(v)
    return v


def view_ref(msg, mname):
    out = {}
    for name, number, kind, typ in SCHEMA[mname]:
        if kind == "m":
            out[name] = {norm(k): (view_ref(v, "Sub") if typ[1] == "Sub" else norm(v))
                         for k, v in getattr(msg, name).items()}
        elif kind == "r":
            out[name] = [view_ref(v, "Sub") if typ == "Sub" else norm(v)
                         for v in getattr(msg, name)]
        elif kind == "o":
            continue
        elif kind == "p":
            out[name] = norm(getattr(msg, name)) if msg.HasField(name) else None
        elif typ == "Sub":
            out[name] = view_ref(getattr(msg, name), "Sub") if msg.HasField(name) else None
        elif typ == "Timestamp":
            ts = getattr(msg, name)
            assert ts.nanos % 1000 == 0
            out[name] = ts.seconds * 10**6 + ts.nanos // 1000
        elif typ == "Duration":
            du = getattr(msg, name)
            assert du.nanos % 1000 == 0
            assert du.seconds * du.nanos >= 0, ("Duration of mixed sign", du)
            out[name] = du.seconds * 10**6 + du.nanos // 1000
        elif kind == "x":
            out[name] = norm(getattr(msg, name).value) if msg.HasField(name) else None
        else:
            out[name] = norm(getattr(msg, name))
    if any(f[2] == "o" for f in SCHEMA[mname]):
        which = msg.WhichOneof("choice")
        if which is None:
            out["choice"] = None
        else:
            v = getattr(msg, which)
            out["choice"] = (which, view_ref(v, "Sub") if which == "o_sub" else norm(v))
    return out


def view_bp(msg, mname):
    out = {}
    for name, number, kind, typ in SCHEMA[mname]:
        if kind == "o":
            continue
        v = getattr(msg, name)
        if kind == "m":
            out[name] = {norm(k): (view_bp(x, "Sub") if typ[1] == "Sub" else norm(x))
                         for k, x in v.items()}
        elif kind == "r":
            out[name] = [view_bp(x, "Sub") if typ == "Sub" else norm(x) for x in v]
        elif kind == "p":
            out[name] = None if v is None else norm(v)
        elif typ == "Sub":
            out[name] = view_bp(v, "Sub") if betterproto.serialized_on_wire(v) else None
        elif typ == "Timestamp":
            out[name] = (v - EPOCH) // US
        elif typ == "Duration":
            out[name] = v // US
        elif kind == "x":
            out[name] = None if v is None else norm(v)
        else:
            out[name] = norm(v)
    if any(f[2] == "o" for f in SCHEMA[mname]):
        which, v = betterproto.which_one_of(msg, "choice")
        if not which:
            out["choice"] = None
        else:
            out["choice"] = (which, view_bp(v, "Sub") if which == "o_sub" else norm(v))
    return out


def explain(a, b):
    for k in a:
        if a[k] != b.get(k, "<missing>"):
            return f"{k}: {a[k]!r} != {b.get(k)!r}"
    return "?"


# ------------------------------------------------------- independent wire re-encoder
def enc_varint(v, pad_to=0):
    assert 0 <= v < 2**64
    out = bytearray()
    while True:
        b = v & 0x7F
        v >>= 7
        if v or len(out) + 1 < pad_to:
            out.append(b | 0x80)
        else:
            out.append(b)
            return bytes(out)


def dec_varint(buf, pos):
    result = shift = 0
    while True:
        b = buf[pos]
        pos += 1
        result |= (b & 0x7F) << shift
        shift += 7
        if not b & 0x80:
            return result & (2**64 - 1), pos


def split_records(buf):
    pos, out = 0, []
    while pos < len(buf):
        key, pos = dec_varint(buf, pos)
        number, wt = key >> 3, key & 7
        if wt == 0:
            v, pos = dec_varint(buf, pos)
        elif wt == 1:
            v, pos = buf[pos:pos + 8], pos + 8
        elif wt == 5:
            v, pos = buf[pos:pos + 4], pos + 4
        elif wt == 2:
            n, pos = dec_varint(buf, pos)
            v, pos = buf[pos:pos + n], pos + n
        else:
            raise AssertionError(wt)
        out.append((number, wt, v))
    assert pos == len(buf)
    return out


def pad(rng, v, limit=10):
    """Varint of v, minimal most of the time, otherwise padded (at most `limit` bytes)."""
    minimal = len(enc_varint(v))
    if rng.random() < 0.6 or minimal >= limit:
        return enc_varint(v)
    return enc_varint(v, rng.randint(minimal, limit))


def emit(rng, number, wt, v):
    key = pad(rng, (number << 3) | wt, 5)
    if wt == 0:
        return key + pad(rng, v, 10)
    if wt in (1, 5):
        return key + v
    return key + pad(rng, len(v), 5) + v


def wire_of(typ):
    return 0 if typ in VARINT_T else 5 if typ in FIX32_T else 1 if typ in FIX64_T else 2


def enc_scalar_payload(typ, v):
    """Spec level encoding of a scalar -> (wire type, varint int or raw bytes)."""
    if typ in ("int32", "int64", "enum"):
        return 0, v & (2**64 - 1)
    if typ in ("uint32", "uint64"):
        return 0, v
    if typ == "bool":
        return 0, int(v)
    if typ in ("sint32", "sint64"):
        return 0, ((v << 1) ^ (v >> 63)) & (2**64 - 1)
    fmt = {"fixed32": "<I", "sfixed32": "<i", "float": "<f", "fixed64": "<Q",
           "sfixed64": "<q", "double": "<d"}.get(typ)
    if fmt:
        return wire_of(typ), struct.pack(fmt, v)
    if typ == "string":
        return 2, v.encode()
    return 2, v


def unknown_record(rng):
    number = rng.choice([100, 101, 999, 70000, MAXNUM - 1])
    wt = rng.choice([0, 1, 2, 5])
    if wt == 0:
        v = rng.choice([0, 1, 2**64 - 1, rng.randrange(2**64)])
    elif wt == 1:
        v = bytes(rng.randrange(256) for _ in range(8))
    elif wt == 5:
        v = bytes(rng.randrange(256) for _ in range(4))
    else:
        v = bytes(rng.randrange(256) for _ in range(rng.choice([0, 1, 5, 200])))
    return number, wt, v


def reencode(rng, buf, mname):
    """Another legal encoding of the message encoded in `buf`."""
    fields = {number: (name, kind, typ) for name, number, kind, typ in SCHEMA[mname]}
    queues = {}  # field number (or oneof / unknown slot) -> records in order

    def put(slot, rec):
        queues.setdefault(slot, []).append(rec)

    for number, wt, v in split_records(buf):
        name, kind, typ = fields[number]
        slot = "choice" if kind == "o" else number
        if kind == "r" and typ in T and typ not in ("string", "bytes"):
            # a repeated scalar: collect the elements, whatever form they came in
            ewt = wire_of(typ)
            if wt == 2:
                pos, elems = 0, []
                while pos < len(v):
                    if ewt == 0:
                        x, pos = dec_varint(v, pos)
                    else:
                        width = 4 if ewt == 5 else 8
                        x, pos = v[pos:pos + width], pos + width
                    elems.append(x)
            else:
                elems = [v]
            mode = rng.choice(["packed", "unpacked", "chunks", "mixed"])
            i = 0
            if mode == "packed" and not elems:
                put(slot, (number, 2, b""))
            while i < len(elems):
                if mode == "unpacked" or (mode == "mixed" and rng.random() < 0.5):
                    put(slot, (number, ewt, elems[i]))
                    i += 1
                    continue
                n = len(elems) - i if mode == "packed" else rng.randint(0, len(elems) - i)
                chunk = b"".join(
                    pad(rng, x, 10) if ewt == 0 else x for x in elems[i:i + n])
                put(slot, (number, 2, chunk))
                i += n
            continue
        if wt == 2 and (typ == "Sub" or kind == "m") and rng.random() < 0.7:
            if kind == "m":
                v = reencode_entry(rng, v, typ)
            else:
                v = reencode(rng, v, "Sub")
        if kind in ("s", "p", "o") and typ in T and rng.random() < 0.4:
            # an earlier occurrence of the same singular scalar: the last one wins
            dwt, dv = enc_scalar_payload(typ, gen_scalar(rng, typ))
            put(slot, (number, dwt, dv))
        if kind == "o" and rng.random() < 0.5:
            # an earlier occurrence of another member of the oneof
            oname, onumber, _, otyp = rng.choice([f for f in SCHEMA[mname] if f[2] == "o"])
            if onumber != number:
                if otyp == "Sub":
                    put(slot, (onumber, 2, bytes(to_ref("Sub", gen_spec(rng, "Sub", 1))
                                                 .SerializeToString())))
                else:
                    dwt, dv = enc_scalar_payload(otyp, gen_scalar(rng, otyp))
                    put(slot, (onumber, dwt, dv))
        put(slot, (number, wt, v))

    for i in range(rng.choice([0, 0, 1, 3])):
        put(("unknown", i), unknown_record(rng))

    # any interleaving that keeps the order of the records of one field / oneof
    out = bytearray()
    slots = [s for s in queues if queues[s]]
    if rng.random() < 0.3:
        slots.sort(key=str)
        order = [s for s in slots for _ in queues[s]]
    else:
        order = [s for s in slots for _ in queues[s]]
        rng.shuffle(order)
    cursor = dict.fromkeys(queues, 0)
    for s in order:
        number, wt, v = queues[s][cursor[s]]
        cursor[s] += 1
        out += emit(rng, number, wt, v)
    return bytes(out)


def reencode_entry(rng, buf, types):
    recs = []
    for number, wt, v in split_records(buf):
        typ = types[number - 1]
        if typ == "Sub":
            v = reencode(rng, v, "Sub")
        elif rng.random() < 0.3:
            dwt, dv = enc_scalar_payload(typ, gen_scalar(rng, typ))
            recs.append((number, dwt, dv))  # overridden by the later occurrence
        recs.append((number, wt, v))
    if rng.random() < 0.5:
        # value before key is fine as long as duplicates keep their relative order
        recs = [r for r in recs if r[0] == 2] + [r for r in recs if r[0] == 1]
    return b"".join(emit(rng, *r) for r in recs)


# ---------------------------------------------------------------------- the checks
def check_interop(seed, rounds, variants=4):
    rng = random.Random(seed)
    n = 0
    for _ in range(rounds):
        spec = gen_spec(rng, "All")
        bp, ref = to_bp("All", spec), to_ref("All", spec)
        want = view_ref(ref, "All")
        got = view_bp(bp, "All")
        assert got == want, ("harness", explain(got, want))

        # D1 betterproto bytes -> reference
        data = bytes(bp)
        got = view_ref(REF["All"].FromString(data), "All")
        assert got == want, ("bp->ref", explain(got, want))
        assert len(bp) == len(data)

        # D2 reference bytes -> betterproto
        rdata = ref.SerializeToString()
        back = All().parse(rdata)
        got = view_bp(back, "All")
        assert got == want, ("ref->bp", explain(got, want))
        # ... and what betterproto re-emits is again understood by the reference
        got = view_ref(REF["All"].FromString(bytes(back)), "All")
        assert got == want, ("ref->bp->ref", explain(got, want))

        # D3 alternative encodings -> betterproto (and the reference, as a sanity check)
        for _ in range(variants):
            alt = reencode(rng, rdata, "All")
            got = view_ref(REF["All"].FromString(alt), "All")
            assert got == want, ("re-encoder produced something else", explain(got, want))
            got = view_bp(All().parse(alt), "All")
            assert got == want, ("alt->bp", explain(got, want), alt.hex())
            got = view_bp(All.FromString(alt), "All")
            assert got == want
            n += 1
    return n


# --------------------------- construction, oneof selection and lazy defaults (keep2)
import copy
import pickle

ONEOF = [f for f in ALL_FIELDS if f[2] == "o"]
ONEOF_NAMES = [f[0] for f in ONEOF]


def check_oneof_error(m, selected):
    """Every member but `selected` raises the documented AttributeError."""
    for name in ONEOF_NAMES:
        if name == selected:
            getattr(m, name)
            assert hasattr(m, name)
            continue
        assert not hasattr(m, name)
        assert getattr(m, name, "dflt") == "dflt"
        try:
            getattr(m, name)
        except AttributeError as e:
            assert e.args == (f"'choice' is set to {selected!r}, not {name!r}",), e.args
            if sys.version_info >= (3, 10):
                assert e.name == name and e.obj is m
        else:
            raise AssertionError(name)
    which, value = betterproto.which_one_of(m, "choice")
    assert which == (selected or "")
    assert list(m._group_current.items()) == [("choice", selected)]


def check_fixed():
    # nothing given: nothing set, nothing selected, nothing on the wire
    m = All()
    assert not betterproto.serialized_on_wire(m)
    check_oneof_error(m, None)
    assert bytes(m) == b"" and len(m) == 0
    # reading does not set anything ...
    assert (m.i32, m.st, m.by, m.b, m.fl, m.e, m.opt_i, m.w_i) == (
        0, "", b"", False, 0.0, 0, None, None)
    assert m.ts == EPOCH and m.du == timedelta(0)
    assert not betterproto.serialized_on_wire(m)
    assert not m.is_set("i32") and not m.is_set("opt_i")
    # ... but mutable defaults are kept so that they can be filled in place
    assert m.sub is m.sub and m.ri32 is m.ri32 and m.m_si is m.m_si and m.rsub is m.rsub
    assert isinstance(m.sub, Sub) and not betterproto.serialized_on_wire(m.sub)
    assert m.e is not None and type(m.e) is Color
    assert bytes(m) == b""
    m.ri32.append(-1)
    m.m_si["k"] = 3
    m.sub.r.append(-2)
    data = bytes(m)
    ref = REF["All"].FromString(data)
    assert list(ref.ri32) == [-1] and dict(ref.m_si) == {"k": 3}
    assert ref.HasField("sub") and list(ref.sub.r) == [-2]
    assert ref.WhichOneof("choice") is None
    assert view_bp(All().parse(data), "All") == view_ref(ref, "All")
    assert m.__class__ is All and m._betterproto is All._betterproto

    # optional fields: None is "not given", a default value is "given"
    m = All(opt_i=None, opt_s=None)
    assert not betterproto.serialized_on_wire(m) and bytes(m) == b""
    m = All(opt_i=0)
    assert betterproto.serialized_on_wire(m)
    assert bytes(m) == bytes.fromhex("9003" "00")
    ref = REF["All"].FromString(bytes(m))
    assert ref.HasField("opt_i") and not ref.HasField("opt_s")
    m = All(w_i=None)  # a wrapper field explicitly given None counts as given
    assert betterproto.serialized_on_wire(m) and bytes(m) == b""
    m = All(i32=0)
    assert betterproto.serialized_on_wire(m) and bytes(m) == b""

    # oneof members given to the constructor: defaults count, the last in field order wins
    expected = {
        "o_i": (0, "c002" "00"), "o_s": ("", "ca02" "00"), "o_sub": (Sub(), "d202" "00"),
        "o_b": (False, "d802" "00"), "o_by": (b"", "e202" "00"), "o_e": (0, "e802" "00"),
        "o_db": (0.0, "f102" + "00" * 8),
    }
    for name, (value, hexa) in expected.items():
        m = All(**{name: value})
        assert betterproto.serialized_on_wire(m)
        check_oneof_error(m, name)
        assert bytes(m) == bytes.fromhex(hexa), (name, bytes(m).hex())
        assert len(m) == len(bytes(m))
        ref = REF["All"].FromString(bytes(m))
        assert ref.WhichOneof("choice") == name
        back = All().parse(ref.SerializeToString())
        check_oneof_error(back, name)
        assert bytes(back) == bytes(m)
        for clone in (copy.copy(m), copy.deepcopy(m), pickle.loads(pickle.dumps(m))):
            check_oneof_error(clone, name)
            assert bytes(clone) == bytes(m)
    for i, first in enumerate(ONEOF_NAMES):
        for second in ONEOF_NAMES[i + 1:]:
            for order in ((first, second), (second, first)):
                m = All(**{n: expected[n][0] for n in order})
                check_oneof_error(m, second)
                assert bytes(m) == bytes.fromhex(expected[second][1])
    m = All(o_i=5, o_s="x", o_db=1.0, i32=9)
    check_oneof_error(m, "o_db")
    assert bytes(m) == bytes.fromhex("0809" "f102" "000000000000f03f")
    # assignment moves the selection; the displaced member cannot be read any more
    m.o_i = 0
    check_oneof_error(m, "o_i")
    assert bytes(m) == bytes.fromhex("0809" "c002" "00")
    m.o_sub = Sub()
    check_oneof_error(m, "o_sub")
    m.o_sub.x = 4  # filled in place
    assert bytes(m) == bytes.fromhex("0809" "d202" "020804")
    ref = REF["All"].FromString(bytes(m))
    assert ref.WhichOneof("choice") == "o_sub" and ref.o_sub.x == 4 and ref.i32 == 9

    # duplicated oneof members on the wire: the last one wins, whatever came before
    wire = bytes.fromhex("c002" "05" "ca02" "0161" "d802" "01" "c002" "00")
    m = All().parse(wire)
    check_oneof_error(m, "o_i")
    assert m.o_i == 0 and REF["All"].FromString(wire).WhichOneof("choice") == "o_i"
    wire = bytes.fromhex("c002" "05" "d202" "020807" "ca02" "00")
    m = All().parse(wire)
    check_oneof_error(m, "o_s")
    assert m.o_s == "" and REF["All"].FromString(wire).WhichOneof("choice") == "o_s"

    # two groups and an optional member, group order follows the field order
    @dataclass(eq=False, repr=False)
    class Two(betterproto.Message):
        a: int = betterproto.int32_field(1, group="second")
        b: str = betterproto.string_field(2, group="first")
        c: int = betterproto.int32_field(3)
        d: bool = betterproto.bool_field(4, group="second")
        e: Optional[int] = betterproto.int32_field(5, optional=True, group="first")

    t = Two()
    assert list(t._group_current.items()) == [("second", None), ("first", None)]
    assert not betterproto.serialized_on_wire(t)
    t = Two(e=None)
    assert list(t._group_current.items()) == [("second", None), ("first", None)]
    assert not betterproto.serialized_on_wire(t)
    t = Two(d=False, b="", a=1)
    assert list(t._group_current.items()) == [("second", "d"), ("first", "b")]
    assert bytes(t) == bytes.fromhex("1200" "2000")
    for name in ("a", "e"):
        try:
            getattr(t, name)
        except AttributeError as e:
            group, sel = ("second", "d") if name == "a" else ("first", "b")
            assert e.args == (f"{group!r} is set to {sel!r}, not {name!r}",)
        else:
            raise AssertionError(name)
    t = Two(e=0, c=0)
    assert list(t._group_current.items()) == [("second", None), ("first", "e")]
    assert bytes(t) == bytes.fromhex("2800") and t.c == 0
    try:
        t.b
    except AttributeError as e:
        assert e.args == ("'first' is set to 'e', not 'b'",)
    else:
        raise AssertionError


def check_random_edits(seed, rounds):
    """The same random sequence of constructor arguments and assignments applied to a
    betterproto message and to a reference message gives the same message."""
    rng = random.Random(seed)
    scalars = [f for f in ALL_FIELDS if f[2] in ("s", "o", "p") and f[3] != "Sub"]
    for _ in range(rounds):
        first = {}
        for name, number, kind, typ in rng.sample(scalars, rng.randint(0, 6)):
            first[name] = gen_scalar(rng, typ)
        bp = All(**first)
        ref = REF["All"]()
        # constructor: members of the oneof win in field order
        for name, number, kind, typ in ALL_FIELDS:
            if name in first:
                setattr(ref, name, first[name])
        for _ in range(rng.randint(0, 8)):
            name, number, kind, typ = rng.choice(scalars + [("o_sub", 42, "o", "Sub")])
            if typ == "Sub":
                spec = gen_spec(rng, "Sub", 1)
                bp.o_sub = to_bp("Sub", spec)
                ref.o_sub.Clear()
                fill_ref(ref.o_sub, "Sub", spec)
            else:
                v = gen_scalar(rng, typ)
                setattr(bp, name, v)
                setattr(ref, name, v)
            if rng.random() < 0.3:
                bp = rng.choice([copy.copy, copy.deepcopy,
                                 lambda m: pickle.loads(pickle.dumps(m)),
                                 lambda m: All().parse(bytes(m))])(bp)
        want = view_ref(ref, "All")
        got = view_bp(bp, "All")
        # proto3 scalars without presence: the reference drops zero values, fine
        assert got == want, explain(got, want)
        which = ref.WhichOneof("choice")
        check_oneof_error(bp, which)
        got = view_ref(REF["All"].FromString(bytes(bp)), "All")
        assert got == want, explain(got, want)
        got = view_bp(All().parse(ref.SerializeToString()), "All")
        assert got == want, explain(got, want)


if __name__ == "__main__":
    n = check_interop(31337, 220)
    check_fixed()
    check_random_edits(4242, 400)
    print(f"ok: interop on {n} alternative encodings, construction/oneof/lazy defaults agree")
