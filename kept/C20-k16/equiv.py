"""C20 equivalence script for the tag/wire-type layer of the binary codec.

Every enum number (singular, oneof, optional, map value, and - as a packed run passed
on as bytes - repeated) is written by _serialize_single, measured by _len_single, and
admitted on the way back by _wire_type_matches.  This script

  1. compares these three functions, for every proto type / wire type / field number /
     flag combination and many values, against reference copies of the long-standing
     if/elif implementations that are embedded below (built only from the public
     TYPE_* / WIRE_* constants and the public varint helpers),
  2. round-trips messages with enum fields in every position through bytes (plain,
     size-delimited stream) and cross-checks the bytes with google.protobuf in both
     directions, for defined, aliased, undefined, zero, negative and boundary numbers.
"""
import itertools
import random
import struct
from dataclasses import dataclass
from datetime import datetime, timedelta, timezone
from io import BytesIO
from typing import Dict, List, Optional

import betterproto
from betterproto import (
    PACKED_TYPES,
    TYPE_BOOL,
    TYPE_BYTES,
    TYPE_DOUBLE,
    TYPE_ENUM,
    TYPE_FIXED32,
    TYPE_FIXED64,
    TYPE_FLOAT,
    TYPE_INT32,
    TYPE_INT64,
    TYPE_MAP,
    TYPE_MESSAGE,
    TYPE_SFIXED32,
    TYPE_SFIXED64,
    TYPE_SINT32,
    TYPE_SINT64,
    TYPE_STRING,
    TYPE_UINT32,
    TYPE_UINT64,
    WIRE_FIXED_32,
    WIRE_FIXED_32_TYPES,
    WIRE_FIXED_64,
    WIRE_FIXED_64_TYPES,
    WIRE_LEN_DELIM,
    WIRE_LEN_DELIM_TYPES,
    WIRE_VARINT,
    WIRE_VARINT_TYPES,
    _len_preprocessed_single,
    _len_single,
    _preprocess_single,
    _serialize_single,
    _wire_type_matches,
    encode_varint,
    size_varint,
)

INT32_MIN, INT32_MAX = -(2**31), 2**31 - 1

ALL_TYPES = [
    TYPE_ENUM, TYPE_BOOL, TYPE_INT32, TYPE_INT64, TYPE_UINT32, TYPE_UINT64,
    TYPE_SINT32, TYPE_SINT64, TYPE_FLOAT, TYPE_DOUBLE, TYPE_FIXED32, TYPE_SFIXED32,
    TYPE_FIXED64, TYPE_SFIXED64, TYPE_STRING, TYPE_BYTES, TYPE_MESSAGE, TYPE_MAP,
]  # fmt: skip

# the four groups partition the proto types
groups = [WIRE_VARINT_TYPES, WIRE_FIXED_32_TYPES, WIRE_FIXED_64_TYPES, WIRE_LEN_DELIM_TYPES]
flat = [t for g in groups for t in g]
assert len(flat) == len(set(flat)) == len(ALL_TYPES) and set(flat) == set(ALL_TYPES)
assert (WIRE_VARINT, WIRE_FIXED_64, WIRE_LEN_DELIM, WIRE_FIXED_32) == (0, 1, 2, 5)


# ------------------------------------------------------------------ references
def ref_serialize_single(field_number, proto_type, value, *, serialize_empty=False, wraps=""):
    value = _preprocess_single(proto_type, wraps, value)

    output = bytearray()
    if proto_type in WIRE_VARINT_TYPES:
        key = encode_varint(field_number << 3)
        output += key + value
    elif proto_type in WIRE_FIXED_32_TYPES:
        key = encode_varint((field_number << 3) | 5)
        output += key + value
    elif proto_type in WIRE_FIXED_64_TYPES:
        key = encode_varint((field_number << 3) | 1)
        output += key + value
    elif proto_type in WIRE_LEN_DELIM_TYPES:
        if len(value) or serialize_empty or wraps:
            key = encode_varint((field_number << 3) | 2)
            output += key + encode_varint(len(value)) + value
    else:
        raise NotImplementedError(proto_type)

    return bytes(output)


def ref_len_single(field_number, proto_type, value, *, serialize_empty=False, wraps=""):
    size = _len_preprocessed_single(proto_type, wraps, value)
    if proto_type in WIRE_VARINT_TYPES:
        size += size_varint(field_number << 3)
    elif proto_type in WIRE_FIXED_32_TYPES:
        size += size_varint((field_number << 3) | 5)
    elif proto_type in WIRE_FIXED_64_TYPES:
        size += size_varint((field_number << 3) | 1)
    elif proto_type in WIRE_LEN_DELIM_TYPES:
        if size or serialize_empty or wraps:
            size += size_varint((field_number << 3) | 2) + size_varint(size)
    else:
        raise NotImplementedError(proto_type)

    return size


def ref_wire_type_matches(wire_type, proto_type, repeated):
    if wire_type == WIRE_VARINT:
        return proto_type in WIRE_VARINT_TYPES
    if wire_type == WIRE_FIXED_32:
        return proto_type in WIRE_FIXED_32_TYPES
    if wire_type == WIRE_FIXED_64:
        return proto_type in WIRE_FIXED_64_TYPES
    if wire_type == WIRE_LEN_DELIM:
        return proto_type in WIRE_LEN_DELIM_TYPES or (
            repeated and proto_type in PACKED_TYPES
        )
    return False


def outcome(fn, *args, **kwargs):
    try:
        result = fn(*args, **kwargs)
    except Exception as exc:  # noqa: BLE001 - the exception is part of the behaviour
        return ("raised", type(exc), str(exc))
    return ("returned", type(result), result)


# ------------------------------------------------------------------ 1a. matching
for wire_type in list(range(-2, 12)) + [100, 2**31]:
    for proto_type in ALL_TYPES + ["group", "", "ENUM", "Enum", "unknown"]:
        for repeated in (False, True):
            got = _wire_type_matches(wire_type, proto_type, repeated)
            want = ref_wire_type_matches(wire_type, proto_type, repeated)
            assert got is want, (wire_type, proto_type, repeated, got, want)
# what this means for enums: varint always, length-delimited only when repeated
assert _wire_type_matches(WIRE_VARINT, TYPE_ENUM, False) is True
assert _wire_type_matches(WIRE_VARINT, TYPE_ENUM, True) is True
assert _wire_type_matches(WIRE_LEN_DELIM, TYPE_ENUM, True) is True
assert _wire_type_matches(WIRE_LEN_DELIM, TYPE_ENUM, False) is False
assert _wire_type_matches(WIRE_FIXED_32, TYPE_ENUM, True) is False
assert _wire_type_matches(WIRE_FIXED_64, TYPE_ENUM, True) is False


# ------------------------------------------------------------------ 1b. writing
class Level(betterproto.Enum):
    NONE = 0
    LOW = 1
    ALSO_LOW = 1
    HIGH = 7
    BELOW = -3
    MIN = INT32_MIN
    MAX = INT32_MAX


@dataclass(eq=False, repr=False)
class Inner(betterproto.Message):
    level: Level = betterproto.enum_field(1)
    text: str = betterproto.string_field(2)


rng = random.Random(2020)
int_values = [0, 1, -1, 2, 7, -3, 127, 128, 300, 16383, 16384, INT32_MIN, INT32_MAX,
              INT32_MIN + 1, INT32_MAX - 1, 2**21, -(2**21)]  # fmt: skip
int_values += [rng.randint(INT32_MIN, INT32_MAX) for _ in range(40)]
enum_values = (
    list(Level)
    + [Level.try_value(n) for n in int_values]
    + int_values
)
set_inner = Inner(level=Level.BELOW, text="x")
received_empty = Inner().parse(b"")

values_by_type = {
    TYPE_ENUM: enum_values,
    TYPE_BOOL: [False, True],
    TYPE_INT32: int_values,
    TYPE_INT64: int_values + [2**63 - 1, -(2**63), -(2**63) - 1],
    TYPE_UINT32: [v for v in int_values if v >= 0] + [2**32 - 1],
    TYPE_UINT64: [v for v in int_values if v >= 0] + [2**64 - 1, 2**64],
    TYPE_SINT32: int_values,
    TYPE_SINT64: int_values + [2**63 - 1, -(2**63)],
    TYPE_FLOAT: [0.0, -0.0, 1.5, float("inf"), 1e39],
    TYPE_DOUBLE: [0.0, -0.0, 1.5, float("inf"), 1e300],
    TYPE_FIXED32: [0, 1, 2**32 - 1, 2**32, -1],
    TYPE_SFIXED32: [0, -1, INT32_MIN, INT32_MAX, 2**31],
    TYPE_FIXED64: [0, 1, 2**64 - 1, 2**64, -1],
    TYPE_SFIXED64: [0, -1, 2**63 - 1, -(2**63), 2**63],
    TYPE_STRING: ["", "a", "é中", "x" * 200, "\ud800"],
    TYPE_BYTES: [b"", b"\x00", b"abc" * 100, bytearray(), bytearray(b"\x08\x01\x08\xfd"),
                 # a packed run of enum numbers, as Message.dump hands it over
                 bytearray(b"".join(_preprocess_single(TYPE_ENUM, "", v) for v in enum_values))],
    TYPE_MESSAGE: [Inner(), set_inner, received_empty,
                   datetime(1970, 1, 1, tzinfo=timezone.utc),
                   datetime(2024, 2, 29, 12, 30, 1, 5, tzinfo=timezone.utc),
                   timedelta(0), timedelta(days=-3, microseconds=7)],
    TYPE_MAP: [b"", b"\x08\x01\x10\x02",
               ref_serialize_single(1, TYPE_STRING, "k") + ref_serialize_single(2, TYPE_ENUM, Level.BELOW)],
    "group": [0, b"", "x", Level.LOW],
    "": [b"abc"],
}  # fmt: skip
field_numbers = [1, 2, 15, 16, 2047, 2048, 2**18, 2**29 - 1, 0, 2**29, -1, -(2**61)]

checked = 0
for proto_type, values in values_by_type.items():
    for value, number, serialize_empty in itertools.product(values, field_numbers, (False, True)):
        kwargs = {"serialize_empty": serialize_empty}
        got = outcome(_serialize_single, number, proto_type, value, **kwargs)
        want = outcome(ref_serialize_single, number, proto_type, value, **kwargs)
        assert got == want, (proto_type, value, number, serialize_empty, got, want)
        got_len = outcome(_len_single, number, proto_type, value, **kwargs)
        want_len = outcome(ref_len_single, number, proto_type, value, **kwargs)
        assert got_len == want_len, (proto_type, value, number, serialize_empty, got_len, want_len)
        if got[0] == "returned":
            assert type(got[2]) is bytes
            if got_len[0] == "returned":
                assert got_len[2] == len(got[2]), (proto_type, value, number)
        checked += 1
    # default keyword values
    for value in values:
        assert outcome(_serialize_single, 3, proto_type, value) == outcome(
            ref_serialize_single, 3, proto_type, value
        )
        assert outcome(_len_single, 3, proto_type, value) == outcome(
            ref_len_single, 3, proto_type, value
        )

# wrapper payloads (the `wraps` flag forces emission even when empty)
wrapped = {
    TYPE_INT32: [None, 0, 5, -5], TYPE_INT64: [None, 0, -1], TYPE_UINT32: [None, 0, 9],
    TYPE_UINT64: [None, 0, 2**64 - 1], TYPE_BOOL: [None, False, True],
    TYPE_STRING: [None, "", "abc"], TYPE_BYTES: [None, b"", b"\x00\x01"],
    TYPE_FLOAT: [None, 0.0, 2.5], TYPE_DOUBLE: [None, 0.0, -2.5],
}  # fmt: skip
for wraps, values in wrapped.items():
    for value, number, serialize_empty in itertools.product(values, field_numbers, (False, True)):
        kwargs = {"serialize_empty": serialize_empty, "wraps": wraps}
        assert outcome(_serialize_single, number, TYPE_MESSAGE, value, **kwargs) == outcome(
            ref_serialize_single, number, TYPE_MESSAGE, value, **kwargs
        )
        assert outcome(_len_single, number, TYPE_MESSAGE, value, **kwargs) == outcome(
            ref_len_single, number, TYPE_MESSAGE, value, **kwargs
        )
        checked += 1
assert checked > 5000

# what this means for enums, spelled out
for number in field_numbers[:8]:
    for value in enum_values:
        data = _serialize_single(number, TYPE_ENUM, value)
        tag = encode_varint(number << 3)
        assert data.startswith(tag)
        payload = data[len(tag):]
        assert payload == encode_varint(int(value))
        assert len(payload) == (10 if value < 0 else max(1, -(-int(value).bit_length() // 7)))
        assert _len_single(number, TYPE_ENUM, value) == len(data)


# ------------------------------------------------------------------ 2. messages
@dataclass(eq=False, repr=False)
class Holder(betterproto.Message):
    single: Level = betterproto.enum_field(1)
    many: List[Level] = betterproto.enum_field(2)
    by_key: Dict[str, Level] = betterproto.map_field(3, TYPE_STRING, TYPE_ENUM)
    one_a: Level = betterproto.enum_field(4, group="pick")
    one_b: str = betterproto.string_field(5, group="pick")
    maybe: Optional[Level] = betterproto.enum_field(6, optional=True)
    by_num: Dict[int, Level] = betterproto.map_field(2000, TYPE_INT32, TYPE_ENUM)
    inner: Inner = betterproto.message_field(536870911)


from google.protobuf import descriptor_pb2, descriptor_pool, message_factory  # noqa: E402

F = descriptor_pb2.FieldDescriptorProto
fd = descriptor_pb2.FileDescriptorProto(name="c20_keep2.proto", package="c20k2", syntax="proto3")
en = fd.enum_type.add(name="Level")
en.options.allow_alias = True
for n, v in [("NONE", 0), ("LOW", 1), ("ALSO_LOW", 1), ("HIGH", 7), ("BELOW", -3),
             ("MIN", INT32_MIN), ("MAX", INT32_MAX)]:  # fmt: skip
    en.value.add(name=n, number=v)
inner = fd.message_type.add(name="Inner")
inner.field.add(name="level", number=1, type=F.TYPE_ENUM, type_name=".c20k2.Level", label=F.LABEL_OPTIONAL)
inner.field.add(name="text", number=2, type=F.TYPE_STRING, label=F.LABEL_OPTIONAL)
holder = fd.message_type.add(name="Holder")
holder.field.add(name="single", number=1, type=F.TYPE_ENUM, type_name=".c20k2.Level", label=F.LABEL_OPTIONAL)
holder.field.add(name="many", number=2, type=F.TYPE_ENUM, type_name=".c20k2.Level", label=F.LABEL_REPEATED)
e1 = holder.nested_type.add(name="ByKeyEntry")
e1.options.map_entry = True
e1.field.add(name="key", number=1, type=F.TYPE_STRING, label=F.LABEL_OPTIONAL)
e1.field.add(name="value", number=2, type=F.TYPE_ENUM, type_name=".c20k2.Level", label=F.LABEL_OPTIONAL)
holder.field.add(name="by_key", number=3, type=F.TYPE_MESSAGE, type_name=".c20k2.Holder.ByKeyEntry", label=F.LABEL_REPEATED)
holder.oneof_decl.add(name="pick")
holder.oneof_decl.add(name="_maybe")
holder.field.add(name="one_a", number=4, type=F.TYPE_ENUM, type_name=".c20k2.Level", label=F.LABEL_OPTIONAL, oneof_index=0)
holder.field.add(name="one_b", number=5, type=F.TYPE_STRING, label=F.LABEL_OPTIONAL, oneof_index=0)
holder.field.add(name="maybe", number=6, type=F.TYPE_ENUM, type_name=".c20k2.Level", label=F.LABEL_OPTIONAL,
                 oneof_index=1, proto3_optional=True)
e2 = holder.nested_type.add(name="ByNumEntry")
e2.options.map_entry = True
e2.field.add(name="key", number=1, type=F.TYPE_INT32, label=F.LABEL_OPTIONAL)
e2.field.add(name="value", number=2, type=F.TYPE_ENUM, type_name=".c20k2.Level", label=F.LABEL_OPTIONAL)
holder.field.add(name="by_num", number=2000, type=F.TYPE_MESSAGE, type_name=".c20k2.Holder.ByNumEntry", label=F.LABEL_REPEATED)
holder.field.add(name="inner", number=536870911, type=F.TYPE_MESSAGE, type_name=".c20k2.Inner", label=F.LABEL_OPTIONAL)
pool = descriptor_pool.DescriptorPool()
pool.Add(fd)
GHolder = message_factory.GetMessageClass(pool.FindMessageTypeByName("c20k2.Holder"))


def to_google(msg: Holder):
    g = GHolder()
    g.single = int(msg.single)
    g.many.extend(int(v) for v in msg.many)
    for k, v in msg.by_key.items():
        g.by_key[k] = int(v)
    name, value = betterproto.which_one_of(msg, "pick")
    if name == "one_a":
        g.one_a = int(value)
    elif name == "one_b":
        g.one_b = value
    if msg.maybe is not None:
        g.maybe = int(msg.maybe)
    for k, v in msg.by_num.items():
        g.by_num[k] = int(v)
    if betterproto.serialized_on_wire(msg.inner):
        g.inner.level = int(msg.inner.level)
        g.inner.text = msg.inner.text
    return g


def same(msg: Holder, g) -> None:
    assert msg.single == g.single
    assert list(msg.many) == list(g.many)
    assert dict(msg.by_key) == dict(g.by_key)
    assert dict(msg.by_num) == dict(g.by_num)
    picked = g.WhichOneof("pick")
    name, value = betterproto.which_one_of(msg, "pick")
    assert (name or None) == picked
    if picked:
        assert value == getattr(g, picked)
    assert (msg.maybe is not None) == g.HasField("maybe")
    if msg.maybe is not None:
        assert msg.maybe == g.maybe
    assert msg.inner.level == g.inner.level and msg.inner.text == g.inner.text


def canonical(values) -> None:
    for v in values:
        assert type(v) is Level
        if int(v) in (0, 1, 7, -3, INT32_MIN, INT32_MAX):
            assert v is Level(int(v))
        else:
            assert v.name is None


numbers = [0, 1, 7, -3, INT32_MIN, INT32_MAX, 2, -1, 8, 127, 128, -128, 99999,
           INT32_MIN + 1, INT32_MAX - 1] + [rng.randint(INT32_MIN, INT32_MAX) for _ in range(25)]  # fmt: skip
cases = 0
for number in numbers:
    value = Level.try_value(number)
    other = Level.try_value(rng.choice(numbers))
    variants = [
        Holder(single=value),
        Holder(many=[value]),
        Holder(many=[value, other, Level.NONE, value]),
        Holder(by_key={"k": value}),
        Holder(by_key={"": Level.NONE, "k": value, "other": other}),
        Holder(by_num={0: Level.NONE, -1: value, 5: other}),
        Holder(one_a=value),
        Holder(one_b=""),
        Holder(one_b="text"),
        Holder(maybe=value),
        Holder(inner=Inner(level=value)),
        Holder(inner=Inner()),
        Holder(
            single=value, many=[other, value], by_key={"a": value}, one_a=other,
            maybe=other, by_num={7: value}, inner=Inner(level=other, text="t"),
        ),
        Holder(),
    ]  # fmt: skip
    for msg in variants:
        data = bytes(msg)
        assert len(msg) == len(data)
        back = Holder().parse(data)
        assert back == msg and bytes(back) == data
        canonical([back.single, *back.many, *back.by_key.values(), *back.by_num.values(), back.inner.level])
        # google reads what betterproto wrote ...
        g = GHolder.FromString(data)
        same(msg, g)
        # ... and betterproto reads what google writes (packed runs, entries, tags)
        g2 = to_google(msg)
        gdata = g2.SerializeToString(deterministic=True)
        from_google = Holder().parse(gdata)
        same(from_google, g2)
        assert from_google == back
        assert not from_google._unknown_fields and not back._unknown_fields
        # size-delimited streams use the measured length
        stream = BytesIO()
        msg.dump(stream, delimit=betterproto.SIZE_DELIMITED)
        msg.dump(stream, delimit=betterproto.SIZE_DELIMITED)
        stream.seek(0)
        first = Holder().load(stream, betterproto.SIZE_DELIMITED)
        second = Holder().load(stream, betterproto.SIZE_DELIMITED)
        assert stream.read() == b""
        assert bytes(first) == data and bytes(second) == data
        cases += 1

    # an enum number that arrives with a foreign wire type is kept as unknown data,
    # an unpacked repeated enum is still accepted
    for raw in (
        encode_varint((1 << 3) | 5) + struct.pack("<i", number),
        encode_varint((1 << 3) | 1) + struct.pack("<q", number),
        encode_varint((1 << 3) | 2) + b"\x01\x05",
        encode_varint((4 << 3) | 2) + b"\x00",
        encode_varint((6 << 3) | 5) + b"\x00\x00\x00\x00",
    ):
        odd = Holder().parse(raw)
        assert odd._unknown_fields == raw and bytes(odd) == raw
        assert odd.single == 0 and odd.maybe is None
        assert betterproto.which_one_of(odd, "pick") == ("", None)
    unpacked = b"".join(encode_varint(2 << 3) + encode_varint(n) for n in (number, 1, number))
    got = Holder().parse(unpacked + encode_varint((2 << 3) | 2) + b"\x01\x07")
    assert got.many == [number, 1, number, 7] and not got._unknown_fields
    canonical(got.many)

assert cases > 400
print("C20 keep2 equiv: ok")
