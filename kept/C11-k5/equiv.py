"""C11 equiv (keep1): server-side adapters moved into ServiceBase helpers.

C11: generated gRPC stub and generated server base agree.

Self-contained: builds FileDescriptorProtos by hand, runs the betterproto plugin
in-process (ruff calls stubbed out), imports the generated packages and drives the
generated <Service>Stub against the generated <Service>Base through
grpclib.testing.ChannelFor.
"""
import asyncio
import importlib
import os
import shutil
import sys
import tempfile
import time

import grpclib
import grpclib.const
from grpclib.exceptions import GRPCError
from grpclib.metadata import Deadline
from grpclib.testing import ChannelFor

import betterproto
import betterproto.plugin.compiler as plugin_compiler

plugin_compiler.subprocess.check_output = lambda cmd, input, encoding: input

from betterproto.lib.google.protobuf import (  # noqa: E402
    DescriptorProto,
    FieldDescriptorProto,
    FieldDescriptorProtoLabel,
    FieldDescriptorProtoType,
    FileDescriptorProto,
    MethodDescriptorProto,
    ServiceDescriptorProto,
)
from betterproto.lib.google.protobuf.compiler import CodeGeneratorRequest  # noqa: E402
from betterproto.plugin.parser import generate_code  # noqa: E402
import betterproto.lib.google.protobuf as wkt  # noqa: E402

T = FieldDescriptorProtoType
ROOT = "c11gen"


# --------------------------------------------------------------------------- programs
def _field(name, number, type_, repeated=False):
    return FieldDescriptorProto(
        name=name,
        number=number,
        type=type_,
        json_name=name,
        label=(
            FieldDescriptorProtoLabel.LABEL_REPEATED
            if repeated
            else FieldDescriptorProtoLabel.LABEL_OPTIONAL
        ),
    )


def _message(name, *fields):
    return DescriptorProto(name=name, field=list(fields))


def _method(name, inp, out, cs=False, ss=False):
    return MethodDescriptorProto(
        name=name, input_type=inp, output_type=out, client_streaming=cs, server_streaming=ss
    )


def _payload(name):
    return _message(
        name,
        _field("n", 1, T.TYPE_INT64),
        _field("s", 2, T.TYPE_STRING),
        _field("b", 3, T.TYPE_BYTES),
        _field("xs", 4, T.TYPE_SINT32, repeated=True),
        _field("d", 5, T.TYPE_DOUBLE),
    )


def build_request(parameter=""):
    files = [
        # package shop.v1: the main service, every cardinality, re-cased names,
        # cross-package (ancestor, cousin, descendant) and well-known types
        FileDescriptorProto(
            name="shop/v1/svc.proto",
            package="shop.v1",
            syntax="proto3",
            dependency=["shop/root.proto", "shop/common/c.proto", "shop/v1/extra/e.proto"],
            message_type=[_payload("Req"), _payload("Rep")],
            service=[
                ServiceDescriptorProto(
                    name="Shop",
                    method=[
                        _method("DoUU", ".shop.v1.Req", ".shop.v1.Rep"),
                        _method("DoUS", ".shop.v1.Req", ".shop.v1.Rep", ss=True),
                        _method("DoSU", ".shop.v1.Req", ".shop.v1.Rep", cs=True),
                        _method("DoSS", ".shop.v1.Req", ".shop.v1.Rep", cs=True, ss=True),
                        _method("GetHTTPStatus", ".shop.v1.Req", ".shop.v1.Rep"),
                        _method("Import", ".shop.v1.Req", ".shop.v1.Rep"),
                        _method("list_all_things", ".shop.v1.Req", ".shop.v1.Rep", ss=True),
                        _method("Do2FA", ".shop.v1.Rep", ".shop.v1.Req"),
                        _method("Ancestor", ".shop.Top", ".shop.common.Shared"),
                        _method("Cousin", ".shop.common.Shared", ".shop.v1.extra.Deep", ss=True),
                        _method("Descendant", ".shop.v1.extra.Deep", ".shop.Top", cs=True),
                        _method("Mixed", ".shop.common.Shared", ".shop.Top", cs=True, ss=True),
                        _method("Ping", ".google.protobuf.Empty", ".google.protobuf.Empty"),
                        _method("Wrap", ".google.protobuf.StringValue", ".google.protobuf.Int64Value"),
                        _method("Stamps", ".google.protobuf.Duration", ".google.protobuf.Timestamp", ss=True),
                        _method("Structs", ".google.protobuf.Struct", ".google.protobuf.Value", cs=True),
                        _method("Wraps", ".google.protobuf.BoolValue", ".google.protobuf.BytesValue", cs=True, ss=True),
                    ],
                ),
                ServiceDescriptorProto(
                    name="second_service",
                    method=[
                        _method("DoUU", ".shop.v1.Rep", ".shop.v1.Req"),
                        _method("Only", ".shop.v1.Req", ".shop.v1.Req", ss=True),
                    ],
                ),
            ],
        ),
        FileDescriptorProto(
            name="shop/root.proto",
            package="shop",
            syntax="proto3",
            message_type=[_payload("Top")],
        ),
        FileDescriptorProto(
            name="shop/common/c.proto",
            package="shop.common",
            syntax="proto3",
            message_type=[_payload("Shared")],
        ),
        FileDescriptorProto(
            name="shop/v1/extra/e.proto",
            package="shop.v1.extra",
            syntax="proto3",
            message_type=[_payload("Deep")],
        ),
        # no package at all: route is "/Bare/Echo"
        FileDescriptorProto(
            name="bare.proto",
            package="",
            syntax="proto3",
            message_type=[_payload("BareMsg")],
            service=[
                ServiceDescriptorProto(
                    name="Bare",
                    method=[
                        _method("Echo", ".BareMsg", ".BareMsg"),
                        _method("EchoMany", ".BareMsg", ".BareMsg", cs=True, ss=True),
                    ],
                )
            ],
        ),
    ]
    return CodeGeneratorRequest(
        file_to_generate=[f.name for f in files], parameter=parameter, proto_file=files
    )


_generated = []


def generate(parameter="", tag="a"):
    base = tempfile.mkdtemp(prefix="c11_")
    _generated.append(base)
    root = ROOT + tag
    out = os.path.join(base, root)
    os.makedirs(out)
    stderr, sys.stderr = sys.stderr, open(os.devnull, "w")
    try:
        response = generate_code(build_request(parameter))
    finally:
        sys.stderr.close()
        sys.stderr = stderr
    names = set()
    for f in response.file:
        path = os.path.join(out, f.name)
        os.makedirs(os.path.dirname(path), exist_ok=True)
        with open(path, "w") as fh:
            fh.write(f.content or "")
        names.add(f.name)
    assert {"__init__.py", "shop/__init__.py", "shop/v1/__init__.py",
            "shop/common/__init__.py", "shop/v1/extra/__init__.py"} <= names, names
    sys.path.insert(0, base)
    importlib.invalidate_caches()
    mods = {
        "bare": importlib.import_module(root),
        "top": importlib.import_module(root + ".shop"),
        "common": importlib.import_module(root + ".shop.common"),
        "v1": importlib.import_module(root + ".shop.v1"),
        "extra": importlib.import_module(root + ".shop.v1.extra"),
    }
    return mods


def cleanup():
    for d in _generated:
        shutil.rmtree(d, ignore_errors=True)


# --------------------------------------------------------------------------- values
def payload_values(cls):
    """A spread of request values, including the all-default (falsy) message."""
    return [
        cls(),
        cls(n=1),
        cls(n=-1, s="x"),
        cls(n=2**62, s="é中\U0001f600", b=b"\x00\xff" * 3, xs=[0, -1, 2**31 - 1, -(2**31)], d=-0.5),
        cls(s="a" * 70000),  # larger than the initial HTTP/2 flow-control window
        cls(b=bytes(range(256)) * 4, xs=list(range(-50, 50))),
    ]


# --------------------------------------------------------------------------- server side
class Recorder:
    """Wraps every Handler of a generated Base so that the route, the server-side
    stream metadata and deadline of each incoming call are recorded."""

    def __init__(self):
        self.calls = []  # (route, metadata(list of pairs), remaining seconds or None)

    def wrap(self, mapping):
        wrapped = {}
        for route, handler in mapping.items():
            wrapped[route] = handler._replace(func=self._make(route, handler.func))
        return wrapped

    def _make(self, route, func):
        async def recording(stream):
            remaining = None if stream.deadline is None else stream.deadline.time_remaining()
            self.calls.append((route, list(stream.metadata.items()), remaining))
            await func(stream)

        return recording


def user_metadata(pairs):
    return sorted((k, v) for k, v in pairs if k.startswith("x-"))


def make_services(mods):
    v1, top, common, extra, bare = (mods[k] for k in ("v1", "top", "common", "extra", "bare"))
    log = []  # (handler name, request or list of requests)
    rec = Recorder()

    def rep_for(req, i=0, cls=None):
        cls = cls or v1.Rep
        return cls(n=req.n + i, s=req.s[::-1], b=req.b + b"!", xs=list(reversed(req.xs)), d=req.d * 2)

    class Shop(v1.ShopBase):
        async def do_uu(self, req):
            log.append(("do_uu", req))
            return rep_for(req)

        async def do_us(self, req):
            log.append(("do_us", req))
            for i in range(req.n if 0 <= req.n < 50 else 0):
                yield rep_for(req, i)

        async def do_su(self, req_iterator):
            got = [r async for r in req_iterator]
            log.append(("do_su", got))
            return v1.Rep(n=len(got), s="|".join(r.s for r in got), xs=[r.n % 1000 for r in got])

        async def do_ss(self, req_iterator):
            got = []
            log.append(("do_ss", got))
            async for r in req_iterator:
                got.append(r)
                yield rep_for(r, len(got))
                if r.s == "twice":
                    yield rep_for(r, 1000)

        async def get_http_status(self, req):
            log.append(("get_http_status", req))
            return v1.Rep(n=200, s="get_http_status")

        async def import_(self, req):
            log.append(("import_", req))
            return v1.Rep(n=1, s="import_")

        async def list_all_things(self, req):
            log.append(("list_all_things", req))
            yield v1.Rep(s="list_all_things")
            yield v1.Rep()  # an all-default message inside a stream
            yield v1.Rep(s="end")

        async def do2_fa(self, rep):
            log.append(("do2_fa", rep))
            return v1.Req(n=rep.n, s="do2_fa")

        async def ancestor(self, top_):
            log.append(("ancestor", top_))
            return common.Shared(n=top_.n + 1, s=top_.s)

        async def cousin(self, shared):
            log.append(("cousin", shared))
            for i in range(3):
                yield extra.Deep(n=shared.n + i, s=shared.s)

        async def descendant(self, it):
            got = [r async for r in it]
            log.append(("descendant", got))
            return top.Top(n=sum(r.n for r in got), s="".join(r.s for r in got))

        async def mixed(self, it):
            got = []
            log.append(("mixed", got))
            async for r in it:
                got.append(r)
                yield top.Top(n=r.n * 2, s=r.s)

        async def ping(self, empty):
            log.append(("ping", empty))
            return wkt.Empty()

        async def wrap(self, sv):
            log.append(("wrap", sv))
            return wkt.Int64Value(value=len(sv.value))

        async def stamps(self, dur):
            log.append(("stamps", dur))
            for i in range(3):
                yield wkt.Timestamp(seconds=dur.seconds + i, nanos=dur.nanos)

        async def structs(self, it):
            got = [r async for r in it]
            log.append(("structs", got))
            return wkt.Value(number_value=float(len(got)))

        async def wraps(self, it):
            got = []
            log.append(("wraps", got))
            async for r in it:
                got.append(r)
                yield wkt.BytesValue(value=b"T" if r.value else b"F")

        def __mapping__(self):
            return rec.wrap(super().__mapping__())

    class Failing(v1.ShopBase):
        """Every overridden handler raises a GRPCError; the rest is not overridden."""

        async def do_uu(self, req):
            log.append(("f_do_uu", req))
            raise GRPCError(grpclib.const.Status.NOT_FOUND, "uu")

        async def do_us(self, req):
            log.append(("f_do_us", req))
            for i in range(req.n):
                yield v1.Rep(n=i)
            raise GRPCError(grpclib.const.Status.RESOURCE_EXHAUSTED, "us")

        async def do_su(self, req_iterator):
            got = [r async for r in req_iterator]
            log.append(("f_do_su", got))
            raise GRPCError(grpclib.const.Status.FAILED_PRECONDITION, "su")

        async def do_ss(self, req_iterator):
            got = []
            log.append(("f_do_ss", got))
            async for r in req_iterator:
                got.append(r)
                yield v1.Rep(n=r.n)
            raise GRPCError(grpclib.const.Status.ABORTED, "ss")

    class Second(v1.SecondServiceBase):
        async def do_uu(self, rep):
            log.append(("second.do_uu", rep))
            return v1.Req(n=rep.n, s="second")

        # `only` deliberately not overridden

    class Bare(bare.BareBase):
        async def echo(self, m):
            log.append(("bare.echo", m))
            return m

        async def echo_many(self, it):
            got = []
            log.append(("bare.echo_many", got))
            async for m in it:
                got.append(m)
                yield m

        def __mapping__(self):
            return rec.wrap(super().__mapping__())

    return dict(Shop=Shop, Failing=Failing, Second=Second, Bare=Bare, log=log, rec=rec, rep_for=rep_for)


async def collect(ait):
    return [x async for x in ait]


async def agen(items, pause=False):
    for i in items:
        if pause:
            await asyncio.sleep(0)
        yield i


def sources(items):
    """The same request stream as a list, a tuple, a sync generator and async generators."""
    return [
        list(items),
        tuple(items),
        (i for i in list(items)),
        agen(list(items)),
        agen(list(items), pause=True),
    ]


async def expect_status(awaitable, status):
    try:
        await awaitable
    except GRPCError as e:
        assert e.status is status, (e.status, status)
    else:
        raise AssertionError(f"expected GRPCError {status}")


# --------------------------------------------------------------------------- checks
async def check_routing_and_payloads(mods, max_len=4):
    v1, top, common, extra, bare = (mods[k] for k in ("v1", "top", "common", "extra", "bare"))
    S = make_services(mods)
    log, rec, rep_for = S["log"], S["rec"], S["rep_for"]

    def took(name):
        assert len(log) == 1, log
        assert log[0][0] == name, (log[0][0], name)
        value = log[0][1]
        log.clear()
        return value

    async with ChannelFor([S["Shop"](), S["Second"](), S["Bare"]()]) as channel:
        shop = v1.ShopStub(channel)
        second = v1.SecondServiceStub(channel)
        barestub = bare.BareStub(channel)

        # unary-unary, every value
        for req in payload_values(v1.Req):
            rep = await shop.do_uu(req)
            assert took("do_uu") == req
            assert rep == rep_for(req) and type(rep) is v1.Rep
            assert rec.calls[-1][0] == "/shop.v1.Shop/DoUU"

        # unary-stream, response stream lengths 0..k
        for n in range(0, max_len + 3):
            req = v1.Req(n=n, s="abc", xs=[n])
            reps = await collect(shop.do_us(req))
            assert took("do_us") == req
            assert reps == [rep_for(req, i) for i in range(n)]
        for req in payload_values(v1.Req):
            reps = await collect(shop.do_us(req))
            assert took("do_us") == req
            assert reps == [rep_for(req, i) for i in range(req.n if 0 <= req.n < 50 else 0)]

        # stream-unary / stream-stream, request stream lengths 0..k, all kinds of sources
        values = payload_values(v1.Req)
        for k in range(0, max_len + 1):
            items = [values[(k + j) % len(values)] for j in range(k)]
            for src in sources(items):
                rep = await shop.do_su(src)
                assert took("do_su") == items
                assert rep == v1.Rep(n=k, s="|".join(r.s for r in items), xs=[r.n % 1000 for r in items])
            for src in sources(items):
                reps = await collect(shop.do_ss(src))
                assert took("do_ss") == items
                assert reps == [rep_for(r, j + 1) for j, r in enumerate(items)]
        # more responses than requests, in order
        items = [v1.Req(n=1, s="twice"), v1.Req(n=2, s="once"), v1.Req(n=3, s="twice")]
        reps = await collect(shop.do_ss(items))
        assert took("do_ss") == items
        assert reps == [
            rep_for(items[0], 1), rep_for(items[0], 1000),
            rep_for(items[1], 2),
            rep_for(items[2], 3), rep_for(items[2], 1000),
        ]
        # a long bidi stream of big messages (needs concurrent send/receive)
        items = [v1.Req(n=j, s="z" * 30000) for j in range(12)]
        reps = await collect(shop.do_ss(agen(items)))
        assert took("do_ss") == items
        assert reps == [rep_for(r, j + 1) for j, r in enumerate(items)]

        # conversational bidi: next request depends on the previous reply
        async def conversation(replies):
            yield v1.Req(n=1)
            while True:
                r = await replies.get()
                if r.n >= 5:
                    return
                yield v1.Req(n=r.n)

        replies = asyncio.Queue()
        seen = []
        async for r in shop.do_ss(conversation(replies)):
            seen.append(r.n)
            replies.put_nowait(r)
        assert seen == [2, 4, 7], seen
        assert [r.n for r in took("do_ss")] == [1, 2, 4]

        # names needing re-casing
        assert (await shop.get_http_status(v1.Req(n=5))) == v1.Rep(n=200, s="get_http_status")
        assert took("get_http_status") == v1.Req(n=5)
        assert rec.calls[-1][0] == "/shop.v1.Shop/GetHTTPStatus"
        assert (await shop.import_(v1.Req(s="kw"))) == v1.Rep(n=1, s="import_")
        assert took("import_") == v1.Req(s="kw")
        assert rec.calls[-1][0] == "/shop.v1.Shop/Import"
        reps = await collect(shop.list_all_things(v1.Req()))
        assert took("list_all_things") == v1.Req()
        assert reps == [v1.Rep(s="list_all_things"), v1.Rep(), v1.Rep(s="end")]
        assert rec.calls[-1][0] == "/shop.v1.Shop/list_all_things"
        r = await shop.do2_fa(v1.Rep(n=9))
        assert took("do2_fa") == v1.Rep(n=9)
        assert r == v1.Req(n=9, s="do2_fa") and type(r) is v1.Req
        assert rec.calls[-1][0] == "/shop.v1.Shop/Do2FA"

        # cross-package types
        r = await shop.ancestor(top.Top(n=4, s="t"))
        assert took("ancestor") == top.Top(n=4, s="t")
        assert r == common.Shared(n=5, s="t") and type(r) is common.Shared
        rs = await collect(shop.cousin(common.Shared(n=10, s="c")))
        assert took("cousin") == common.Shared(n=10, s="c")
        assert rs == [extra.Deep(n=10 + i, s="c") for i in range(3)] and all(type(x) is extra.Deep for x in rs)
        for k in range(0, 4):
            items = [extra.Deep(n=j, s=str(j)) for j in range(k)]
            r = await shop.descendant(items)
            assert took("descendant") == items
            assert r == top.Top(n=sum(range(k)), s="".join(map(str, range(k)))) and type(r) is top.Top
            items = [common.Shared(n=j, s="m") for j in range(k)]
            rs = await collect(shop.mixed(agen(items)))
            assert took("mixed") == items
            assert rs == [top.Top(n=2 * j, s="m") for j in range(k)]

        # well-known types stay message classes
        r = await shop.ping(wkt.Empty())
        assert took("ping") == wkt.Empty() and type(r) is wkt.Empty
        for text in ["", "abc", "é" * 10]:
            r = await shop.wrap(wkt.StringValue(value=text))
            got = took("wrap")
            assert type(got) is wkt.StringValue and got.value == text
            assert type(r) is wkt.Int64Value and r.value == len(text)
        rs = await collect(shop.stamps(wkt.Duration(seconds=100, nanos=7)))
        got = took("stamps")
        assert type(got) is wkt.Duration and (got.seconds, got.nanos) == (100, 7)
        assert [(type(x), x.seconds, x.nanos) for x in rs] == [(wkt.Timestamp, 100 + i, 7) for i in range(3)]
        for k in range(0, 3):
            items = [wkt.Struct(fields={"k": wkt.Value(string_value=str(j))}) for j in range(k)]
            r = await shop.structs(items)
            assert took("structs") == items
            assert type(r) is wkt.Value and r.number_value == float(k)
            items = [wkt.BoolValue(value=bool(j % 2)) for j in range(k)]
            rs = await collect(shop.wraps(agen(items)))
            assert took("wraps") == items
            assert rs == [wkt.BytesValue(value=b"T" if j % 2 else b"F") for j in range(k)]

        # second service in the same module, same method name, other types
        r = await second.do_uu(v1.Rep(n=3))
        assert took("second.do_uu") == v1.Rep(n=3)
        assert r == v1.Req(n=3, s="second") and type(r) is v1.Req
        # not overridden -> UNIMPLEMENTED
        await expect_status(collect(second.only(v1.Req())), grpclib.const.Status.UNIMPLEMENTED)
        assert log == []

        # service without package
        for m in payload_values(bare.BareMsg):
            assert (await barestub.echo(m)) == m
            assert took("bare.echo") == m
            assert rec.calls[-1][0] == "/Bare/Echo"
        items = payload_values(bare.BareMsg)
        assert (await collect(barestub.echo_many(items))) == items
        assert took("bare.echo_many") == items
        assert rec.calls[-1][0] == "/Bare/EchoMany"

        # concurrent calls of different RPCs do not get mixed up
        results = await asyncio.gather(
            shop.do_uu(v1.Req(n=1)),
            collect(shop.do_us(v1.Req(n=2))),
            shop.do_su([v1.Req(n=3)]),
            collect(shop.do_ss([v1.Req(n=4)])),
            shop.import_(v1.Req(n=5)),
        )
        assert results[0] == rep_for(v1.Req(n=1))
        assert results[1] == [rep_for(v1.Req(n=2), i) for i in range(2)]
        assert results[2] == v1.Rep(n=1, s="", xs=[3])
        assert results[3] == [rep_for(v1.Req(n=4), 1)]
        assert results[4] == v1.Rep(n=1, s="import_")
        assert sorted(name for name, _ in log) == ["do_ss", "do_su", "do_us", "do_uu", "import_"]
        log.clear()


async def check_errors(mods):
    v1 = mods["v1"]
    S = make_services(mods)
    log = S["log"]
    St = grpclib.const.Status

    # nothing overridden at all: every cardinality answers UNIMPLEMENTED
    async with ChannelFor([v1.ShopBase(), mods["bare"].BareBase()]) as channel:
        shop = v1.ShopStub(channel)
        await expect_status(shop.do_uu(v1.Req(n=1)), St.UNIMPLEMENTED)
        await expect_status(shop.do_uu(v1.Req()), St.UNIMPLEMENTED)
        await expect_status(collect(shop.do_us(v1.Req(n=1))), St.UNIMPLEMENTED)
        for k in range(0, 3):
            await expect_status(shop.do_su([v1.Req(n=1)] * k), St.UNIMPLEMENTED)
            await expect_status(collect(shop.do_ss(agen([v1.Req(n=1)] * k))), St.UNIMPLEMENTED)
        await expect_status(shop.import_(v1.Req()), St.UNIMPLEMENTED)
        await expect_status(shop.ping(wkt.Empty()), St.UNIMPLEMENTED)
        await expect_status(collect(shop.stamps(wkt.Duration())), St.UNIMPLEMENTED)
        await expect_status(collect(shop.cousin(mods["common"].Shared())), St.UNIMPLEMENTED)
        await expect_status(mods["bare"].BareStub(channel).echo(mods["bare"].BareMsg()), St.UNIMPLEMENTED)
        # still usable afterwards
        await expect_status(shop.do_uu(v1.Req(n=1)), St.UNIMPLEMENTED)

    async with ChannelFor([S["Failing"]()]) as channel:
        shop = v1.ShopStub(channel)
        await expect_status(shop.do_uu(v1.Req(n=1)), St.NOT_FOUND)
        assert log == [("f_do_uu", v1.Req(n=1))]
        log.clear()
        for n in range(0, 4):
            got = []
            try:
                async for r in shop.do_us(v1.Req(n=n)):
                    got.append(r)
            except GRPCError as e:
                assert e.status is St.RESOURCE_EXHAUSTED and e.message == "us"
            else:
                raise AssertionError("no error")
            assert got == [v1.Rep(n=i) for i in range(n)]
            assert log == [("f_do_us", v1.Req(n=n))]
            log.clear()
        for k in range(0, 4):
            items = [v1.Req(n=j) for j in range(k)]
            await expect_status(shop.do_su(items), St.FAILED_PRECONDITION)
            assert log == [("f_do_su", items)]
            log.clear()
            got = []
            try:
                async for r in shop.do_ss(agen(items)):
                    got.append(r)
            except GRPCError as e:
                assert e.status is St.ABORTED and e.message == "ss"
            else:
                raise AssertionError("no error")
            assert got == [v1.Rep(n=j) for j in range(k)]
            assert log == [("f_do_ss", items)]
            log.clear()
        # the ones Failing does not override
        await expect_status(shop.get_http_status(v1.Req()), St.UNIMPLEMENTED)
        await expect_status(collect(shop.list_all_things(v1.Req())), St.UNIMPLEMENTED)
        await expect_status(shop.descendant([]), St.UNIMPLEMENTED)
        assert log == []


STUB_MD = {"x-who": "stub", "x-stub-only": "1"}
CALL_MD = {"x-who": "call"}
CALL_MD_PAIRS = [("x-who", "call"), ("x-n", "1"), ("x-n", "2")]


def remaining_matches(remaining, expected_timeout):
    if expected_timeout is None:
        return remaining is None
    return remaining is not None and expected_timeout - 5 < remaining <= expected_timeout


async def check_call_options(mods):
    """Stub-level defaults apply when the call gives nothing; call-level values win."""
    v1, bare = mods["v1"], mods["bare"]
    S = make_services(mods)
    log, rec = S["log"], S["rec"]

    async def call(stub, kind, **kw):
        if kind == "uu":
            await stub.do_uu(v1.Req(n=1), **kw)
        elif kind == "us":
            await collect(stub.do_us(v1.Req(n=2), **kw))
        elif kind == "su":
            await stub.do_su([v1.Req(n=1), v1.Req(n=2)], **kw)
        elif kind == "ss":
            await collect(stub.do_ss(agen([v1.Req(n=1), v1.Req(n=2)]), **kw))
        elif kind == "kw":
            await stub.import_(v1.Req(n=1), **kw)
        route = {
            "uu": "/shop.v1.Shop/DoUU", "us": "/shop.v1.Shop/DoUS", "su": "/shop.v1.Shop/DoSU",
            "ss": "/shop.v1.Shop/DoSS", "kw": "/shop.v1.Shop/Import",
        }[kind]
        assert len(log) == 1, log
        log.clear()
        got_route, md, remaining = rec.calls[-1]
        assert got_route == route
        return user_metadata(md), remaining

    async with ChannelFor([S["Shop"](), S["Bare"]()]) as channel:
        for kind in ("uu", "us", "su", "ss", "kw"):
            # ---- metadata
            for stub_md in (None, STUB_MD, list(STUB_MD.items())):
                stub = v1.ShopStub(channel, metadata=stub_md)
                md, remaining = await call(stub, kind)
                assert md == (sorted(STUB_MD.items()) if stub_md else []), (kind, md)
                assert remaining is None
                md, _ = await call(stub, kind, metadata=CALL_MD)
                assert md == [("x-who", "call")], (kind, md)
                md, _ = await call(stub, kind, metadata=CALL_MD_PAIRS)
                assert md == sorted(CALL_MD_PAIRS), (kind, md)
                md, _ = await call(stub, kind, metadata={})
                assert md == [], (kind, md)
            # ---- timeout
            for stub_timeout in (None, 100, 100.5):
                stub = v1.ShopStub(channel, timeout=stub_timeout)
                _, remaining = await call(stub, kind)
                assert remaining_matches(remaining, stub_timeout), (kind, remaining)
                _, remaining = await call(stub, kind, timeout=1000)
                assert remaining_matches(remaining, 1000), (kind, remaining)
                _, remaining = await call(stub, kind, timeout=20)
                assert remaining_matches(remaining, 20), (kind, remaining)
            # ---- deadline
            for stub_deadline in (None, 100):
                stub = v1.ShopStub(
                    channel, deadline=None if stub_deadline is None else Deadline.from_timeout(stub_deadline)
                )
                _, remaining = await call(stub, kind)
                assert remaining_matches(remaining, stub_deadline), (kind, remaining)
                _, remaining = await call(stub, kind, deadline=Deadline.from_timeout(1000))
                assert remaining_matches(remaining, 1000), (kind, remaining)
                _, remaining = await call(stub, kind, deadline=Deadline.from_timeout(20))
                assert remaining_matches(remaining, 20), (kind, remaining)
            # ---- all three at stub level, overridden one at a time
            stub = v1.ShopStub(channel, timeout=100, metadata=STUB_MD)
            md, remaining = await call(stub, kind)
            assert md == sorted(STUB_MD.items()) and remaining_matches(remaining, 100)
            md, remaining = await call(stub, kind, timeout=30)
            assert md == sorted(STUB_MD.items()) and remaining_matches(remaining, 30)
            md, remaining = await call(stub, kind, metadata=CALL_MD)
            assert md == [("x-who", "call")] and remaining_matches(remaining, 100)
            md, remaining = await call(stub, kind, metadata=CALL_MD, timeout=30)
            assert md == [("x-who", "call")] and remaining_matches(remaining, 30)

        # a stub-level timeout really limits the call; a larger call-level one lifts it
        class Slow(v1.ShopBase):
            async def do_uu(self, req):
                await asyncio.sleep(0.4)
                return v1.Rep(n=req.n)

    async with ChannelFor([Slow()]) as channel:
        stub = v1.ShopStub(channel, timeout=0.1)
        t0 = time.monotonic()
        try:
            await stub.do_uu(v1.Req(n=1))
        except (asyncio.TimeoutError, GRPCError):
            pass
        else:
            raise AssertionError("stub-level timeout did not apply")
        assert time.monotonic() - t0 < 0.35
        assert (await stub.do_uu(v1.Req(n=7), timeout=5)) == v1.Rep(n=7)
        relaxed = v1.ShopStub(channel, timeout=5)
        try:
            await relaxed.do_uu(v1.Req(n=1), timeout=0.1)
        except (asyncio.TimeoutError, GRPCError):
            pass
        else:
            raise AssertionError("call-level timeout did not apply")


# --------------------------------------------------------------------------- server adapters
async def check_server_adapters(mods):
    """The __rpc_* adapters / ServiceBase helpers: odd but legal handler shapes."""
    from betterproto.grpc.grpclib_server import ServiceBase
    from betterproto.grpc.util.async_channel import AsyncChannel

    import logging

    logging.getLogger("grpclib.server").setLevel(logging.CRITICAL)  # expected tracebacks
    v1 = mods["v1"]
    St = grpclib.const.Status
    calls = []

    class AIter:
        def __init__(self, items):
            self.items = list(items)

        def __aiter__(self):
            return self

        async def __anext__(self):
            if not self.items:
                raise StopAsyncIteration
            await asyncio.sleep(0)
            return self.items.pop(0)

    class Odd(v1.ShopBase):
        async def do_us(self, req):  # coroutine, never yields -> empty stream
            calls.append(("do_us", req))
            return

        def list_all_things(self, req):  # plain method returning an async iterable
            calls.append(("list_all_things", req))
            return AIter([v1.Rep(n=i) for i in range(req.n)])

        def cousin(self, shared):  # plain method returning an AsyncChannel
            calls.append(("cousin", shared))
            ch = AsyncChannel()

            async def fill():
                await ch.send_from([mods["extra"].Deep(n=i) for i in range(shared.n)], close=True)

            asyncio.ensure_future(fill())
            return ch

        async def do_uu(self, req):
            calls.append(("do_uu", req))
            if req.s == "boom":
                raise ValueError("boom")
            if req.s == "none":
                return None
            if req.s == "wrong":
                return v1.Req(n=1)  # wrong reply type
            return v1.Rep(n=req.n)

        async def do_su(self, it):
            first = None
            async for r in it:  # stops reading after the first request
                first = r
                break
            calls.append(("do_su", first))
            async for _ in it:
                pass
            return v1.Rep(n=-1 if first is None else first.n)

        async def do_ss(self, it):
            calls.append(("do_ss", None))
            async for r in it:
                if r.s == "boom":
                    raise KeyError("boom")
                yield v1.Rep(n=r.n)

    async with ChannelFor([Odd()]) as channel:
        stub = v1.ShopStub(channel)
        assert (await collect(stub.do_us(v1.Req(n=3)))) == []
        assert calls == []  # the coroutine is closed without ever running
        for n in range(0, 4):
            assert (await collect(stub.list_all_things(v1.Req(n=n)))) == [v1.Rep(n=i) for i in range(n)]
            assert calls == [("list_all_things", v1.Req(n=n))]
            calls.clear()
            got = await collect(stub.cousin(mods["common"].Shared(n=n)))
            assert got == [mods["extra"].Deep(n=i) for i in range(n)]
            assert calls == [("cousin", mods["common"].Shared(n=n))]
            calls.clear()
        assert (await stub.do_uu(v1.Req(n=4))) == v1.Rep(n=4)
        for bad in ("boom", "none", "wrong"):
            await expect_status(stub.do_uu(v1.Req(s=bad)), St.UNKNOWN)
        assert [c[0] for c in calls] == ["do_uu"] * 4
        calls.clear()
        assert (await stub.do_su([])) == v1.Rep(n=-1)
        assert (await stub.do_su([v1.Req(n=8), v1.Req(n=9)])) == v1.Rep(n=8)
        calls.clear()
        got = []
        try:
            async for r in stub.do_ss([v1.Req(n=1), v1.Req(n=2), v1.Req(s="boom")]):
                got.append(r)
        except GRPCError as e:
            assert e.status is St.UNKNOWN
        else:
            raise AssertionError("no error")
        assert got == [v1.Rep(n=1), v1.Rep(n=2)]
        # the channel still works
        assert (await stub.do_uu(v1.Req(n=5))) == v1.Rep(n=5)

    # the helper on its own, with a fake stream
    class FakeStream:
        def __init__(self):
            self.sent = []

        async def send_message(self, m):
            self.sent.append(m)

    class Closable:
        closed = 0

        def close(self):
            Closable.closed += 1

    base = ServiceBase.__new__(v1.ShopBase)

    async def gen(req):
        for i in range(req):
            yield i

    for n in range(0, 5):
        fs = FakeStream()
        assert (await base._call_rpc_handler_server_stream(gen, fs, n)) is None
        assert fs.sent == list(range(n))
    fs = FakeStream()
    assert (await base._call_rpc_handler_server_stream(lambda req: Closable(), fs, 1)) is None
    assert fs.sent == [] and Closable.closed == 1
    fs = FakeStream()
    assert (await base._call_rpc_handler_server_stream(lambda req: AIter([req, req + 1]), fs, 1)) is None
    assert fs.sent == [1, 2]

    async def failing(req):
        yield 1
        raise GRPCError(St.ABORTED)

    fs = FakeStream()
    try:
        await base._call_rpc_handler_server_stream(failing, fs, 0)
    except GRPCError as e:
        assert e.status is St.ABORTED
    else:
        raise AssertionError
    assert fs.sent == [1]

    # every generated adapter sends exactly what the handler produced, once
    mapping = v1.ShopBase.__mapping__(Odd())
    assert len(mapping) == 17
    for route, handler in mapping.items():
        assert route.startswith("/shop.v1.Shop/")
        assert handler.func.__self__.__class__ is Odd
        assert handler.func.__name__.startswith("__rpc_")


def run_all(parameters=("",), max_len=4):
    try:
        for i, parameter in enumerate(parameters):
            mods = generate(parameter, tag=f"p{i}")
            asyncio.run(check_routing_and_payloads(mods, max_len=max_len))
            asyncio.run(check_errors(mods))
            asyncio.run(check_call_options(mods))
            asyncio.run(check_server_adapters(mods))
            print(f"parameter={parameter!r}: routing/payloads, errors, call options, server adapters OK")
    finally:
        cleanup()


if __name__ == "__main__":
    t0 = time.time()
    run_all(("", "typing.root", "typing.310"))
    print("OK in %.1fs" % (time.time() - t0))
