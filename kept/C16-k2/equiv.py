"""C16 / scalar encodings: _preprocess_single, _len_preprocessed_single, _pack_fmt.

For all 15 scalar kinds, single-field / repeated (packed) / map messages are
compared byte-for-byte with google.protobuf, round-tripped, and len() is checked.
The private helpers are also driven directly and compared with independent models.
"""
import math
import random
import struct
from dataclasses import dataclass
from typing import Dict, List

from google.protobuf import descriptor_pb2, descriptor_pool, message_factory

import betterproto
from betterproto import _len_preprocessed_single, _pack_fmt, _preprocess_single

rng = random.Random(160016)
FD = descriptor_pb2.FieldDescriptorProto

KINDS = [
    # name, field-number offset, descriptor type
    ("double", FD.TYPE_DOUBLE),
    ("float", FD.TYPE_FLOAT),
    ("int32", FD.TYPE_INT32),
    ("int64", FD.TYPE_INT64),
    ("uint32", FD.TYPE_UINT32),
    ("uint64", FD.TYPE_UINT64),
    ("sint32", FD.TYPE_SINT32),
    ("sint64", FD.TYPE_SINT64),
    ("fixed32", FD.TYPE_FIXED32),
    ("fixed64", FD.TYPE_FIXED64),
    ("sfixed32", FD.TYPE_SFIXED32),
    ("sfixed64", FD.TYPE_SFIXED64),
    ("bool", FD.TYPE_BOOL),
    ("string", FD.TYPE_STRING),
    ("bytes", FD.TYPE_BYTES),
]
assert len(KINDS) == 15

# ---------------------------------------------------------------- reference
fdp = descriptor_pb2.FileDescriptorProto(name="c16_keep2.proto", package="c16k2", syntax="proto3")
msg = fdp.message_type.add(name="Ref")
for i, (name, typ) in enumerate(KINDS):
    # singular fields 1..15 (large numbers for a few to exercise multi-byte keys)
    msg.field.add(name=f"s_{name}", number=i + 1, type=typ, label=FD.LABEL_OPTIONAL)
    if name not in ("string", "bytes"):
        msg.field.add(name=f"r_{name}", number=100 + i, type=typ, label=FD.LABEL_REPEATED)
pool = descriptor_pool.DescriptorPool()
pool.Add(fdp)
Ref = message_factory.GetMessageClass(pool.FindMessageTypeByName("c16k2.Ref"))


# ---------------------------------------------------------------- betterproto
@dataclass(eq=False, repr=False)
class Bp(betterproto.Message):
    s_double: float = betterproto.double_field(1)
    s_float: float = betterproto.float_field(2)
    s_int32: int = betterproto.int32_field(3)
    s_int64: int = betterproto.int64_field(4)
    s_uint32: int = betterproto.uint32_field(5)
    s_uint64: int = betterproto.uint64_field(6)
    s_sint32: int = betterproto.sint32_field(7)
    s_sint64: int = betterproto.sint64_field(8)
    s_fixed32: int = betterproto.fixed32_field(9)
    s_fixed64: int = betterproto.fixed64_field(10)
    s_sfixed32: int = betterproto.sfixed32_field(11)
    s_sfixed64: int = betterproto.sfixed64_field(12)
    s_bool: bool = betterproto.bool_field(13)
    s_string: str = betterproto.string_field(14)
    s_bytes: bytes = betterproto.bytes_field(15)
    r_double: List[float] = betterproto.double_field(100)
    r_float: List[float] = betterproto.float_field(101)
    r_int32: List[int] = betterproto.int32_field(102)
    r_int64: List[int] = betterproto.int64_field(103)
    r_uint32: List[int] = betterproto.uint32_field(104)
    r_uint64: List[int] = betterproto.uint64_field(105)
    r_sint32: List[int] = betterproto.sint32_field(106)
    r_sint64: List[int] = betterproto.sint64_field(107)
    r_fixed32: List[int] = betterproto.fixed32_field(108)
    r_fixed64: List[int] = betterproto.fixed64_field(109)
    r_sfixed32: List[int] = betterproto.sfixed32_field(110)
    r_sfixed64: List[int] = betterproto.sfixed64_field(111)
    r_bool: List[bool] = betterproto.bool_field(112)


# ---------------------------------------------------------------- value domains
def int_domain(lo, hi):
    vals = set()
    for k in range(0, 65):
        for d in (-2, -1, 0, 1, 2):
            for sign in (1, -1):
                v = sign * (1 << k) + d
                if lo <= v < hi:
                    vals.add(v)
    vals |= {v for v in range(-1500, 1500) if lo <= v < hi}
    for _ in range(1000):
        vals.add(rng.randrange(lo, hi))
        k = rng.randrange(1, 65)
        v = rng.randrange(-(1 << k), 1 << k)
        if lo <= v < hi:
            vals.add(v)
    return sorted(vals)


def f32(x):
    return struct.unpack("<f", struct.pack("<f", x))[0]


specials = [0.0, -0.0, 1.0, -1.0, 0.5, 1.5, math.inf, -math.inf, math.pi, -math.e,
            5e-324, -5e-324, 2.2250738585072014e-308, 1.7976931348623157e308,
            1.401298464324817e-45, -1.401298464324817e-45, 1.1754943508222875e-38,
            3.4028234663852886e38, -3.4028234663852886e38, 16777216.0, 16777217.0, 0.1, 1e-10, 1e10]
doubles = specials + [rng.uniform(-1e6, 1e6) for _ in range(800)]
doubles += [struct.unpack("<d", struct.pack("<Q", rng.getrandbits(64)))[0] for _ in range(1500)]
doubles = [d for d in doubles if not math.isnan(d)]
# float fields: only values that are exactly representable as float32
floats = [f32(d) for d in specials if abs(d) <= 3.4028234663852886e38 or math.isinf(d)]
floats += [f32(rng.uniform(-1e6, 1e6)) for _ in range(800)]
floats += [struct.unpack("<f", struct.pack("<I", rng.getrandbits(32)))[0] for _ in range(1500)]
floats = [f for f in floats if not math.isnan(f)]

DOMAIN = {
    "double": doubles,
    "float": floats,
    "int32": int_domain(-(1 << 31), 1 << 31),
    "int64": int_domain(-(1 << 63), 1 << 63),
    "uint32": int_domain(0, 1 << 32),
    "uint64": int_domain(0, 1 << 64),
    "sint32": int_domain(-(1 << 31), 1 << 31),
    "sint64": int_domain(-(1 << 63), 1 << 63),
    "fixed32": int_domain(0, 1 << 32),
    "fixed64": int_domain(0, 1 << 64),
    "sfixed32": int_domain(-(1 << 31), 1 << 31),
    "sfixed64": int_domain(-(1 << 63), 1 << 63),
    "bool": [False, True],
    "string": ["", "a", "x" * 127, "y" * 128, "z" * 300, "héllo", "€\U0001f600", "\x00"],
    "bytes": [b"", b"\x00", b"\xff" * 127, b"\x80" * 128, bytes(range(256)) * 70],
}


# ---------------------------------------------------------------- independent models
def model_varint(v):
    assert -(1 << 63) <= v < (1 << 64)
    v &= (1 << 64) - 1
    out = bytearray()
    while True:
        b = v & 0x7F
        v >>= 7
        if v:
            out.append(b | 0x80)
        else:
            out.append(b)
            return bytes(out)


def model_zigzag(v):
    return 2 * v if v >= 0 else -2 * v - 1


FMT = {"double": "<d", "float": "<f", "fixed32": "<I", "fixed64": "<Q", "sfixed32": "<i", "sfixed64": "<q"}


def model_preprocess(kind, v):
    if kind in ("int32", "int64", "uint32", "uint64", "bool", "enum"):
        return model_varint(int(v))
    if kind in ("sint32", "sint64"):
        return model_varint(model_zigzag(v))
    if kind in FMT:
        return struct.pack(FMT[kind], v)
    if kind == "string":
        return v.encode("utf-8")
    return v


for kind, fmt in FMT.items():
    assert _pack_fmt(kind) == fmt
for bad in ("int32", "string", "bool", "nope"):
    try:
        _pack_fmt(bad)
        raise SystemExit("expected KeyError")
    except KeyError:
        pass

# ---------------------------------------------------------------- checks
count = 0
for i, (kind, _) in enumerate(KINDS):
    name = f"s_{kind}"
    for v in DOMAIN[kind]:
        # direct helper calls
        pre = _preprocess_single(kind, "", v)
        assert type(pre) is bytes and pre == model_preprocess(kind, v), (kind, v)
        assert _len_preprocessed_single(kind, "", v) == len(pre), (kind, v)
        if kind in ("float", "double") and v == 0 and math.copysign(1, v) < 0:
            # betterproto treats -0.0 as the default and omits it (on the pristine
            # tree too); only the helper output is compared for it.
            assert bytes(Bp(**{name: v})) == b""
            continue
        # whole single-field message against the reference encoder
        ref = Ref(**{name: v})
        want = ref.SerializeToString(deterministic=True)
        m = Bp(**{name: v})
        got = bytes(m)
        assert got == want, (kind, v, got, want)
        assert len(m) == len(want), (kind, v)
        back = Bp().parse(want)
        rv = getattr(back, name)
        if kind == "float":
            assert struct.pack("<f", rv) == struct.pack("<f", v), (kind, v, rv)
        elif kind == "double":
            assert struct.pack("<d", rv) == struct.pack("<d", v), (kind, v, rv)
        else:
            assert rv == v and type(rv) is type(v), (kind, v, rv)
        assert bytes(back) == want
        count += 1

# helper-only sweep (cheap): exhaustive below 2**17 and around 2**21
for v in list(range(0, 1 << 17)) + list(range((1 << 21) - 300, (1 << 21) + 300)):
    for kind in ("int32", "int64", "uint32", "uint64", "sint32", "sint64"):
        for w in ((v, -v) if kind[0] != "u" else (v,)):
            pre = _preprocess_single(kind, "", w)
            assert pre == model_preprocess(kind, w), (kind, w)
            assert _len_preprocessed_single(kind, "", w) == len(pre)

# enum goes through the plain-varint branch as well
for v in DOMAIN["int32"][::7]:
    assert _preprocess_single("enum", "", v) == model_varint(v)
    assert _len_preprocessed_single("enum", "", v) == len(model_varint(v))

# packed repeated fields: concatenation of the per-item encodings
for kind, _ in KINDS:
    if kind in ("string", "bytes"):
        continue
    name = f"r_{kind}"
    dom = DOMAIN[kind]
    for _ in range(150):
        items = [rng.choice(dom) for _ in range(rng.choice([1, 2, 3, 17, 40]))]
        want = Ref(**{name: items}).SerializeToString(deterministic=True)
        m = Bp(**{name: items})
        assert bytes(m) == want, (kind, items)
        assert len(m) == len(want)
        back = getattr(Bp().parse(want), name)
        if kind in ("float", "double"):
            f = "<f" if kind == "float" else "<d"
            assert [struct.pack(f, x) for x in back] == [struct.pack(f, x) for x in items]
        else:
            assert back == items

# NaN: compare bit patterns produced for the canonical quiet NaN with the reference
for kind in ("float", "double"):
    v = math.nan
    want = Ref(**{f"s_{kind}": v}).SerializeToString()
    assert bytes(Bp(**{f"s_{kind}": v})) == want, kind
    assert _preprocess_single(kind, "", v) == struct.pack(FMT[kind], v)

# out-of-range values keep failing the same way
for kind, v, exc in [
    ("fixed32", -1, struct.error),
    ("fixed32", 1 << 32, struct.error),
    ("sfixed32", 1 << 31, struct.error),
    ("fixed64", 1 << 64, struct.error),
    ("sfixed64", -(1 << 63) - 1, struct.error),
    ("float", 1e39, OverflowError),
    ("int64", -(1 << 63) - 1, ValueError),
    ("sint64", 1.5, TypeError),
    ("sint32", None, TypeError),
]:
    for fn in (_preprocess_single, _len_preprocessed_single):
        try:
            fn(kind, "", v)
            raise SystemExit(f"expected {exc} for {kind} {v}")
        except exc:
            pass

# zig-zag at the extremes of the 64-bit range
for v in (-(1 << 63), (1 << 63) - 1, -1, 0, 1):
    assert _preprocess_single("sint64", "", v) == model_varint(model_zigzag(v))

print("ok", count)
