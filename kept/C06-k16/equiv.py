"""C06 / keep2: the varint decoders under every received tag, length prefix and
varint payload (load_varint for streams, decode_varint for buffers) behave
identically: same values, same raw bytes / positions, same stream reads, same
errors.  Presence after decoding (is_set / which_one_of / serialized_on_wire) is
compared with google.protobuf HasField / WhichOneof on the same bytes, including
multi-byte tags, over-long varints, truncated input and size-delimited streams.

Exits 0 on the pristine tree and with the refactor applied.
"""
import io
import random
from dataclasses import dataclass
from typing import List, Optional

import betterproto
from betterproto import decode_varint, encode_varint, load_varint
from google.protobuf import descriptor_pb2, descriptor_pool, message_factory, wrappers_pb2

EOF_MSG = "Stream ended unexpectedly while attempting to load varint."
LONG_MSG = "Too many bytes when decoding varint."


# ------------------------------------------------------------ oracle
def oracle(data: bytes, pos: int = 0):
    """Specification: ('ok', value, consumed) | ('eof', consumed) | ('long', consumed)."""
    result = 0
    consumed = 0
    for shift in range(0, 64, 7):  # at most 10 bytes are ever looked at
        if pos + consumed >= len(data):
            return ("eof", consumed)
        byte = data[pos + consumed]
        consumed += 1
        result |= (byte & 0x7F) << shift
        if not byte & 0x80:
            return ("ok", result, consumed)
    return ("long", consumed)


class Recorder(io.BytesIO):
    """Records every read() so that the stream access pattern is compared too."""

    def __init__(self, data):
        super().__init__(data)
        self.reads = []

    def read(self, size=-1):
        out = super().read(size)
        self.reads.append((size, out))
        return out


def check_stream(data: bytes, first_from_data: bool):
    if first_from_data and not data:
        return
    first = data[:1] if first_from_data else b""
    rest = data[1:] if first_from_data else data
    stream = Recorder(rest)
    expect = oracle(data)
    offset = 1 if first_from_data else 0
    try:
        got = load_varint(stream, first) if first_from_data else load_varint(stream)
    except EOFError as e:
        assert expect[0] == "eof", (data, expect)
        assert str(e) == EOF_MSG
        # everything was consumed and one empty read signalled the end
        assert stream.tell() == len(rest)
        assert len(stream.reads) == expect[1] - offset + 1
        assert stream.reads[-1] == (1, b"")
    except ValueError as e:
        assert expect[0] == "long", (data, expect)
        assert str(e) == LONG_MSG
        assert expect[1] == 10
        assert stream.tell() == 10 - offset  # the 11th byte is not touched
        assert len(stream.reads) == 10 - offset
    else:
        assert expect[0] == "ok", (data, expect)
        value, raw = got
        assert type(value) is int and value == expect[1]
        assert type(raw) is bytes and raw == data[: expect[2]]
        assert stream.tell() == expect[2] - offset
        assert len(stream.reads) == expect[2] - offset
    assert all(size == 1 and len(out) <= 1 for size, out in stream.reads)


def check_buffer(data, pos: int):
    expect = oracle(bytes(data), pos)
    try:
        got = decode_varint(data, pos)
    except EOFError as e:
        assert expect[0] == "eof", (data, pos, expect)
        assert str(e) == EOF_MSG
    except ValueError as e:
        assert expect[0] == "long", (data, pos, expect)
        assert str(e) == LONG_MSG
    else:
        assert expect[0] == "ok", (data, pos, expect)
        value, new_pos = got
        assert type(value) is int and value == expect[1]
        assert type(new_pos) is int and new_pos == pos + expect[2]


def check_all(data: bytes):
    check_stream(data, False)
    check_stream(data, True)
    for pos in range(0, len(data) + 3):
        check_buffer(data, pos)


# ------------------------------------------------------------ part 1: decoders
interesting = {0, 1, 2, 0x7F, 0x80, 0xFF, 0x100, 300, 0x3FFF, 0x4000}
for bits in range(1, 71):
    interesting.update({(1 << bits) - 1, 1 << bits, (1 << bits) + 1})
rng = random.Random(606)
for _ in range(3000):
    interesting.add(rng.getrandbits(rng.randint(1, 64)))


def raw_encode(value: int) -> bytes:
    """Plain base-128 encoding, also for values beyond 64 bits."""
    out = bytearray()
    while True:
        byte = value & 0x7F
        value >>= 7
        if value:
            out.append(byte | 0x80)
        else:
            out.append(byte)
            return bytes(out)


n = 0
for value in sorted(interesting):
    enc = raw_encode(value)
    if value < 1 << 64:
        assert enc == encode_varint(value)
    if len(enc) <= 10:
        assert load_varint(io.BytesIO(enc)) == (value, enc)
        assert decode_varint(enc, 0) == (value, len(enc))
    for suffix in (b"", b"\x00", b"\x80", b"\xff\xff", b"\x01" * 12):
        check_all(enc + suffix)
        n += 1
    # truncations
    for cut in range(len(enc)):
        check_all(enc[:cut])
    # over-long (non-canonical) encodings of the same value
    for pad in range(1, 12):
        padded = enc[:-1] + bytes([enc[-1] | 0x80]) + b"\x80" * (pad - 1) + b"\x00"
        check_all(padded)
        if len(padded) <= 10:
            assert decode_varint(padded, 0) == (value, len(padded))
            assert load_varint(io.BytesIO(padded + b"tail")) == (value, padded)

# negative numbers as the library encodes them: ten bytes
for value in (-1, -2, -128, -(2**31), -(2**63)):
    enc = encode_varint(value)
    assert len(enc) == 10
    assert decode_varint(enc, 0) == (value + (1 << 64), 10)
    check_all(enc)

# exhaustive over all 1- and 2-byte inputs, plus random junk
for a in range(256):
    check_all(bytes([a]))
    for b in range(0, 256, 5):
        check_all(bytes([a, b]))
for _ in range(4000):
    size = rng.randint(0, 14)
    junk = bytes(rng.choice((rng.randrange(256), rng.randrange(128, 256))) for _ in range(size))
    check_all(junk)
check_all(b"")
check_all(b"\x80" * 9 + b"\x7f")          # tenth byte with bits beyond 64
assert decode_varint(b"\x80" * 9 + b"\x7f", 0) == (0x7F << 63, 10)
check_all(b"\xff" * 10 + b"\x00")          # eleven bytes
check_all(b"\xff" * 30)

# other buffer types / positions
for buf in (bytearray(b"\xac\x02\x05"), memoryview(b"\xac\x02\x05")):
    assert decode_varint(buf, 0) == (300, 2)
    assert decode_varint(buf, 2) == (5, 3)
    check_buffer(buf, 1)
    check_buffer(buf, 3)
    check_buffer(buf, 50)
for bad_pos in (-1, -3):
    try:
        decode_varint(b"\x01\x02\x03", bad_pos)
    except ValueError as e:
        assert str(e) == f"negative seek value {bad_pos}", str(e)
    else:
        raise AssertionError("negative position accepted")

# `first` hands over the byte the caller already consumed
s = io.BytesIO(b"\x02rest")
assert load_varint(s, b"\xac") == (300, b"\xac\x02") and s.read() == b"rest"
s = io.BytesIO(b"rest")
assert load_varint(s, b"\x05") == (5, b"\x05") and s.read() == b"rest"
s = io.BytesIO(b"\x07")
assert load_varint(s) == (7, b"\x07") and load_varint(io.BytesIO(b"\x07"), b"") == (7, b"\x07")

# ------------------------------------------------------------ part 2: presence after parse
F = descriptor_pb2.FieldDescriptorProto
BIG = [1, 15, 16, 2047, 2048, 262143, 262144, 2**28, 2**29 - 1]  # tag sizes 1..5 bytes
fdp = descriptor_pb2.FileDescriptorProto(
    name="c06_keep2.proto", package="c06keep2", syntax="proto3",
    dependency=["google/protobuf/wrappers.proto"],
)
sub = fdp.message_type.add(name="Sub")
sub.field.add(name="x", number=1, type=F.TYPE_INT32, label=F.LABEL_OPTIONAL)
sub.field.add(name="far", number=2**29 - 1, type=F.TYPE_UINT64, label=F.LABEL_OPTIONAL)
msg = fdp.message_type.add(name="M")
msg.oneof_decl.add(name="grp")
spec = [
    # name, number, type, kwargs
    ("plain", 1, F.TYPE_UINT64, {}),
    ("opt_i", 15, F.TYPE_INT64, {"proto3_optional": True}),
    ("opt_s", 16, F.TYPE_STRING, {"proto3_optional": True}),
    ("opt_b", 2047, F.TYPE_BOOL, {"proto3_optional": True}),
    ("sub", 2048, F.TYPE_MESSAGE, {"type_name": ".c06keep2.Sub"}),
    ("wrap", 262143, F.TYPE_MESSAGE, {"type_name": ".google.protobuf.Int32Value"}),
    ("g_int", 262144, F.TYPE_SINT32, {"oneof_index": 0}),
    ("g_str", 2**28, F.TYPE_STRING, {"oneof_index": 0}),
    ("g_sub", 2**29 - 1, F.TYPE_MESSAGE, {"type_name": ".c06keep2.Sub", "oneof_index": 0}),
    ("packed", 7, F.TYPE_UINT64, {"label": F.LABEL_REPEATED}),
]
synthetic = 1
for name, number, ftype, kw in spec:
    kw = dict(kw)
    kw.setdefault("label", F.LABEL_OPTIONAL)
    if kw.get("proto3_optional"):
        kw["oneof_index"] = synthetic
        synthetic += 1
    msg.field.add(name=name, number=number, type=ftype, **kw)
for name, _n, _t, kw in spec:
    if kw.get("proto3_optional"):
        msg.oneof_decl.add(name="_" + name)
pool = descriptor_pool.DescriptorPool()
pool.Add(descriptor_pb2.FileDescriptorProto.FromString(wrappers_pb2.DESCRIPTOR.serialized_pb))
pool.Add(fdp)
RefM = message_factory.GetMessageClass(pool.FindMessageTypeByName("c06keep2.M"))
RefSub = message_factory.GetMessageClass(pool.FindMessageTypeByName("c06keep2.Sub"))
RefInt32Value = message_factory.GetMessageClass(
    pool.FindMessageTypeByName("google.protobuf.Int32Value")
)


@dataclass(eq=False, repr=False)
class Sub(betterproto.Message):
    x: int = betterproto.int32_field(1)
    far: int = betterproto.uint64_field(2**29 - 1)


@dataclass(eq=False, repr=False)
class M(betterproto.Message):
    plain: int = betterproto.uint64_field(1)
    packed: List[int] = betterproto.uint64_field(7)  # declared in field-number order
    opt_i: Optional[int] = betterproto.int64_field(15, optional=True)
    opt_s: Optional[str] = betterproto.string_field(16, optional=True)
    opt_b: Optional[bool] = betterproto.bool_field(2047, optional=True)
    sub: Sub = betterproto.message_field(2048)
    wrap: Optional[int] = betterproto.message_field(262143, wraps=betterproto.TYPE_INT32)
    g_int: int = betterproto.sint32_field(262144, group="grp")
    g_str: str = betterproto.string_field(2**28, group="grp")
    g_sub: Sub = betterproto.message_field(2**29 - 1, group="grp")


PRESENCE = ["opt_i", "opt_s", "opt_b", "sub", "wrap", "g_int", "g_str", "g_sub"]


def same_presence(label, message, ref):
    for name in PRESENCE:
        assert message.is_set(name) == ref.HasField(name), (label, name)
    assert betterproto.serialized_on_wire(message.sub) == ref.HasField("sub"), label
    which = betterproto.which_one_of(message, "grp")[0]
    assert which == (ref.WhichOneof("grp") or ""), (label, which)
    assert message.plain == ref.plain and message.packed == list(ref.packed), label
    if ref.HasField("opt_i"):
        assert message.opt_i == ref.opt_i
    if ref.HasField("sub"):
        assert (message.sub.x, message.sub.far) == (ref.sub.x, ref.sub.far)
    if ref.HasField("wrap"):
        assert message.wrap == ref.wrap.value
    else:
        assert message.wrap is None
    if which == "g_sub":
        assert (message.g_sub.x, message.g_sub.far) == (ref.g_sub.x, ref.g_sub.far)
    elif which:
        assert getattr(message, which) == getattr(ref, which)


def parse_all_ways(label, data, ref):
    expected = ref.SerializeToString(deterministic=True)
    m1 = M().parse(data)
    m2 = M.FromString(data)
    m3 = M().load(io.BytesIO(data))
    m4 = M().load(io.BytesIO(data), len(data))
    framed = io.BytesIO(encode_varint(len(data)) + data + b"\x08\x63")
    m5 = M().load(framed, betterproto.SIZE_DELIMITED)
    assert framed.read() == b"\x08\x63", label  # nothing beyond the frame was consumed
    for m in (m1, m2, m3, m4, m5):
        same_presence(label, m, ref)
        assert betterproto.serialized_on_wire(m)
        assert bytes(m) == expected, (label, bytes(m), expected)
        assert len(m) == len(expected)


cases = {
    "empty": RefM(),
    "plain": RefM(plain=2**64 - 1),
    "opt_i/0": RefM(opt_i=0),
    "opt_i/-1": RefM(opt_i=-1),
    "opt_i/min": RefM(opt_i=-(2**63)),
    "opt_s/empty": RefM(opt_s=""),
    "opt_s/long": RefM(opt_s="y" * 300),      # two-byte length prefix
    "opt_b/false": RefM(opt_b=False),
    "opt_b/true": RefM(opt_b=True),
    "sub/empty": RefM(sub=RefSub()),
    "sub/far": RefM(sub=RefSub(far=2**63)),
    "wrap/0": RefM(wrap=RefInt32Value(value=0)),
    "wrap/-5": RefM(wrap=RefInt32Value(value=-5)),
    "g_int/0": RefM(g_int=0),
    "g_int/-1": RefM(g_int=-1),
    "g_str/empty": RefM(g_str=""),
    "g_sub/empty": RefM(g_sub=RefSub()),
    "g_sub/x": RefM(g_sub=RefSub(x=-1, far=1)),
    "packed": RefM(packed=[0, 1, 127, 128, 2**32, 2**64 - 1]),
    "packed/long": RefM(packed=list(range(200))),  # payload longer than 127 bytes
    "everything": RefM(plain=1, opt_i=0, opt_s="", opt_b=False, sub=RefSub(),
                       wrap=RefInt32Value(), g_str="", packed=[0]),
}
for label, ref in cases.items():
    data = ref.SerializeToString(deterministic=True)
    parse_all_ways(label, data, ref)
    # a later oneof member replaces an earlier one, as in the reference
    # (a sub-message member arriving twice is merged by the reference, so the
    # message-typed member is only appended where it was not selected before)
    extras = [RefM(g_int=0), RefM(g_str="")]
    if ref.WhichOneof("grp") != "g_sub":
        extras.append(RefM(g_sub=RefSub()))
    for extra in extras:
        both = data + extra.SerializeToString()
        parse_all_ways(label + "+oneof", both, RefM.FromString(both))

# over-long (non-canonical) varints in tag, length and value position: the
# presence and the values are those of the canonical form.
def overlong(value: int, total: int) -> bytes:
    enc = bytearray(raw_encode(value))
    while len(enc) < total:
        enc[-1] |= 0x80
        enc.append(0)
    return bytes(enc)


for width in range(1, 11):
    if width >= 2:
        data = b"\x78" + overlong(0, width)                      # opt_i = 0, long value
        m = M().parse(data)
        assert m.is_set("opt_i") and m.opt_i == 0 and bytes(m) == b"\x78\x00"
        data = b"\x82\x01" + overlong(0, width)                  # opt_s = "", long length
        m = M().parse(data)
        assert m.is_set("opt_s") and m.opt_s == "" and bytes(m) == b"\x82\x01\x00"
    if 1 <= width <= 10:
        tag = overlong((15 << 3) | 0, width)                     # long tag
        m = M().parse(tag + b"\x05")
        assert m.is_set("opt_i") and m.opt_i == 5 and bytes(m) == b"\x78\x05"
        assert not m.is_set("opt_s") and betterproto.which_one_of(m, "grp") == ("", None)
# eleven-byte varints are rejected wherever they appear
for data in (b"\x78" + b"\x80" * 10 + b"\x00", b"\xf8" + b"\x80" * 10 + b"\x00",
             b"\x82\x01" + b"\x80" * 10 + b"\x00"):
    try:
        M().parse(data)
    except ValueError as e:
        assert str(e) == LONG_MSG
    else:
        raise AssertionError("11-byte varint accepted")
try:
    M().parse(b"\x3a" + b"\x0b" + b"\x80" * 10 + b"\x00")      # inside a packed run
except ValueError as e:
    assert str(e) == LONG_MSG
else:
    raise AssertionError("11-byte packed varint accepted")

# truncated input: every proper prefix either parses (cut at a field boundary)
# or fails with EOFError; never a silently different presence.
full_ref = cases["everything"]
full = full_ref.SerializeToString(deterministic=True)
boundaries = set()
pos = 0
for parsed in betterproto.parse_fields(full):
    pos += len(parsed.raw)
    boundaries.add(pos)
assert pos == len(full)
for cut in range(len(full)):
    prefix = full[:cut]
    try:
        m = M().parse(prefix)
    except EOFError:
        assert cut not in boundaries and cut != 0, cut
    else:
        assert cut in boundaries or cut == 0, cut
        same_presence(f"prefix{cut}", m, RefM.FromString(prefix))
# truncated packed payload and truncated frame header
for data in (b"\x3a\x02\x01\x80", b"\x3a\x01\xff"):
    try:
        M().parse(data)
    except EOFError as e:
        assert str(e) == EOF_MSG
    else:
        raise AssertionError("truncated packed run accepted")
for frame in (b"", b"\x80", b"\x80\x80"):
    try:
        M().load(io.BytesIO(frame), betterproto.SIZE_DELIMITED)
    except EOFError as e:
        assert str(e) == EOF_MSG
    else:
        raise AssertionError("truncated frame header accepted")

# unknown fields (any tag width) are kept verbatim and do not disturb presence
unknown = b"".join(
    encode_varint((number << 3) | 0) + encode_varint(value)
    for number, value in ((3, 0), (100, 300), (5000, 2**40), (2**29 - 2, 2**64 - 1))
)
for label, ref in cases.items():
    data = ref.SerializeToString(deterministic=True)
    m = M().parse(unknown + data)
    same_presence(label + "+unknown", m, ref)
    assert bytes(m) == data + unknown

# parse_fields (buffer based) agrees with load_fields (stream based)
for label, ref in cases.items():
    data = ref.SerializeToString(deterministic=True) + unknown
    a = list(betterproto.parse_fields(data))
    b = list(betterproto.load_fields(io.BytesIO(data)))
    assert [(f.number, f.wire_type, f.value, f.raw) for f in a] == [
        (f.number, f.wire_type, f.value, f.raw) for f in b], label
    assert b"".join(f.raw for f in a) == data

print(f"C06 keep2 equiv: OK ({n} encodings, {len(cases)} message cases)")
