"""Equivalence checks for the refactor of Message.dump / Message.__len__ (field selection
moved into one shared generator).

The emitted bytes are compared with google.protobuf for randomly filled messages that
cover scalars, enums, proto3-optional, oneofs (incl. default valued members), wrappers,
Timestamp/Duration, repeated/packed, maps and nested messages; in addition the round trip
property, len() and size-delimited dumps are checked, and a set of literal byte strings
pins the default-skipping rules.  Runs unchanged on the pristine and the refactored tree.
"""
import math
import random
import struct
from dataclasses import dataclass
from datetime import datetime, timedelta, timezone
from io import BytesIO
from typing import Dict, List, Optional

import betterproto
from google.protobuf import (
    descriptor_pb2,
    descriptor_pool,
    duration_pb2,
    message_factory,
    timestamp_pb2,
    wrappers_pb2,
)

rnd = random.Random(0xC01_2)


# ----------------------------------------------------------------------------------
# betterproto side
# ----------------------------------------------------------------------------------
class Color(betterproto.Enum):
    ZERO = 0
    ONE = 1
    NEG = -5
    BIG = 2147483647


@dataclass(eq=False, repr=False)
class Inner(betterproto.Message):
    a: int = betterproto.sint32_field(1)
    s: str = betterproto.string_field(2)
    r: List[int] = betterproto.uint32_field(3)
    child: "Inner" = betterproto.message_field(4)


@dataclass(eq=False, repr=False)
class Empty(betterproto.Message):
    pass


@dataclass(eq=False, repr=False)
class Big(betterproto.Message):
    # plain singular scalars
    i32: int = betterproto.int32_field(1)
    i64: int = betterproto.int64_field(2)
    u32: int = betterproto.uint32_field(3)
    u64: int = betterproto.uint64_field(4)
    s32: int = betterproto.sint32_field(5)
    s64: int = betterproto.sint64_field(6)
    fx32: int = betterproto.fixed32_field(7)
    fx64: int = betterproto.fixed64_field(8)
    sf32: int = betterproto.sfixed32_field(9)
    sf64: int = betterproto.sfixed64_field(10)
    f: float = betterproto.float_field(11)
    d: float = betterproto.double_field(12)
    b: bool = betterproto.bool_field(13)
    s: str = betterproto.string_field(14)
    by: bytes = betterproto.bytes_field(15)
    e: Color = betterproto.enum_field(16)
    inner: Inner = betterproto.message_field(17)
    empty: Empty = betterproto.message_field(18)
    # proto3 optional
    o_i32: Optional[int] = betterproto.int32_field(20, optional=True, group="_o_i32")
    o_s: Optional[str] = betterproto.string_field(21, optional=True, group="_o_s")
    o_b: Optional[bool] = betterproto.bool_field(22, optional=True, group="_o_b")
    o_e: Optional[Color] = betterproto.enum_field(23, optional=True, group="_o_e")
    o_d: Optional[float] = betterproto.double_field(24, optional=True, group="_o_d")
    o_by: Optional[bytes] = betterproto.bytes_field(25, optional=True, group="_o_by")
    o_inner: Optional[Inner] = betterproto.message_field(26, optional=True, group="_o_inner")
    # oneof
    c_i64: int = betterproto.int64_field(30, group="choice")
    c_s: str = betterproto.string_field(31, group="choice")
    c_by: bytes = betterproto.bytes_field(32, group="choice")
    c_e: Color = betterproto.enum_field(33, group="choice")
    c_inner: Inner = betterproto.message_field(34, group="choice")
    c_b: bool = betterproto.bool_field(35, group="choice")
    c_f: float = betterproto.float_field(36, group="choice")
    c_ts: datetime = betterproto.message_field(37, group="choice")
    c_du: timedelta = betterproto.message_field(38, group="choice")
    c_empty: Empty = betterproto.message_field(39, group="choice")
    # wrappers, timestamp, duration
    w_i32: Optional[int] = betterproto.message_field(40, wraps=betterproto.TYPE_INT32)
    w_s: Optional[str] = betterproto.message_field(41, wraps=betterproto.TYPE_STRING)
    w_b: Optional[bool] = betterproto.message_field(42, wraps=betterproto.TYPE_BOOL)
    w_u64: Optional[int] = betterproto.message_field(43, wraps=betterproto.TYPE_UINT64)
    w_d: Optional[float] = betterproto.message_field(44, wraps=betterproto.TYPE_DOUBLE)
    w_by: Optional[bytes] = betterproto.message_field(45, wraps=betterproto.TYPE_BYTES)
    ts: datetime = betterproto.message_field(46)
    du: timedelta = betterproto.message_field(47)
    # repeated
    r_i32: List[int] = betterproto.int32_field(50)
    r_s64: List[int] = betterproto.sint64_field(51)
    r_fx64: List[int] = betterproto.fixed64_field(52)
    r_f: List[float] = betterproto.float_field(53)
    r_b: List[bool] = betterproto.bool_field(54)
    r_e: List[Color] = betterproto.enum_field(55)
    r_s: List[str] = betterproto.string_field(56)
    r_by: List[bytes] = betterproto.bytes_field(57)
    r_inner: List[Inner] = betterproto.message_field(58)
    r_ts: List[datetime] = betterproto.message_field(59)
    r_du: List[timedelta] = betterproto.message_field(60)
    r_empty: List[Empty] = betterproto.message_field(61)
    # maps
    m_s_i32: Dict[str, int] = betterproto.map_field(70, betterproto.TYPE_STRING, betterproto.TYPE_INT32)
    m_i64_s: Dict[int, str] = betterproto.map_field(71, betterproto.TYPE_INT64, betterproto.TYPE_STRING)
    m_s_inner: Dict[str, Inner] = betterproto.map_field(72, betterproto.TYPE_STRING, betterproto.TYPE_MESSAGE)
    m_b_e: Dict[bool, Color] = betterproto.map_field(73, betterproto.TYPE_BOOL, betterproto.TYPE_ENUM)
    m_s32_by: Dict[int, bytes] = betterproto.map_field(74, betterproto.TYPE_SINT32, betterproto.TYPE_BYTES)
    m_fx32_d: Dict[int, float] = betterproto.map_field(75, betterproto.TYPE_FIXED32, betterproto.TYPE_DOUBLE)


# ----------------------------------------------------------------------------------
# google.protobuf side (same schema)
# ----------------------------------------------------------------------------------
def build_pb():
    F = descriptor_pb2.FieldDescriptorProto
    O, R = F.LABEL_OPTIONAL, F.LABEL_REPEATED
    fd = descriptor_pb2.FileDescriptorProto(
        name="c01_keep2.proto",
        package="c01k2",
        syntax="proto3",
        dependency=[
            "google/protobuf/timestamp.proto",
            "google/protobuf/duration.proto",
            "google/protobuf/wrappers.proto",
        ],
    )
    en = fd.enum_type.add(name="Color")
    for n, v in (("ZERO", 0), ("ONE", 1), ("NEG", -5), ("BIG", 2147483647)):
        en.value.add(name=n, number=v)
    inner = fd.message_type.add(name="Inner")
    inner.field.add(name="a", number=1, type=F.TYPE_SINT32, label=O)
    inner.field.add(name="s", number=2, type=F.TYPE_STRING, label=O)
    inner.field.add(name="r", number=3, type=F.TYPE_UINT32, label=R)
    inner.field.add(name="child", number=4, type=F.TYPE_MESSAGE, label=O, type_name=".c01k2.Inner")
    fd.message_type.add(name="Empty")
    big = fd.message_type.add(name="Big")

    def add(name, number, typ, label=O, type_name=None, oneof=None, p3opt=False):
        f = big.field.add(name=name, number=number, type=typ, label=label)
        if type_name:
            f.type_name = type_name
        if oneof is not None:
            f.oneof_index = oneof
        if p3opt:
            f.proto3_optional = True

    big.oneof_decl.add(name="choice")  # index 0
    scalars = [
        ("i32", F.TYPE_INT32), ("i64", F.TYPE_INT64), ("u32", F.TYPE_UINT32), ("u64", F.TYPE_UINT64),
        ("s32", F.TYPE_SINT32), ("s64", F.TYPE_SINT64), ("fx32", F.TYPE_FIXED32), ("fx64", F.TYPE_FIXED64),
        ("sf32", F.TYPE_SFIXED32), ("sf64", F.TYPE_SFIXED64), ("f", F.TYPE_FLOAT), ("d", F.TYPE_DOUBLE),
        ("b", F.TYPE_BOOL), ("s", F.TYPE_STRING), ("by", F.TYPE_BYTES),
    ]
    for n, (name, typ) in enumerate(scalars, start=1):
        add(name, n, typ)
    add("e", 16, F.TYPE_ENUM, type_name=".c01k2.Color")
    add("inner", 17, F.TYPE_MESSAGE, type_name=".c01k2.Inner")
    add("empty", 18, F.TYPE_MESSAGE, type_name=".c01k2.Empty")
    opts = [
        ("o_i32", 20, F.TYPE_INT32, None), ("o_s", 21, F.TYPE_STRING, None), ("o_b", 22, F.TYPE_BOOL, None),
        ("o_e", 23, F.TYPE_ENUM, ".c01k2.Color"), ("o_d", 24, F.TYPE_DOUBLE, None),
        ("o_by", 25, F.TYPE_BYTES, None), ("o_inner", 26, F.TYPE_MESSAGE, ".c01k2.Inner"),
    ]
    for idx, (name, number, typ, tn) in enumerate(opts, start=1):
        big.oneof_decl.add(name="_" + name)
        add(name, number, typ, type_name=tn, oneof=idx, p3opt=True)
    add("c_i64", 30, F.TYPE_INT64, oneof=0)
    add("c_s", 31, F.TYPE_STRING, oneof=0)
    add("c_by", 32, F.TYPE_BYTES, oneof=0)
    add("c_e", 33, F.TYPE_ENUM, type_name=".c01k2.Color", oneof=0)
    add("c_inner", 34, F.TYPE_MESSAGE, type_name=".c01k2.Inner", oneof=0)
    add("c_b", 35, F.TYPE_BOOL, oneof=0)
    add("c_f", 36, F.TYPE_FLOAT, oneof=0)
    add("c_ts", 37, F.TYPE_MESSAGE, type_name=".google.protobuf.Timestamp", oneof=0)
    add("c_du", 38, F.TYPE_MESSAGE, type_name=".google.protobuf.Duration", oneof=0)
    add("c_empty", 39, F.TYPE_MESSAGE, type_name=".c01k2.Empty", oneof=0)
    add("w_i32", 40, F.TYPE_MESSAGE, type_name=".google.protobuf.Int32Value")
    add("w_s", 41, F.TYPE_MESSAGE, type_name=".google.protobuf.StringValue")
    add("w_b", 42, F.TYPE_MESSAGE, type_name=".google.protobuf.BoolValue")
    add("w_u64", 43, F.TYPE_MESSAGE, type_name=".google.protobuf.UInt64Value")
    add("w_d", 44, F.TYPE_MESSAGE, type_name=".google.protobuf.DoubleValue")
    add("w_by", 45, F.TYPE_MESSAGE, type_name=".google.protobuf.BytesValue")
    add("ts", 46, F.TYPE_MESSAGE, type_name=".google.protobuf.Timestamp")
    add("du", 47, F.TYPE_MESSAGE, type_name=".google.protobuf.Duration")
    add("r_i32", 50, F.TYPE_INT32, R)
    add("r_s64", 51, F.TYPE_SINT64, R)
    add("r_fx64", 52, F.TYPE_FIXED64, R)
    add("r_f", 53, F.TYPE_FLOAT, R)
    add("r_b", 54, F.TYPE_BOOL, R)
    add("r_e", 55, F.TYPE_ENUM, R, ".c01k2.Color")
    add("r_s", 56, F.TYPE_STRING, R)
    add("r_by", 57, F.TYPE_BYTES, R)
    add("r_inner", 58, F.TYPE_MESSAGE, R, ".c01k2.Inner")
    add("r_ts", 59, F.TYPE_MESSAGE, R, ".google.protobuf.Timestamp")
    add("r_du", 60, F.TYPE_MESSAGE, R, ".google.protobuf.Duration")
    add("r_empty", 61, F.TYPE_MESSAGE, R, ".c01k2.Empty")
    maps = [
        ("m_s_i32", 70, F.TYPE_STRING, F.TYPE_INT32, None),
        ("m_i64_s", 71, F.TYPE_INT64, F.TYPE_STRING, None),
        ("m_s_inner", 72, F.TYPE_STRING, F.TYPE_MESSAGE, ".c01k2.Inner"),
        ("m_b_e", 73, F.TYPE_BOOL, F.TYPE_ENUM, ".c01k2.Color"),
        ("m_s32_by", 74, F.TYPE_SINT32, F.TYPE_BYTES, None),
        ("m_fx32_d", 75, F.TYPE_FIXED32, F.TYPE_DOUBLE, None),
    ]
    for name, number, kt, vt, tn in maps:
        ename = "".join(p.capitalize() for p in name.split("_")) + "Entry"
        entry = big.nested_type.add(name=ename)
        entry.options.map_entry = True
        entry.field.add(name="key", number=1, type=kt, label=O)
        v = entry.field.add(name="value", number=2, type=vt, label=O)
        if tn:
            v.type_name = tn
        add(name, number, F.TYPE_MESSAGE, R, f".c01k2.Big.{ename}")

    pool = descriptor_pool.Default()
    # make sure the well-known types are loaded into the default pool
    assert timestamp_pb2 and duration_pb2 and wrappers_pb2
    pool.AddSerializedFile(fd.SerializeToString())
    return (
        message_factory.GetMessageClass(pool.FindMessageTypeByName("c01k2.Big")),
        message_factory.GetMessageClass(pool.FindMessageTypeByName("c01k2.Inner")),
    )


PbBig, PbInner = build_pb()

# ----------------------------------------------------------------------------------
# value pools (defaults are deliberately frequent)
# ----------------------------------------------------------------------------------
I32 = [0, 0, 1, -1, 2**31 - 1, -(2**31), 127, 128, -129]
I64 = [0, 0, 1, -1, 2**63 - 1, -(2**63), 2**32, -(2**32) - 1, 300]
U32 = [0, 0, 1, 2**32 - 1, 2**31, 128]
U64 = [0, 0, 1, 2**64 - 1, 2**63, 2**32, 127]
FLOATS = [0.0, 0.0, 1.5, -2.25, float("inf"), float("-inf"), float("nan"), 3.0e38, 2.0**-149]
# in range for a float field: exactly representable in 32 bits
FLOATS = [struct.unpack("<f", struct.pack("<f", x))[0] for x in FLOATS]
DOUBLES = [0.0, 0.0, 1.5, -2.25, float("inf"), float("-inf"), float("nan"), 1.0e308, 5e-324, 0.1]
# Message.__eq__ is NaN aware for singular fields only: no NaN inside containers
FLOATS_C = [x for x in FLOATS if x == x]
DOUBLES_C = [x for x in DOUBLES if x == x]
BOOLS = [False, True]
STRINGS = ["", "", "a", "é中", "\U0001F600\U0001F9D1", "x" * 127, "y" * 128]
BYTES = [b"", b"", b"\x00", b"\xff\x80\x00", bytes(range(256))]
ENUMS = [0, 0, 1, -5, 2147483647, -(2**31), 77, -1]
UTC = timezone.utc
DATETIMES = [
    datetime(1970, 1, 1, tzinfo=UTC),
    datetime(1970, 1, 1, 0, 0, 0, 1, tzinfo=UTC),
    datetime(1969, 12, 31, 23, 59, 59, 999999, tzinfo=UTC),
    datetime(1, 1, 1, tzinfo=UTC),
    datetime(9999, 12, 31, 23, 59, 59, 999999, tzinfo=UTC),
    datetime(2024, 2, 29, 12, 30, 15, 250000, tzinfo=UTC),
    datetime(1900, 6, 1, 1, 2, 3, 4, tzinfo=UTC),
]
DELTAS = [
    timedelta(0),
    timedelta(microseconds=1),
    timedelta(microseconds=-1),
    timedelta(seconds=-1, microseconds=-500000),
    timedelta(seconds=1, microseconds=500000),
    timedelta(days=3652500),
    timedelta(days=-3652500, microseconds=-7),
    timedelta(seconds=-1),
]


def pick(seq):
    return rnd.choice(seq)


def some(seq, k=4):
    return [rnd.choice(seq) for _ in range(rnd.randint(0, k))]


def maybe(p=0.6):
    return rnd.random() < p


def fill_inner(pb, depth=0):
    """Fill a google Inner in place (possibly with nothing at all)."""
    if maybe():
        pb.a = pick(I32)
    if maybe():
        pb.s = pick(STRINGS)
    if maybe(0.4):
        pb.r.extend(some(U32))
    if depth < 3 and maybe(0.35):
        pb.child.SetInParent()
        fill_inner(pb.child, depth + 1)


def set_ts(pb_ts, dt):
    pb_ts.FromDatetime(dt)


def set_du(pb_du, td):
    pb_du.FromTimedelta(td)


def random_pb():
    pb = PbBig()
    for name, pool in (
        ("i32", I32), ("i64", I64), ("u32", U32), ("u64", U64), ("s32", I32), ("s64", I64),
        ("fx32", U32), ("fx64", U64), ("sf32", I32), ("sf64", I64), ("f", FLOATS), ("d", DOUBLES),
        ("b", BOOLS), ("s", STRINGS), ("by", BYTES), ("e", ENUMS),
    ):
        if maybe():
            setattr(pb, name, pick(pool))
    if maybe(0.5):
        pb.inner.SetInParent()
        fill_inner(pb.inner)
    if maybe(0.3):
        pb.empty.SetInParent()
    for name, pool in (
        ("o_i32", I32), ("o_s", STRINGS), ("o_b", BOOLS), ("o_e", ENUMS), ("o_d", DOUBLES), ("o_by", BYTES),
    ):
        if maybe(0.5):
            setattr(pb, name, pick(pool))
    if maybe(0.4):
        pb.o_inner.SetInParent()
        fill_inner(pb.o_inner)
    which = pick([None, "c_i64", "c_s", "c_by", "c_e", "c_inner", "c_b", "c_f", "c_ts", "c_du", "c_empty"])
    if which == "c_inner":
        pb.c_inner.SetInParent()
        fill_inner(pb.c_inner)
    elif which == "c_empty":
        pb.c_empty.SetInParent()
    elif which == "c_ts":
        set_ts(pb.c_ts, pick(DATETIMES))
        pb.c_ts.SetInParent()
    elif which == "c_du":
        set_du(pb.c_du, pick(DELTAS))
        pb.c_du.SetInParent()
    elif which:
        pool = {"c_i64": I64, "c_s": STRINGS, "c_by": BYTES, "c_e": ENUMS, "c_b": BOOLS, "c_f": FLOATS}[which]
        setattr(pb, which, pick(pool))
    for name, pool in (
        ("w_i32", I32), ("w_s", STRINGS), ("w_b", BOOLS), ("w_u64", U64), ("w_d", DOUBLES), ("w_by", BYTES),
    ):
        if maybe(0.5):
            getattr(pb, name).value = pick(pool)
            getattr(pb, name).SetInParent()
    # a singular Timestamp/Duration that is present but zero has no counterpart in
    # betterproto's datetime/timedelta representation: use non-zero values only
    if maybe(0.5):
        set_ts(pb.ts, pick(DATETIMES[1:]))
    if maybe(0.5):
        set_du(pb.du, pick(DELTAS[1:]))
    pb.r_i32.extend(some(I32, 6))
    pb.r_s64.extend(some(I64, 6))
    pb.r_fx64.extend(some(U64))
    pb.r_f.extend(some(FLOATS_C))
    pb.r_b.extend(some(BOOLS))
    pb.r_e.extend(some(ENUMS))
    pb.r_s.extend(some(STRINGS))
    pb.r_by.extend(some(BYTES))
    for _ in range(rnd.randint(0, 3)):
        fill_inner(pb.r_inner.add())
    for dt in some(DATETIMES, 3):
        set_ts(pb.r_ts.add(), dt)
    for td in some(DELTAS, 3):
        set_du(pb.r_du.add(), td)
    for _ in range(rnd.randint(0, 2)):
        pb.r_empty.add()
    # every other message has no default key/value in its maps (see section 1)
    nz = (lambda seq: [x for x in seq if x]) if maybe(0.5) else (lambda seq: seq)
    for _ in range(rnd.randint(0, 3)):
        pb.m_s_i32[pick(nz(STRINGS))] = pick(nz(I32))
    for _ in range(rnd.randint(0, 3)):
        pb.m_i64_s[pick(nz(I64))] = pick(nz(STRINGS))
    for _ in range(rnd.randint(0, 3)):
        entry = pb.m_s_inner[pick(nz(STRINGS))]
        fill_inner(entry)
        if not entry.ByteSize():
            entry.a = -1
    for _ in range(rnd.randint(0, 2)):
        pb.m_b_e[pick(nz(BOOLS))] = pick(nz(ENUMS))
    for _ in range(rnd.randint(0, 3)):
        pb.m_s32_by[pick(nz(I32))] = pick(nz(BYTES))
    for _ in range(rnd.randint(0, 3)):
        pb.m_fx32_d[pick(nz(U32))] = pick(nz(DOUBLES_C))
    return pb, which


def varint(n):
    out = bytearray()
    while True:
        b = n & 0x7F
        n >>= 7
        if n:
            out.append(b | 0x80)
        else:
            out.append(b)
            return bytes(out)


def opt_get(m, name):
    """Value of an optional field; unset members of a synthetic oneof raise."""
    try:
        return getattr(m, name)
    except AttributeError:
        return None


def check_roundtrip(m):
    """The property itself, plus the size twin and the delimited form."""
    data = bytes(m)
    assert m.SerializeToString() == data
    assert len(m) == len(data), (len(m), len(data), m)
    buf = BytesIO()
    m.dump(buf)
    assert buf.getvalue() == data
    buf = BytesIO()
    m.dump(buf, betterproto.SIZE_DELIMITED)
    assert buf.getvalue() == varint(len(data)) + data
    d = type(m)().parse(data)
    assert d == m and m == d, (m, d)
    assert bytes(d) == data
    assert len(d) == len(data)
    for group in m._group_current:
        name, value = betterproto.which_one_of(m, group)
        dname, dvalue = betterproto.which_one_of(d, group)
        if value is None:
            # an optional that was reset to None is not sent, hence not selected
            name = ""
        assert name == dname, (group, name, dname)
        if isinstance(value, float) and math.isnan(value):
            assert math.isnan(dvalue)
        else:
            assert value == dvalue
    return data, d


# ----------------------------------------------------------------------------------
# 1. random messages made by google.protobuf: same bytes out of betterproto
# ----------------------------------------------------------------------------------
N = 500
exact = 0
for n in range(N):
    pb, which = random_pb()
    wire = pb.SerializeToString(deterministic=True)
    bp = Big().parse(wire)
    assert bp._unknown_fields == b""
    out = bytes(bp)
    # Declaration order == field number order and google sorted the map keys, so the
    # two encoders have to agree byte for byte - except that google always writes
    # both halves of a map entry while betterproto leaves out a default key/value.
    default_in_map = any(
        (not k) or (not v.ByteSize() if hasattr(v, "ByteSize") else not v)
        for name in ("m_s_i32", "m_i64_s", "m_s_inner", "m_b_e", "m_s32_by", "m_fx32_d")
        for k, v in getattr(pb, name).items()
    )
    if not default_in_map:
        assert out == wire, (n, pb, out, wire)
        exact += 1
    assert len(bp) == len(out)
    assert betterproto.which_one_of(bp, "choice")[0] == (which or "")
    assert betterproto.serialized_on_wire(bp.inner) == pb.HasField("inner")
    assert betterproto.serialized_on_wire(bp.empty) == pb.HasField("empty")
    for name in ("o_i32", "o_s", "o_b", "o_e", "o_d", "o_by", "o_inner", "w_i32", "w_s", "w_b", "w_u64", "w_d", "w_by"):
        assert (opt_get(bp, name) is not None) == pb.HasField(name), name
    data, d = check_roundtrip(bp)
    assert data == out
    assert betterproto.serialized_on_wire(d.inner) == pb.HasField("inner")
    # ... and google reads betterproto's output back to the same message
    assert PbBig.FromString(out).SerializeToString(deterministic=True) == wire

    # a copy rebuilt through the constructor from the decoded values encodes alike
    kwargs = {}
    for name in bp._betterproto.sorted_field_names:
        try:
            kwargs[name] = getattr(bp, name)
        except AttributeError:
            pass  # unselected oneof member
    rebuilt = Big(**{k: v for k, v in kwargs.items() if not (k.startswith("c_") and k != which)})
    rb = bytes(rebuilt)
    assert len(rebuilt) == len(rb)
    # (presence of empty children can only be told from the wire, so only compare
    # when no such child is involved)
    if PbBig.FromString(rb).SerializeToString(deterministic=True) == wire:
        check_roundtrip(rebuilt)


assert exact > N // 4, exact

# ----------------------------------------------------------------------------------
# 2. literal expectations for the default-skipping rules
# ----------------------------------------------------------------------------------
def B(**kw):
    return Big(**kw)


EPOCH = DATETIMES[0]
cases = [
    (B(), b""),
    (B(i32=0, s="", by=b"", b=False, f=0.0, d=0.0, e=Color.ZERO), b""),
    (B(i32=-1), b"\x08" + b"\xff" * 9 + b"\x01"),
    (B(e=Color.NEG), b"\x80\x01" + b"\xfb" + b"\xff" * 8 + b"\x01"),
    (B(inner=Inner()), b""),
    (B(inner=Inner(a=0)), b"\x8a\x01\x00"),
    (B(inner=Inner(child=Inner(s=""))), b"\x8a\x01\x02\x22\x00"),
    (B(empty=Empty()), b"\x92\x01\x00"),
    (B(o_i32=0), b"\xa0\x01\x00"),
    (B(o_s=""), b"\xaa\x01\x00"),
    (B(o_b=False), b"\xb0\x01\x00"),
    (B(o_e=Color.ZERO), b"\xb8\x01\x00"),
    (B(o_d=0.0), b"\xc1\x01" + b"\x00" * 8),
    (B(o_by=b""), b"\xca\x01\x00"),
    (B(o_inner=Inner()), b"\xd2\x01\x00"),
    (B(c_i64=0), b"\xf0\x01\x00"),
    (B(c_s=""), b"\xfa\x01\x00"),
    (B(c_by=b""), b"\x82\x02\x00"),
    (B(c_e=Color.ZERO), b"\x88\x02\x00"),
    (B(c_inner=Inner()), b"\x92\x02\x00"),
    (B(c_b=False), b"\x98\x02\x00"),
    (B(c_f=0.0), b"\xa5\x02\x00\x00\x00\x00"),
    (B(c_ts=EPOCH), b"\xaa\x02\x00"),
    (B(c_du=timedelta(0)), b"\xb2\x02\x00"),
    (B(c_empty=Empty()), b"\xba\x02\x00"),
    (B(w_i32=0), b"\xc2\x02\x00"),
    (B(w_s=""), b"\xca\x02\x00"),
    (B(w_b=False), b"\xd2\x02\x00"),
    (B(w_b=True), b"\xd2\x02\x02\x08\x01"),
    (B(ts=EPOCH), b""),
    (B(du=timedelta(0)), b""),
    (B(du=timedelta(seconds=-1, microseconds=-500000)),
     b"\xfa\x02\x16\x08" + b"\xff" * 9 + b"\x01\x10\x80\xb6\xca\x91\xfe\xff\xff\xff\xff\x01"),
    (B(r_i32=[]), b""),
    (B(r_i32=[0]), b"\x92\x03\x01\x00"),
    (B(r_s=[""]), b"\xc2\x03\x00"),
    (B(r_by=[b"", b"a"]), b"\xca\x03\x00\xca\x03\x01a"),
    (B(r_inner=[Inner(), Inner(a=-1)]), b"\xd2\x03\x00\xd2\x03\x02\x08\x01"),
    (B(r_ts=[EPOCH]), b"\xda\x03\x00"),
    (B(r_du=[timedelta(0)]), b"\xe2\x03\x00"),
    (B(r_empty=[Empty(), Empty()]), b"\xea\x03\x00\xea\x03\x00"),
    (B(m_s_i32={}), b""),
    (B(m_s_i32={"": 0}), b"\xb2\x04\x02\x10\x00"),
    (B(m_i64_s={0: ""}), b"\xba\x04\x02\x08\x00"),
    (B(m_s32_by={0: b""}), b"\xd2\x04\x02\x08\x00"),
    (B(m_s_i32={"a": 0, "": 1}), b"\xb2\x04\x05\x0a\x01a\x10\x00\xb2\x04\x02\x10\x01"),
    (B(m_s_inner={"k": Inner()}), b"\xc2\x04\x03\x0a\x01k"),
    (B(m_b_e={False: Color.ZERO, True: Color.NEG}),
     b"\xca\x04\x04\x08\x00\x10\x00\xca\x04\x0d\x08\x01\x10\xfb" + b"\xff" * 8 + b"\x01"),
]
for msg, expected in cases:
    got = bytes(msg)
    assert got == expected, (msg, got, expected)
    assert len(msg) == len(expected)
    check_roundtrip(msg)
    # google agrees on what these bytes mean, and produces them itself
    has_map = any(getattr(msg, n) for n in ("m_s_i32", "m_i64_s", "m_s_inner", "m_b_e", "m_s32_by", "m_fx32_d"))
    pb = PbBig.FromString(expected)
    if not has_map:
        assert pb.SerializeToString(deterministic=True) == expected, (msg, expected)
    else:
        assert Big().parse(pb.SerializeToString(deterministic=True)) == msg

# switching the selected oneof member: only the last one is sent
m = Big(c_i64=5)
m.c_s = ""
assert bytes(m) == b"\xfa\x01\x00" and betterproto.which_one_of(m, "choice") == ("c_s", "")
check_roundtrip(m)
m.c_inner = Inner()
assert bytes(m) == b"\x92\x02\x00"
check_roundtrip(m)
m.c_b = False
assert bytes(m) == b"\x98\x02\x00"
check_roundtrip(m)

# optionals reset to None disappear again
m = Big(o_i32=0, o_s="x", w_i32=0)
m.o_i32 = None
m.w_i32 = None
assert bytes(m) == b"\xaa\x01\x01x"
check_roundtrip(m)

# children that were filled in place
m = Big()
m.inner.child.a = 3
assert bytes(m) == b"\x8a\x01\x04\x22\x02\x08\x06"
check_roundtrip(m)
m = Big()
m.inner.r.append(0)
assert bytes(m) == b"\x8a\x01\x03\x1a\x01\x00"
check_roundtrip(m)
m = Big()
m.inner  # a read is not a set
m.r_i32
m.m_s_i32
assert bytes(m) == b"" and len(m) == 0
check_roundtrip(m)

# unknown fields are appended after the known ones, and counted by len()
m = Big().parse(b"\xf8\x7f\x01" + b"\x08\x02")
assert bytes(m) == b"\x08\x02\xf8\x7f\x01" and len(m) == 5

# an encoding error in the middle leaves the earlier fields in the stream, as before
buf = BytesIO()
bad = Big(i32=1, i64=2, u32=-(2**64), s="never written")
try:
    bad.dump(buf)
except ValueError as e:
    assert "not representable" in str(e)
else:
    raise AssertionError("out of range value was encoded")
assert buf.getvalue() == b"\x08\x01\x10\x02", buf.getvalue()
try:
    len(bad)
except ValueError as e:
    assert "not representable" in str(e)
else:
    raise AssertionError("out of range value was measured")

# ----------------------------------------------------------------------------------
# 3. random messages built on the betterproto side (constructor values incl. explicit
#    defaults), read by google
# ----------------------------------------------------------------------------------
def random_bp_inner(depth=0):
    kw = {}
    if maybe():
        kw["a"] = pick(I32)
    if maybe():
        kw["s"] = pick(STRINGS)
    if maybe(0.4):
        kw["r"] = some(U32)
    if depth < 3 and maybe(0.35):
        kw["child"] = random_bp_inner(depth + 1)
    return Inner(**kw)


for n in range(500):
    kw = {}
    for name, pool in (
        ("i32", I32), ("i64", I64), ("u32", U32), ("u64", U64), ("s32", I32), ("s64", I64),
        ("fx32", U32), ("fx64", U64), ("sf32", I32), ("sf64", I64), ("f", FLOATS), ("d", DOUBLES),
        ("b", BOOLS), ("s", STRINGS), ("by", BYTES),
        ("o_i32", I32), ("o_s", STRINGS), ("o_b", BOOLS), ("o_d", DOUBLES), ("o_by", BYTES),
        ("w_i32", I32), ("w_s", STRINGS), ("w_b", BOOLS), ("w_u64", U64), ("w_d", DOUBLES), ("w_by", BYTES),
        ("ts", DATETIMES), ("du", DELTAS),
    ):
        if maybe(0.5):
            kw[name] = pick(pool)
    for name in ("e", "o_e"):
        if maybe(0.5):
            kw[name] = Color.try_value(pick(ENUMS))
    for name in ("inner", "o_inner"):
        if maybe(0.4):
            kw[name] = random_bp_inner()
    if maybe(0.3):
        kw["empty"] = Empty()
    which = pick([None, "c_i64", "c_s", "c_by", "c_e", "c_inner", "c_b", "c_f", "c_ts", "c_du", "c_empty"])
    if which:
        kw[which] = {
            "c_i64": lambda: pick(I64), "c_s": lambda: pick(STRINGS), "c_by": lambda: pick(BYTES),
            "c_e": lambda: Color.try_value(pick(ENUMS)), "c_inner": random_bp_inner,
            "c_b": lambda: pick(BOOLS), "c_f": lambda: pick(FLOATS), "c_ts": lambda: pick(DATETIMES),
            "c_du": lambda: pick(DELTAS), "c_empty": Empty,
        }[which]()
    for name, pool in (
        ("r_i32", I32), ("r_s64", I64), ("r_fx64", U64), ("r_f", FLOATS_C), ("r_b", BOOLS),
        ("r_s", STRINGS), ("r_by", BYTES), ("r_ts", DATETIMES), ("r_du", DELTAS),
    ):
        if maybe(0.5):
            kw[name] = some(pool)
    if maybe(0.5):
        kw["r_e"] = [Color.try_value(v) for v in some(ENUMS)]
    if maybe(0.5):
        kw["r_inner"] = [random_bp_inner() for _ in range(rnd.randint(0, 3))]
    if maybe(0.3):
        kw["r_empty"] = [Empty() for _ in range(rnd.randint(0, 2))]
    if maybe(0.5):
        kw["m_s_i32"] = {pick(STRINGS): pick(I32) for _ in range(rnd.randint(0, 3))}
    if maybe(0.5):
        kw["m_i64_s"] = {pick(I64): pick(STRINGS) for _ in range(rnd.randint(0, 3))}
    if maybe(0.5):
        kw["m_s_inner"] = {pick(STRINGS): random_bp_inner() for _ in range(rnd.randint(0, 3))}
    if maybe(0.5):
        kw["m_b_e"] = {pick(BOOLS): Color.try_value(pick(ENUMS)) for _ in range(rnd.randint(0, 2))}
    if maybe(0.5):
        kw["m_s32_by"] = {pick(I32): pick(BYTES) for _ in range(rnd.randint(0, 3))}
    if maybe(0.5):
        kw["m_fx32_d"] = {pick(U32): pick(DOUBLES_C) for _ in range(rnd.randint(0, 3))}
    m = Big(**kw)
    assert betterproto.which_one_of(m, "choice")[0] == (which or "")
    data, d = check_roundtrip(m)

    pb = PbBig.FromString(data)
    assert (pb.WhichOneof("choice") or "") == (which or "")
    for name in ("o_i32", "o_s", "o_b", "o_e", "o_d", "o_by", "o_inner", "w_i32", "w_s", "w_b", "w_u64", "w_d", "w_by"):
        assert pb.HasField(name) == (name in kw), (name, kw.get(name))
    for name in ("i32", "i64", "u32", "u64", "s32", "s64", "fx32", "fx64", "sf32", "sf64", "b", "s", "by", "e"):
        assert getattr(pb, name) == kw.get(name, type(getattr(pb, name))()), name
    for name, fmt in (("f", "<f"), ("d", "<d")):
        assert struct.pack(fmt, getattr(pb, name)) == struct.pack(fmt, kw.get(name, 0.0)) or kw.get(name) == 0.0
    for name in ("o_i32", "o_s", "o_b", "o_e", "o_by"):
        if name in kw:
            assert getattr(pb, name) == kw[name]
    for name in ("w_i32", "w_s", "w_b", "w_u64", "w_by"):
        if name in kw:
            assert getattr(pb, name).value == kw[name]
    if "ts" in kw:
        assert pb.ts.ToDatetime(tzinfo=UTC) == kw["ts"]
    if "du" in kw:
        assert pb.du.ToTimedelta() == kw["du"]
    assert list(pb.r_i32) == kw.get("r_i32", []) and list(pb.r_s64) == kw.get("r_s64", [])
    assert list(pb.r_fx64) == kw.get("r_fx64", []) and list(pb.r_b) == kw.get("r_b", [])
    assert list(pb.r_s) == kw.get("r_s", []) and list(pb.r_by) == kw.get("r_by", [])
    assert list(pb.r_e) == [int(v) for v in kw.get("r_e", [])]
    assert len(pb.r_f) == len(kw.get("r_f", [])) and len(pb.r_inner) == len(kw.get("r_inner", []))
    assert [t.ToDatetime(tzinfo=UTC) for t in pb.r_ts] == kw.get("r_ts", [])
    assert [t.ToTimedelta() for t in pb.r_du] == kw.get("r_du", [])
    assert len(pb.r_empty) == len(kw.get("r_empty", []))
    assert dict(pb.m_s_i32) == kw.get("m_s_i32", {}) and dict(pb.m_i64_s) == kw.get("m_i64_s", {})
    assert dict(pb.m_b_e) == {k: int(v) for k, v in kw.get("m_b_e", {}).items()}
    assert dict(pb.m_s32_by) == kw.get("m_s32_by", {})
    assert set(pb.m_s_inner) == set(kw.get("m_s_inner", {})) and set(pb.m_fx32_d) == set(kw.get("m_fx32_d", {}))
    # google's re-serialisation is read back by betterproto as the same message
    again = Big().parse(pb.SerializeToString())
    assert again == m, (again, m)

print("keep2 equiv: OK")
