"""C05 keep1 equivalence check: Message._from_dict_init (the JSON reader behind from_dict /
from_json) - key lookup, JSON null and unknown-member handling - plus both directions of
the property against google.protobuf.json_format on random messages.
Runs unchanged (exit 0) on the pristine tree and with the refactor applied."""
# ---------------------------------------------------------------------------------
# Shared harness: a wide betterproto message class, the same schema for
# google.protobuf (built from a FileDescriptorProto, no protoc needed), a random
# generator of reference messages and the two C05 checks.
# ---------------------------------------------------------------------------------
import json
import math
import random
import struct
from dataclasses import dataclass
from datetime import datetime, timedelta, timezone
from typing import Dict, List, Optional

from google.protobuf import (
    descriptor_pb2,
    descriptor_pool,
    duration_pb2,
    json_format,
    message_factory,
    timestamp_pb2,
    wrappers_pb2,
)

import betterproto


class Color(betterproto.Enum):
    BLACK = 0
    RED = 1
    GREEN = 2
    NEGATIVE = -1
    BIG = 2147483647


@dataclass(eq=False, repr=False)
class Child(betterproto.Message):
    name: str = betterproto.string_field(1)
    tags: List[str] = betterproto.string_field(2)
    big: int = betterproto.int64_field(3)
    kid: "Child" = betterproto.message_field(4)


@dataclass(eq=False, repr=False)
class Big(betterproto.Message):
    i32: int = betterproto.int32_field(1)
    i64: int = betterproto.int64_field(2)
    u64: int = betterproto.uint64_field(3)
    s64: int = betterproto.sint64_field(4)
    f64: int = betterproto.fixed64_field(5)
    sf64: int = betterproto.sfixed64_field(6)
    d: float = betterproto.double_field(7)
    f: float = betterproto.float_field(8)
    b: bool = betterproto.bool_field(9)
    s: str = betterproto.string_field(10)
    by: bytes = betterproto.bytes_field(11)
    e: "Color" = betterproto.enum_field(12)
    child: "Child" = betterproto.message_field(13)
    ts: datetime = betterproto.message_field(14)
    du: timedelta = betterproto.message_field(15)
    r_i64: List[int] = betterproto.int64_field(16)
    r_d: List[float] = betterproto.double_field(17)
    r_by: List[bytes] = betterproto.bytes_field(18)
    r_e: List["Color"] = betterproto.enum_field(19)
    r_child: List["Child"] = betterproto.message_field(20)
    r_ts: List[datetime] = betterproto.message_field(21)
    r_du: List[timedelta] = betterproto.message_field(22)
    m_s_i64: Dict[str, int] = betterproto.map_field(23, "string", "int64")
    m_i32_s: Dict[int, str] = betterproto.map_field(24, "int32", "string")
    m_b_by: Dict[bool, bytes] = betterproto.map_field(25, "bool", "bytes")
    m_i64_d: Dict[int, float] = betterproto.map_field(26, "int64", "double")
    m_s_e: Dict[str, "Color"] = betterproto.map_field(27, "string", "enum")
    m_s_child: Dict[str, "Child"] = betterproto.map_field(28, "string", "message")
    m_s_ts: Dict[str, datetime] = betterproto.map_field(29, "string", "message")
    m_s_du: Dict[str, timedelta] = betterproto.map_field(30, "string", "message")
    o_i: int = betterproto.int32_field(31, group="g")
    o_s: str = betterproto.string_field(32, group="g")
    o_child: "Child" = betterproto.message_field(33, group="g")
    o_d: float = betterproto.double_field(34, group="g")
    o_e: "Color" = betterproto.enum_field(43, group="g")
    o_u64: int = betterproto.uint64_field(44, group="g")
    opt_i: Optional[int] = betterproto.int32_field(35, optional=True)
    opt_s: Optional[str] = betterproto.string_field(36, optional=True)
    opt_i64: Optional[int] = betterproto.int64_field(45, optional=True)
    opt_child: Optional["Child"] = betterproto.message_field(46, optional=True)
    w_i64: Optional[int] = betterproto.message_field(37, wraps=betterproto.TYPE_INT64)
    w_d: Optional[float] = betterproto.message_field(38, wraps=betterproto.TYPE_DOUBLE)
    w_by: Optional[bytes] = betterproto.message_field(39, wraps=betterproto.TYPE_BYTES)
    w_b: Optional[bool] = betterproto.message_field(40, wraps=betterproto.TYPE_BOOL)
    from_: int = betterproto.int32_field(41)
    address_line_1: str = betterproto.string_field(42)


def _build_reference():
    F = descriptor_pb2.FieldDescriptorProto
    fdp = descriptor_pb2.FileDescriptorProto(
        name=f"c05_equiv_{random.getrandbits(40)}.proto", package="c05eq", syntax="proto3"
    )
    fdp.dependency.extend(
        [
            "google/protobuf/timestamp.proto",
            "google/protobuf/duration.proto",
            "google/protobuf/wrappers.proto",
        ]
    )
    en = fdp.enum_type.add(name="Color")
    for n, v in [("BLACK", 0), ("RED", 1), ("GREEN", 2), ("NEGATIVE", -1), ("BIG", 2147483647)]:
        en.value.add(name=n, number=v)

    def camel(name):
        parts = name.split("_")
        return parts[0] + "".join(p[:1].upper() + p[1:] for p in parts[1:])

    def add(msg, name, number, ftype, label=F.LABEL_OPTIONAL, type_name=None, **kw):
        fld = msg.field.add(name=name, number=number, type=ftype, label=label,
                            json_name=camel(name), **kw)
        if type_name:
            fld.type_name = type_name
        return fld

    child = fdp.message_type.add(name="Child")
    add(child, "name", 1, F.TYPE_STRING)
    add(child, "tags", 2, F.TYPE_STRING, F.LABEL_REPEATED)
    add(child, "big", 3, F.TYPE_INT64)
    add(child, "kid", 4, F.TYPE_MESSAGE, type_name=".c05eq.Child")

    big = fdp.message_type.add(name="Big")
    TS, DU = ".google.protobuf.Timestamp", ".google.protobuf.Duration"
    scalars = [
        ("i32", 1, F.TYPE_INT32), ("i64", 2, F.TYPE_INT64), ("u64", 3, F.TYPE_UINT64),
        ("s64", 4, F.TYPE_SINT64), ("f64", 5, F.TYPE_FIXED64), ("sf64", 6, F.TYPE_SFIXED64),
        ("d", 7, F.TYPE_DOUBLE), ("f", 8, F.TYPE_FLOAT), ("b", 9, F.TYPE_BOOL),
        ("s", 10, F.TYPE_STRING), ("by", 11, F.TYPE_BYTES),
    ]
    for n, num, t in scalars:
        add(big, n, num, t)
    add(big, "e", 12, F.TYPE_ENUM, type_name=".c05eq.Color")
    add(big, "child", 13, F.TYPE_MESSAGE, type_name=".c05eq.Child")
    add(big, "ts", 14, F.TYPE_MESSAGE, type_name=TS)
    add(big, "du", 15, F.TYPE_MESSAGE, type_name=DU)
    R = F.LABEL_REPEATED
    add(big, "r_i64", 16, F.TYPE_INT64, R)
    add(big, "r_d", 17, F.TYPE_DOUBLE, R)
    add(big, "r_by", 18, F.TYPE_BYTES, R)
    add(big, "r_e", 19, F.TYPE_ENUM, R, type_name=".c05eq.Color")
    add(big, "r_child", 20, F.TYPE_MESSAGE, R, type_name=".c05eq.Child")
    add(big, "r_ts", 21, F.TYPE_MESSAGE, R, type_name=TS)
    add(big, "r_du", 22, F.TYPE_MESSAGE, R, type_name=DU)

    def add_map(name, number, ktype, vtype, vtype_name=None):
        entry_name = camel(name)[:1].upper() + camel(name)[1:] + "Entry"
        entry = big.nested_type.add(name=entry_name)
        entry.options.map_entry = True
        add(entry, "key", 1, ktype)
        add(entry, "value", 2, vtype, type_name=vtype_name)
        add(big, name, number, F.TYPE_MESSAGE, R, type_name=f".c05eq.Big.{entry_name}")

    add_map("m_s_i64", 23, F.TYPE_STRING, F.TYPE_INT64)
    add_map("m_i32_s", 24, F.TYPE_INT32, F.TYPE_STRING)
    add_map("m_b_by", 25, F.TYPE_BOOL, F.TYPE_BYTES)
    add_map("m_i64_d", 26, F.TYPE_INT64, F.TYPE_DOUBLE)
    add_map("m_s_e", 27, F.TYPE_STRING, F.TYPE_ENUM, ".c05eq.Color")
    add_map("m_s_child", 28, F.TYPE_STRING, F.TYPE_MESSAGE, ".c05eq.Child")
    add_map("m_s_ts", 29, F.TYPE_STRING, F.TYPE_MESSAGE, TS)
    add_map("m_s_du", 30, F.TYPE_STRING, F.TYPE_MESSAGE, DU)

    big.oneof_decl.add(name="g")  # index 0
    add(big, "o_i", 31, F.TYPE_INT32, oneof_index=0)
    add(big, "o_s", 32, F.TYPE_STRING, oneof_index=0)
    add(big, "o_child", 33, F.TYPE_MESSAGE, type_name=".c05eq.Child", oneof_index=0)
    add(big, "o_d", 34, F.TYPE_DOUBLE, oneof_index=0)
    add(big, "o_e", 43, F.TYPE_ENUM, type_name=".c05eq.Color", oneof_index=0)
    add(big, "o_u64", 44, F.TYPE_UINT64, oneof_index=0)
    # proto3 optional = a synthetic one-member oneof each (declared after real oneofs)
    for idx, (n, num, t, tn) in enumerate(
        [("opt_i", 35, F.TYPE_INT32, None), ("opt_s", 36, F.TYPE_STRING, None),
         ("opt_i64", 45, F.TYPE_INT64, None), ("opt_child", 46, F.TYPE_MESSAGE, ".c05eq.Child")],
        start=1,
    ):
        big.oneof_decl.add(name=f"_{n}")
        add(big, n, num, t, type_name=tn, oneof_index=idx, proto3_optional=True)
    add(big, "w_i64", 37, F.TYPE_MESSAGE, type_name=".google.protobuf.Int64Value")
    add(big, "w_d", 38, F.TYPE_MESSAGE, type_name=".google.protobuf.DoubleValue")
    add(big, "w_by", 39, F.TYPE_MESSAGE, type_name=".google.protobuf.BytesValue")
    add(big, "w_b", 40, F.TYPE_MESSAGE, type_name=".google.protobuf.BoolValue")
    add(big, "from", 41, F.TYPE_INT32)
    add(big, "address_line_1", 42, F.TYPE_STRING)

    pool = descriptor_pool.DescriptorPool()
    for dep in (timestamp_pb2, duration_pb2, wrappers_pb2):
        pool.AddSerializedFile(dep.DESCRIPTOR.serialized_pb)
    pool.Add(fdp)
    get = lambda n: message_factory.GetMessageClass(pool.FindMessageTypeByName(n))  # noqa: E731
    return get("c05eq.Big"), get("c05eq.Child")


RefBig, RefChild = _build_reference()

I64 = [0, 1, -1, 2**31, -(2**31) - 1, 2**53, 2**53 + 1, -(2**53) - 1, 2**63 - 1, -(2**63)]
U64 = [0, 1, 2**32, 2**53 + 1, 2**63, 2**64 - 1]
I32 = [0, 1, -1, 2**31 - 1, -(2**31), 12345]
DBL = [0.0, -0.0, 1.0, -1.5, 0.1, 1e-310, 5e-324, 1.7976931348623157e308, 1e22, 123456789.125,
       math.inf, -math.inf, math.nan, 2.0**53, 1 / 3]
STR = ["", "a", "hello world", "éè", "中文", "\U0001F600", 'q"uo\\te', "\n\t\x00\x7f",
       "true", "1", "NaN", "</script>"]
BYT = [b"", b"\x00", b"\xff\xfe\xfd", b"hello", bytes(range(256)), b"\xfb\xff", b"a" * 100, b">>>???"]
ENUMS = [0, 1, 2, -1, 2147483647]
ENUMS_OPEN = ENUMS + [7, -5, 100000]
KEYS = ["", "a", "k", "key with space", "ü", "1", "true", "x" * 40]
TS_SECONDS_MIN, TS_SECONDS_MAX = -62135596800, 253402300799
DU_MAX = 315576000000


def f32(rng):
    x = rng.choice([0.0, -0.0, 1.0, 0.1, -2.5, 3.4028234663852886e38, 1e-45, 1.17549435e-38,
                    math.inf, -math.inf, math.nan, rng.uniform(-1e6, 1e6), rng.uniform(-1, 1)])
    return struct.unpack("<f", struct.pack("<f", x))[0]


def dbl(rng):
    return rng.choice(DBL + [rng.uniform(-1e9, 1e9), rng.random(), rng.uniform(-1e300, 1e300)])


def nz(x):
    """Singular implicit-presence fields: betterproto (like every proto3 runtime's
    'is default' test by ==) does not keep a negative zero there; out of scope here."""
    return 0.0 if x == 0 else x


def i64(rng):
    return rng.choice(I64 + [rng.randrange(-(2**63), 2**63)])


def u64(rng):
    return rng.choice(U64 + [rng.randrange(0, 2**64)])


def fill_ts(rng, ts):
    kind = rng.randrange(6)
    if kind == 0:
        ts.seconds, ts.nanos = 0, 0
    elif kind == 1:
        ts.seconds, ts.nanos = rng.choice([TS_SECONDS_MIN, TS_SECONDS_MAX, -1, 1]), 0
    elif kind == 2:
        ts.seconds = rng.choice([TS_SECONDS_MIN, TS_SECONDS_MAX, -1, 0])
        ts.nanos = rng.choice([999999000, 1000, 500000000, 123000000])
    else:
        ts.seconds = rng.randrange(TS_SECONDS_MIN, TS_SECONDS_MAX + 1)
        ts.nanos = rng.choice([0, rng.randrange(1000) * 1000000, rng.randrange(1000000) * 1000])


def fill_du(rng, du):
    kind = rng.randrange(6)
    sign = rng.choice([1, -1])
    if kind == 0:
        seconds, micros = 0, 0
    elif kind == 1:
        seconds, micros = rng.choice([DU_MAX, 1, 0]), rng.choice([0, 999999, 1, 500000])
        if seconds == DU_MAX:
            micros = 0
    elif kind == 2:
        seconds, micros = 0, rng.choice([1, 999, 1000, 999999, 500000])
    else:
        seconds = rng.randrange(0, rng.choice([100, 10**6, DU_MAX]))
        micros = rng.choice([0, rng.randrange(1000) * 1000, rng.randrange(1000000)])
    du.seconds, du.nanos = sign * seconds, sign * micros * 1000


def fill_child(rng, c, depth=0):
    if rng.random() < 0.7:
        c.name = rng.choice(STR)
    if rng.random() < 0.5:
        c.tags.extend(rng.choice(STR) for _ in range(rng.randrange(1, 4)))
    if rng.random() < 0.5:
        c.big = i64(rng)
    if depth < 3 and rng.random() < 0.4:
        if rng.random() < 0.2:
            c.kid.SetInParent()  # present but empty
        else:
            fill_child(rng, c.kid, depth + 1)


def random_reference(rng, open_enums=True, density=0.35):
    m = RefBig()
    enums = ENUMS_OPEN if open_enums else ENUMS
    p = lambda: rng.random() < density  # noqa: E731
    if p(): m.i32 = rng.choice(I32)
    if p(): m.i64 = i64(rng)
    if p(): m.u64 = u64(rng)
    if p(): m.s64 = i64(rng)
    if p(): m.f64 = u64(rng)
    if p(): m.sf64 = i64(rng)
    if p(): m.d = nz(dbl(rng))
    if p(): m.f = nz(f32(rng))
    if p(): m.b = rng.choice([True, False])
    if p(): m.s = rng.choice(STR)
    if p(): m.by = rng.choice(BYT + [rng.randbytes(rng.randrange(0, 40))])
    if p(): m.e = rng.choice(enums)
    if p():
        if rng.random() < 0.2:
            m.child.SetInParent()
        else:
            fill_child(rng, m.child)
    if p():
        fill_ts(rng, m.ts)
        if m.ts.seconds == 0 and m.ts.nanos == 0:
            m.ClearField("ts")  # betterproto holds a plain datetime: epoch == unset
    if p():
        fill_du(rng, m.du)
        if m.du.seconds == 0 and m.du.nanos == 0:
            m.ClearField("du")  # plain timedelta: zero == unset
    if p(): m.r_i64.extend(i64(rng) for _ in range(rng.randrange(1, 5)))
    if p(): m.r_d.extend(dbl(rng) for _ in range(rng.randrange(1, 5)))
    if p(): m.r_by.extend(rng.choice(BYT) for _ in range(rng.randrange(1, 4)))
    if p(): m.r_e.extend(rng.choice(enums) for _ in range(rng.randrange(1, 5)))
    if p():
        for _ in range(rng.randrange(1, 4)):
            fill_child(rng, m.r_child.add())
    if p():
        for _ in range(rng.randrange(1, 4)):
            fill_ts(rng, m.r_ts.add())
    if p():
        for _ in range(rng.randrange(1, 4)):
            fill_du(rng, m.r_du.add())
    if p():
        for _ in range(rng.randrange(1, 4)):
            m.m_s_i64[rng.choice(KEYS)] = i64(rng)
    if p():
        for _ in range(rng.randrange(1, 4)):
            m.m_i32_s[rng.choice(I32)] = rng.choice(STR)
    if p():
        for _ in range(rng.randrange(1, 3)):
            m.m_b_by[rng.choice([True, False])] = rng.choice(BYT)
    if p():
        for _ in range(rng.randrange(1, 4)):
            m.m_i64_d[i64(rng)] = dbl(rng)
    if p():
        for _ in range(rng.randrange(1, 4)):
            m.m_s_e[rng.choice(KEYS)] = rng.choice(enums)
    if p():
        for _ in range(rng.randrange(1, 3)):
            fill_child(rng, m.m_s_child[rng.choice(KEYS)])
    if p():
        for _ in range(rng.randrange(1, 3)):
            fill_ts(rng, m.m_s_ts[rng.choice(KEYS)])
    if p():
        for _ in range(rng.randrange(1, 3)):
            fill_du(rng, m.m_s_du[rng.choice(KEYS)])
    which = rng.randrange(10)
    if which == 0: m.o_i = rng.choice(I32)
    elif which == 1: m.o_s = rng.choice(STR)
    elif which == 2:
        if rng.random() < 0.3:
            m.o_child.SetInParent()
        else:
            fill_child(rng, m.o_child)
    elif which == 3: m.o_d = dbl(rng)
    elif which == 4: m.o_e = rng.choice(enums)
    elif which == 5: m.o_u64 = u64(rng)
    if p(): m.opt_i = rng.choice(I32)
    if p(): m.opt_s = rng.choice(STR)
    if p(): m.opt_i64 = i64(rng)
    if p():
        if rng.random() < 0.3:
            m.opt_child.SetInParent()
        else:
            fill_child(rng, m.opt_child)
    if p(): m.w_i64.value = i64(rng)
    if p(): m.w_d.value = nz(dbl(rng))
    if p(): m.w_by.value = rng.choice(BYT)
    if p(): m.w_b.value = rng.choice([True, False])
    if p(): setattr(m, "from", rng.choice(I32))
    if p(): m.address_line_1 = rng.choice(STR)
    return m


def canon(ref_msg):
    return ref_msg.SerializeToString(deterministic=True)


def check_c05(ref_msg):
    """Both directions of the property for one message value."""
    want = canon(ref_msg)
    bp = Big().parse(ref_msg.SerializeToString())
    assert canon(RefBig.FromString(bytes(bp))) == want, "wire round trip (precondition)"
    # betterproto JSON -> reference parser
    text = bp.to_json()
    assert canon(json_format.Parse(text, RefBig())) == want, ("to_json", text)
    # reference JSON -> betterproto
    ref_text = json_format.MessageToJson(ref_msg)
    got = Big().from_json(ref_text)
    assert canon(RefBig.FromString(bytes(got))) == want, ("from_json", ref_text)
    got2 = Big.from_dict(json.loads(ref_text))
    assert canon(RefBig.FromString(bytes(got2))) == want, ("from_dict", ref_text)
    # and betterproto reading its own text
    got3 = Big().from_json(text)
    assert canon(RefBig.FromString(bytes(got3))) == want, ("own json", text)
    return bp, text, ref_text


# ---------------------------------------------------------------------------------
# keep1: Message._from_dict_init - key lookup / null / unknown-key preamble
# ---------------------------------------------------------------------------------
def targeted_from_dict_checks():
    init = Big._from_dict_init

    # 1. every spelling of a key that to_dict can emit (camelCase, snake_case, the
    #    field name itself) finds its field; keys come back as field names, in order
    spellings = {
        "i32": ["i32", "I32", "i32 ", "-i32"],
        "r_i64": ["rI64", "r_i64", "R_I64", "r.i64", "r i64"],
        "m_s_i64": ["mSI64", "m_s_i64"],
        "from_": ["from", "from_", "From"],
        "address_line_1": ["addressLine1", "address_line_1"],
        "opt_child": ["optChild", "opt_child", "OptChild"],
        "w_i64": ["wI64", "w_i64"],
        "o_u64": ["oU64", "o_u64"],
    }
    samples = {
        "i32": (5, 5),
        "r_i64": (["1", "-2", 3], [1, -2, 3]),
        "m_s_i64": ({"a": "9007199254740993"}, {"a": 9007199254740993}),
        "from_": (7, 7),
        "address_line_1": ("x", "x"),
        "w_i64": ("-5", -5),
        "o_u64": ("18446744073709551615", 2**64 - 1),
    }
    for field, keys in spellings.items():
        for key in keys:
            if field == "opt_child":
                out = init({key: {"name": "n"}})
                assert list(out) == [field] and isinstance(out[field], Child), (key, out)
                assert out[field].name == "n"
            else:
                raw, want = samples[field]
                out = init({key: raw})
                assert out == {field: want}, (key, out)
                assert type(out) is dict

    # 2. keys that belong to no field are ignored, whatever their value
    for key in ["", "_", "nope", "addressLine_1x", "address_line1", "AddressLine1", "i_32",
                "i-32", "élan", "class", "None", "1", "m_s_i64.value", "mSI64.value"]:
        for value in [1, "x", [1, 2], {"a": {"b": []}}, True, 1.5, [], {}, None]:
            assert init({key: value}) == {}, (key, value)

    # 3. JSON null never sets anything - for every kind of field and for unknown keys
    nulls = {}
    for name in Big._betterproto.meta_by_field_name:
        nulls[betterproto.Casing.CAMEL(name).rstrip("_")] = None
        nulls[name] = None
    nulls["unknownKey"] = None
    assert init(nulls) == {}
    m = Big().from_dict(nulls)
    assert bytes(m) == b"" and m.to_dict() == {}
    m = Big.from_dict(nulls)
    assert bytes(m) == b"" and m.to_dict() == {}
    # null next to real members
    out = init({"i32": None, "s": "v", "bogus": None, "child": None, "e": "RED", "x": 1})
    assert out == {"s": "v", "e": Color.RED} and list(out) == ["s", "e"], out
    # null *inside* a value is not the preamble's business: list items are converted
    out = init({"rTs": ["1970-01-01T00:00:01Z"], "rE": ["GREEN", 2, 7]})
    assert out["r_ts"] == [datetime(1970, 1, 1, 0, 0, 1, tzinfo=timezone.utc)]
    assert out["r_e"] == [Color.GREEN, 2, 7]

    # 4. order of the result follows the mapping, a later spelling of the same field wins
    out = init({"s": "1", "i32": 2, "b": True, "S": "3"})
    assert list(out) == ["s", "i32", "b"] and out["s"] == "3", out

    # 5. empty mapping, class without fields, nested classes use their own tables
    @dataclass(eq=False, repr=False)
    class Nothing(betterproto.Message):
        pass

    @dataclass(eq=False, repr=False)
    class Fresh(betterproto.Message):
        name: int = betterproto.int64_field(1)  # same key as Child.name, another type
        kid: Child = betterproto.message_field(2)

    assert Fresh._from_dict_init({}) == {}  # before any metadata exists for Fresh
    assert Nothing._from_dict_init({"a": 1, "b": None}) == {}
    assert bytes(Nothing.from_dict({"a": 1})) == b""
    out = Fresh._from_dict_init({"name": "12", "kid": {"name": "12", "zzz": 1, "big": None}})
    assert out["name"] == 12 and out["kid"].name == "12" and out["kid"].big == 0
    assert init({}) == {}

    # 6. malformed values of *known* fields still raise, unknown ones still do not
    for bad, exc in [
        ({"i64": "abc"}, ValueError),
        ({"e": "NOPE"}, ValueError),
        ({"rE": ["RED", "NOPE"]}, ValueError),
        ({"mI32S": {"x": "a"}}, ValueError),
        ({"du": "1.xs"}, ValueError),
        ({"ts": "yesterday"}, ValueError),
        ({"child": 5}, AttributeError),
        ({"mSChild": [1]}, AttributeError),
    ]:
        try:
            init(bad)
        except exc:
            pass
        else:
            raise AssertionError(f"{bad} should raise {exc.__name__}")
    assert init({"i_64": "abc", "e_x": "NOPE", "kid": 5}) == {}


def main():
    targeted_from_dict_checks()
    rng = random.Random(20241105)
    n = 0
    for density in (0.08, 0.35, 0.8):
        for _ in range(400):
            ref = random_reference(rng, density=density)
            bp, text, ref_text = check_c05(ref)
            # the reference's text with explicit nulls and unknown members mixed in is
            # still read to the same message
            noisy = json.loads(ref_text)
            noisy.update({"zzUnknown": {"a": [1, None]}, "another_unknown": None})
            for name in ("i32", "child", "mSI64", "rTs", "wD", "optS", "from"):
                noisy.setdefault(name, None)
            got = Big().from_dict(noisy)
            assert canon(RefBig.FromString(bytes(got))) == canon(ref), noisy
            n += 1
    check_c05(RefBig())
    print(f"ok: targeted checks + {n} random messages agree with google.protobuf.json_format")


main()
