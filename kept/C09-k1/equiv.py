"""Equivalence checks for the wire-type lookup refactor of _serialize_single /
_len_single.  Exits 0 on the pristine tree and with the refactor applied.

Part 1 checks the two helpers directly against an independent reference built on
google.protobuf's encoder primitives; part 2 checks whole messages against
google.protobuf and checks len()/dump()/SIZE_DELIMITED agreement (property C09).
"""
import random
import struct
from dataclasses import dataclass
from io import BytesIO
from typing import Dict, List, Optional

import betterproto
from betterproto import (
    TYPE_BOOL,
    TYPE_BYTES,
    TYPE_DOUBLE,
    TYPE_ENUM,
    TYPE_FIXED32,
    TYPE_FIXED64,
    TYPE_FLOAT,
    TYPE_INT32,
    TYPE_INT64,
    TYPE_MAP,
    TYPE_MESSAGE,
    TYPE_SFIXED32,
    TYPE_SFIXED64,
    TYPE_SINT32,
    TYPE_SINT64,
    TYPE_STRING,
    TYPE_UINT32,
    TYPE_UINT64,
    _len_single,
    _serialize_single,
)
from google.protobuf import descriptor_pb2, descriptor_pool, message_factory
from google.protobuf.internal import encoder as pb_encoder

rng = random.Random(0xC09)

# --------------------------------------------------------------------------
# Part 1: _serialize_single / _len_single against an independent reference
# --------------------------------------------------------------------------

FIELD_NUMBERS = [1, 2, 15, 16, 17, 127, 128, 2047, 2048, 2049, 70000, 262143, 262144,
                 (1 << 29) - 1]


def ref_varint(value: int) -> bytes:
    if value < 0:
        value += 1 << 64
    return pb_encoder._VarintBytes(value)


def ref_zigzag(value: int) -> int:
    return (value << 1) ^ (value >> 63)


VARINT_VALUES = [0, 1, 2, 127, 128, 129, 255, 256, 16383, 16384, 16385, (1 << 21) - 1,
                 1 << 21, (1 << 28) - 1, 1 << 28, (1 << 31) - 1, 1 << 31, (1 << 32) - 1,
                 1 << 32, (1 << 35) - 1, 1 << 35, (1 << 42), (1 << 49), (1 << 56) - 1,
                 1 << 56, (1 << 63) - 1, 1 << 63, (1 << 64) - 1]
SIGNED_VALUES = sorted(
    {s * v for v in VARINT_VALUES if v <= (1 << 63) for s in (1, -1)}
    | {-(1 << k) for k in range(0, 64)}
    | {(1 << k) - 1 for k in range(0, 64)}
    | {-(1 << k) - 1 for k in range(0, 63)}
    | {-(1 << k) + 1 for k in range(0, 64)}
)
SIGNED_VALUES = [v for v in SIGNED_VALUES if -(1 << 63) <= v < (1 << 63)]


def ref_single(number, wire, payload):
    return pb_encoder.TagBytes(number, wire) + payload


checked = 0
for number in FIELD_NUMBERS:
    # varint wire type
    for proto_type, values in [
        (TYPE_INT32, [v for v in SIGNED_VALUES if -(1 << 31) <= v < (1 << 31)]),
        (TYPE_INT64, SIGNED_VALUES),
        (TYPE_ENUM, [v for v in SIGNED_VALUES if -(1 << 31) <= v < (1 << 31)]),
        (TYPE_UINT32, [v for v in VARINT_VALUES if v < (1 << 32)]),
        (TYPE_UINT64, VARINT_VALUES),
        (TYPE_BOOL, [False, True]),
    ]:
        for v in values:
            want = ref_single(number, 0, ref_varint(int(v)))
            for se in (False, True):
                got = _serialize_single(number, proto_type, v, serialize_empty=se)
                assert type(got) is bytes
                assert got == want, (number, proto_type, v, got, want)
                assert _len_single(number, proto_type, v, serialize_empty=se) == len(want)
                checked += 1
    for proto_type, values in [
        (TYPE_SINT32, [v for v in SIGNED_VALUES if -(1 << 31) <= v < (1 << 31)]),
        (TYPE_SINT64, SIGNED_VALUES),
    ]:
        for v in values:
            want = ref_single(number, 0, ref_varint(ref_zigzag(v)))
            got = _serialize_single(number, proto_type, v)
            assert type(got) is bytes and got == want, (number, proto_type, v)
            assert _len_single(number, proto_type, v) == len(want)
            checked += 1

    # fixed 32 / 64
    for proto_type, fmt, wire, values in [
        (TYPE_FIXED32, "<I", 5, [0, 1, 255, (1 << 32) - 1]),
        (TYPE_SFIXED32, "<i", 5, [0, 1, -1, -(1 << 31), (1 << 31) - 1]),
        (TYPE_FLOAT, "<f", 5, [0.0, -0.0, 1.5, -2.25, float("inf"), float("-inf"), 1e30]),
        (TYPE_FIXED64, "<Q", 1, [0, 1, (1 << 64) - 1]),
        (TYPE_SFIXED64, "<q", 1, [0, -1, -(1 << 63), (1 << 63) - 1]),
        (TYPE_DOUBLE, "<d", 1, [0.0, -0.0, 1.5, 1e300, float("inf"), float("-inf")]),
    ]:
        for v in values:
            want = ref_single(number, wire, struct.pack(fmt, v))
            for se in (False, True):
                got = _serialize_single(number, proto_type, v, serialize_empty=se)
                assert type(got) is bytes and got == want, (number, proto_type, v)
                assert _len_single(number, proto_type, v, serialize_empty=se) == len(want)
                checked += 1

    # length delimited: string / bytes / map-entry payloads (bytes and bytearray)
    for size in [0, 1, 2, 126, 127, 128, 129, 255, 256, 16383, 16384, 16385]:
        raw = bytes(rng.getrandbits(8) for _ in range(size))
        text = "".join(rng.choice("aé€\U0001F600") for _ in range(size))
        for proto_type, v, payload in [
            (TYPE_BYTES, raw, raw),
            (TYPE_BYTES, bytearray(raw), raw),
            (TYPE_MAP, raw, raw),
            (TYPE_STRING, text, text.encode("utf-8")),
        ]:
            for se in (False, True):
                if payload or se:
                    want = ref_single(number, 2, ref_varint(len(payload)) + payload)
                else:
                    want = b""
                got = _serialize_single(number, proto_type, v, serialize_empty=se)
                assert type(got) is bytes and got == want, (number, proto_type, size, se)
                assert _len_single(number, proto_type, v, serialize_empty=se) == len(want)
                checked += 1


@dataclass(eq=False, repr=False)
class Leaf(betterproto.Message):
    a: int = betterproto.int32_field(1)
    s: str = betterproto.string_field(2)


# nested messages, with and without serialize_empty
for number in FIELD_NUMBERS:
    for leaf in [Leaf(), Leaf(a=0), Leaf(a=7), Leaf(s="x" * 127), Leaf(a=-1, s="y" * 200)]:
        body = bytes(leaf)
        for se in (False, True):
            want = ref_single(number, 2, ref_varint(len(body)) + body) if (body or se) else b""
            got = _serialize_single(number, TYPE_MESSAGE, leaf, serialize_empty=se)
            assert type(got) is bytes and got == want
            assert _len_single(number, TYPE_MESSAGE, leaf, serialize_empty=se) == len(want)
            checked += 1

# wrapper values: a wrapped value is always written, even when the wrapper is empty
for number in FIELD_NUMBERS:
    for wraps, values, inner_type in [
        (TYPE_INT32, [0, 1, -1, 300], TYPE_INT32),
        (TYPE_UINT64, [0, 1 << 40], TYPE_UINT64),
        (TYPE_BOOL, [False, True], TYPE_BOOL),
        (TYPE_STRING, ["", "abc", "é" * 100], TYPE_STRING),
        (TYPE_BYTES, [b"", b"\x00" * 130], TYPE_BYTES),
        (TYPE_DOUBLE, [0.0, 2.5], TYPE_DOUBLE),
        (TYPE_FLOAT, [0.0, 2.5], TYPE_FLOAT),
    ]:
        for v in values:
            body = _serialize_single(1, inner_type, v) if v else b""
            want = ref_single(number, 2, ref_varint(len(body)) + body)
            for se in (False, True):
                got = _serialize_single(number, TYPE_MESSAGE, v, wraps=wraps, serialize_empty=se)
                assert got == want, (number, wraps, v, got, want)
                assert _len_single(number, TYPE_MESSAGE, v, wraps=wraps, serialize_empty=se) == len(want)
                checked += 1
        # a None wrapper value gives an empty (but written) field
        want = ref_single(number, 2, b"\x00")
        assert _serialize_single(number, TYPE_MESSAGE, None, wraps=wraps) == want
        assert _len_single(number, TYPE_MESSAGE, None, wraps=wraps) == len(want)

# unknown proto types are rejected by both helpers
for bad in ["group", "", "INT32"]:
    for fn in (_serialize_single, _len_single):
        try:
            fn(1, bad, b"abc")
        except NotImplementedError as exc:
            assert exc.args == (bad,)
        else:
            raise AssertionError(f"{fn.__name__} accepted {bad!r}")

# out-of-range varints are rejected by both helpers
for fn in (_serialize_single, _len_single):
    try:
        fn(1, TYPE_INT64, -(1 << 63) - 1)
    except ValueError:
        pass
    else:
        raise AssertionError("no ValueError")

# --------------------------------------------------------------------------
# Part 2: whole messages against google.protobuf + property C09
# --------------------------------------------------------------------------


class Color(betterproto.Enum):
    ZERO = 0
    ONE = 1
    BIG = 1000
    NEG = -5


@dataclass(eq=False, repr=False)
class Inner(betterproto.Message):
    a: int = betterproto.int32_field(1)
    s: str = betterproto.string_field(2)


@dataclass(eq=False, repr=False)
class All(betterproto.Message):
    f_int32: int = betterproto.int32_field(1)
    f_int64: int = betterproto.int64_field(2)
    f_uint32: int = betterproto.uint32_field(3)
    f_uint64: int = betterproto.uint64_field(4)
    f_sint32: int = betterproto.sint32_field(5)
    f_sint64: int = betterproto.sint64_field(6)
    f_bool: bool = betterproto.bool_field(7)
    f_fixed32: int = betterproto.fixed32_field(8)
    f_sfixed32: int = betterproto.sfixed32_field(9)
    f_fixed64: int = betterproto.fixed64_field(10)
    f_sfixed64: int = betterproto.sfixed64_field(11)
    f_float: float = betterproto.float_field(12)
    f_double: float = betterproto.double_field(13)
    f_string: str = betterproto.string_field(14)
    f_bytes: bytes = betterproto.bytes_field(15)
    inner: Inner = betterproto.message_field(16)
    color: Color = betterproto.enum_field(17)
    r_int32: List[int] = betterproto.int32_field(18)
    r_str: List[str] = betterproto.string_field(19)
    r_inner: List[Inner] = betterproto.message_field(20)
    r_double: List[float] = betterproto.double_field(21)
    r_sint64: List[int] = betterproto.sint64_field(22)
    m_si: Dict[str, int] = betterproto.map_field(23, TYPE_STRING, TYPE_INT32)
    m_ii: Dict[int, Inner] = betterproto.map_field(24, TYPE_INT32, TYPE_MESSAGE)
    o_int: int = betterproto.int32_field(25, group="choice")
    o_str: str = betterproto.string_field(26, group="choice")
    o_inner: Inner = betterproto.message_field(27, group="choice")
    opt_int: Optional[int] = betterproto.int32_field(28, optional=True)
    opt_str: Optional[str] = betterproto.string_field(29, optional=True)
    opt_inner: Optional[Inner] = betterproto.message_field(30, optional=True)
    big_packed: List[int] = betterproto.uint32_field(300)
    big_tag: int = betterproto.int32_field(2048)
    big_tag_s: str = betterproto.string_field(70000)
    big_tag_r: List[Inner] = betterproto.message_field(70001)


def build_google_class():
    F = descriptor_pb2.FieldDescriptorProto
    fdp = descriptor_pb2.FileDescriptorProto(name="c09_equiv.proto", package="c09e", syntax="proto3")
    en = fdp.enum_type.add(name="Color")
    for name, num in [("ZERO", 0), ("ONE", 1), ("BIG", 1000), ("NEG", -5)]:
        en.value.add(name=name, number=num)
    inner = fdp.message_type.add(name="Inner")
    inner.field.add(name="a", number=1, type=F.TYPE_INT32, label=F.LABEL_OPTIONAL)
    inner.field.add(name="s", number=2, type=F.TYPE_STRING, label=F.LABEL_OPTIONAL)
    msg = fdp.message_type.add(name="All")
    scalars = [
        ("f_int32", 1, F.TYPE_INT32), ("f_int64", 2, F.TYPE_INT64), ("f_uint32", 3, F.TYPE_UINT32),
        ("f_uint64", 4, F.TYPE_UINT64), ("f_sint32", 5, F.TYPE_SINT32), ("f_sint64", 6, F.TYPE_SINT64),
        ("f_bool", 7, F.TYPE_BOOL), ("f_fixed32", 8, F.TYPE_FIXED32), ("f_sfixed32", 9, F.TYPE_SFIXED32),
        ("f_fixed64", 10, F.TYPE_FIXED64), ("f_sfixed64", 11, F.TYPE_SFIXED64), ("f_float", 12, F.TYPE_FLOAT),
        ("f_double", 13, F.TYPE_DOUBLE), ("f_string", 14, F.TYPE_STRING), ("f_bytes", 15, F.TYPE_BYTES),
    ]
    for name, num, typ in scalars:
        msg.field.add(name=name, number=num, type=typ, label=F.LABEL_OPTIONAL)
    msg.field.add(name="inner", number=16, type=F.TYPE_MESSAGE, type_name=".c09e.Inner", label=F.LABEL_OPTIONAL)
    msg.field.add(name="color", number=17, type=F.TYPE_ENUM, type_name=".c09e.Color", label=F.LABEL_OPTIONAL)
    msg.field.add(name="r_int32", number=18, type=F.TYPE_INT32, label=F.LABEL_REPEATED)
    msg.field.add(name="r_str", number=19, type=F.TYPE_STRING, label=F.LABEL_REPEATED)
    msg.field.add(name="r_inner", number=20, type=F.TYPE_MESSAGE, type_name=".c09e.Inner", label=F.LABEL_REPEATED)
    msg.field.add(name="r_double", number=21, type=F.TYPE_DOUBLE, label=F.LABEL_REPEATED)
    msg.field.add(name="r_sint64", number=22, type=F.TYPE_SINT64, label=F.LABEL_REPEATED)
    e1 = msg.nested_type.add(name="MSiEntry")
    e1.options.map_entry = True
    e1.field.add(name="key", number=1, type=F.TYPE_STRING, label=F.LABEL_OPTIONAL)
    e1.field.add(name="value", number=2, type=F.TYPE_INT32, label=F.LABEL_OPTIONAL)
    e2 = msg.nested_type.add(name="MIiEntry")
    e2.options.map_entry = True
    e2.field.add(name="key", number=1, type=F.TYPE_INT32, label=F.LABEL_OPTIONAL)
    e2.field.add(name="value", number=2, type=F.TYPE_MESSAGE, type_name=".c09e.Inner", label=F.LABEL_OPTIONAL)
    msg.field.add(name="m_si", number=23, type=F.TYPE_MESSAGE, type_name=".c09e.All.MSiEntry", label=F.LABEL_REPEATED)
    msg.field.add(name="m_ii", number=24, type=F.TYPE_MESSAGE, type_name=".c09e.All.MIiEntry", label=F.LABEL_REPEATED)
    msg.oneof_decl.add(name="choice")
    msg.oneof_decl.add(name="_opt_int")
    msg.oneof_decl.add(name="_opt_str")
    msg.oneof_decl.add(name="_opt_inner")
    msg.field.add(name="o_int", number=25, type=F.TYPE_INT32, label=F.LABEL_OPTIONAL, oneof_index=0)
    msg.field.add(name="o_str", number=26, type=F.TYPE_STRING, label=F.LABEL_OPTIONAL, oneof_index=0)
    msg.field.add(name="o_inner", number=27, type=F.TYPE_MESSAGE, type_name=".c09e.Inner", label=F.LABEL_OPTIONAL, oneof_index=0)
    msg.field.add(name="opt_int", number=28, type=F.TYPE_INT32, label=F.LABEL_OPTIONAL, oneof_index=1, proto3_optional=True)
    msg.field.add(name="opt_str", number=29, type=F.TYPE_STRING, label=F.LABEL_OPTIONAL, oneof_index=2, proto3_optional=True)
    msg.field.add(name="opt_inner", number=30, type=F.TYPE_MESSAGE, type_name=".c09e.Inner", label=F.LABEL_OPTIONAL, oneof_index=3, proto3_optional=True)
    msg.field.add(name="big_packed", number=300, type=F.TYPE_UINT32, label=F.LABEL_REPEATED)
    msg.field.add(name="big_tag", number=2048, type=F.TYPE_INT32, label=F.LABEL_OPTIONAL)
    msg.field.add(name="big_tag_s", number=70000, type=F.TYPE_STRING, label=F.LABEL_OPTIONAL)
    msg.field.add(name="big_tag_r", number=70001, type=F.TYPE_MESSAGE, type_name=".c09e.Inner", label=F.LABEL_REPEATED)
    pool = descriptor_pool.DescriptorPool()
    pool.Add(fdp)
    return message_factory.GetMessageClass(pool.FindMessageTypeByName("c09e.All"))


GAll = build_google_class()


def check_c09(m: betterproto.Message) -> bytes:
    data = bytes(m)
    assert type(data) is bytes
    assert m.SerializeToString() == data
    assert len(m) == len(data), (len(m), len(data), m)
    plain = BytesIO()
    m.dump(plain)
    assert plain.getvalue() == data
    delim = BytesIO()
    m.dump(delim, betterproto.SIZE_DELIMITED)
    assert delim.getvalue() == ref_varint(len(data)) + data
    return data


def rand_int(bits, signed):
    k = rng.choice([0, 1, 6, 7, 8, 13, 14, 15, 20, 21, 27, 28, 31, 32, 35, 42, 49, 56, 62, 63, 64])
    k = min(k, bits - (1 if signed else 0))
    v = rng.getrandbits(k) if k else 0
    if signed and rng.random() < 0.5:
        v = -v - (1 if rng.random() < 0.3 and v < (1 << (bits - 1)) - 1 else 0)
        v = max(v, -(1 << (bits - 1)))
    return v


def rand_text():
    n = rng.choice([1, 2, 5, 126, 127, 128, 129, 300])
    return "".join(rng.choice("abcé€\U0001F600 ") for _ in range(n))


def rand_inner_kwargs():
    kw = {}
    if rng.random() < 0.7:
        kw["a"] = rand_int(32, True) or 1
    if rng.random() < 0.5:
        kw["s"] = rand_text()
    return kw


def rand_message():
    """Returns (betterproto message, google message) built from the same values.
    Only non-default scalar / key / value data is used where the two libraries
    intentionally agree; presence corner cases are checked separately below."""
    kw = {}
    g = GAll()

    def put(name, value):
        kw[name] = value
        setattr(g, name, value)

    scal = {
        "f_int32": lambda: rand_int(32, True), "f_int64": lambda: rand_int(64, True),
        "f_uint32": lambda: rand_int(32, False), "f_uint64": lambda: rand_int(64, False),
        "f_sint32": lambda: rand_int(32, True), "f_sint64": lambda: rand_int(64, True),
        "f_bool": lambda: rng.random() < 0.5, "f_fixed32": lambda: rand_int(32, False),
        "f_sfixed32": lambda: rand_int(32, True), "f_fixed64": lambda: rand_int(64, False),
        "f_sfixed64": lambda: rand_int(64, True),
        "f_float": lambda: rng.choice([0.0, 1.5, -2.25, 1024.0, float("inf")]),
        "f_double": lambda: rng.choice([0.0, 1.5, -2.25, 1e300, float("-inf"), rng.random()]),
        "f_string": rand_text, "f_bytes": lambda: rand_text().encode("utf-8"),
        "big_tag": lambda: rand_int(32, True), "big_tag_s": rand_text,
    }
    for name, gen in scal.items():
        if rng.random() < 0.5:
            put(name, gen())
    if rng.random() < 0.5:
        # (a plain Inner() that was never touched is "not set" for betterproto)
        ikw = rand_inner_kwargs() or {"a": 2}
        kw["inner"] = Inner(**ikw)
        g.inner.SetInParent()
        for k, v in ikw.items():
            setattr(g.inner, k, v)
    if rng.random() < 0.5:
        c = rng.choice(list(Color))
        kw["color"] = c
        g.color = int(c)
    for name, gen in [
        ("r_int32", lambda: rand_int(32, True)), ("r_double", lambda: rng.random()),
        ("r_sint64", lambda: rand_int(64, True)), ("big_packed", lambda: rand_int(32, False)),
        ("r_str", lambda: rng.choice(["", "a", rand_text()])),
    ]:
        if rng.random() < 0.5:
            n = rng.choice([1, 2, 3, 15, 16, 17, 64, 127, 128, 129])
            vals = [gen() for _ in range(n)]
            kw[name] = list(vals)
            getattr(g, name).extend(vals)
    for name in ("r_inner", "big_tag_r"):
        if rng.random() < 0.5:
            items = []
            for _ in range(rng.choice([1, 2, 5])):
                ikw = rand_inner_kwargs() if rng.random() < 0.8 else {}
                items.append(Inner(**ikw))
                getattr(g, name).add(**ikw)
            kw[name] = items
    if rng.random() < 0.5:
        keys = [rand_text()]  # one entry: map order differs between libraries
        kw["m_si"] = {}
        for k in keys:
            v = rand_int(32, True) or 3
            kw["m_si"][k] = v
            g.m_si[k] = v
    if rng.random() < 0.5:
        keys = [rand_int(31, False) or 9]  # one entry: map order differs between libraries
        kw["m_ii"] = {}
        for k in keys:
            ikw = rand_inner_kwargs() or {"a": 1}
            kw["m_ii"][k] = Inner(**ikw)
            for ik, iv in ikw.items():
                setattr(g.m_ii[k], ik, iv)
    which = rng.choice([None, "o_int", "o_str", "o_inner"])
    if which == "o_int":
        put("o_int", rng.choice([0, 1, -1, rand_int(32, True)]))
    elif which == "o_str":
        put("o_str", rng.choice(["", "x", rand_text()]))
    elif which == "o_inner":
        ikw = rand_inner_kwargs() if rng.random() < 0.7 else {}
        kw["o_inner"] = Inner(**ikw)
        g.o_inner.SetInParent()
        for k, v in ikw.items():
            setattr(g.o_inner, k, v)
    if rng.random() < 0.4:
        put("opt_int", rng.choice([0, 1, rand_int(32, True)]))
    if rng.random() < 0.4:
        put("opt_str", rng.choice(["", rand_text()]))
    if rng.random() < 0.4:
        ikw = rand_inner_kwargs() if rng.random() < 0.7 else {}
        kw["opt_inner"] = Inner(**ikw)
        g.opt_inner.SetInParent()
        for k, v in ikw.items():
            setattr(g.opt_inner, k, v)
    return All(**kw), g


n_msgs = 0
for _ in range(400):
    bm, gm = rand_message()
    data = check_c09(bm)
    gd = gm.SerializeToString(deterministic=True)
    if data != gd:
        i = next((k for k in range(min(len(data), len(gd))) if data[k] != gd[k]), min(len(data), len(gd)))
        raise AssertionError((len(data), len(gd), i, data[max(0, i - 8):i + 24].hex(), gd[max(0, i - 8):i + 24].hex()))
    # a parsed copy (unknown fields none) serialises the same and keeps the property
    assert check_c09(All().parse(data)) == data
    n_msgs += 1

# presence corner cases: empty-but-present members, defaults in oneofs, unknown fields
cases = [
    All(),
    All(inner=Inner()),
    All(o_int=0), All(o_str=""), All(o_inner=Inner()),
    All(opt_int=0), All(opt_str=""), All(opt_inner=Inner()),
    All(r_inner=[Inner(), Inner()], big_tag_r=[Inner(), Inner(a=1), Inner()]),
    All(r_str=["", "", "x"]),
    All(m_si={"": 0}, m_ii={0: Inner()}),
    All(m_si={"": 5, "k": 0}, m_ii={0: Inner(a=1), 7: Inner()}),
    All(f_double=-0.0, f_float=-0.0),
    All(color=Color.NEG, r_int32=[-1] * 13, r_double=[0.25] * 16, big_packed=[1 << 31] * 26),
    All(big_tag=0, big_tag_s="", f_string="x" * 127),
    All(f_string="x" * 128, f_bytes=b"\x00" * 16384),
]
for bm in cases:
    check_c09(bm)
assert bytes(cases[1]) == b""  # an untouched Inner() is not "set"
received_empty = All().parse(bytes.fromhex("820100"))
assert check_c09(received_empty).hex() == "820100"  # received empty stays on the wire
assert bytes(cases[2]).hex() == "c80100"
assert bytes(cases[3]).hex() == "d20100"
assert bytes(cases[4]).hex() == "da0100"
assert bytes(cases[5]).hex() == "e00100"
assert bytes(cases[6]).hex() == "ea0100"
assert bytes(cases[7]).hex() == "f20100"
t20 = pb_encoder.TagBytes(20, 2)
t70001 = pb_encoder.TagBytes(70001, 2)
assert bytes(cases[8]) == (
    t20 + b"\x00" + t20 + b"\x00"
    + t70001 + b"\x00" + t70001 + b"\x02\x08\x01" + t70001 + b"\x00"
)
assert bytes(cases[9]) == b"\x9a\x01\x00\x9a\x01\x00\x9a\x01\x01x"

# messages carrying unknown fields
unknown_sources = [
    All(big_tag=5, big_tag_s="hello", big_packed=[1, 2, 3], f_int32=9, inner=Inner(a=3)),
    All(o_str="", opt_inner=Inner(), r_inner=[Inner()], m_si={"a": 1}),
]
for src in unknown_sources:
    raw = bytes(src)
    leaf = Inner().parse(raw)  # nearly everything is unknown to Inner
    assert leaf._unknown_fields
    check_c09(leaf)
    holder = All(inner=leaf, r_inner=[leaf, Inner()], o_inner=leaf, m_ii={3: leaf})
    check_c09(holder)

print(f"ok: {checked} single-field checks, {n_msgs} random messages")
