import random
import struct
import sys
from dataclasses import dataclass
from datetime import datetime, timedelta, timezone
from io import BytesIO
from typing import Dict, List, Optional

import betterproto
from betterproto import (
    TYPE_BOOL,
    TYPE_BYTES,
    TYPE_DOUBLE,
    TYPE_FLOAT,
    TYPE_INT32,
    TYPE_INT64,
    TYPE_MESSAGE,
    TYPE_SINT64,
    TYPE_STRING,
    TYPE_UINT32,
    TYPE_UINT64,
)


# --------------------------------------------------------------------------- schema
class Color(betterproto.Enum):
    ZERO = 0
    ONE = 1
    BIG = 300
    HUGE = 2147483647
    NEG = -1
    NEG_MIN = -2147483648


@dataclass(eq=False, repr=False)
class Empty(betterproto.Message):
    pass


@dataclass(eq=False, repr=False)
class Leaf(betterproto.Message):
    a: int = betterproto.int32_field(1)
    s: str = betterproto.string_field(2)
    b: bytes = betterproto.bytes_field(3)


@dataclass(eq=False, repr=False)
class Holder(betterproto.Message):
    """Messages nested three deep, to carry empty-but-present grandchildren."""

    leaf: Leaf = betterproto.message_field(1)
    empty: Empty = betterproto.message_field(2)
    leaves: List[Leaf] = betterproto.message_field(3)
    opt_leaf: Optional[Leaf] = betterproto.message_field(4, optional=True)


@dataclass(eq=False, repr=False)
class All(betterproto.Message):
    # singular scalars
    f_int32: int = betterproto.int32_field(1)
    f_int64: int = betterproto.int64_field(2)
    f_uint32: int = betterproto.uint32_field(3)
    f_uint64: int = betterproto.uint64_field(4)
    f_sint32: int = betterproto.sint32_field(5)
    f_sint64: int = betterproto.sint64_field(6)
    f_bool: bool = betterproto.bool_field(7)
    f_enum: Color = betterproto.enum_field(8)
    f_fixed32: int = betterproto.fixed32_field(9)
    f_fixed64: int = betterproto.fixed64_field(10)
    f_sfixed32: int = betterproto.sfixed32_field(11)
    f_sfixed64: int = betterproto.sfixed64_field(12)
    f_float: float = betterproto.float_field(13)
    f_double: float = betterproto.double_field(14)
    f_string: str = betterproto.string_field(15)
    f_bytes: bytes = betterproto.bytes_field(16)
    # nested
    f_leaf: Leaf = betterproto.message_field(17)
    f_empty: Empty = betterproto.message_field(18)
    f_holder: Holder = betterproto.message_field(19)
    f_self: "All" = betterproto.message_field(20)
    # repeated, packed
    r_int32: List[int] = betterproto.int32_field(21)
    r_int64: List[int] = betterproto.int64_field(22)
    r_uint32: List[int] = betterproto.uint32_field(23)
    r_uint64: List[int] = betterproto.uint64_field(24)
    r_sint32: List[int] = betterproto.sint32_field(25)
    r_sint64: List[int] = betterproto.sint64_field(26)
    r_bool: List[bool] = betterproto.bool_field(27)
    r_enum: List[Color] = betterproto.enum_field(28)
    r_fixed32: List[int] = betterproto.fixed32_field(29)
    r_fixed64: List[int] = betterproto.fixed64_field(30)
    r_sfixed32: List[int] = betterproto.sfixed32_field(31)
    r_sfixed64: List[int] = betterproto.sfixed64_field(32)
    r_float: List[float] = betterproto.float_field(33)
    r_double: List[float] = betterproto.double_field(34)
    # repeated, not packed
    r_string: List[str] = betterproto.string_field(35)
    r_bytes: List[bytes] = betterproto.bytes_field(36)
    r_leaf: List[Leaf] = betterproto.message_field(37)
    r_empty: List[Empty] = betterproto.message_field(38)
    r_ts: List[datetime] = betterproto.message_field(39)
    r_dur: List[timedelta] = betterproto.message_field(40)
    # maps
    m_str_int32: Dict[str, int] = betterproto.map_field(41, TYPE_STRING, TYPE_INT32)
    m_int32_str: Dict[int, str] = betterproto.map_field(42, TYPE_INT32, TYPE_STRING)
    m_str_leaf: Dict[str, Leaf] = betterproto.map_field(43, TYPE_STRING, TYPE_MESSAGE)
    m_sint64_double: Dict[int, float] = betterproto.map_field(
        44, TYPE_SINT64, TYPE_DOUBLE
    )
    m_bool_bytes: Dict[bool, bytes] = betterproto.map_field(45, TYPE_BOOL, TYPE_BYTES)
    m_u64_empty: Dict[int, Empty] = betterproto.map_field(46, TYPE_UINT64, TYPE_MESSAGE)
    # oneof
    o_int32: int = betterproto.int32_field(51, group="choice")
    o_string: str = betterproto.string_field(52, group="choice")
    o_bytes: bytes = betterproto.bytes_field(53, group="choice")
    o_leaf: Leaf = betterproto.message_field(54, group="choice")
    o_empty: Empty = betterproto.message_field(55, group="choice")
    o_enum: Color = betterproto.enum_field(56, group="choice")
    o_double: float = betterproto.double_field(57, group="choice")
    o_bool: bool = betterproto.bool_field(58, group="choice")
    # proto3 optional
    p_int32: Optional[int] = betterproto.int32_field(61, optional=True)
    p_string: Optional[str] = betterproto.string_field(62, optional=True)
    p_bytes: Optional[bytes] = betterproto.bytes_field(63, optional=True)
    p_bool: Optional[bool] = betterproto.bool_field(64, optional=True)
    p_leaf: Optional[Leaf] = betterproto.message_field(65, optional=True)
    p_double: Optional[float] = betterproto.double_field(66, optional=True)
    p_sint64: Optional[int] = betterproto.sint64_field(67, optional=True)
    p_enum: Optional[Color] = betterproto.enum_field(68, optional=True)
    # wrappers / well-known types
    w_int32: Optional[int] = betterproto.message_field(71, wraps=TYPE_INT32)
    w_int64: Optional[int] = betterproto.message_field(72, wraps=TYPE_INT64)
    w_uint32: Optional[int] = betterproto.message_field(73, wraps=TYPE_UINT32)
    w_uint64: Optional[int] = betterproto.message_field(74, wraps=TYPE_UINT64)
    w_bool: Optional[bool] = betterproto.message_field(75, wraps=TYPE_BOOL)
    w_string: Optional[str] = betterproto.message_field(76, wraps=TYPE_STRING)
    w_bytes: Optional[bytes] = betterproto.message_field(77, wraps=TYPE_BYTES)
    w_float: Optional[float] = betterproto.message_field(78, wraps=TYPE_FLOAT)
    w_double: Optional[float] = betterproto.message_field(79, wraps=TYPE_DOUBLE)
    f_ts: datetime = betterproto.message_field(80)
    f_dur: timedelta = betterproto.message_field(81)
    rw_int32: List[Optional[int]] = betterproto.message_field(82, wraps=TYPE_INT32)
    rw_string: List[Optional[str]] = betterproto.message_field(83, wraps=TYPE_STRING)
    # large field numbers (2-, 3-, 4- and 5-byte tags)
    big_a: int = betterproto.int32_field(2047)
    big_b: str = betterproto.string_field(2048)
    big_c: List[int] = betterproto.sint32_field(262143)
    big_d: Leaf = betterproto.message_field(262144)
    big_e: List[Leaf] = betterproto.message_field(33554432)
    big_f: float = betterproto.double_field(536870911)


# ------------------------------------------------------------------ value generators
BOUNDS = [0, 1, 2, 63, 64, 127, 128, 129, 255, 256, 16383, 16384, 2097151, 2097152]
BOUNDS += [(1 << k) + d for k in (7, 14, 21, 28, 31, 32, 35, 42, 49, 56, 62) for d in (-1, 0, 1)]


def _clip(vals, lo, hi):
    return sorted({v for v in vals if lo <= v <= hi})


I32 = _clip(BOUNDS + [-v for v in BOUNDS] + [-(1 << 31), (1 << 31) - 1], -(1 << 31), (1 << 31) - 1)
I64 = _clip(BOUNDS + [-v for v in BOUNDS] + [-(1 << 63), (1 << 63) - 1], -(1 << 63), (1 << 63) - 1)
U32 = _clip(BOUNDS + [(1 << 32) - 1], 0, (1 << 32) - 1)
U64 = _clip(BOUNDS + [(1 << 63), (1 << 64) - 1], 0, (1 << 64) - 1)
FLOATS = [0.0, -0.0, 1.0, -1.5, 3.4028234663852886e38, float("inf"), float("-inf"), float("nan"), 1e-45, 0.5]
DOUBLES = FLOATS + [1e308, -2.2250738585072014e-308, 5e-324, 123456.789]
STRINGS = ["", "a", "abc", "é", "€ uro", "\U0001f600", "x" * 127, "y" * 128, "é" * 64, "z" * 16384, "\x00"]
BYTESES = [b"", b"\x00", b"abc", bytes(range(256)), b"q" * 127, b"q" * 128, b"r" * 16383, b"r" * 16384]
COLORS = list(Color) + [Color.try_value(7), Color.try_value(-5), Color.try_value(128)]
UTC = timezone.utc
DATETIMES = [
    datetime(1970, 1, 1, tzinfo=UTC),
    datetime(1970, 1, 1, 0, 0, 0, 1, tzinfo=UTC),
    datetime(1969, 12, 31, 23, 59, 59, 999999, tzinfo=UTC),
    datetime(1, 1, 1, tzinfo=UTC),
    datetime(9999, 12, 31, 23, 59, 59, 999999, tzinfo=UTC),
    datetime(2024, 2, 29, 12, 30, 15, 500000, tzinfo=UTC),
    datetime(1970, 1, 1, 0, 2, 8, tzinfo=UTC),
    datetime(2001, 9, 9, 1, 46, 40, tzinfo=timezone(timedelta(hours=5, minutes=30))),
]
TIMEDELTAS = [
    timedelta(0),
    timedelta(microseconds=1),
    timedelta(microseconds=-1),
    timedelta(seconds=127),
    timedelta(seconds=128),
    timedelta(seconds=-128, microseconds=-5),
    timedelta(days=999999999, hours=23, minutes=59, seconds=59, microseconds=999999),
    timedelta(days=-999999999),
    timedelta(seconds=1, microseconds=500000),
]


def rnd_leaf(r):
    k = r.randrange(5)
    if k == 0:
        return Leaf()
    if k == 1:
        return Leaf(a=r.choice(I32))
    if k == 2:
        return Leaf(s=r.choice(STRINGS[:9]), b=r.choice(BYTESES[:6]))
    if k == 3:
        return Leaf().parse(b"")  # empty but marked as received
    # a leaf carrying unknown fields
    return Leaf().parse(bytes(Leaf(a=r.choice(I32))) + unknown_blob(r))


def unknown_blob(r):
    """Well-formed fields whose numbers no test message declares."""
    parts = [
        b"",
        bytes([0xA0, 0x06]) + betterproto.encode_varint(r.choice(U64)),  # field 100 varint
        bytes([0xAA, 0x06, 0x03]) + b"xyz",  # field 101 len-delimited
        bytes([0xB5, 0x06]) + struct.pack("<I", r.choice(U32)),  # field 102 fixed32
        bytes([0xB9, 0x06]) + struct.pack("<Q", r.choice(U64)),  # field 103 fixed64
        bytes([0xAA, 0x06, 0x00]),  # field 101 empty
    ]
    return b"".join(r.choice(parts) for _ in range(r.randrange(1, 4)))


def rnd_holder(r):
    h = Holder()
    if r.random() < 0.5:
        h.leaf = rnd_leaf(r)
    if r.random() < 0.4:
        h.empty = Empty()
    if r.random() < 0.4:
        h.leaves = [rnd_leaf(r) for _ in range(r.randrange(0, 4))]
    if r.random() < 0.4:
        h.opt_leaf = rnd_leaf(r)
    if r.random() < 0.2:
        h.leaf.a  # a read only: lazily creates the child, must not change anything
    return h


SINGLE = {
    "f_int32": I32, "f_int64": I64, "f_uint32": U32, "f_uint64": U64, "f_sint32": I32,
    "f_sint64": I64, "f_bool": [False, True], "f_enum": COLORS, "f_fixed32": U32,
    "f_fixed64": U64, "f_sfixed32": I32, "f_sfixed64": I64, "f_float": FLOATS,
    "f_double": DOUBLES, "f_string": STRINGS, "f_bytes": BYTESES,
    "o_int32": I32, "o_string": STRINGS, "o_bytes": BYTESES, "o_enum": COLORS,
    "o_double": DOUBLES, "o_bool": [False, True],
    "p_int32": I32, "p_string": STRINGS, "p_bytes": BYTESES, "p_bool": [False, True],
    "p_double": DOUBLES, "p_sint64": I64, "p_enum": COLORS,
    "w_int32": I32, "w_int64": I64, "w_uint32": U32, "w_uint64": U64, "w_bool": [False, True],
    "w_string": STRINGS, "w_bytes": BYTESES, "w_float": FLOATS, "w_double": DOUBLES,
    "f_ts": DATETIMES, "f_dur": TIMEDELTAS, "big_a": I32, "big_b": STRINGS, "big_f": DOUBLES,
}
REPEATED = {
    "r_int32": I32, "r_int64": I64, "r_uint32": U32, "r_uint64": U64, "r_sint32": I32,
    "r_sint64": I64, "r_bool": [False, True], "r_enum": COLORS, "r_fixed32": U32,
    "r_fixed64": U64, "r_sfixed32": I32, "r_sfixed64": I64, "r_float": FLOATS,
    "r_double": DOUBLES, "r_string": STRINGS, "r_bytes": BYTESES, "r_ts": DATETIMES,
    "r_dur": TIMEDELTAS, "rw_int32": I32, "rw_string": STRINGS[:9], "big_c": I32,
}
MAPS = {
    "m_str_int32": (STRINGS[:9], I32), "m_int32_str": (I32, STRINGS[:9]),
    "m_sint64_double": (I64, DOUBLES[:7] + DOUBLES[8:]), "m_bool_bytes": ([False, True], BYTESES[:6]),
}
MSG_FIELDS = ["f_leaf", "o_leaf", "p_leaf", "big_d"]
EMPTY_FIELDS = ["f_empty", "o_empty"]


def rnd_all(r, depth=0, density=0.12):
    m = All()
    names = list(SINGLE) + list(REPEATED) + list(MAPS) + MSG_FIELDS + EMPTY_FIELDS
    names += ["r_leaf", "r_empty", "m_str_leaf", "m_u64_empty", "f_holder", "f_self", "big_e"]
    r.shuffle(names)
    for name in names:
        if r.random() > density:
            continue
        if name in SINGLE:
            setattr(m, name, r.choice(SINGLE[name]))
        elif name in REPEATED:
            n = r.choice([0, 1, 1, 2, 3, 5, 40, 127, 128, 129])
            setattr(m, name, [r.choice(REPEATED[name]) for _ in range(n)])
        elif name in MAPS:
            ks, vs = MAPS[name]
            setattr(m, name, {r.choice(ks): r.choice(vs) for _ in range(r.randrange(0, 5))})
        elif name in MSG_FIELDS:
            setattr(m, name, rnd_leaf(r))
        elif name in EMPTY_FIELDS:
            setattr(m, name, Empty())
        elif name in ("r_leaf", "big_e"):
            setattr(m, name, [rnd_leaf(r) for _ in range(r.randrange(0, 5))])
        elif name == "r_empty":
            m.r_empty = [Empty() for _ in range(r.randrange(0, 4))]
        elif name == "m_str_leaf":
            m.m_str_leaf = {r.choice(STRINGS[:9]): rnd_leaf(r) for _ in range(r.randrange(0, 4))}
        elif name == "m_u64_empty":
            m.m_u64_empty = {r.choice(U64): Empty() for _ in range(r.randrange(0, 4))}
        elif name == "f_holder":
            m.f_holder = rnd_holder(r)
        elif name == "f_self" and depth < 3:
            m.f_self = rnd_all(r, depth + 1, density)
    k = r.random()
    if k < 0.15:
        # in-place mutation of lazily created members
        m.r_int32.append(r.choice(I32))
        m.m_str_int32[r.choice(STRINGS[:9])] = r.choice(I32)
        m.f_leaf.s = r.choice(STRINGS[:9])
    elif k < 0.30:
        # unknown fields on the top-level message (re-parse, append a blob)
        m = All().parse(bytes(m) + unknown_blob(r))
    return m


# ----------------------------------------------------------------------- the property
class CountingStream:
    """A minimal SupportsWrite[bytes]: only write()."""

    def __init__(self):
        self.chunks = []

    def write(self, data):
        assert isinstance(data, (bytes, bytearray)), type(data)
        self.chunks.append(bytes(data))
        return len(data)

    def getvalue(self):
        return b"".join(self.chunks)


def check_c09(m, label=""):
    data = bytes(m)
    assert isinstance(data, bytes)
    assert len(m) == len(data), (label, len(m), len(data))
    assert m.SerializeToString() == data, label
    s = BytesIO()
    m.dump(s)
    assert s.getvalue() == data, label
    s = CountingStream()
    m.dump(s)
    assert s.getvalue() == data, label
    s = BytesIO()
    m.dump(s, betterproto.SIZE_DELIMITED)
    assert s.getvalue() == betterproto.encode_varint(len(data)) + data, label
    s = CountingStream()
    m.dump(s, betterproto.SIZE_DELIMITED)
    assert s.getvalue() == betterproto.encode_varint(len(data)) + data, label
    # nothing above may have changed the message
    assert bytes(m) == data and len(m) == len(data), label
    return data


# =========================================================================== checks
import itertools
import time

from betterproto import (
    _len_preprocessed_single,
    _len_single,
    _preprocess_single,
    _serialize_single,
)
from betterproto.lib.google import protobuf as bpg

T0 = time.time()
count = 0

# --- 1. the measuring helper against the serialising helper, message-typed values --
WRAP_VALUES = {
    TYPE_INT32: I32, TYPE_INT64: I64, TYPE_UINT32: U32, TYPE_UINT64: U64,
    TYPE_BOOL: [False, True], TYPE_STRING: STRINGS, TYPE_BYTES: BYTESES,
    TYPE_FLOAT: FLOATS, TYPE_DOUBLE: DOUBLES,
}
r = random.Random(20240901)
message_values = [("", v) for v in DATETIMES + TIMEDELTAS]
message_values += [(w, v) for w, vs in WRAP_VALUES.items() for v in vs]
message_values += [(w, None) for w in WRAP_VALUES]
message_values += [("", Leaf()), ("", Leaf().parse(b"")), ("", Empty()), ("", Holder())]
message_values += [("", rnd_leaf(r)) for _ in range(60)]
message_values += [("", rnd_holder(r)) for _ in range(150)]
message_values += [("", rnd_all(r, density=0.1)) for _ in range(60)]
for wraps, v in message_values:
    payload = _preprocess_single(TYPE_MESSAGE, wraps, v)
    assert isinstance(payload, bytes)
    assert _len_preprocessed_single(TYPE_MESSAGE, wraps, v) == len(payload), (wraps, v)
    for number in (1, 15, 16, 2047, 2048, 262144, 536870911):
        for force in (False, True):
            blob = _serialize_single(number, TYPE_MESSAGE, v, serialize_empty=force, wraps=wraps)
            size = _len_single(number, TYPE_MESSAGE, v, serialize_empty=force, wraps=wraps)
            assert size == len(blob), (wraps, v, number, force)
    count += 1

# the other branches of the helper (untouched payload kinds)
for pt, vals in [(TYPE_STRING, STRINGS), (TYPE_BYTES, BYTESES + [bytearray(b"abc"), bytearray()])]:
    for v in vals:
        assert _len_preprocessed_single(pt, "", v) == len(_preprocess_single(pt, "", v))
        for force in (False, True):
            assert _len_single(3, pt, v, serialize_empty=force) == len(
                _serialize_single(3, pt, v, serialize_empty=force)
            )
for pt, vals in [
    ("int32", I32), ("int64", I64), ("uint32", U32), ("uint64", U64), ("sint32", I32),
    ("sint64", I64), ("bool", [False, True]), ("enum", COLORS), ("fixed32", U32),
    ("fixed64", U64), ("sfixed32", I32), ("sfixed64", I64), ("float", FLOATS), ("double", DOUBLES),
]:
    for v in vals:
        assert _len_preprocessed_single(pt, "", v) == len(_preprocess_single(pt, "", v)), (pt, v)
        assert _len_single(77, pt, v) == len(_serialize_single(77, pt, v)), (pt, v)
assert _len_single(9, betterproto.TYPE_MAP, b"\x08\x01\x12\x00", serialize_empty=True) == 6
assert _len_single(9, betterproto.TYPE_MAP, b"", serialize_empty=True) == 2

# --- 2. directed: every presence state of nested members, three levels deep ---------
def leaf_states():
    yield "unset", None
    yield "fresh", Leaf()
    yield "received-empty", Leaf().parse(b"")
    yield "value", Leaf(a=-1, s="é", b=b"\x00")
    yield "zero-set", Leaf(a=0, s="", b=b"")
    yield "unknown-only", Leaf().parse(bytes([0xA0, 0x06, 0x01]))
    yield "value+unknown", Leaf().parse(b"\x08\x05" + bytes([0xAA, 0x06, 0x03]) + b"xyz")
    yield "127 bytes", Leaf(b=b"q" * 122)  # 2 + 3 + 122 = 127
    yield "128 bytes", Leaf(b=b"q" * 123)
    yield "16383 bytes", Leaf(b=b"q" * 16379)
    yield "16384 bytes", Leaf(b=b"q" * 16380)


@dataclass(eq=False, repr=False)
class Box(betterproto.Message):
    holder: Holder = betterproto.message_field(1)
    inner: "Box" = betterproto.message_field(2)
    opt: Optional[Holder] = betterproto.message_field(3, optional=True)
    boxes: List["Box"] = betterproto.message_field(4)
    by_name: Dict[str, Holder] = betterproto.map_field(5, TYPE_STRING, TYPE_MESSAGE)
    pick_h: Holder = betterproto.message_field(6, group="pick")
    pick_s: str = betterproto.string_field(7, group="pick")
    far: Holder = betterproto.message_field(70000)


for (n1, l1), (n2, l2), empty, nleaves in itertools.product(
    leaf_states(), [st for st in leaf_states() if st[0] in ('unset', 'fresh', 'received-empty', 'value+unknown')], (None, "set"), (0, 1, 3)
):
    h = Holder()
    if l1 is not None:
        h.leaf = l1
    if l2 is not None:
        h.opt_leaf = l2
    if empty:
        h.empty = Empty()
    if nleaves:
        h.leaves = [Leaf(), Leaf(a=7), Leaf().parse(b"")][:nleaves]
    label = (n1, n2, empty, nleaves)
    check_c09(h, label)
    for outer in (
        Box(holder=h),
        Box(inner=Box(inner=Box(far=h), boxes=[Box(), Box(holder=h)]), by_name={"": h}),
        Box(pick_s="", boxes=[Box(pick_h=h), Box().parse(b"")], opt=Holder()),
    ):
        check_c09(outer, label)
        count += 1
    if nleaves == 1 and not empty:
        check_c09(All(f_self=All(f_self=All(f_holder=h, o_empty=Empty()), p_leaf=Leaf()), big_d=l1 or Leaf()), label)

# reading a lazily created child must not change the size
m = All()
m.f_leaf.a, m.f_holder.leaf.s, m.f_self.f_self.f_leaf  # reads only
assert check_c09(m) == b""
m.f_holder.leaf.s = "x"  # in-place fill of a lazily created grandchild
assert check_c09(m) == bytes(All(f_holder=Holder(leaf=Leaf(s="x"))))
m = All()
m.f_holder.leaves.append(Leaf())
assert check_c09(m) == bytes([0x9A, 0x01, 0x02, 0x1A, 0x00])

# well-known types, singular / oneof-free / repeated / wrapped
for v in DATETIMES:
    check_c09(All(f_ts=v, r_ts=[v, v]), v)
    check_c09(Holder(leaves=[Leaf()]).parse(bytes(All(f_ts=v))), v)  # as unknown data
for v in TIMEDELTAS:
    check_c09(All(f_dur=v, r_dur=[v, v]), v)
for name, vals in SINGLE.items():
    if name.startswith("w_"):
        for v in vals:
            check_c09(All(**{name: v}), (name, v))
            check_c09(All(f_self=All(**{name: v})), (name, v))
            count += 1
check_c09(All(rw_int32=[0, 1, -1, 128], rw_string=["", "a", "é" * 64]))


# --- 3. the bundled google.protobuf message classes, nested in each other ------------
@dataclass(eq=False, repr=False)
class WithStruct(betterproto.Message):
    st: bpg.Struct = betterproto.message_field(1)
    val: bpg.Value = betterproto.message_field(2)
    lst: bpg.ListValue = betterproto.message_field(3)
    anything: bpg.Any = betterproto.message_field(4)
    mask: bpg.FieldMask = betterproto.message_field(5)
    structs: List[bpg.Struct] = betterproto.message_field(6)
    by_key: Dict[str, bpg.Value] = betterproto.map_field(7, TYPE_STRING, TYPE_MESSAGE)
    ts_msg: bpg.Timestamp = betterproto.message_field(8)
    dur_msg: bpg.Duration = betterproto.message_field(9)
    i32_msg: bpg.Int32Value = betterproto.message_field(10)


def value_of(x):
    if x is None:
        return bpg.Value(null_value=list(bpg.NullValue)[0])
    if isinstance(x, bool):
        return bpg.Value(bool_value=x)
    if isinstance(x, (int, float)):
        return bpg.Value(number_value=float(x))
    if isinstance(x, str):
        return bpg.Value(string_value=x)
    if isinstance(x, list):
        return bpg.Value(list_value=bpg.ListValue(values=[value_of(i) for i in x]))
    return bpg.Value(struct_value=bpg.Struct(fields={k: value_of(v) for k, v in x.items()}))


DOCS = [
    {}, {"a": None}, {"a": 0}, {"a": 0.0, "b": False, "c": ""}, {"a": [], "b": {}},
    {"a": [1, "x", None, [True, []], {"k": {}}]}, {"deep": {"deeper": {"deepest": [0, {}]}}},
    {"s": "é" * 70, "n": -1.5e300, "big": ["x" * 130] * 130},
]
for doc in DOCS:
    v = value_of(doc)
    w = WithStruct(
        st=v.struct_value, val=v, lst=bpg.ListValue(values=[v, v]),
        anything=bpg.Any(type_url="type.googleapis.com/google.protobuf.Value", value=bytes(v)),
        mask=bpg.FieldMask(paths=list(doc)), structs=[v.struct_value, bpg.Struct()],
        by_key={"k": v, "": bpg.Value()},
        ts_msg=bpg.Timestamp(seconds=-1, nanos=999999999), dur_msg=bpg.Duration(seconds=3),
        i32_msg=bpg.Int32Value(value=0),
    )
    check_c09(v, doc)
    check_c09(w, doc)
    check_c09(WithStruct().parse(bytes(w)), doc)
    count += 3
check_c09(WithStruct(val=bpg.Value(), anything=bpg.Any(), mask=bpg.FieldMask(), i32_msg=bpg.Int32Value()))
check_c09(WithStruct(val=bpg.Value(string_value=""), lst=bpg.ListValue(values=[bpg.Value()])))


# --- 4. against the reference implementation -------------------------------------------
from google.protobuf import descriptor_pb2, descriptor_pool, message_factory
from google.protobuf import duration_pb2, timestamp_pb2, wrappers_pb2  # noqa: F401 (pool)

F = descriptor_pb2.FieldDescriptorProto
fdp = descriptor_pb2.FileDescriptorProto(
    name="c09_keep1_equiv.proto", package="c09k1", syntax="proto3",
    dependency=["google/protobuf/timestamp.proto", "google/protobuf/duration.proto", "google/protobuf/wrappers.proto"],
)
leaf_d = fdp.message_type.add(name="Leaf")
leaf_d.field.add(name="a", number=1, type=F.TYPE_INT32, label=F.LABEL_OPTIONAL)
leaf_d.field.add(name="s", number=2, type=F.TYPE_STRING, label=F.LABEL_OPTIONAL)
leaf_d.field.add(name="b", number=3, type=F.TYPE_BYTES, label=F.LABEL_OPTIONAL)
node_d = fdp.message_type.add(name="Node")
node_d.field.add(name="leaf", number=1, type=F.TYPE_MESSAGE, type_name=".c09k1.Leaf", label=F.LABEL_OPTIONAL)
node_d.field.add(name="leaves", number=2, type=F.TYPE_MESSAGE, type_name=".c09k1.Leaf", label=F.LABEL_REPEATED)
node_d.field.add(name="child", number=3, type=F.TYPE_MESSAGE, type_name=".c09k1.Node", label=F.LABEL_OPTIONAL)
node_d.field.add(name="ts", number=4, type=F.TYPE_MESSAGE, type_name=".google.protobuf.Timestamp", label=F.LABEL_OPTIONAL)
node_d.field.add(name="dur", number=5, type=F.TYPE_MESSAGE, type_name=".google.protobuf.Duration", label=F.LABEL_OPTIONAL)
node_d.field.add(name="w", number=6, type=F.TYPE_MESSAGE, type_name=".google.protobuf.Int32Value", label=F.LABEL_OPTIONAL)
node_d.field.add(name="ws", number=7, type=F.TYPE_MESSAGE, type_name=".google.protobuf.StringValue", label=F.LABEL_OPTIONAL)
node_d.oneof_decl.add(name="pick")
node_d.field.add(name="o_leaf", number=10, type=F.TYPE_MESSAGE, type_name=".c09k1.Leaf", label=F.LABEL_OPTIONAL, oneof_index=0)
node_d.field.add(name="o_i", number=11, type=F.TYPE_INT32, label=F.LABEL_OPTIONAL, oneof_index=0)
node_d.field.add(name="far", number=3000, type=F.TYPE_MESSAGE, type_name=".c09k1.Leaf", label=F.LABEL_OPTIONAL)
pool = descriptor_pool.Default()
pool.Add(fdp)
GLeaf = message_factory.GetMessageClass(pool.FindMessageTypeByName("c09k1.Leaf"))
GNode = message_factory.GetMessageClass(pool.FindMessageTypeByName("c09k1.Node"))


@dataclass(eq=False, repr=False)
class Node(betterproto.Message):
    leaf: Leaf = betterproto.message_field(1)
    leaves: List[Leaf] = betterproto.message_field(2)
    child: "Node" = betterproto.message_field(3)
    ts: datetime = betterproto.message_field(4)
    dur: timedelta = betterproto.message_field(5)
    w: Optional[int] = betterproto.message_field(6, wraps=TYPE_INT32)
    ws: Optional[str] = betterproto.message_field(7, wraps=TYPE_STRING)
    o_leaf: Leaf = betterproto.message_field(10, group="pick")
    o_i: int = betterproto.int32_field(11, group="pick")
    far: Leaf = betterproto.message_field(3000)


def build_pair(r, depth=0):
    """The same random value as a betterproto Node and as a reference Node."""
    b, g = Node(), GNode()

    def leaf_pair():
        k = r.randrange(4)
        if k == 0:
            # empty but present (a fresh Leaf() assigned to a plain field is "not set"
            # for betterproto, whereas the reference marks the field as present)
            return Leaf().parse(b""), GLeaf()
        a, s, by = r.choice(I32), r.choice(STRINGS[:9]), r.choice(BYTESES[:6])
        return Leaf(a=a, s=s, b=by), GLeaf(a=a, s=s, b=by)

    if r.random() < 0.5:
        bl, gl = leaf_pair()
        b.leaf = bl
        g.leaf.CopyFrom(gl)
    if r.random() < 0.5:
        for _ in range(r.randrange(0, 4)):
            bl, gl = leaf_pair()
            b.leaves.append(bl)
            g.leaves.add().CopyFrom(gl)
    if r.random() < 0.5 and depth < 4:
        bc, gc = build_pair(r, depth + 1)
        b.child = bc
        g.child.CopyFrom(gc)
    if r.random() < 0.4:
        dt = r.choice(DATETIMES[1:])  # the reference writes an explicit epoch, betterproto omits it
        b.ts = dt
        g.ts.FromDatetime(dt.astimezone(UTC).replace(tzinfo=None))
    if r.random() < 0.4:
        td = r.choice(TIMEDELTAS[1:])  # likewise for a zero duration
        b.dur = td
        g.dur.FromTimedelta(td)
    if r.random() < 0.4:
        v = r.choice(I32)
        b.w = v
        g.w.value = v
    if r.random() < 0.4:
        v = r.choice(STRINGS[:9])
        b.ws = v
        g.ws.value = v
    k = r.random()
    if k < 0.3:
        bl, gl = leaf_pair()
        b.o_leaf = bl
        g.o_leaf.CopyFrom(gl)
    elif k < 0.5:
        v = r.choice(I32)
        b.o_i = v
        g.o_i = v
    if r.random() < 0.3:
        bl, gl = leaf_pair()
        b.far = bl
        g.far.CopyFrom(gl)
    if bytes(b) == b"":
        b = Node().parse(b"")  # empty, but present once assigned to a parent field
    return b, g


r = random.Random(77)
for i in range(1000):
    b, g = build_pair(r)
    data = check_c09(b, i)
    ref = g.SerializeToString(deterministic=True)
    assert data == ref, (i, data, ref)
    assert len(b) == g.ByteSize(), i
    count += 1

# --- 5. random messages over the whole schema ---------------------------------------------
r = random.Random(5)
for density, n in ((0.03, 150), (0.1, 150), (0.3, 30), (1.0, 2)):
    for i in range(n):
        check_c09(rnd_all(r, density=density), (density, i))
        count += 1

print(f"keep1 equiv: {count} cases ok in {time.time() - T0:.1f}s")
