"""C16 keep2: the post-processing of decoded scalars (Message._postprocess_single:
sign extension of int32/int64/enum, zig-zag inverse of sint32/sint64, bool,
struct.unpack of the fixed-width kinds) behaves exactly as before.

For every numeric scalar kind, a field holding an arbitrary wire value is parsed
(singular, packed repeated, and via the stream API) and the result - value AND
type - is compared with an independent model; for in-range values additionally
with what google.protobuf decodes, and encode/decode are checked to be mutually
inverse and byte-identical to google.protobuf.
Plain asserts; exits 0 on the pristine tree and with the refactor applied.
"""
import math
import random
import struct
from dataclasses import dataclass
from io import BytesIO
from typing import List

import betterproto
from betterproto import encode_varint
from google.protobuf import descriptor_pb2, descriptor_pool, message_factory

rnd = random.Random(1602)


class Colour(betterproto.Enum):
    ZERO = 0
    ONE = 1
    BIG = 2147483647
    NEG = -1
    MIN = -2147483648


@dataclass(eq=False, repr=False)
class M(betterproto.Message):
    f_int32: int = betterproto.int32_field(1)
    f_int64: int = betterproto.int64_field(2)
    f_uint32: int = betterproto.uint32_field(3)
    f_uint64: int = betterproto.uint64_field(4)
    f_sint32: int = betterproto.sint32_field(5)
    f_sint64: int = betterproto.sint64_field(6)
    f_bool: bool = betterproto.bool_field(7)
    f_enum: Colour = betterproto.enum_field(8)
    f_fixed32: int = betterproto.fixed32_field(9)
    f_fixed64: int = betterproto.fixed64_field(10)
    f_sfixed32: int = betterproto.sfixed32_field(11)
    f_sfixed64: int = betterproto.sfixed64_field(12)
    f_float: float = betterproto.float_field(13)
    f_double: float = betterproto.double_field(14)


@dataclass(eq=False, repr=False)
class R(betterproto.Message):
    f_int32: List[int] = betterproto.int32_field(1)
    f_int64: List[int] = betterproto.int64_field(2)
    f_uint32: List[int] = betterproto.uint32_field(3)
    f_uint64: List[int] = betterproto.uint64_field(4)
    f_sint32: List[int] = betterproto.sint32_field(5)
    f_sint64: List[int] = betterproto.sint64_field(6)
    f_bool: List[bool] = betterproto.bool_field(7)
    f_enum: List[Colour] = betterproto.enum_field(8)
    f_fixed32: List[int] = betterproto.fixed32_field(9)
    f_fixed64: List[int] = betterproto.fixed64_field(10)
    f_sfixed32: List[int] = betterproto.sfixed32_field(11)
    f_sfixed64: List[int] = betterproto.sfixed64_field(12)
    f_float: List[float] = betterproto.float_field(13)
    f_double: List[float] = betterproto.double_field(14)


NUM = {
    "int32": 1, "int64": 2, "uint32": 3, "uint64": 4, "sint32": 5, "sint64": 6,
    "bool": 7, "enum": 8, "fixed32": 9, "fixed64": 10, "sfixed32": 11,
    "sfixed64": 12, "float": 13, "double": 14,
}
VARINT_KINDS = ["int32", "int64", "uint32", "uint64", "sint32", "sint64", "bool", "enum"]

# --- google.protobuf twin -------------------------------------------------------
FD = descriptor_pb2.FieldDescriptorProto
PB_TYPES = {
    "int32": FD.TYPE_INT32, "int64": FD.TYPE_INT64, "uint32": FD.TYPE_UINT32,
    "uint64": FD.TYPE_UINT64, "sint32": FD.TYPE_SINT32, "sint64": FD.TYPE_SINT64,
    "bool": FD.TYPE_BOOL, "enum": FD.TYPE_ENUM, "fixed32": FD.TYPE_FIXED32,
    "fixed64": FD.TYPE_FIXED64, "sfixed32": FD.TYPE_SFIXED32,
    "sfixed64": FD.TYPE_SFIXED64, "float": FD.TYPE_FLOAT, "double": FD.TYPE_DOUBLE,
}
fp = descriptor_pb2.FileDescriptorProto(name="c16_keep2.proto", package="c16k2", syntax="proto3")
e = fp.enum_type.add(name="Colour")
for n, v in [("ZERO", 0), ("ONE", 1), ("BIG", 2147483647), ("NEG", -1), ("MIN", -2147483648)]:
    e.value.add(name=n, number=v)
for msg_name, label in (("M", FD.LABEL_OPTIONAL), ("R", FD.LABEL_REPEATED)):
    m = fp.message_type.add(name=msg_name)
    for kind, number in NUM.items():
        f = m.field.add(name="f_" + kind, number=number, type=PB_TYPES[kind], label=label)
        if kind == "enum":
            f.type_name = ".c16k2.Colour"
pool = descriptor_pool.DescriptorPool()
pool.Add(fp)
PbM = message_factory.GetMessageClass(pool.FindMessageTypeByName("c16k2.M"))
PbR = message_factory.GetMessageClass(pool.FindMessageTypeByName("c16k2.R"))


# --- independent model of "wire varint -> field value" ---------------------------
def signed(value, bits):
    return int.from_bytes((value % (1 << bits)).to_bytes(bits // 8, "little"), "little", signed=True)


def model(kind, wire):
    if kind in ("int32", "enum"):
        return signed(wire, 32)
    if kind == "int64":
        return signed(wire, 64)
    if kind in ("sint32", "sint64"):
        return wire // 2 if wire % 2 == 0 else -(wire // 2) - 1
    if kind == "bool":
        return wire != 0
    return wire


def raw_varint(wire):
    """Canonical for wire < 2**64; callers may also hand in up to 2**70 - 1."""
    out = bytearray()
    while wire > 0x7F:
        out.append(0x80 | (wire & 0x7F))
        wire >>= 7
    out.append(wire)
    return bytes(out)


def same(a, b):
    return type(a) is type(b) and (a == b or (a != a and b != b))


def check_varint(kind, wire):
    expect = model(kind, wire)
    data = encode_varint(NUM[kind] << 3) + raw_varint(wire)
    name = "f_" + kind
    for got in (
        getattr(M().parse(data), name),
        getattr(M().load(BytesIO(data)), name),
        getattr(M.FromString(data), name),
    ):
        if kind == "enum":
            assert isinstance(got, Colour) and int(got) == expect, (kind, wire, got, expect)
            known = {0: "ZERO", 1: "ONE", 2147483647: "BIG", -1: "NEG", -2147483648: "MIN"}
            assert got.name == known.get(expect), (kind, wire, got)
        else:
            assert same(got, expect), (kind, wire, got, expect)
    # packed repeated: three elements in one chunk plus one unpacked occurrence
    payload = raw_varint(wire) + raw_varint(1) + raw_varint(wire)
    rdata = (
        encode_varint((NUM[kind] << 3) | 2) + encode_varint(len(payload)) + payload
        + encode_varint(NUM[kind] << 3) + raw_varint(wire)
    )
    got_list = getattr(R().parse(rdata), name)
    exp_list = [expect, model(kind, 1), expect, expect]
    assert len(got_list) == 4
    for g, x in zip(got_list, exp_list):
        if kind == "enum":
            assert isinstance(g, Colour) and int(g) == x
        else:
            assert same(g, x), (kind, wire, got_list)
    return data, expect


IN_RANGE_WIRE = {
    # which wire values a conforming encoder can produce for the kind
    "int32": lambda w: w < (1 << 31) or w >= (1 << 64) - (1 << 31),
    "enum": lambda w: w < (1 << 31) or w >= (1 << 64) - (1 << 31),
    "int64": lambda w: True,
    "uint32": lambda w: w < (1 << 32),
    "uint64": lambda w: True,
    "sint32": lambda w: w < (1 << 32),
    "sint64": lambda w: True,
    "bool": lambda w: w < 2,
}

wires = set(range(0, 600))
for k in list(range(7, 71, 7)) + [8, 15, 16, 31, 32, 33, 62, 63, 64]:
    for d in range(-3, 4):
        w = (1 << k) + d
        if 0 <= w < (1 << 70):
            wires.add(w)
for k in (31, 32, 63):
    for d in range(0, 4):
        wires.add((1 << 64) - (1 << k) + d)
        wires.add((1 << 64) - (1 << k) - d - 1)
wires.update(rnd.getrandbits(rnd.randrange(1, 65)) for _ in range(800))
wires.update(rnd.getrandbits(rnd.randrange(65, 71)) for _ in range(200))  # over-long 10th byte
wires = sorted(wires)

for kind in VARINT_KINDS:
    for wire in wires:
        data, expect = check_varint(kind, wire)
        if wire < (1 << 64) and IN_RANGE_WIRE[kind](wire):
            # reference decoder agrees, and re-encoding gives the reference bytes
            ref = PbM.FromString(data)
            assert getattr(ref, "f_" + kind) == expect, (kind, wire)
            ours = M(**{"f_" + kind: Colour.try_value(expect) if kind == "enum" else expect})
            assert bytes(ours) == ref.SerializeToString(), (kind, wire, bytes(ours))
            assert len(ours) == len(bytes(ours))
            if expect:
                assert bytes(ours) == data, (kind, wire)

# exhaustive small range for the zig-zag / sign-extension kinds (value level)
for kind in ("int32", "int64", "sint32", "sint64", "enum"):
    tag = encode_varint(NUM[kind] << 3)
    name = "f_" + kind
    for wire in range(0, 1 << 13):
        got = getattr(M().parse(tag + raw_varint(wire)), name)
        assert int(got) == model(kind, wire), (kind, wire)

# --- mutually inverse: value -> bytes -> value, for in-range values of each kind --
RANGES = {
    "int32": (-(1 << 31), (1 << 31) - 1), "int64": (-(1 << 63), (1 << 63) - 1),
    "uint32": (0, (1 << 32) - 1), "uint64": (0, (1 << 64) - 1),
    "sint32": (-(1 << 31), (1 << 31) - 1), "sint64": (-(1 << 63), (1 << 63) - 1),
    "fixed32": (0, (1 << 32) - 1), "fixed64": (0, (1 << 64) - 1),
    "sfixed32": (-(1 << 31), (1 << 31) - 1), "sfixed64": (-(1 << 63), (1 << 63) - 1),
}
for kind, (lo, hi) in RANGES.items():
    vals = {lo, lo + 1, lo + 2, hi, hi - 1, hi - 2, 1, 2, 63, 64, 127, 128, 255, 256}
    vals.update(range(max(lo, -300), 300))
    for k in range(1, 64):
        for d in (-1, 0, 1):
            for sgn in (1, -1):
                v = sgn * (1 << k) + d
                if lo <= v <= hi:
                    vals.add(v)
    vals.update(rnd.randrange(lo, hi + 1) for _ in range(400))
    name = "f_" + kind
    for v in sorted(vals):
        ours = M(**{name: v})
        ref = PbM(**{name: v})
        data = bytes(ours)
        assert data == ref.SerializeToString(), (kind, v)
        back = getattr(M().parse(data), name)
        assert type(back) is int and back == v, (kind, v, back)
        assert getattr(M().load(BytesIO(data)), name) == v
        rl = [v, 0, v]
        rdata = bytes(R(**{name: rl}))
        assert rdata == PbR(**{name: rl}).SerializeToString(), (kind, v)
        got = getattr(R().parse(rdata), name)
        assert got == rl and all(type(x) is int for x in got), (kind, v, got)

# fixed-width kinds decode from arbitrary payload bytes exactly like struct does
FMT = {"fixed32": "<I", "sfixed32": "<i", "float": "<f", "fixed64": "<Q", "sfixed64": "<q", "double": "<d"}
for kind, fmt in FMT.items():
    size = struct.calcsize(fmt)
    wt = 5 if size == 4 else 1
    name = "f_" + kind
    payloads = [bytes(size), b"\xff" * size, b"\x01" + bytes(size - 1), bytes(size - 1) + b"\x80",
                bytes(size - 1) + b"\x7f", b"\x00" * (size - 2) + b"\xf0\x7f", b"\x00" * (size - 2) + b"\x80\x7f",
                b"\x00" * (size - 2) + b"\x80\xff", b"\x01" + b"\x00" * (size - 3) + b"\x80\x7f"]
    payloads += [bytes(rnd.getrandbits(8) for _ in range(size)) for _ in range(800)]
    for p in payloads:
        data = encode_varint((NUM[kind] << 3) | wt) + p
        (expect,) = struct.unpack(fmt, p)
        got = getattr(M().parse(data), name)
        assert same(got, expect), (kind, p, got, expect)
        if expect == expect:
            assert getattr(PbM.FromString(data), name) == expect, (kind, p)
            if expect != 0:
                assert bytes(M(**{name: got})) == data, (kind, p)
        else:
            assert bytes(M(**{name: got}))[1:] == struct.pack(fmt, got)
        rdata = encode_varint((NUM[kind] << 3) | 2) + encode_varint(2 * size) + p + p
        gl = getattr(R().parse(rdata), name)
        assert len(gl) == 2 and same(gl[0], expect) and same(gl[1], expect)

# floats: in-range values, encoded bytes against the reference
floats = [1.0, -1.0, 0.5, 1.5, -2.25, 3.4028234663852886e38, -3.4028234663852886e38, 1.401298464324817e-45,
          1.1754943508222875e-38, float("inf"), float("-inf"), 16777216.0, 16777217.0, 0.1, -0.1, 123456.789]
floats += [struct.unpack("<f", struct.pack("<I", rnd.getrandbits(32)))[0] for _ in range(1000)]
floats = [f for f in floats if f == f and f != 0]
for f in floats:
    for kind in ("float", "double"):
        name = "f_" + kind
        data = bytes(M(**{name: f}))
        assert data == PbM(**{name: f}).SerializeToString(), (kind, f)
        back = getattr(M().parse(data), name)
        fmt = FMT[kind]
        assert same(back, struct.unpack(fmt, struct.pack(fmt, f))[0]), (kind, f)
doubles = [struct.unpack("<d", struct.pack("<Q", rnd.getrandbits(64)))[0] for _ in range(3000)]
doubles += [5e-324, 1.7976931348623157e308, -1.7976931348623157e308, 2.2250738585072014e-308, math.pi]
for d in doubles:
    if d != d or d == 0:
        continue
    data = bytes(M(f_double=d))
    assert data == PbM(f_double=d).SerializeToString(), d
    assert same(M().parse(data).f_double, d)
for nan in (float("nan"), -float("nan")):
    assert bytes(M(f_double=nan)) == PbM(f_double=nan).SerializeToString()
    assert bytes(M(f_float=nan)) == PbM(f_float=nan).SerializeToString()
    assert math.isnan(M().parse(bytes(M(f_float=nan))).f_float)

# bool
assert bytes(M(f_bool=True)) == PbM(f_bool=True).SerializeToString() == b"\x38\x01"
assert M().parse(b"\x38\x01").f_bool is True and M().parse(b"\x38\x00").f_bool is False

# a fixed-width payload of the wrong length still fails the same way
for kind, fmt in FMT.items():
    size = struct.calcsize(fmt)
    rdata = encode_varint((NUM[kind] << 3) | 2) + encode_varint(size + 1) + bytes(size + 1)
    try:
        R().parse(rdata)
    except struct.error:
        pass
    else:
        raise AssertionError(("no struct.error", kind))

print("ok")
