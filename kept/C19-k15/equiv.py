"""C19 keep1: Message._from_dict_init picks a per-element JSON parser and applies it once.

Exercises from_dict (class and instance flavour) over every field kind and over the
property's name domain: fixed JSON documents with hand-computed expected values,
to_dict -> from_dict round trips in both casings, error paths, an exhaustive sweep
of field names, and a comparison against google.protobuf's JSON mapping.
"""
import base64
import dataclasses
import itertools
import keyword
import math
import random
from dataclasses import dataclass
from datetime import datetime, timedelta, timezone
from typing import Dict, List, Optional

import betterproto
from betterproto import Casing
from betterproto.casing import camel_case, safe_snake_case, snake_case


class Color(betterproto.Enum):
    ZERO = 0
    RED = 1
    GREEN = 2
    BLUE = 5


@dataclass(eq=False, repr=False)
class Inner(betterproto.Message):
    address_line_1: str = betterproto.string_field(1)
    x_y_z: int = betterproto.int64_field(2)
    x_yz: int = betterproto.int32_field(3)


@dataclass(eq=False, repr=False)
class Outer(betterproto.Message):
    ipv4_address: str = betterproto.string_field(1)
    http_status: int = betterproto.int32_field(2)  # proto name HTTPStatus
    big_1: int = betterproto.int64_field(3)
    big_list_2: List[int] = betterproto.uint64_field(4)
    raw_bytes_3: bytes = betterproto.bytes_field(5)
    raw_list: List[bytes] = betterproto.bytes_field(6)
    color_1: Color = betterproto.enum_field(7)
    colors: List[Color] = betterproto.enum_field(8)
    ratio_f: float = betterproto.float_field(9)
    ratios: List[float] = betterproto.double_field(10)
    inner_msg_1: Inner = betterproto.message_field(11)
    inner_list: List[Inner] = betterproto.message_field(12)
    created_at_1: datetime = betterproto.message_field(13)
    stamps: List[datetime] = betterproto.message_field(14)
    ttl_1: timedelta = betterproto.message_field(15)
    ttls: List[timedelta] = betterproto.message_field(16)
    maybe_int: Optional[int] = betterproto.message_field(
        17, wraps=betterproto.TYPE_INT64
    )
    maybe_str: Optional[str] = betterproto.message_field(
        18, wraps=betterproto.TYPE_STRING
    )
    maybe_bytes: Optional[bytes] = betterproto.message_field(
        19, wraps=betterproto.TYPE_BYTES
    )
    by_name_1: Dict[str, Inner] = betterproto.map_field(
        20, betterproto.TYPE_STRING, betterproto.TYPE_MESSAGE
    )
    counts_x: Dict[int, int] = betterproto.map_field(
        21, betterproto.TYPE_INT64, betterproto.TYPE_INT64
    )
    color_map: Dict[str, Color] = betterproto.map_field(
        22, betterproto.TYPE_STRING, betterproto.TYPE_ENUM
    )
    class_: str = betterproto.string_field(23)
    flag_b: bool = betterproto.bool_field(24)
    a_1: str = betterproto.string_field(25, group="choice")
    b_2: Inner = betterproto.message_field(26, group="choice")
    opt_i64: Optional[int] = betterproto.int64_field(27, optional=True)
    sfix_64: int = betterproto.sfixed64_field(28)
    small_u32: int = betterproto.uint32_field(29)
    small_list: List[int] = betterproto.int32_field(30)
    opt_color: Optional[Color] = betterproto.enum_field(31, optional=True)
    opt_double: Optional[float] = betterproto.double_field(32, optional=True)
    maybe_double: Optional[float] = betterproto.message_field(
        33, wraps=betterproto.TYPE_DOUBLE
    )
    bool_map: Dict[bool, str] = betterproto.map_field(
        34, betterproto.TYPE_BOOL, betterproto.TYPE_STRING
    )
    bytes_map: Dict[str, bytes] = betterproto.map_field(
        35, betterproto.TYPE_STRING, betterproto.TYPE_BYTES
    )


def b64(data: bytes) -> str:
    return base64.b64encode(data).decode()


# ---------------------------------------------------------------------------------
# 1. one fixed JSON document, every kind of field, expected values by hand
# ---------------------------------------------------------------------------------
UTC = timezone.utc
DOC = {
    "ipv4Address": "10.0.0.1",
    "HTTPStatus": 404,  # the original proto field name
    "big1": "9223372036854775807",
    "bigList2": ["0", "18446744073709551615", 7],
    "rawBytes3": b64(b"\x00\xff\x10"),
    "rawList": [b64(b""), b64(b"abc")],
    "color1": "GREEN",
    "colors": ["RED", 5, "ZERO", 2],
    "ratioF": "Infinity",
    "ratios": [1.5, "-Infinity", "NaN", 2],
    "innerMsg1": {"addressLine1": "x", "xYZ": "-12", "xYz": 3},
    "innerList": [{"address_line_1": "y"}, {}, {"xYZ": 4, "unknownKey": 1}],
    "createdAt1": "2020-01-02T03:04:05Z",
    "stamps": ["1970-01-01T00:00:00Z", "2001-02-03T04:05:06.789Z"],
    "ttl1": "1.500s",
    "ttls": ["0s", "-3s", "86400s"],
    "maybeInt": "12",
    "maybeStr": "",
    "maybeBytes": b64(b"zz"),
    "byName1": {"k": {"xYZ": "1"}, "": {}},
    "countsX": {"1": "2", "-5": "9007199254740993"},
    "colorMap": {"a": "BLUE", "b": 1},
    "class": "kw",
    "flagB": True,
    "b2": {"addressLine1": "one-of"},
    "optI64": "0",
    "sfix64": "-1",
    "smallU32": 4294967295,
    "smallList": [1, -2, 3],
    "optColor": "ZERO",
    "optDouble": "NaN",
    "maybeDouble": "Infinity",
    "boolMap": {"true": "t", "false": "f"},
    "bytesMap": {"k": b64(b"\x01\x02")},
    "notAField": 1,
    "alsoNull": None,
    "flag_b_": None,
}


def check_doc(msg: Outer) -> None:
    assert msg.ipv4_address == "10.0.0.1"
    assert msg.http_status == 404
    assert msg.big_1 == 9223372036854775807 and type(msg.big_1) is int
    assert msg.big_list_2 == [0, 18446744073709551615, 7]
    assert msg.raw_bytes_3 == b"\x00\xff\x10"
    assert msg.raw_list == [b"", b"abc"]
    assert msg.color_1 is Color.GREEN
    assert msg.colors == [Color.RED, 5, Color.ZERO, 2]
    assert msg.colors[0] is Color.RED and msg.colors[2] is Color.ZERO
    assert msg.ratio_f == math.inf
    assert msg.ratios[:2] == [1.5, -math.inf] and math.isnan(msg.ratios[2])
    assert msg.ratios[3] == 2
    assert msg.inner_msg_1 == Inner(address_line_1="x", x_y_z=-12, x_yz=3)
    assert msg.inner_list == [Inner(address_line_1="y"), Inner(), Inner(x_y_z=4)]
    assert msg.created_at_1 == datetime(2020, 1, 2, 3, 4, 5, tzinfo=UTC)
    assert msg.stamps == [
        datetime(1970, 1, 1, tzinfo=UTC),
        datetime(2001, 2, 3, 4, 5, 6, 789000, tzinfo=UTC),
    ]
    assert msg.ttl_1 == timedelta(seconds=1, milliseconds=500)
    assert msg.ttls == [timedelta(0), timedelta(seconds=-3), timedelta(days=1)]
    assert msg.maybe_int == 12 and type(msg.maybe_int) is int
    assert msg.maybe_str == ""
    assert msg.maybe_bytes == b"zz"
    assert msg.by_name_1 == {"k": Inner(x_y_z=1), "": Inner()}
    assert msg.counts_x == {1: 2, -5: 9007199254740993}
    assert msg.color_map == {"a": Color.BLUE, "b": 1}
    assert msg.color_map["a"] is Color.BLUE
    assert msg.class_ == "kw"
    assert msg.flag_b is True
    assert betterproto.which_one_of(msg, "choice") == (
        "b_2",
        Inner(address_line_1="one-of"),
    )
    assert msg.opt_i64 == 0 and msg.opt_i64 is not None
    assert msg.sfix_64 == -1
    assert msg.small_u32 == 4294967295
    assert msg.small_list == [1, -2, 3]
    assert msg.opt_color is Color.ZERO
    assert msg.opt_double is not None and math.isnan(msg.opt_double)
    assert msg.maybe_double == math.inf
    assert msg.bool_map == {True: "t", False: "f"}
    assert msg.bytes_map == {"k": b"\x01\x02"}


check_doc(Outer.from_dict(DOC))
check_doc(Outer().from_dict(DOC))
check_doc(Outer().from_json(__import__("json").dumps(DOC)))
# the dict handed in is not modified
assert DOC["bigList2"] == ["0", "18446744073709551615", 7]
assert DOC["innerList"][2] == {"xYZ": 4, "unknownKey": 1}

# None / unknown keys are skipped, scalars that need no parsing are taken as they are
empty = Outer.from_dict({"big1": None, "colors": None, "innerMsg1": None, "zzz": 3})
assert empty == Outer() and bytes(empty) == b""
plain = Outer.from_dict({"ipv4Address": "s", "smallU32": 3, "flagB": False, "a1": "q"})
assert (plain.ipv4_address, plain.small_u32, plain.flag_b, plain.a_1) == (
    "s",
    3,
    False,
    "q",
)
assert betterproto.which_one_of(plain, "choice") == ("a_1", "q")
# enum: numbers stay numbers, names become members; a non-str, non-list is kept
assert Outer.from_dict({"color1": 2}).color_1 == 2
assert Outer.from_dict({"color1": 77}).color_1 == 77
assert Outer.from_dict({"colors": []}).colors == []
assert Outer.from_dict({"bigList2": []}).big_list_2 == []
assert Outer.from_dict({"innerList": []}).inner_list == []
assert Outer.from_dict({"big1": 5}).big_1 == 5
assert Outer.from_dict({"big1": 5.0}).big_1 == 5
assert Outer.from_dict({"maybeInt": 0}).maybe_int == 0

# ---------------------------------------------------------------------------------
# 2. error paths: the same exceptions escape
# ---------------------------------------------------------------------------------


def raises(exc_types, func):
    try:
        func()
    except exc_types:
        return True
    except Exception as other:  # noqa: BLE001
        raise AssertionError(f"unexpected {type(other).__name__}: {other}")
    raise AssertionError("no exception")


assert raises(ValueError, lambda: Outer.from_dict({"big1": "twelve"}))
assert raises(ValueError, lambda: Outer.from_dict({"bigList2": ["1", "x"]}))
assert raises(ValueError, lambda: Outer.from_dict({"color1": "PURPLE"}))
assert raises(ValueError, lambda: Outer.from_dict({"colors": ["RED", "PURPLE"]}))
assert raises(
    (ValueError, base64.binascii.Error), lambda: Outer.from_dict({"rawBytes3": "a"})
)
assert raises(
    (ValueError, TypeError, AttributeError),
    lambda: Outer.from_dict({"innerMsg1": 5}),
)
assert raises((ValueError, TypeError), lambda: Outer.from_dict({"createdAt1": "x"}))
assert raises((ValueError, TypeError), lambda: Outer.from_dict({"ttl1": "abc"}))
assert raises((ValueError, TypeError), lambda: Outer.from_dict({"big1": [[1]]}))

# ---------------------------------------------------------------------------------
# 3. random messages: to_dict -> from_dict round trips in both casings
# ---------------------------------------------------------------------------------
rng = random.Random(1911)


def rand_inner() -> Inner:
    return Inner(
        address_line_1=rng.choice(["", "a", "line"]),
        x_y_z=rng.choice([0, 1, -1, 2**62, -(2**63)]),
        x_yz=rng.choice([0, 7, -7]),
    )


def rand_dt() -> datetime:
    return datetime(2000, 1, 1, tzinfo=UTC) + timedelta(
        seconds=rng.randrange(-(10**9), 10**9), microseconds=rng.randrange(10**6)
    )


def rand_td() -> timedelta:
    return timedelta(
        seconds=rng.randrange(-(10**8), 10**8), microseconds=rng.randrange(10**6)
    )


def rand_float() -> float:
    return rng.choice([0.0, 1.5, -2.25, 1e10, math.inf, -math.inf, 0.1])


def rand_list(make, upto=3):
    return [make() for _ in range(rng.randrange(upto + 1))]


def rand_outer() -> Outer:
    m = Outer()
    setters = [
        lambda: setattr(m, "ipv4_address", rng.choice(["", "1.2.3.4"])),
        lambda: setattr(m, "http_status", rng.randrange(-5, 600)),
        lambda: setattr(m, "big_1", rng.choice([0, 2**63 - 1, -(2**63), 12])),
        lambda: setattr(
            m, "big_list_2", rand_list(lambda: rng.choice([0, 2**64 - 1, 3]))
        ),
        lambda: setattr(m, "raw_bytes_3", rng.randbytes(rng.randrange(5))),
        lambda: setattr(
            m, "raw_list", rand_list(lambda: rng.randbytes(rng.randrange(4)))
        ),
        lambda: setattr(m, "color_1", rng.choice(list(Color))),
        lambda: setattr(m, "colors", rand_list(lambda: rng.choice(list(Color)))),
        lambda: setattr(m, "ratio_f", rng.choice([0.0, 1.5, -2.25, math.inf])),
        lambda: setattr(m, "ratios", rand_list(rand_float)),
        lambda: setattr(m, "inner_msg_1", rand_inner()),
        lambda: setattr(m, "inner_list", rand_list(rand_inner)),
        lambda: setattr(m, "created_at_1", rand_dt()),
        lambda: setattr(m, "stamps", rand_list(rand_dt)),
        lambda: setattr(m, "ttl_1", rand_td()),
        lambda: setattr(m, "ttls", rand_list(rand_td)),
        lambda: setattr(m, "maybe_int", rng.choice([0, 5, -(2**40)])),
        lambda: setattr(m, "maybe_str", rng.choice(["", "s"])),
        lambda: setattr(m, "maybe_bytes", rng.choice([b"", b"\xfe"])),
        lambda: setattr(
            m, "by_name_1", {k: rand_inner() for k in rng.sample("abcd", 2)}
        ),
        lambda: setattr(
            m,
            "counts_x",
            {rng.randrange(-9, 9): rng.choice([0, 2**60]) for _ in range(2)},
        ),
        lambda: setattr(
            m, "color_map", {k: rng.choice(list(Color)) for k in rng.sample("xyz", 2)}
        ),
        lambda: setattr(m, "class_", rng.choice(["", "kw"])),
        lambda: setattr(m, "flag_b", rng.choice([True, False])),
        lambda: setattr(m, "a_1", rng.choice(["", "one"])),
        lambda: setattr(m, "b_2", rand_inner()),
        lambda: setattr(m, "opt_i64", rng.choice([0, -3, 2**50])),
        lambda: setattr(m, "sfix_64", rng.choice([0, -1, 2**63 - 1])),
        lambda: setattr(m, "small_u32", rng.choice([0, 1, 2**32 - 1])),
        lambda: setattr(m, "small_list", rand_list(lambda: rng.randrange(-9, 9))),
        lambda: setattr(m, "opt_color", rng.choice(list(Color))),
        lambda: setattr(m, "opt_double", rand_float()),
        lambda: setattr(m, "maybe_double", rand_float()),
        lambda: setattr(m, "bool_map", {rng.choice([True, False]): "v"}),
        lambda: setattr(m, "bytes_map", {"k": rng.randbytes(3)}),
    ]
    for setter in rng.sample(setters, rng.randrange(len(setters) + 1)):
        setter()
    return m


for _ in range(400):
    original = rand_outer()
    wire = bytes(original)
    for casing in (Casing.CAMEL, Casing.SNAKE):
        for defaults in (False, True):
            as_dict = original.to_dict(casing=casing, include_default_values=defaults)
            for back in (Outer.from_dict(as_dict), Outer().from_dict(as_dict)):
                if not defaults:
                    assert back == original, (as_dict, back, original)
                    assert bytes(back) == wire
                else:
                    # defaults are spelled out (this also lists the unselected member
                    # of the one-of, so that group is left out of the comparison)
                    for name in Outer._betterproto.meta_by_field_name:
                        if name not in ("a_1", "b_2"):
                            assert getattr(back, name) == getattr(original, name), (
                                name,
                                as_dict,
                            )

# ---------------------------------------------------------------------------------
# 4. names: exhaustive sweep of proto identifiers, one int64 field per class
# ---------------------------------------------------------------------------------
ALPHABET = "aB1_"
names = [
    "".join(chars)
    for n in range(1, 6)
    for chars in itertools.product(ALPHABET, repeat=n)
    if not chars[0].isdigit()
]
names += list(keyword.kwlist) + list(keyword.softkwlist)
names += [k.capitalize() for k in keyword.kwlist] + [k.upper() for k in keyword.kwlist]
names += [
    "address_line_1",
    "ipv4_address",
    "x_y_z",
    "HTTPStatus",
    "int",
    "str",
    "list",
    "type",
    "fooBar",
    "foo_bar_2_baz",
    "a1b2",
    "SCREAMING_SNAKE_1",
]
swept = 0
for proto_name in dict.fromkeys(names):
    field_name = safe_snake_case(proto_name)
    assert field_name.isidentifier() and not keyword.iskeyword(field_name)
    assert safe_snake_case(field_name) == field_name
    cls = dataclasses.make_dataclass(
        "Single",
        [(field_name, int, betterproto.int64_field(1))],
        bases=(betterproto.Message,),
        eq=False,
        repr=False,
    )
    msg = cls(**{field_name: 2**40 + 1})
    camel = msg.to_dict()
    snake = msg.to_dict(casing=Casing.SNAKE)
    assert list(camel) == [camel_case(field_name).rstrip("_")]
    assert list(snake) == [snake_case(field_name).rstrip("_")]
    assert list(camel.values()) == list(snake.values()) == [str(2**40 + 1)]
    for key in (next(iter(camel)), next(iter(snake)), proto_name, field_name):
        for parsed in (cls.from_dict({key: "77"}), cls().from_dict({key: "77"})):
            assert getattr(parsed, field_name) == 77, (proto_name, field_name, key)
            assert bytes(parsed) == b"\x08\x4d"
    swept += 1
assert swept > 1000

# ---------------------------------------------------------------------------------
# 5. google.protobuf produces the JSON, betterproto parses it
# ---------------------------------------------------------------------------------
from google.protobuf import descriptor_pb2, descriptor_pool, json_format  # noqa: E402
from google.protobuf import message_factory  # noqa: E402

F = descriptor_pb2.FieldDescriptorProto
fdp = descriptor_pb2.FileDescriptorProto(
    name="c19_keep1.proto",
    package="c19k1",
    syntax="proto3",
    dependency=[
        "google/protobuf/timestamp.proto",
        "google/protobuf/duration.proto",
        "google/protobuf/wrappers.proto",
    ],
)
enum = fdp.enum_type.add(name="Color")
for member in Color:
    enum.value.add(name=member.name, number=member.value)
inner = fdp.message_type.add(name="Inner")
inner.field.add(name="address_line_1", number=1, type=F.TYPE_STRING, label=1)
inner.field.add(name="x_y_z", number=2, type=F.TYPE_INT64, label=1)
inner.field.add(name="x_yz", number=3, type=F.TYPE_INT32, label=1)
outer = fdp.message_type.add(name="Outer")


def add(name, number, ftype, repeated=False, type_name=None, **kw):
    field = outer.field.add(
        name=name, number=number, type=ftype, label=3 if repeated else 1, **kw
    )
    if type_name:
        field.type_name = type_name
    return field


add("ipv4_address", 1, F.TYPE_STRING)
add("HTTPStatus", 2, F.TYPE_INT32)
add("big_1", 3, F.TYPE_INT64)
add("big_list_2", 4, F.TYPE_UINT64, repeated=True)
add("raw_bytes_3", 5, F.TYPE_BYTES)
add("raw_list", 6, F.TYPE_BYTES, repeated=True)
add("color_1", 7, F.TYPE_ENUM, type_name=".c19k1.Color")
add("colors", 8, F.TYPE_ENUM, repeated=True, type_name=".c19k1.Color")
add("ratio_f", 9, F.TYPE_FLOAT)
add("ratios", 10, F.TYPE_DOUBLE, repeated=True)
add("inner_msg_1", 11, F.TYPE_MESSAGE, type_name=".c19k1.Inner")
add("inner_list", 12, F.TYPE_MESSAGE, repeated=True, type_name=".c19k1.Inner")
add("created_at_1", 13, F.TYPE_MESSAGE, type_name=".google.protobuf.Timestamp")
add("stamps", 14, F.TYPE_MESSAGE, repeated=True, type_name=".google.protobuf.Timestamp")
add("ttl_1", 15, F.TYPE_MESSAGE, type_name=".google.protobuf.Duration")
add("ttls", 16, F.TYPE_MESSAGE, repeated=True, type_name=".google.protobuf.Duration")
add("maybe_int", 17, F.TYPE_MESSAGE, type_name=".google.protobuf.Int64Value")
add("maybe_str", 18, F.TYPE_MESSAGE, type_name=".google.protobuf.StringValue")
add("maybe_bytes", 19, F.TYPE_MESSAGE, type_name=".google.protobuf.BytesValue")
for map_name, number, key_type, value_type, value_type_name in (
    ("by_name_1", 20, F.TYPE_STRING, F.TYPE_MESSAGE, ".c19k1.Inner"),
    ("counts_x", 21, F.TYPE_INT64, F.TYPE_INT64, None),
    ("color_map", 22, F.TYPE_STRING, F.TYPE_ENUM, ".c19k1.Color"),
    ("bool_map", 34, F.TYPE_BOOL, F.TYPE_STRING, None),
    ("bytes_map", 35, F.TYPE_STRING, F.TYPE_BYTES, None),
):
    entry_name = "".join(part.capitalize() for part in map_name.split("_")) + "Entry"
    entry = outer.nested_type.add(name=entry_name)
    entry.options.map_entry = True
    entry.field.add(name="key", number=1, type=key_type, label=1)
    value_field = entry.field.add(name="value", number=2, type=value_type, label=1)
    if value_type_name:
        value_field.type_name = value_type_name
    add(
        map_name,
        number,
        F.TYPE_MESSAGE,
        repeated=True,
        type_name=f".c19k1.Outer.{entry_name}",
    )
add("class", 23, F.TYPE_STRING)
add("flag_b", 24, F.TYPE_BOOL)
outer.oneof_decl.add(name="choice")
add("a_1", 25, F.TYPE_STRING, oneof_index=0)
add("b_2", 26, F.TYPE_MESSAGE, type_name=".c19k1.Inner", oneof_index=0)
outer.oneof_decl.add(name="_opt_i64")
add("opt_i64", 27, F.TYPE_INT64, oneof_index=1, proto3_optional=True)
add("sfix_64", 28, F.TYPE_SFIXED64)
add("small_u32", 29, F.TYPE_UINT32)
add("small_list", 30, F.TYPE_INT32, repeated=True)
outer.oneof_decl.add(name="_opt_color")
add(
    "opt_color",
    31,
    F.TYPE_ENUM,
    type_name=".c19k1.Color",
    oneof_index=2,
    proto3_optional=True,
)
outer.oneof_decl.add(name="_opt_double")
add("opt_double", 32, F.TYPE_DOUBLE, oneof_index=3, proto3_optional=True)
add("maybe_double", 33, F.TYPE_MESSAGE, type_name=".google.protobuf.DoubleValue")

from google.protobuf import duration_pb2, timestamp_pb2, wrappers_pb2  # noqa: E402,F401

pool = descriptor_pool.Default()
pool.Add(fdp)
GOuter = message_factory.GetMessageClass(pool.FindMessageTypeByName("c19k1.Outer"))

compared = 0
for _ in range(300):
    original = rand_outer()
    wire = bytes(original)
    g = GOuter()
    g.ParseFromString(wire)
    for preserve in (False, True):
        gjson = json_format.MessageToDict(g, preserving_proto_field_name=preserve)
        for back in (Outer.from_dict(gjson), Outer().from_dict(gjson)):
            assert back == original, (gjson, back, original)
    compared += 1
assert compared == 300

print(f"ok: fixed document, 400 random round trips, {swept} names, {compared} google")
