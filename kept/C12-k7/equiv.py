"""
C12 equivalence check for AsyncChannel refactorings.

Part 1 drives several thousand small configurations (1..2 senders x 1..3 items via
send / send_from(list) / send_from(async gen) / send_from(close=True), 1..3 receivers
using receive() or async-for, close() at varying points (optionally twice), unbounded
and bounded buffers, optional cancellation of one receiver at varying points) through
real asyncio, with every task yielding a configurable number of times so that many
different interleavings are produced.  For every run the statement of the property is
asserted, and the complete event trace (who observed what, in which order, including
closed()/done() probes) is folded into a digest which must equal the digest recorded
on the reference implementation: the refactoring may not change a single observable
step.

Part 2 checks the closed()/done()/ChannelClosed/ChannelDone life cycle explicitly.
"""
import asyncio
import hashlib
import itertools
import random

from betterproto.grpc.util.async_channel import AsyncChannel, ChannelClosed, ChannelDone

EXPECTED_DIGEST = "69f31b9d4ca7447d05ff766e5f99b8493635ecda15c523973f7c2738b8daf3dd"

WATCHDOG = 10.0


async def yields(n):
    for _ in range(n):
        await asyncio.sleep(0)


class Run:
    def __init__(self, cfg):
        self.cfg = cfg
        self.ch = AsyncChannel(buffer_limit=cfg["limit"])
        self.log = []
        self.close_called = False

    def ev(self, *e):
        self.log.append(e)

    def probe(self, who):
        c, d = self.ch.closed(), self.ch.done()
        assert c is True or c is False
        assert d is True or d is False
        assert not d or c, "done implies closed"
        self.ev("probe", who, c, d)

    # ---------------------------------------------------------------- senders
    async def sender(self, name, mode, items, delay, gap, close_flag):
        ch = self.ch
        await yields(delay)
        try:
            if mode == "send":
                for it in items:
                    r = await ch.send(it)
                    assert r is ch
                    self.ev("sent", name, it, self.close_called)
                    await yields(gap)
            elif mode == "list":
                r = await ch.send_from(list(items), close=close_flag)
                assert r is ch
                if close_flag:
                    self.close_called = True
                    self.ev("close", name)
                for it in items:
                    self.ev("sent", name, it, self.close_called and not close_flag)
            elif mode == "gen":
                r = await ch.send_from((it for it in items), close=close_flag)
                assert r is ch
                if close_flag:
                    self.close_called = True
                    self.ev("close", name)
                for it in items:
                    self.ev("sent", name, it, self.close_called and not close_flag)
            else:  # async generator source

                async def agen():
                    prev = None
                    for it in items:
                        if prev is not None:
                            self.ev("sent", name, prev, self.close_called)
                        await yields(gap)
                        prev = it
                        yield it
                    if prev is not None:
                        self.ev("sent", name, prev, self.close_called)

                r = await ch.send_from(agen(), close=close_flag)
                assert r is ch
                if close_flag:
                    self.close_called = True
                    self.ev("close", name)
            self.ev("sender-finished", name)
        except ChannelClosed as e:
            assert self.close_called, "ChannelClosed raised on an open channel"
            assert str(e) == "Cannot send through a closed channel"
            self.ev("sender-rejected", name)
        self.probe(name)

    # -------------------------------------------------------------- receivers
    async def receiver(self, name, mode, delay, gap):
        ch = self.ch
        await yields(delay)
        self.probe(name)
        if mode == "iter":
            async for it in ch:
                self.ev("recv", name, it)
                await yields(gap)
            self.ev("end-of-iteration", name)
        else:
            while True:
                try:
                    it = await ch.receive()
                except ChannelDone as e:
                    assert str(e) == "Cannot receive from a closed channel"
                    self.ev("channel-done", name)
                    break
                if it is None:
                    self.ev("none", name)
                    break
                self.ev("recv", name, it)
                await yields(gap)
        assert ch.closed(), "receiver terminated although channel was never closed"
        self.probe(name)

    async def closer(self, delay, twice):
        await yields(delay)
        self.probe("closer")
        self.close_called = True
        assert self.ch.close() is None
        self.ev("close", "closer")
        self.probe("closer")
        if twice is not None:
            await yields(twice)
            self.ch.close()
            self.ev("close-again", "closer")
            self.probe("closer")

    async def canceller(self, task, name, delay):
        await yields(delay)
        pending = not task.done()
        task.cancel()
        self.ev("cancel", name, pending)
        return pending

    async def late_sender(self, delay):
        # a sender that only ever sends after close() was issued
        await yields(delay)
        while not self.close_called:
            await asyncio.sleep(0)
        for meth, arg in (("send", "late"), ("send_from", ["late"]), ("send_from", [])):
            try:
                await getattr(self.ch, meth)(arg)
            except ChannelClosed:
                self.ev("late-rejected", meth)
            else:
                raise AssertionError(f"{meth} after close() did not raise ChannelClosed")

    # -------------------------------------------------------------------- run
    async def run(self):
        cfg = self.cfg
        tasks = {}
        senders = []
        receivers = []
        for i, (mode, n, delay, gap, close_flag) in enumerate(cfg["senders"]):
            name = f"S{i}"
            items = [f"{name}.{k}" for k in range(n)]
            t = asyncio.ensure_future(self.sender(name, mode, items, delay, gap, close_flag))
            tasks[name] = t
            senders.append((name, items, t))
        for i, (mode, delay, gap) in enumerate(cfg["receivers"]):
            name = f"R{i}"
            t = asyncio.ensure_future(self.receiver(name, mode, delay, gap))
            tasks[name] = t
            receivers.append((name, t))
        must_finish = [t for _, t in receivers]
        if cfg["closer"] is not None:
            t = asyncio.ensure_future(self.closer(*cfg["closer"]))
            must_finish.append(t)
        canc = None
        if cfg["cancel"] is not None:
            idx, delay = cfg["cancel"]
            name, victim = receivers[idx]
            canc = asyncio.ensure_future(self.canceller(victim, name, delay))
            must_finish.append(canc)
        late = asyncio.ensure_future(self.late_sender(cfg["late"]))
        must_finish.append(late)

        done, pending = await asyncio.wait(must_finish, timeout=WATCHDOG)
        assert not pending, f"stranded tasks in {cfg}: {pending}\n{self.log}"
        # senders can legitimately stay blocked on a full bounded buffer when nobody
        # receives any more; give them a few turns, then drain on their behalf
        await yields(6)
        # "channel still usable, nothing lost": whatever is left can be received
        leftovers = []
        guard = 0
        while True:
            guard += 1
            assert guard < 50
            self.probe("main")
            try:
                it = await asyncio.wait_for(self.ch.receive(), WATCHDOG)
            except ChannelDone:
                # blocked senders may still be about to put their item
                await yields(3)
                if self.ch.done():
                    break
                continue
            if it is None:
                continue
            leftovers.append(it)
            self.ev("recv", "main", it)
        stuck = []
        for name, items, t in senders:
            if not t.done():
                stuck.append(name)
                t.cancel()
        self.ev("stuck-senders", tuple(stuck))
        res = await asyncio.gather(*tasks.values(), return_exceptions=True)
        for (name, t), r in zip(tasks.items(), res):
            if isinstance(r, BaseException) and not isinstance(r, asyncio.CancelledError):
                raise AssertionError(f"{name} failed with {r!r} in {cfg}") from r

        # ---- the property ------------------------------------------------
        for t in must_finish:
            if t is not canc and not t.cancelled():
                t.result()
        if canc is not None:
            was_pending = canc.result()
            name, victim = receivers[cfg["cancel"][0]]
            if was_pending:
                assert victim.cancelled(), f"cancel did not surface in {cfg}"
            self.ev("victim-cancelled", victim.cancelled())
        received = [e[2] for e in self.log if e[0] == "recv"]
        assert len(received) == len(set(received)), f"duplicate delivery {received} in {cfg}"
        all_items = {it for _, items, _ in senders for it in items}
        assert set(received) <= all_items, f"invented item in {cfg}"
        for e in self.log:
            if e[0] == "sent" and not e[3]:
                assert e[2] in received, f"item {e[2]} lost in {cfg}\n{self.log}"
        for name, items, _ in senders:
            mine = [it for it in received if it.startswith(name + ".")]
            assert mine == sorted(mine, key=lambda s: int(s.split(".")[1])), (
                f"order violated {mine} in {cfg}"
            )
        assert self.ch.closed() and self.ch.done()
        try:
            await self.ch.send("z")
        except ChannelClosed:
            pass
        else:
            raise AssertionError("send after close accepted")
        return self.log


def configs():
    rnd = random.Random(20240612)
    out = []
    # systematic core: one sender, one/two receivers, closer everywhere
    for limit, n, rmodes, cdelay, rdelay in itertools.product(
        (0, 1, 2), (1, 2, 3), (("recv",), ("iter",), ("recv", "iter"), ("iter", "iter", "recv")),
        range(0, 6), (0, 2),
    ):
        out.append(
            dict(
                limit=limit,
                senders=[("send", n, 0, 0, False)],
                receivers=[(m, rdelay * (i + 1) % 3, 0) for i, m in enumerate(rmodes)],
                closer=(cdelay, None),
                cancel=None,
                late=0,
            )
        )
    # random part
    for _ in range(3500):
        limit = rnd.choice((0, 0, 1, 2, 3))
        ns = rnd.choice((1, 1, 2))
        closing_sender = rnd.random() < 0.2
        senders = []
        for i in range(ns):
            mode = rnd.choice(("send", "send", "list", "gen", "agen"))
            close_flag = closing_sender and i == 0 and ns == 1 and mode != "send"
            senders.append((mode, rnd.randint(1, 3), rnd.randint(0, 4), rnd.randint(0, 2), close_flag))
        has_closing_sender = any(s[4] for s in senders)
        nr = rnd.randint(1, 3)
        receivers = [
            (rnd.choice(("recv", "iter")), rnd.randint(0, 5), rnd.randint(0, 2)) for _ in range(nr)
        ]
        if has_closing_sender and rnd.random() < 0.7:
            closer = None
        else:
            closer = (rnd.randint(0, 9), rnd.choice((None, None, 0, 1, 3)))
        cancel = None
        if rnd.random() < 0.45:
            cancel = (rnd.randrange(nr), rnd.randint(0, 8))
        if closer is None and limit != 0:
            # without an independent closer a cancelled receiver could leave the
            # closing sender blocked on a full buffer for ever (not a channel issue)
            cancel = None
        out.append(
            dict(limit=limit, senders=senders, receivers=receivers, closer=closer, cancel=cancel,
                 late=rnd.randint(0, 4))
        )
    return out


async def part1():
    h = hashlib.sha256()
    n = 0
    for cfg in configs():
        log = await Run(cfg).run()
        h.update(repr((sorted(cfg.items()), log)).encode())
        n += 1
    return n, h.hexdigest()


async def part2():
    # ---- life cycle of the closed / done predicates ------------------------
    for limit in (0, 1, 2, -1):
        ch = AsyncChannel(buffer_limit=limit)
        assert ch.closed() is False and ch.done() is False
        await ch.send(1)
        assert ch.closed() is False and ch.done() is False
        ch.close()
        # closed takes effect synchronously, before the flush task has run
        assert ch.closed() is True and ch.done() is False
        for meth, arg in (("send", 2), ("send_from", [2]), ("send_from", [])):
            try:
                await getattr(ch, meth)(arg)
            except ChannelClosed as e:
                assert str(e) == "Cannot send through a closed channel"
            else:
                raise AssertionError
        await yields(3)  # flush ran
        assert ch.closed() is True and ch.done() is False
        try:
            await ch.send(2)
        except ChannelClosed:
            pass
        else:
            raise AssertionError
        assert await ch.receive() == 1
        assert ch.closed() is True and ch.done() is True
        ch.close()  # closing again is harmless
        await yields(3)
        assert ch.closed() is True and ch.done() is True
        try:
            await ch.receive()
        except ChannelDone:
            pass
        else:
            raise AssertionError
        assert [x async for x in ch] == []

    # ---- close() releases every blocked receiver exactly once, also when it is
    # ---- called repeatedly before / after the flush ran ---------------------
    for n_recv, closes_before, closes_after in itertools.product((1, 2, 3), (1, 2, 3), (0, 1, 2)):
        ch = AsyncChannel()
        results = []

        async def r():
            results.append(await ch.receive())

        async def it():
            results.append([x async for x in ch])

        ts = [asyncio.ensure_future(r() if i % 2 == 0 else it()) for i in range(n_recv)]
        await yields(2)
        assert ch.done() is False
        for _ in range(closes_before):
            ch.close()
        assert ch.closed() is True
        # every buffered slot (none) is covered by a waiting receiver -> done
        assert ch.done() is True
        await yields(1)
        for _ in range(closes_after):
            ch.close()
        await asyncio.wait_for(asyncio.gather(*ts), WATCHDOG)
        assert sorted(map(repr, results)) == sorted(
            map(repr, [None if i % 2 == 0 else [] for i in range(n_recv)])
        )
        await yields(4)
        # no surplus flush signal was injected by the repeated close() calls
        assert ch._queue.qsize() == 0
        assert ch.done() is True

    # ---- closing through send_from(close=True) ------------------------------
    for src in ([], [1], [1, 2, 3]):
        ch = AsyncChannel()
        got = []

        async def consume():
            async for x in ch:
                got.append(x)

        t = asyncio.ensure_future(consume())
        await yields(1)
        assert (await ch.send_from(iter(src), close=True)) is ch
        assert ch.closed() is True
        await asyncio.wait_for(t, WATCHDOG)
        assert got == src and ch.done() is True

    # ---- an open channel is never done, whatever the buffer / waiters -------
    ch = AsyncChannel(buffer_limit=2)
    t = asyncio.ensure_future(ch.receive())
    await yields(1)
    assert ch.done() is False and ch.closed() is False  # 0 buffered <= 1 waiting, but open
    await ch.send("a")
    assert ch.done() is False
    assert await t == "a"
    assert ch.done() is False


async def main():
    n, digest = await part1()
    await part2()
    print("configurations:", n, "digest:", digest)
    assert digest == EXPECTED_DIGEST, "observable trace differs from the reference implementation"


asyncio.run(main())
print("OK")
