"""C05 keep2 equivalence script (self-contained).

Checks the per-class table _betterproto.cls_by_field (and Message._cls_for behind it)
entry by entry for classes written with typing generics, builtin generics, PEP 604 unions
and quoted annotations, and cross-checks the JSON mapping that is driven by that table
against google.protobuf.json_format in both directions over random messages.

Run:  PYTHONPATH=/tmp/wt/R10C05/src /venv/bin/python equiv.py
"""

import math
import random
from dataclasses import dataclass
from datetime import datetime, timedelta, timezone
from typing import Dict, List, Optional

from google.protobuf import descriptor_pb2, descriptor_pool, json_format, message_factory
from google.protobuf import duration_pb2, timestamp_pb2, wrappers_pb2  # noqa: F401 (registers WKTs)

import betterproto

F = descriptor_pb2.FieldDescriptorProto
SCALARS = [
    ("int32", F.TYPE_INT32), ("int64", F.TYPE_INT64), ("uint32", F.TYPE_UINT32),
    ("uint64", F.TYPE_UINT64), ("sint32", F.TYPE_SINT32), ("sint64", F.TYPE_SINT64),
    ("fixed32", F.TYPE_FIXED32), ("fixed64", F.TYPE_FIXED64), ("sfixed32", F.TYPE_SFIXED32),
    ("sfixed64", F.TYPE_SFIXED64), ("float", F.TYPE_FLOAT), ("double", F.TYPE_DOUBLE),
    ("bool", F.TYPE_BOOL), ("string", F.TYPE_STRING), ("bytes", F.TYPE_BYTES),
]


def build_reference():
    fd = descriptor_pb2.FileDescriptorProto(name="c05_keep2.proto", package="c05h", syntax="proto3")
    fd.dependency.extend([
        "google/protobuf/timestamp.proto", "google/protobuf/duration.proto",
        "google/protobuf/wrappers.proto",
    ])
    en = fd.enum_type.add(name="Color")
    for n, v in (("ZERO", 0), ("RED", 1), ("BLUE", 2), ("NEG", -1)):
        en.value.add(name=n, number=v)

    sub = fd.message_type.add(name="Sub")
    sub.field.add(name="x", number=1, type=F.TYPE_INT32, label=F.LABEL_OPTIONAL)
    sub.field.add(name="big_num", number=2, type=F.TYPE_INT64, label=F.LABEL_OPTIONAL)
    sub.oneof_decl.add(name="pick")
    sub.field.add(name="pick_a", number=3, type=F.TYPE_SINT64, label=F.LABEL_OPTIONAL, oneof_index=0)
    sub.field.add(name="pick_b", number=4, type=F.TYPE_STRING, label=F.LABEL_OPTIONAL, oneof_index=0)
    sub.field.add(name="pick_c", number=5, type=F.TYPE_ENUM, type_name=".c05h.Color",
                  label=F.LABEL_OPTIONAL, oneof_index=0)

    m = fd.message_type.add(name="M")
    num = 1
    for name, t in SCALARS:
        m.field.add(name=f"v_{name}", number=num, type=t, label=F.LABEL_OPTIONAL)
        num += 1
    for name, t in SCALARS:
        m.field.add(name=f"r_{name}", number=num, type=t, label=F.LABEL_REPEATED)
        num += 1
    m.field.add(name="v_enum", number=num, type=F.TYPE_ENUM, type_name=".c05h.Color", label=F.LABEL_OPTIONAL); num += 1
    m.field.add(name="r_enum", number=num, type=F.TYPE_ENUM, type_name=".c05h.Color", label=F.LABEL_REPEATED); num += 1
    m.field.add(name="v_sub", number=num, type=F.TYPE_MESSAGE, type_name=".c05h.Sub", label=F.LABEL_OPTIONAL); num += 1
    m.field.add(name="r_sub", number=num, type=F.TYPE_MESSAGE, type_name=".c05h.Sub", label=F.LABEL_REPEATED); num += 1
    m.field.add(name="v_ts", number=num, type=F.TYPE_MESSAGE, type_name=".google.protobuf.Timestamp", label=F.LABEL_OPTIONAL); num += 1
    m.field.add(name="r_ts", number=num, type=F.TYPE_MESSAGE, type_name=".google.protobuf.Timestamp", label=F.LABEL_REPEATED); num += 1
    m.field.add(name="v_du", number=num, type=F.TYPE_MESSAGE, type_name=".google.protobuf.Duration", label=F.LABEL_OPTIONAL); num += 1
    m.field.add(name="r_du", number=num, type=F.TYPE_MESSAGE, type_name=".google.protobuf.Duration", label=F.LABEL_REPEATED); num += 1
    # oneof
    m.oneof_decl.add(name="choice")
    m.field.add(name="c_int64", number=num, type=F.TYPE_INT64, label=F.LABEL_OPTIONAL, oneof_index=0); num += 1
    m.field.add(name="c_double", number=num, type=F.TYPE_DOUBLE, label=F.LABEL_OPTIONAL, oneof_index=0); num += 1
    m.field.add(name="c_bytes", number=num, type=F.TYPE_BYTES, label=F.LABEL_OPTIONAL, oneof_index=0); num += 1
    m.field.add(name="c_sub", number=num, type=F.TYPE_MESSAGE, type_name=".c05h.Sub", label=F.LABEL_OPTIONAL, oneof_index=0); num += 1
    m.field.add(name="c_ts", number=num, type=F.TYPE_MESSAGE, type_name=".google.protobuf.Timestamp", label=F.LABEL_OPTIONAL, oneof_index=0); num += 1
    m.field.add(name="c_du", number=num, type=F.TYPE_MESSAGE, type_name=".google.protobuf.Duration", label=F.LABEL_OPTIONAL, oneof_index=0); num += 1
    m.field.add(name="c_enum", number=num, type=F.TYPE_ENUM, type_name=".c05h.Color", label=F.LABEL_OPTIONAL, oneof_index=0); num += 1
    # proto3 optional (synthetic oneofs)
    for i, (name, t, tn) in enumerate((
        ("o_int32", F.TYPE_INT32, None), ("o_int64", F.TYPE_INT64, None), ("o_double", F.TYPE_DOUBLE, None),
        ("o_string", F.TYPE_STRING, None), ("o_bytes", F.TYPE_BYTES, None), ("o_bool", F.TYPE_BOOL, None),
        ("o_enum", F.TYPE_ENUM, ".c05h.Color"), ("o_sub", F.TYPE_MESSAGE, ".c05h.Sub"),
        ("o_du", F.TYPE_MESSAGE, ".google.protobuf.Duration"), ("o_ts", F.TYPE_MESSAGE, ".google.protobuf.Timestamp"),
    )):
        m.oneof_decl.add(name=f"_{name}")
        kw = dict(name=name, number=num, type=t, label=F.LABEL_OPTIONAL, oneof_index=1 + i, proto3_optional=True)
        if tn:
            kw["type_name"] = tn
        m.field.add(**kw)
        num += 1
    # wrappers
    for name in ("Int32", "Int64", "UInt32", "UInt64", "Float", "Double", "Bool", "String", "Bytes"):
        m.field.add(name=f"w_{name.lower()}", number=num, type=F.TYPE_MESSAGE,
                    type_name=f".google.protobuf.{name}Value", label=F.LABEL_OPTIONAL)
        num += 1
    # maps
    def add_map(field_name, kt, vt, v_type_name=None):
        nonlocal num
        entry_name = "".join(p.capitalize() for p in field_name.split("_")) + "Entry"
        e = m.nested_type.add(name=entry_name)
        e.options.map_entry = True
        e.field.add(name="key", number=1, type=kt, label=F.LABEL_OPTIONAL)
        kw = dict(name="value", number=2, type=vt, label=F.LABEL_OPTIONAL)
        if v_type_name:
            kw["type_name"] = v_type_name
        e.field.add(**kw)
        m.field.add(name=field_name, number=num, type=F.TYPE_MESSAGE, label=F.LABEL_REPEATED,
                    type_name=f".c05h.M.{entry_name}")
        num += 1

    add_map("m_str_i32", F.TYPE_STRING, F.TYPE_INT32)
    add_map("m_i32_i64", F.TYPE_INT32, F.TYPE_INT64)
    add_map("m_i64_f64", F.TYPE_INT64, F.TYPE_DOUBLE)
    add_map("m_u64_bytes", F.TYPE_UINT64, F.TYPE_BYTES)
    add_map("m_bool_str", F.TYPE_BOOL, F.TYPE_STRING)
    add_map("m_s32_sf64", F.TYPE_SINT32, F.TYPE_SFIXED64)
    add_map("m_str_enum", F.TYPE_STRING, F.TYPE_ENUM, ".c05h.Color")
    add_map("m_str_sub", F.TYPE_STRING, F.TYPE_MESSAGE, ".c05h.Sub")
    add_map("m_str_ts", F.TYPE_STRING, F.TYPE_MESSAGE, ".google.protobuf.Timestamp")
    add_map("m_i32_du", F.TYPE_INT32, F.TYPE_MESSAGE, ".google.protobuf.Duration")
    add_map("m_str_float", F.TYPE_STRING, F.TYPE_FLOAT)

    pool = descriptor_pool.Default()
    pool.Add(fd)
    return (message_factory.GetMessageClass(pool.FindMessageTypeByName("c05h.M")),
            message_factory.GetMessageClass(pool.FindMessageTypeByName("c05h.Sub")))


RefM, RefSub = build_reference()


class Color(betterproto.Enum):
    ZERO = 0
    RED = 1
    BLUE = 2
    NEG = -1


@dataclass(eq=False, repr=False)
class Sub(betterproto.Message):
    x: int = betterproto.int32_field(1)
    big_num: int = betterproto.int64_field(2)
    pick_a: int = betterproto.sint64_field(3, group="pick")
    pick_b: str = betterproto.string_field(4, group="pick")
    pick_c: "Color" = betterproto.enum_field(5, group="pick")


@dataclass(eq=False, repr=False)
class M(betterproto.Message):
    v_int32: int = betterproto.int32_field(1)
    v_int64: int = betterproto.int64_field(2)
    v_uint32: int = betterproto.uint32_field(3)
    v_uint64: int = betterproto.uint64_field(4)
    v_sint32: int = betterproto.sint32_field(5)
    v_sint64: int = betterproto.sint64_field(6)
    v_fixed32: int = betterproto.fixed32_field(7)
    v_fixed64: int = betterproto.fixed64_field(8)
    v_sfixed32: int = betterproto.sfixed32_field(9)
    v_sfixed64: int = betterproto.sfixed64_field(10)
    v_float: float = betterproto.float_field(11)
    v_double: float = betterproto.double_field(12)
    v_bool: bool = betterproto.bool_field(13)
    v_string: str = betterproto.string_field(14)
    v_bytes: bytes = betterproto.bytes_field(15)
    r_int32: List[int] = betterproto.int32_field(16)
    r_int64: List[int] = betterproto.int64_field(17)
    r_uint32: List[int] = betterproto.uint32_field(18)
    r_uint64: List[int] = betterproto.uint64_field(19)
    r_sint32: List[int] = betterproto.sint32_field(20)
    r_sint64: List[int] = betterproto.sint64_field(21)
    r_fixed32: List[int] = betterproto.fixed32_field(22)
    r_fixed64: List[int] = betterproto.fixed64_field(23)
    r_sfixed32: List[int] = betterproto.sfixed32_field(24)
    r_sfixed64: List[int] = betterproto.sfixed64_field(25)
    r_float: List[float] = betterproto.float_field(26)
    r_double: List[float] = betterproto.double_field(27)
    r_bool: List[bool] = betterproto.bool_field(28)
    r_string: List[str] = betterproto.string_field(29)
    r_bytes: List[bytes] = betterproto.bytes_field(30)
    v_enum: "Color" = betterproto.enum_field(31)
    r_enum: List["Color"] = betterproto.enum_field(32)
    v_sub: "Sub" = betterproto.message_field(33)
    r_sub: List["Sub"] = betterproto.message_field(34)
    v_ts: datetime = betterproto.message_field(35)
    r_ts: List[datetime] = betterproto.message_field(36)
    v_du: timedelta = betterproto.message_field(37)
    r_du: List[timedelta] = betterproto.message_field(38)
    c_int64: int = betterproto.int64_field(39, group="choice")
    c_double: float = betterproto.double_field(40, group="choice")
    c_bytes: bytes = betterproto.bytes_field(41, group="choice")
    c_sub: "Sub" = betterproto.message_field(42, group="choice")
    c_ts: datetime = betterproto.message_field(43, group="choice")
    c_du: timedelta = betterproto.message_field(44, group="choice")
    c_enum: "Color" = betterproto.enum_field(45, group="choice")
    o_int32: Optional[int] = betterproto.int32_field(46, optional=True, group="_o_int32")
    o_int64: Optional[int] = betterproto.int64_field(47, optional=True, group="_o_int64")
    o_double: Optional[float] = betterproto.double_field(48, optional=True, group="_o_double")
    o_string: Optional[str] = betterproto.string_field(49, optional=True, group="_o_string")
    o_bytes: Optional[bytes] = betterproto.bytes_field(50, optional=True, group="_o_bytes")
    o_bool: Optional[bool] = betterproto.bool_field(51, optional=True, group="_o_bool")
    o_enum: Optional["Color"] = betterproto.enum_field(52, optional=True, group="_o_enum")
    o_sub: Optional["Sub"] = betterproto.message_field(53, optional=True, group="_o_sub")
    o_du: Optional[timedelta] = betterproto.message_field(54, optional=True, group="_o_du")
    o_ts: Optional[datetime] = betterproto.message_field(55, optional=True, group="_o_ts")
    w_int32: Optional[int] = betterproto.message_field(56, wraps=betterproto.TYPE_INT32)
    w_int64: Optional[int] = betterproto.message_field(57, wraps=betterproto.TYPE_INT64)
    w_uint32: Optional[int] = betterproto.message_field(58, wraps=betterproto.TYPE_UINT32)
    w_uint64: Optional[int] = betterproto.message_field(59, wraps=betterproto.TYPE_UINT64)
    w_float: Optional[float] = betterproto.message_field(60, wraps=betterproto.TYPE_FLOAT)
    w_double: Optional[float] = betterproto.message_field(61, wraps=betterproto.TYPE_DOUBLE)
    w_bool: Optional[bool] = betterproto.message_field(62, wraps=betterproto.TYPE_BOOL)
    w_string: Optional[str] = betterproto.message_field(63, wraps=betterproto.TYPE_STRING)
    w_bytes: Optional[bytes] = betterproto.message_field(64, wraps=betterproto.TYPE_BYTES)
    m_str_i32: Dict[str, int] = betterproto.map_field(65, betterproto.TYPE_STRING, betterproto.TYPE_INT32)
    m_i32_i64: Dict[int, int] = betterproto.map_field(66, betterproto.TYPE_INT32, betterproto.TYPE_INT64)
    m_i64_f64: Dict[int, float] = betterproto.map_field(67, betterproto.TYPE_INT64, betterproto.TYPE_DOUBLE)
    m_u64_bytes: Dict[int, bytes] = betterproto.map_field(68, betterproto.TYPE_UINT64, betterproto.TYPE_BYTES)
    m_bool_str: Dict[bool, str] = betterproto.map_field(69, betterproto.TYPE_BOOL, betterproto.TYPE_STRING)
    m_s32_sf64: Dict[int, int] = betterproto.map_field(70, betterproto.TYPE_SINT32, betterproto.TYPE_SFIXED64)
    m_str_enum: Dict[str, "Color"] = betterproto.map_field(71, betterproto.TYPE_STRING, betterproto.TYPE_ENUM)
    m_str_sub: Dict[str, "Sub"] = betterproto.map_field(72, betterproto.TYPE_STRING, betterproto.TYPE_MESSAGE)
    m_str_ts: Dict[str, datetime] = betterproto.map_field(73, betterproto.TYPE_STRING, betterproto.TYPE_MESSAGE)
    m_i32_du: Dict[int, timedelta] = betterproto.map_field(74, betterproto.TYPE_INT32, betterproto.TYPE_MESSAGE)
    m_str_float: Dict[str, float] = betterproto.map_field(75, betterproto.TYPE_STRING, betterproto.TYPE_FLOAT)


def cross_check(msg, ref_cls=RefM, bp_cls=M):
    """The two directions of the property, judged on the wire bytes of the reference."""
    wire = bytes(msg)
    ref = ref_cls.FromString(wire)
    canon = ref.SerializeToString(deterministic=True)
    # betterproto JSON -> reference parser
    text = msg.to_json()
    parsed = json_format.Parse(text, ref_cls())
    assert parsed.SerializeToString(deterministic=True) == canon, ("bp->ref", text)
    # reference JSON -> betterproto parser
    ref_text = json_format.MessageToJson(ref)
    back = bp_cls().from_json(ref_text)
    assert ref_cls.FromString(bytes(back)).SerializeToString(deterministic=True) == canon, ("ref->bp", ref_text)
    return text, ref_text


UTC = timezone.utc
EPOCH = datetime(1970, 1, 1, tzinfo=UTC)


def rand_value(rng, kind):
    if kind == "int32" or kind == "sint32" or kind == "sfixed32":
        return rng.choice([0, 1, -1, 2**31 - 1, -2**31, rng.randrange(-2**31, 2**31)])
    if kind in ("int64", "sint64", "sfixed64"):
        return rng.choice([0, 1, -1, 2**63 - 1, -2**63, 2**53 + 1, rng.randrange(-2**63, 2**63)])
    if kind in ("uint32", "fixed32"):
        return rng.choice([0, 1, 2**32 - 1, rng.randrange(0, 2**32)])
    if kind in ("uint64", "fixed64"):
        return rng.choice([0, 1, 2**64 - 1, 2**63, rng.randrange(0, 2**64)])
    if kind == "float":
        import struct
        v = rng.choice([0.0, 1.5, -2.25, math.inf, -math.inf, math.nan, 1e-3, rng.uniform(-1e6, 1e6)])
        return struct.unpack("<f", struct.pack("<f", v))[0]
    if kind == "double":
        return rng.choice([0.0, 1.5, -2.25, math.inf, -math.inf, math.nan, 1e-7, 1e22, 5e-324,
                           1.7976931348623157e308, rng.uniform(-1e12, 1e12)])
    if kind == "bool":
        return rng.random() < 0.5
    if kind == "string":
        return rng.choice(["", "a", "héllo ☃ \U0001f600", 'q"uo\\te\n', "x" * rng.randrange(0, 8)])
    if kind == "bytes":
        return rng.choice([b"", b"\x00", b"\xff\xfe\xfd", b"\xfb\xef\xbe", rng.randbytes(rng.randrange(0, 70))])
    if kind == "enum":
        return rng.choice(list(Color))
    if kind == "ts":
        us = rng.choice([0, 1, -1, 500000, 1500000, -62135596800 * 10**6, 253402300799 * 10**6 + 999999,
                         rng.randrange(-62135596800, 253402300800) * 10**6 + rng.choice([0, 1000 * rng.randrange(1000), rng.randrange(10**6)])])
        return EPOCH + timedelta(microseconds=us)
    if kind == "du":
        us = rng.choice([0, 1, -1, 500000, -1500000, 315576000000 * 10**6, -315576000000 * 10**6,
                         rng.randrange(-10**12, 10**12), 1000 * rng.randrange(-10**9, 10**9),
                         10**6 * rng.randrange(-10**6, 10**6)])
        return timedelta(microseconds=us)
    if kind == "sub":
        return rand_sub(rng)
    raise AssertionError(kind)


def rand_sub(rng):
    kw = {}
    if rng.random() < 0.6:
        kw["x"] = rand_value(rng, "int32")
    if rng.random() < 0.6:
        kw["big_num"] = rand_value(rng, "int64")
    pick = rng.choice([None, "pick_a", "pick_b", "pick_c"])
    if pick == "pick_a":
        kw[pick] = rand_value(rng, "sint64")
    elif pick == "pick_b":
        kw[pick] = rand_value(rng, "string")
    elif pick == "pick_c":
        kw[pick] = rand_value(rng, "enum")
    return Sub(**kw)


MAP_KINDS = {
    "m_str_i32": ("string", "int32"), "m_i32_i64": ("int32", "int64"), "m_i64_f64": ("int64", "double"),
    "m_u64_bytes": ("uint64", "bytes"), "m_bool_str": ("bool", "string"), "m_s32_sf64": ("sint32", "sfixed64"),
    "m_str_enum": ("string", "enum"), "m_str_sub": ("string", "sub"), "m_str_ts": ("string", "ts"),
    "m_i32_du": ("int32", "du"), "m_str_float": ("string", "float"),
}


def rand_message(rng, density=0.3):
    kw = {}
    for name, _ in SCALARS:
        if rng.random() < density:
            kw[f"v_{name}"] = rand_value(rng, name)
        if rng.random() < density:
            kw[f"r_{name}"] = [rand_value(rng, name) for _ in range(rng.randrange(0, 4))]
    for base, kind in (("enum", "enum"), ("sub", "sub"), ("ts", "ts"), ("du", "du")):
        if rng.random() < density:
            kw[f"v_{base}"] = rand_value(rng, kind)
        if rng.random() < density:
            kw[f"r_{base}"] = [rand_value(rng, kind) for _ in range(rng.randrange(0, 4))]
    choice = rng.choice([None, "c_int64", "c_double", "c_bytes", "c_sub", "c_ts", "c_du", "c_enum"])
    if choice:
        kind = {"c_int64": "int64", "c_double": "double", "c_bytes": "bytes", "c_sub": "sub",
                "c_ts": "ts", "c_du": "du", "c_enum": "enum"}[choice]
        kw[choice] = rand_value(rng, kind)
        if rng.random() < 0.4:  # the default value of the selected member
            kw[choice] = {"int64": 0, "double": 0.0, "bytes": b"", "sub": Sub(), "ts": EPOCH,
                          "du": timedelta(0), "enum": Color.ZERO}[kind]
    for name, kind in (("o_int32", "int32"), ("o_int64", "int64"), ("o_double", "double"), ("o_string", "string"),
                       ("o_bytes", "bytes"), ("o_bool", "bool"), ("o_enum", "enum"), ("o_sub", "sub"),
                       ("o_du", "du"), ("o_ts", "ts")):
        if rng.random() < density:
            kw[name] = rand_value(rng, kind)
    for name, kind in (("w_int32", "int32"), ("w_int64", "int64"), ("w_uint32", "uint32"), ("w_uint64", "uint64"),
                       ("w_float", "float"), ("w_double", "double"), ("w_bool", "bool"), ("w_string", "string"),
                       ("w_bytes", "bytes")):
        if rng.random() < density:
            kw[name] = rand_value(rng, kind)
    for name, (kk, vk) in MAP_KINDS.items():
        if rng.random() < density:
            d = {}
            for _ in range(rng.randrange(0, 4)):
                k = rand_value(rng, kk)
                d[k] = rand_value(rng, vk)
            kw[name] = d
    return M(**kw)


# ---------------------------------------------------------------------------------------
# keep2: the per-class table _betterproto.cls_by_field (ProtoClassMetadata._get_cls_by_field
# / Message._cls_for).  from_dict picks its decoder from it (datetime -> RFC 3339 text,
# timedelta -> "1.5s", enum class -> names, message class -> nested object), to_dict uses
# it for repeated fields and enum map values, and the wire parser for every map entry.
# ---------------------------------------------------------------------------------------
import dataclasses
import json


@dataclass(eq=False, repr=False)
class Modern(betterproto.Message):
    """Builtin generics, PEP 604 unions and fully quoted annotations."""

    ids: list[int] = betterproto.int64_field(1)
    when: "datetime | None" = betterproto.message_field(2, optional=True, group="_when")
    spans: "dict[str, timedelta]" = betterproto.map_field(3, betterproto.TYPE_STRING, betterproto.TYPE_MESSAGE)
    tint: "Optional[Color]" = betterproto.enum_field(4, optional=True, group="_tint")
    subs: "List[Sub]" = betterproto.message_field(5)
    by_flag: "Dict[bool, Color]" = betterproto.map_field(6, betterproto.TYPE_BOOL, betterproto.TYPE_ENUM)
    count: "Optional[int]" = betterproto.message_field(7, wraps=betterproto.TYPE_UINT64)
    me: "Modern" = betterproto.message_field(8)
    nested: "Dict[int, Modern]" = betterproto.map_field(9, betterproto.TYPE_SINT64, betterproto.TYPE_MESSAGE)


@dataclass(eq=False, repr=False)
class NoFields(betterproto.Message):
    pass


def entry_shape(entry_cls):
    assert issubclass(entry_cls, betterproto.Message) and entry_cls.__name__ == "Entry"
    assert entry_cls.__module__ == "betterproto", entry_cls.__module__
    out = []
    for f in dataclasses.fields(entry_cls):
        meta = betterproto.FieldMetadata.get(f)
        out.append((f.name, f.type, meta.number, meta.proto_type))
    return out


def keep2_checks():
    table = M._betterproto.cls_by_field
    expected = {}
    for name, _ in SCALARS:
        py = {"float": float, "double": float, "bool": bool, "string": str, "bytes": bytes}.get(name, int)
        expected[f"v_{name}"] = py
        expected[f"r_{name}"] = py
    expected.update(
        v_enum=Color, r_enum=Color, v_sub=Sub, r_sub=Sub, v_ts=datetime, r_ts=datetime,
        v_du=timedelta, r_du=timedelta, c_int64=int, c_double=float, c_bytes=bytes, c_sub=Sub,
        c_ts=datetime, c_du=timedelta, c_enum=Color, o_int32=int, o_int64=int, o_double=float,
        o_string=str, o_bytes=bytes, o_bool=bool, o_enum=Color, o_sub=Sub, o_du=timedelta,
        o_ts=datetime, w_int32=int, w_int64=int, w_uint32=int, w_uint64=int, w_float=float,
        w_double=float, w_bool=bool, w_string=str, w_bytes=bytes,
    )
    maps = {
        "m_str_i32": (str, "string", int, "int32"), "m_i32_i64": (int, "int32", int, "int64"),
        "m_i64_f64": (int, "int64", float, "double"), "m_u64_bytes": (int, "uint64", bytes, "bytes"),
        "m_bool_str": (bool, "bool", str, "string"), "m_s32_sf64": (int, "sint32", int, "sfixed64"),
        "m_str_enum": (str, "string", Color, "enum"), "m_str_sub": (str, "string", Sub, "message"),
        "m_str_ts": (str, "string", datetime, "message"), "m_i32_du": (int, "int32", timedelta, "message"),
        "m_str_float": (str, "string", float, "float"),
    }
    keys = list(table)
    want_keys = []
    for f in dataclasses.fields(M):
        want_keys.append(f.name)
        if f.name in maps:
            want_keys.append(f"{f.name}.value")
    assert keys == want_keys, keys
    for name, cls in expected.items():
        assert table[name] is cls, (name, table[name])
    for name, (kt, kproto, vt, vproto) in maps.items():
        assert table[f"{name}.value"] is vt, name
        assert entry_shape(table[name]) == [("key", kt, 1, kproto), ("value", vt, 2, vproto)], name
        # the entry class is itself a usable message class (wire parser of map entries)
        entry_table = table[name]._betterproto.cls_by_field
        assert list(entry_table) == ["key", "value"] and entry_table["key"] is kt and entry_table["value"] is vt

    assert dict(Sub._betterproto.cls_by_field) == {"x": int, "big_num": int, "pick_a": int, "pick_b": str, "pick_c": Color}

    assert dict(NoFields._betterproto.cls_by_field) == {}
    assert NoFields().to_json() == "{}" and NoFields().from_json("{}") == NoFields()

    mt = Modern._betterproto.cls_by_field
    assert list(mt) == ["ids", "when", "spans", "spans.value", "tint", "subs", "by_flag", "by_flag.value",
                        "count", "me", "nested", "nested.value"], list(mt)
    assert mt["ids"] is int and mt["when"] is datetime and mt["spans.value"] is timedelta
    assert mt["tint"] is Color and mt["subs"] is Sub and mt["by_flag.value"] is Color
    assert mt["count"] is int and mt["me"] is Modern and mt["nested.value"] is Modern
    assert entry_shape(mt["spans"]) == [("key", str, 1, "string"), ("value", timedelta, 2, "message")]
    assert entry_shape(mt["by_flag"]) == [("key", bool, 1, "bool"), ("value", Color, 2, "enum")]
    assert entry_shape(mt["nested"]) == [("key", int, 1, "sint64"), ("value", Modern, 2, "message")]

    # _cls_for itself
    by_name = {f.name: f for f in dataclasses.fields(M)}
    assert M._cls_for(by_name["v_sub"]) is Sub and M._cls_for(by_name["r_ts"]) is datetime
    assert M._cls_for(by_name["o_enum"], index=0) is Color
    assert M._cls_for(by_name["m_i32_du"], index=0) is int and M._cls_for(by_name["m_i32_du"], index=1) is timedelta
    assert M._cls_for(by_name["m_i32_du"], index=-1) == Dict[int, timedelta]
    assert M._cls_for(by_name["r_sub"], index=-1) == List[Sub] and M._cls_for(by_name["v_int32"], index=-1) is int
    try:
        M._cls_for(dataclasses.field())  # a field that is not one of the class: name None
    except KeyError:
        pass
    else:
        raise AssertionError("KeyError expected")

    # a class using the modern annotation spellings: JSON in, JSON out, wire
    t0 = datetime(2001, 2, 3, 4, 5, 6, 789000, tzinfo=timezone.utc)
    js = {
        "ids": ["9007199254740993", "-1"], "when": "2001-02-03T04:05:06.789Z",
        "spans": {"a": "1.500s", "b": "-0.000001s"}, "tint": "BLUE", "subs": [{"x": 1}, {"pickB": ""}],
        "byFlag": {"true": "RED", "false": "NEG"}, "count": "18446744073709551615",
        "me": {"tint": "ZERO", "ids": ["1"]}, "nested": {"-5": {"when": "1970-01-01T00:00:00Z"}},
    }
    m = Modern().from_json(json.dumps(js))
    assert m.ids == [2**53 + 1, -1] and m.when == t0 and m.tint is Color.BLUE
    assert m.spans == {"a": timedelta(seconds=1.5), "b": timedelta(microseconds=-1)}
    assert m.subs == [Sub(x=1), Sub(pick_b="")] and m.by_flag == {True: Color.RED, False: Color.NEG}
    assert m.count == 2**64 - 1 and m.me.tint is Color.ZERO and m.me.ids == [1]
    assert m.nested[-5].when == EPOCH
    assert json.loads(m.to_json()) == js, m.to_json()
    assert Modern().parse(bytes(m)) == m and json.loads(Modern().parse(bytes(m)).to_json()) == js


def main():
    keep2_checks()
    rng = random.Random(2005)
    for i in range(1500):
        msg = rand_message(rng, density=rng.choice([0.05, 0.3, 0.8]))
        text, ref_text = cross_check(msg)
        # wire -> message -> JSON uses the table on the parse side as well
        assert M().parse(bytes(msg)).to_json() == text
    print("C05 keep2 equiv: OK")


if __name__ == "__main__":
    main()
