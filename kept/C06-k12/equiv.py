"""C06 keep2 equivalence check: the per-class tables (ProtoClassMetadata) and the default
generators behind the lazily materialised defaults, against an in-script copy of the
original logic, plus the defaults / presence matrix against google.protobuf."""
import dataclasses
import sys
import typing
from dataclasses import dataclass
from datetime import datetime, timedelta, timezone
from typing import Dict, List, Optional, Union

import betterproto
from betterproto import FieldMetadata, Message, ProtoClassMetadata, datetime_default_gen
from google.protobuf import (
    descriptor_pb2,
    descriptor_pool,
    duration_pb2,
    json_format,
    message_factory,
    timestamp_pb2,
    wrappers_pb2,
)


class Color(betterproto.Enum):
    COLOR_UNSPECIFIED = 0
    RED = 1
    BLUE = 5


@dataclass(eq=False, repr=False)
class Leaf(betterproto.Message):
    val: int = betterproto.int32_field(1)
    name: str = betterproto.string_field(2)
    items: List[int] = betterproto.int32_field(3)


@dataclass(eq=False, repr=False)
class Empty(betterproto.Message):
    pass


@dataclass(eq=False, repr=False)
class Tree(betterproto.Message):
    """recursive: defaults must be created lazily"""

    value: int = betterproto.int32_field(1)
    left: "Tree" = betterproto.message_field(2)
    right: "Tree" = betterproto.message_field(3)
    children: List["Tree"] = betterproto.message_field(4)
    leaf: Leaf = betterproto.message_field(5)


@dataclass(eq=False, repr=False)
class Kinds(betterproto.Message):
    # deliberately not in field-number order, with several oneof groups interleaved
    p_int: int = betterproto.int32_field(7)
    p_str: str = betterproto.string_field(1)
    p_bytes: bytes = betterproto.bytes_field(2)
    p_bool: bool = betterproto.bool_field(3)
    p_double: float = betterproto.double_field(4)
    p_enum: Color = betterproto.enum_field(5)
    a_int: int = betterproto.int32_field(10, group="alpha")
    o_int: Optional[int] = betterproto.int32_field(11, optional=True)
    b_str: str = betterproto.string_field(12, group="beta")
    a_str: str = betterproto.string_field(13, group="alpha")
    o_str: Optional[str] = betterproto.string_field(14, optional=True)
    b_leaf: Leaf = betterproto.message_field(15, group="beta")
    a_enum: Color = betterproto.enum_field(16, group="alpha")
    o_enum: Optional[Color] = betterproto.enum_field(17, optional=True)
    o_leaf: Optional[Leaf] = betterproto.message_field(18, optional=True)
    o_bool: Optional[bool] = betterproto.bool_field(19, optional=True)
    leaf: Leaf = betterproto.message_field(20)
    empty: Empty = betterproto.message_field(21)
    w_int: Optional[int] = betterproto.message_field(22, wraps=betterproto.TYPE_INT32)
    w_bool: Optional[bool] = betterproto.message_field(23, wraps=betterproto.TYPE_BOOL)
    w_str: Optional[str] = betterproto.message_field(24, wraps=betterproto.TYPE_STRING)
    r_int: List[int] = betterproto.int32_field(25)
    r_leaf: List[Leaf] = betterproto.message_field(26)
    m_si: Dict[str, int] = betterproto.map_field(
        27, betterproto.TYPE_STRING, betterproto.TYPE_INT32
    )
    m_il: Dict[int, Leaf] = betterproto.map_field(
        28, betterproto.TYPE_INT32, betterproto.TYPE_MESSAGE
    )
    ts: datetime = betterproto.message_field(29)
    dur: timedelta = betterproto.message_field(30)
    b_ts: datetime = betterproto.message_field(31, group="beta")
    c_only: int = betterproto.sint64_field(32, group="gamma")
    o_double: Optional[float] = betterproto.double_field(33, optional=True)
    o_bytes: Optional[bytes] = betterproto.bytes_field(34, optional=True)
    p_fixed: int = betterproto.fixed64_field(35)
    o_sfixed: Optional[int] = betterproto.sfixed32_field(36, optional=True)


@dataclass(eq=False, repr=False)
class Modern(betterproto.Message):
    """builtin generics / PEP 604 unions"""

    r: list[int] = betterproto.int32_field(1)
    m: dict[str, int] = betterproto.map_field(
        2, betterproto.TYPE_STRING, betterproto.TYPE_INT32
    )
    o: Union[int, None] = betterproto.int32_field(3, optional=True)
    if sys.version_info >= (3, 10):
        u: "int | None" = betterproto.int32_field(4, optional=True)
        w: "str | None" = betterproto.message_field(5, wraps=betterproto.TYPE_STRING)
        leaf: "Leaf | None" = betterproto.message_field(6, optional=True)


# ------------------------------------------------------------------ 1. tables vs. original
def oracle_tables(cls):
    by_field = {}
    by_group = {}
    by_field_name = {}
    by_field_number = {}
    for field in dataclasses.fields(cls):
        meta = FieldMetadata.get(field)
        if meta.group:
            by_field[field.name] = meta.group
            by_group.setdefault(meta.group, set()).add(field)
        by_field_name[field.name] = meta
        by_field_number[meta.number] = field.name
    return by_field, by_group, by_field_number, by_field_name


def oracle_default_gen(cls, field):
    t = cls._type_hint(field.name)
    is_310_union = isinstance(t, betterproto._types_UnionType)
    if hasattr(t, "__origin__") or is_310_union:
        if is_310_union or t.__origin__ is Union:
            return type(None)
        if t.__origin__ is list:
            return list
        if t.__origin__ is dict:
            return dict
        return t
    if issubclass(t, betterproto.Enum):
        return t.try_value
    if t is datetime:
        return datetime_default_gen
    return t


def same_gen(a, b):
    # bound methods (Enum.try_value) are equal, not identical
    return a is b or (hasattr(a, "__self__") and a == b and a.__self__ is b.__self__)


from betterproto.lib.google import protobuf as lib_pb  # many real-world shaped classes

LIB_CLASSES = [
    c
    for c in vars(lib_pb).values()
    if isinstance(c, type) and issubclass(c, Message) and c is not Message
]
assert len(LIB_CLASSES) > 30
for cls in [Leaf, Empty, Tree, Kinds, Modern] + LIB_CLASSES:
    for meta in (ProtoClassMetadata(cls), cls._betterproto):
        by_field, by_group, by_number, by_name = oracle_tables(cls)
        # same content and the same iteration order (dump walks meta_by_field_name)
        assert list(meta.oneof_group_by_field.items()) == list(by_field.items()), cls
        assert list(meta.oneof_field_by_group.keys()) == list(by_group.keys()), cls
        for group, members in by_group.items():
            got = meta.oneof_field_by_group[group]
            assert type(got) is set and got == members, (cls, group)
            assert {f.name for f in got} == {
                n for n, g in by_field.items() if g == group
            }
        assert list(meta.field_name_by_number.items()) == list(by_number.items()), cls
        assert list(meta.meta_by_field_name.items()) == list(by_name.items()), cls
        for name, m in meta.meta_by_field_name.items():
            assert m is by_name[name]
        assert meta.sorted_field_names == tuple(by_number[n] for n in sorted(by_number))
        fields = dataclasses.fields(cls)
        assert list(meta.default_gen) == [f.name for f in fields], cls
        for field in fields:
            want = oracle_default_gen(cls, field)
            assert same_gen(meta.default_gen[field.name], want), (cls, field.name)
            assert same_gen(cls._get_field_default_gen(field), want), (cls, field.name)

kg = Kinds._betterproto.default_gen
NoneType = type(None)
expected_gens = {
    "p_int": int, "p_str": str, "p_bytes": bytes, "p_bool": bool, "p_double": float,
    "a_int": int, "o_int": NoneType, "b_str": str, "a_str": str, "o_str": NoneType,
    "b_leaf": Leaf, "o_enum": NoneType, "o_leaf": NoneType, "o_bool": NoneType,
    "leaf": Leaf, "empty": Empty, "w_int": NoneType, "w_bool": NoneType,
    "w_str": NoneType, "r_int": list, "r_leaf": list, "m_si": dict, "m_il": dict,
    "ts": datetime_default_gen, "dur": timedelta, "b_ts": datetime_default_gen,
    "c_only": int, "o_double": NoneType, "o_bytes": NoneType, "p_fixed": int,
    "o_sfixed": NoneType,
}
for name, gen in expected_gens.items():
    assert kg[name] is gen, name
assert kg["p_enum"] == Color.try_value and kg["a_enum"] == Color.try_value
assert set(kg) == set(expected_gens) | {"p_enum", "a_enum"}
mg = Modern._betterproto.default_gen
assert mg["r"] is list and mg["m"] is dict and mg["o"] is NoneType
if sys.version_info >= (3, 10):
    assert mg["u"] is NoneType and mg["w"] is NoneType and mg["leaf"] is NoneType
tg = Tree._betterproto.default_gen
assert tg["left"] is Tree and tg["children"] is list and tg["leaf"] is Leaf
assert Kinds._betterproto.oneof_group_by_field == {
    "a_int": "alpha", "b_str": "beta", "a_str": "alpha", "b_leaf": "beta",
    "a_enum": "alpha", "b_ts": "beta", "c_only": "gamma",
}
assert list(Kinds._betterproto.oneof_field_by_group) == ["alpha", "beta", "gamma"]

# ------------------------------------------------------------------ 2. fresh messages
EPOCH = datetime(1970, 1, 1, tzinfo=timezone.utc)
GROUPS = {
    "alpha": ["a_int", "a_str", "a_enum"],
    "beta": ["b_str", "b_leaf", "b_ts"],
    "gamma": ["c_only"],
}
fresh = Kinds()
assert bytes(fresh) == b"" and len(fresh) == 0
assert betterproto.serialized_on_wire(fresh) is False
fresh_defaults = {
    "p_int": 0, "p_str": "", "p_bytes": b"", "p_bool": False, "p_double": 0.0,
    "p_enum": Color.COLOR_UNSPECIFIED, "o_int": None, "o_str": None, "o_enum": None,
    "o_leaf": None, "o_bool": None, "leaf": Leaf(), "empty": Empty(), "w_int": None,
    "w_bool": None, "w_str": None, "r_int": [], "r_leaf": [], "m_si": {}, "m_il": {},
    "ts": EPOCH, "dur": timedelta(0), "o_double": None, "o_bytes": None, "p_fixed": 0,
    "o_sfixed": None,
}
for _ in range(2):  # reading twice: the first read may materialise a default
    for name, want in fresh_defaults.items():
        got = getattr(fresh, name)
        assert got == want and type(got) is type(want), (name, got)
        assert not fresh.is_set(name), name
    for group, members in GROUPS.items():
        assert betterproto.which_one_of(fresh, group) == ("", None)
        for member in members:
            assert not fresh.is_set(member)
            try:
                getattr(fresh, member)
            except AttributeError:
                pass
            else:
                raise AssertionError(member)
    assert bytes(fresh) == b"" and len(fresh) == 0
    assert betterproto.serialized_on_wire(fresh) is False
    assert betterproto.serialized_on_wire(fresh.leaf) is False
assert type(fresh.p_double) is float and type(fresh.p_bool) is bool
# mutable defaults are per instance and stay attached, scalars are not stored
other = Kinds()
assert fresh.leaf is fresh.leaf and fresh.leaf is not other.leaf
assert fresh.r_int is fresh.r_int and fresh.r_int is not other.r_int
assert fresh.m_si is fresh.m_si and fresh.m_si is not other.m_si
assert object.__getattribute__(fresh, "p_int") is betterproto.PLACEHOLDER
assert object.__getattribute__(fresh, "ts") is betterproto.PLACEHOLDER

tree = Tree()
assert bytes(tree) == b"" and tree.left.left.right.value == 0 and bytes(tree) == b""
assert tree.children == [] and not tree.is_set("left")
tree.left.right.value = 0  # something was assigned inside left.right
assert betterproto.serialized_on_wire(tree.left.right)
modern = Modern()
assert bytes(modern) == b"" and modern.r == [] and modern.m == {} and modern.o is None
if sys.version_info >= (3, 10):
    assert modern.u is None and modern.w is None and modern.leaf is None
    assert bytes(Modern(u=0, w="", leaf=Leaf())) == b"\x20\x00\x2a\x00\x32\x00"
assert bytes(Modern(o=0)) == b"\x18\x00"

# ------------------------------------------------------------------ 3. reference schema
F = descriptor_pb2.FieldDescriptorProto
fdp = descriptor_pb2.FileDescriptorProto(
    name="c06_keep2.proto", package="c06k2", syntax="proto3",
    dependency=[
        "google/protobuf/wrappers.proto",
        "google/protobuf/timestamp.proto",
        "google/protobuf/duration.proto",
    ],
)
en = fdp.enum_type.add(name="Color")
for n, v in (("COLOR_UNSPECIFIED", 0), ("RED", 1), ("BLUE", 5)):
    en.value.add(name=n, number=v)
lf = fdp.message_type.add(name="Leaf")
lf.field.add(name="val", number=1, type=F.TYPE_INT32, label=F.LABEL_OPTIONAL)
lf.field.add(name="name", number=2, type=F.TYPE_STRING, label=F.LABEL_OPTIONAL)
lf.field.add(name="items", number=3, type=F.TYPE_INT32, label=F.LABEL_REPEATED)
fdp.message_type.add(name="Empty")
k = fdp.message_type.add(name="Kinds")
for g in ("alpha", "beta", "gamma"):
    k.oneof_decl.add(name=g)
PROTO_TYPE = {
    "int32": F.TYPE_INT32, "string": F.TYPE_STRING, "bytes": F.TYPE_BYTES,
    "bool": F.TYPE_BOOL, "double": F.TYPE_DOUBLE, "enum": F.TYPE_ENUM,
    "message": F.TYPE_MESSAGE, "sint64": F.TYPE_SINT64, "fixed64": F.TYPE_FIXED64,
    "sfixed32": F.TYPE_SFIXED32,
}
MESSAGE_TYPE = {
    "b_leaf": ".c06k2.Leaf", "o_leaf": ".c06k2.Leaf", "leaf": ".c06k2.Leaf",
    "empty": ".c06k2.Empty", "w_int": ".google.protobuf.Int32Value",
    "w_bool": ".google.protobuf.BoolValue", "w_str": ".google.protobuf.StringValue",
    "r_leaf": ".c06k2.Leaf", "ts": ".google.protobuf.Timestamp",
    "dur": ".google.protobuf.Duration", "b_ts": ".google.protobuf.Timestamp",
}
hints = typing.get_type_hints(Kinds)
for name, meta in Kinds._betterproto.meta_by_field_name.items():
    if meta.proto_type == betterproto.TYPE_MAP:
        entry = k.nested_type.add(name=f"M{name[2:].capitalize()}Entry")
        entry.options.map_entry = True
        entry.field.add(
            name="key", number=1, label=F.LABEL_OPTIONAL,
            type=F.TYPE_STRING if name == "m_si" else F.TYPE_INT32,
        )
        value = entry.field.add(
            name="value", number=2, label=F.LABEL_OPTIONAL,
            type=F.TYPE_INT32 if name == "m_si" else F.TYPE_MESSAGE,
        )
        if name == "m_il":
            value.type_name = ".c06k2.Leaf"
        k.field.add(
            name=name, number=meta.number, type=F.TYPE_MESSAGE, label=F.LABEL_REPEATED,
            type_name=f".c06k2.Kinds.{entry.name}",
        )
        continue
    f = k.field.add(
        name=name, number=meta.number, type=PROTO_TYPE[meta.proto_type],
        label=F.LABEL_REPEATED if name.startswith("r_") else F.LABEL_OPTIONAL,
    )
    if meta.proto_type == betterproto.TYPE_ENUM:
        f.type_name = ".c06k2.Color"
    if meta.proto_type == betterproto.TYPE_MESSAGE:
        f.type_name = MESSAGE_TYPE[name]
    if meta.group:
        f.oneof_index = ["alpha", "beta", "gamma"].index(meta.group)
    if meta.optional:
        k.oneof_decl.add(name="_" + name)
        f.proto3_optional = True
        f.oneof_index = len(k.oneof_decl) - 1
pool = descriptor_pool.Default()
pool.Add(fdp)
RefKinds = message_factory.GetMessageClass(pool.FindMessageTypeByName("c06k2.Kinds"))

HAS_FIELDS = [
    n for n in Kinds._betterproto.meta_by_field_name
    if n.startswith(("o_", "w_")) or n in ("leaf", "empty")
]


def check(msg, label):
    """presence after encoding + decoding equals the reference's view of the bytes"""
    data = bytes(msg)
    assert len(msg) == len(data), label
    ref = RefKinds.FromString(data)
    back = Kinds().parse(data)
    for m in (msg, back):
        for group, members in GROUPS.items():
            selected = ref.WhichOneof(group)
            assert betterproto.which_one_of(m, group)[0] == (selected or ""), (label, group)
            for member in members:
                assert m.is_set(member) == (member == selected), (label, member)
        for name in HAS_FIELDS:
            assert m.is_set(name) == ref.HasField(name), (label, name)
        if m is back or betterproto.serialized_on_wire(m.leaf):
            # (a child that was only filled through a container is emitted without
            # carrying the flag itself, so only this direction holds before encoding)
            assert betterproto.serialized_on_wire(m.leaf) == ref.HasField("leaf"), label
    assert bytes(back) == data, label
    return ref


ref = check(Kinds(), "fresh")
assert ref.ByteSize() == 0

ZERO = {
    "p_int": 0, "p_str": "", "p_bytes": b"", "p_bool": False, "p_double": 0.0,
    "p_enum": Color.COLOR_UNSPECIFIED, "a_int": 0, "o_int": 0, "b_str": "", "a_str": "",
    "o_str": "", "b_leaf": Leaf(), "a_enum": Color.COLOR_UNSPECIFIED,
    "o_enum": Color.COLOR_UNSPECIFIED, "o_leaf": Leaf(), "o_bool": False, "w_int": 0,
    "w_bool": False, "w_str": "", "c_only": 0, "o_double": 0.0, "o_bytes": b"",
    "p_fixed": 0, "o_sfixed": 0, "r_int": [], "m_si": {},
}
NONZERO = {
    "p_int": -3, "p_str": "s", "p_bytes": b"\x00", "p_bool": True, "p_double": 2.5,
    "p_enum": Color.BLUE, "a_int": 4, "o_int": 5, "b_str": "b", "a_str": "a",
    "o_str": "o", "b_leaf": Leaf(val=1), "a_enum": Color.RED, "o_enum": Color.RED,
    "o_leaf": Leaf(name="n"), "o_bool": True, "w_int": 8, "w_bool": True, "w_str": "w",
    "c_only": -9, "o_double": -0.5, "o_bytes": b"b", "p_fixed": 2**40, "o_sfixed": -1,
    "r_int": [0, 1], "m_si": {"": 0, "k": 2}, "leaf": Leaf(val=2), "ts": EPOCH + timedelta(1),
    "dur": timedelta(seconds=3), "b_ts": EPOCH + timedelta(seconds=5),
    "r_leaf": [Leaf(), Leaf(val=1)], "m_il": {0: Leaf(), 3: Leaf(name="x")},
}
EXPECT_SET_WHEN_DEFAULT = lambda n: n.startswith(("a_", "b_", "c_", "o_", "w_"))


import copy

for name in list(ZERO) + [n for n in NONZERO if n not in ZERO]:
    for table in (ZERO, NONZERO):
        if name not in table:
            continue
        value = table[name]
        # via constructor
        c = Kinds(**{name: copy.deepcopy(value)})
        # via attribute assignment
        a = Kinds()
        setattr(a, name, copy.deepcopy(value))
        ref_c = check(c, ("ctor", name))
        ref_a = check(a, ("attr", name))
        assert bytes(c) == bytes(a), name
        if table is ZERO and not EXPECT_SET_WHEN_DEFAULT(name):
            assert bytes(c) == b"", name  # implicit presence: default is not emitted
        else:
            assert bytes(c) != b"", name
        # via from_dict (both forms), fed with the reference's JSON for the same bytes
        js = json_format.MessageToDict(ref_c)
        d1 = Kinds.from_dict(js)
        d2 = Kinds().from_dict(js)
        check(d1, ("from_dict", name))
        assert bytes(d1) == bytes(d2), (name, js)
        if name.startswith("m_"):  # the reference lists map entries in its own order
            assert RefKinds.FromString(bytes(d1)) == ref_c, (name, js)
        else:
            assert bytes(d1) == bytes(c), (name, js)

# in-place filling of lazily materialised children
m = Kinds()
m.leaf.val = 0
assert betterproto.serialized_on_wire(m.leaf) and check(m, "leaf.val=0").HasField("leaf")
m = Kinds()
m.leaf.items.append(0)
assert check(m, "leaf.items").HasField("leaf")
m = Kinds()
m.r_leaf.append(Leaf())
m.m_il[0] = Leaf()
m.m_si[""] = 0
ref = check(m, "containers")
assert len(ref.r_leaf) == 1 and len(ref.m_il) == 1 and len(ref.m_si) == 1
m = Kinds()
m.empty = Empty()
assert check(m, "empty").HasField("empty")

# combinations: everything default-set at once, everything non-default at once
combo = Kinds()
for name, value in ZERO.items():
    setattr(combo, name, copy.deepcopy(value))
ref = check(combo, "all zero")
assert ref.WhichOneof("alpha") == "a_enum" and ref.WhichOneof("beta") == "b_leaf"
combo = Kinds()
for name, value in NONZERO.items():
    setattr(combo, name, copy.deepcopy(value))
ref = check(combo, "all nonzero")
assert ref.WhichOneof("alpha") == "a_enum" and ref.WhichOneof("beta") == "b_ts"
assert ref.p_fixed == 2**40 and ref.o_sfixed == -1 and ref.c_only == -9
assert ref.ts.seconds == 86400 and ref.dur.seconds == 3 and ref.m_il[3].name == "x"

# bytes produced by the reference, decoded here
for kwargs in (
    {}, {"o_int": 0}, {"a_str": ""}, {"b_leaf": {}}, {"leaf": {}}, {"leaf": {"val": 0}},
    {"w_int": wrappers_pb2.Int32Value()}, {"w_bool": wrappers_pb2.BoolValue(value=True)},
    {"o_leaf": {}}, {"o_enum": 0}, {"a_enum": 0}, {"c_only": 0}, {"empty": {}},
    {"o_double": 0.0, "o_bytes": b"", "o_sfixed": 0, "o_bool": False, "o_str": ""},
    {"p_int": 0, "p_str": "", "p_fixed": 0}, {"b_ts": timestamp_pb2.Timestamp()},
    {"b_ts": timestamp_pb2.Timestamp(seconds=1)}, {"dur": duration_pb2.Duration(seconds=2)},
):
    data = RefKinds(**kwargs).SerializeToString()
    ref = RefKinds.FromString(data)
    got = Kinds().parse(data)
    for group, members in GROUPS.items():
        assert betterproto.which_one_of(got, group)[0] == (ref.WhichOneof(group) or "")
        for member in members:
            assert got.is_set(member) == (member == ref.WhichOneof(group)), (kwargs, member)
    for name in HAS_FIELDS:
        assert got.is_set(name) == ref.HasField(name), (kwargs, name)
    assert RefKinds.FromString(bytes(got)) == ref, kwargs

print("OK")
