"""Equivalence checks for Message.to_dict / to_json, in particular the repeated
message branch and the map branch (message, enum, 64-bit, bytes, float, string,
bool, Timestamp, Duration and wrapper values):

* literal expectations for every branch, both casings, with and without
  include_default_values;
* google.protobuf.json_format as an oracle on random values;
* from_dict(to_dict(m)) round trips;
* to_dict / to_json are pure: bytes, equality, presence and the identity of the
  message's own containers and values are untouched, and the returned containers
  are new objects.

Passes on the pristine tree and with the refactor applied.
"""
import copy
import json
import math
import pickle
import random
from dataclasses import dataclass
from datetime import datetime, timedelta, timezone
from decimal import Decimal
from typing import Dict, List, Optional

import betterproto
from betterproto import Casing
from betterproto.lib.google import protobuf as wkt

rnd = random.Random(20214)


class Color(betterproto.Enum):
    COLOR_ZERO = 0
    RED = 1
    DEEP_BLUE = 2
    NEG = -3


@dataclass(eq=False, repr=False)
class Leaf(betterproto.Message):
    x: int = betterproto.int32_field(1)
    some_names: List[str] = betterproto.string_field(2)
    when: datetime = betterproto.message_field(3)
    big_id: int = betterproto.uint64_field(4)


@dataclass(eq=False, repr=False)
class Top(betterproto.Message):
    by_name: Dict[str, Leaf] = betterproto.map_field(
        1, betterproto.TYPE_STRING, betterproto.TYPE_MESSAGE
    )
    colors: Dict[int, Color] = betterproto.map_field(
        2, betterproto.TYPE_INT32, betterproto.TYPE_ENUM
    )
    big: Dict[str, int] = betterproto.map_field(
        3, betterproto.TYPE_STRING, betterproto.TYPE_INT64
    )
    blobs: Dict[bool, bytes] = betterproto.map_field(
        4, betterproto.TYPE_BOOL, betterproto.TYPE_BYTES
    )
    ratios: Dict[str, float] = betterproto.map_field(
        5, betterproto.TYPE_STRING, betterproto.TYPE_DOUBLE
    )
    long_names: Dict[int, str] = betterproto.map_field(
        6, betterproto.TYPE_INT64, betterproto.TYPE_STRING
    )
    stamps: Dict[str, datetime] = betterproto.map_field(
        7, betterproto.TYPE_STRING, betterproto.TYPE_MESSAGE
    )
    spans: Dict[str, timedelta] = betterproto.map_field(
        8, betterproto.TYPE_STRING, betterproto.TYPE_MESSAGE
    )
    leaves: List[Leaf] = betterproto.message_field(9)
    times: List[datetime] = betterproto.message_field(10)
    waits: List[timedelta] = betterproto.message_field(11)
    single: Leaf = betterproto.message_field(12)
    small: Dict[str, int] = betterproto.map_field(
        13, betterproto.TYPE_STRING, betterproto.TYPE_UINT32
    )
    flags: Dict[str, bool] = betterproto.map_field(
        14, betterproto.TYPE_STRING, betterproto.TYPE_BOOL
    )
    fixed: Dict[int, int] = betterproto.map_field(
        15, betterproto.TYPE_FIXED64, betterproto.TYPE_SFIXED64
    )
    title: str = betterproto.string_field(16)


@dataclass(eq=False, repr=False)
class Wrapped(betterproto.Message):
    boxed: Dict[str, wkt.Int64Value] = betterproto.map_field(
        1, betterproto.TYPE_STRING, betterproto.TYPE_MESSAGE
    )
    structs: Dict[str, wkt.Struct] = betterproto.map_field(
        2, betterproto.TYPE_STRING, betterproto.TYPE_MESSAGE
    )
    many: List[wkt.Struct] = betterproto.message_field(3)
    anys: List[wkt.Any] = betterproto.message_field(4)


@dataclass(eq=False, repr=False)
class Tree(betterproto.Message):
    label: str = betterproto.string_field(1)
    kids: List["Tree"] = betterproto.message_field(2)
    index: Dict[str, "Tree"] = betterproto.map_field(
        3, betterproto.TYPE_STRING, betterproto.TYPE_MESSAGE
    )


def utc(*args):
    return datetime(*args, tzinfo=timezone.utc)


# --------------------------------------------------------------------------- #
# literal expectations
# --------------------------------------------------------------------------- #
def check_literals():
    assert Top().to_dict() == {}
    assert Top().to_dict(include_default_values=True) == {
        "byName": {},
        "colors": {},
        "big": {},
        "blobs": {},
        "ratios": {},
        "longNames": {},
        "stamps": {},
        "spans": {},
        "leaves": [],
        "times": [],
        "waits": [],
        "single": {
            "x": 0,
            "someNames": [],
            "when": "1970-01-01T00:00:00Z",
            "bigId": "0",
        },
        "small": {},
        "flags": {},
        "fixed": {},
        "title": "",
    }
    assert Top().to_dict(Casing.SNAKE, True)["long_names"] == {}
    # explicitly assigned empty containers are still not emitted by default
    assert Top(by_name={}, leaves=[], times=[], spans={}).to_dict() == {}

    m = Top(
        by_name={
            "a": Leaf(x=1, some_names=["p", "q"]),
            "": Leaf(),
            "t": Leaf(when=utc(2001, 2, 3, 4, 5, 6, 789000), big_id=2**64 - 1),
        },
        colors={1: Color.RED, 0: Color.COLOR_ZERO, -5: Color.NEG, 7: Color.try_value(99)},
        big={"max": 2**63 - 1, "min": -(2**63), "zero": 0},
        blobs={True: b"\x00\xff\x10", False: b""},
        ratios={"inf": float("inf"), "ninf": float("-inf"), "nan": float("nan"), "x": 1.5, "z": 0.0},
        long_names={2**40: "big", -1: "neg", 0: ""},
        stamps={
            "epoch": utc(1970, 1, 1),
            "ms": utc(2020, 1, 2, 3, 4, 5, 120000),
            "us": utc(2020, 1, 2, 3, 4, 5, 123456),
            "s": utc(1999, 12, 31, 23, 59, 59),
        },
        spans={
            "zero": timedelta(0),
            "ms": timedelta(seconds=1, milliseconds=500),
            "us": timedelta(microseconds=1),
            "neg": -timedelta(seconds=3, microseconds=250),
        },
        leaves=[Leaf(), Leaf(x=-1), Leaf(some_names=[""])],
        times=[utc(1970, 1, 1), utc(2038, 1, 19, 3, 14, 7, 5000)],
        waits=[timedelta(0), timedelta(days=1), -timedelta(milliseconds=1)],
        single=Leaf(x=5),
        small={"u": 2**32 - 1},
        flags={"y": True, "n": False},
        fixed={2**64 - 1: -(2**63), 0: 0},
        title="t",
    )
    expected = {
        "byName": {
            "a": {"x": 1, "someNames": ["p", "q"]},
            "": {},
            "t": {"when": "2001-02-03T04:05:06.789Z", "bigId": str(2**64 - 1)},
        },
        "colors": {1: "RED", 0: "COLOR_ZERO", -5: "NEG", 7: 99},
        "big": {"max": str(2**63 - 1), "min": str(-(2**63)), "zero": "0"},
        "blobs": {True: "AP8Q", False: ""},
        "ratios": {"inf": "Infinity", "ninf": "-Infinity", "nan": "NaN", "x": 1.5, "z": 0.0},
        "longNames": {2**40: "big", -1: "neg", 0: ""},
        "stamps": {
            "epoch": "1970-01-01T00:00:00Z",
            "ms": "2020-01-02T03:04:05.120Z",
            "us": "2020-01-02T03:04:05.123456Z",
            "s": "1999-12-31T23:59:59Z",
        },
        "spans": {
            "zero": "0.000s",
            "ms": "1.500s",
            "us": "0.000001s",
            "neg": "-3.000250s",
        },
        "leaves": [{}, {"x": -1}, {"someNames": [""]}],
        "times": ["1970-01-01T00:00:00Z", "2038-01-19T03:14:07.005Z"],
        "waits": ["0.000s", "86400.000s", "-0.001s"],
        "single": {"x": 5},
        "small": {"u": 2**32 - 1},
        "flags": {"y": True, "n": False},
        "fixed": {2**64 - 1: str(-(2**63)), 0: "0"},
        "title": "t",
    }
    got = m.to_dict()
    assert got == expected, got
    # key order follows the message's own maps / declaration order
    assert list(got) == list(expected)
    for k in expected:
        if isinstance(expected[k], dict):
            assert list(got[k]) == list(expected[k]), k
    # types are exactly the JSON ones
    assert type(got["colors"][7]) is int and type(got["colors"][1]) is str
    assert type(got["big"]["zero"]) is str and type(got["small"]["u"]) is int

    snake = m.to_dict(Casing.SNAKE)
    assert snake["by_name"]["a"] == {"x": 1, "some_names": ["p", "q"]}
    assert snake["by_name"]["t"] == {
        "when": "2001-02-03T04:05:06.789Z",
        "big_id": str(2**64 - 1),
    }
    assert snake["leaves"] == [{}, {"x": -1}, {"some_names": [""]}]
    assert snake["long_names"] == expected["longNames"]

    full = m.to_dict(include_default_values=True)
    leaf_zero = {"x": 0, "someNames": [], "when": "1970-01-01T00:00:00Z", "bigId": "0"}
    assert full["byName"][""] == leaf_zero
    assert full["byName"]["a"] == {**leaf_zero, "x": 1, "someNames": ["p", "q"]}
    assert full["leaves"] == [
        leaf_zero,
        {**leaf_zero, "x": -1},
        {**leaf_zero, "someNames": [""]},
    ]
    assert full["times"] == expected["times"] and full["spans"] == expected["spans"]
    assert full["colors"] == expected["colors"]
    full_snake = m.to_dict(Casing.SNAKE, True)
    assert full_snake["by_name"][""] == {
        "x": 0,
        "some_names": [],
        "when": "1970-01-01T00:00:00Z",
        "big_id": "0",
    }

    # to_json is json.dumps of to_dict
    assert m.to_json() == json.dumps(m.to_dict())
    assert m.to_json(indent=2, include_default_values=True, casing=Casing.SNAKE) == json.dumps(
        m.to_dict(Casing.SNAKE, True), indent=2
    )
    loaded = json.loads(m.to_json())
    assert loaded["colors"] == {"1": "RED", "0": "COLOR_ZERO", "-5": "NEG", "7": 99}
    assert loaded["blobs"] == {"true": "AP8Q", "false": ""}

    # wrapper, Struct and Any values: messages with their own to_dict
    w = Wrapped(
        boxed={"a": wkt.Int64Value(value=2**40), "z": wkt.Int64Value()},
        structs={
            "s": wkt.Struct(fields={"k": wkt.Value(string_value="v")}),
            "e": wkt.Struct(),
        },
        many=[wkt.Struct(), wkt.Struct(fields={"n": wkt.Value(number_value=1.0)})],
        anys=[wkt.Any(type_url="u", value=b"\x01"), wkt.Any()],
    )
    assert w.to_dict() == {
        "boxed": {"a": {"value": str(2**40)}, "z": {}},
        "structs": {"s": {"k": {"stringValue": "v"}}, "e": {}},
        "many": [{}, {"n": {"numberValue": 1.0}}],
        "anys": [{"typeUrl": "u", "value": "AQ=="}, {}],
    }
    assert w.to_dict(Casing.SNAKE, True) == {
        "boxed": {"a": {"value": str(2**40)}, "z": {"value": "0"}},
        "structs": {
            "s": {"k": w.structs["s"].fields["k"].to_dict(Casing.SNAKE, True)},
            "e": {},
        },
        "many": [{}, {"n": w.many[1].fields["n"].to_dict(Casing.SNAKE, True)}],
        "anys": [{"type_url": "u", "value": "AQ=="}, {"type_url": "", "value": ""}],
    }

    # recursion through lists and maps
    t = Tree(
        label="r",
        kids=[Tree(label="a", kids=[Tree()]), Tree()],
        index={"i": Tree(label="x", index={"j": Tree(kids=[Tree(label="deep")])})},
    )
    assert t.to_dict() == {
        "label": "r",
        "kids": [{"label": "a", "kids": [{}]}, {}],
        "index": {"i": {"label": "x", "index": {"j": {"kids": [{"label": "deep"}]}}}},
    }
    assert t.to_dict(include_default_values=True)["kids"][1] == {
        "label": "",
        "kids": [],
        "index": {},
    }

    # errors propagate from the item that causes them
    bad = Top(leaves=[Leaf(), 5])
    try:
        bad.to_dict()
    except AttributeError:
        pass
    else:
        raise AssertionError("a non-message item must fail")
    bad = Top(by_name={"k": 5})
    try:
        bad.to_dict()
    except AttributeError:
        pass
    else:
        raise AssertionError("a non-message map value must fail")
    bad = Top(blobs={True: "text"})
    try:
        bad.to_dict()
    except TypeError:
        pass
    else:
        raise AssertionError("a str in a bytes map must fail")


# --------------------------------------------------------------------------- #
# purity and freshness
# --------------------------------------------------------------------------- #
def raw_state(m):
    """Identity of everything the message holds, without calling an observer."""
    out = {}
    for name in m._betterproto.meta_by_field_name:
        v = object.__getattribute__(m, name)
        if isinstance(v, dict):
            out[name] = (id(v), [(k, id(x), type(x)) for k, x in v.items()])
        elif isinstance(v, list):
            out[name] = (id(v), [(id(x), type(x)) for x in v])
        else:
            out[name] = (id(v), type(v))
    return out


def containers(obj, acc):
    if isinstance(obj, dict):
        acc.append(id(obj))
        for v in obj.values():
            containers(v, acc)
    elif isinstance(obj, list):
        acc.append(id(obj))
        for v in obj:
            containers(v, acc)
    return acc


def own_containers(m, acc):
    for name in m._betterproto.meta_by_field_name:
        v = object.__getattribute__(m, name)
        if isinstance(v, dict):
            acc.append(id(v))
            for x in v.values():
                if isinstance(x, betterproto.Message):
                    own_containers(x, acc)
        elif isinstance(v, list):
            acc.append(id(v))
            for x in v:
                if isinstance(x, betterproto.Message):
                    own_containers(x, acc)
        elif isinstance(v, betterproto.Message):
            own_containers(v, acc)
    return acc


def check_pure(m):
    # materialise everything first so that identities can be compared
    before_bytes = bytes(m)
    twin = copy.deepcopy(m)
    state = raw_state(m)
    present = {f: m.is_set(f) for f in m._betterproto.meta_by_field_name}
    for casing in (Casing.CAMEL, Casing.SNAKE):
        for defaults in (False, True):
            d1 = m.to_dict(casing, defaults)
            d2 = m.to_dict(casing, defaults)
            j = m.to_json(casing=casing, include_default_values=defaults)
            assert j == json.dumps(d1)
            # nan != nan: compare through JSON text
            assert json.dumps(d1) == json.dumps(d2)
            assert raw_state(m) == state
            assert bytes(m) == before_bytes
            assert m == twin and twin == m
            assert {f: m.is_set(f) for f in present} == present
            # map and message-list outputs are new objects on every call
            mine = set(own_containers(m, []))
            out1 = containers(d1, [])
            out2 = containers(d2, [])
            for name, meta in m._betterproto.meta_by_field_name.items():
                key = casing(name).rstrip("_")
                v = object.__getattribute__(m, name)
                if key in d1 and (
                    isinstance(v, dict)
                    or (isinstance(v, list) and meta.proto_type == betterproto.TYPE_MESSAGE)
                ):
                    assert d1[key] is not v and d1[key] is not d2[key]
                    assert id(d1[key]) not in mine
            # (plain repeated scalars are handed out as they are, by both trees)
            assert not ((set(out1) & set(out2)) - mine)
            # mutating the result never reaches the message
            for v in d1.values():
                if isinstance(v, dict):
                    v["__extra__"] = 1
                    for inner in v.values():
                        if isinstance(inner, dict):
                            inner["__extra__"] = 1
            assert bytes(m) == before_bytes and m == twin
    for clone in (copy.copy(m), copy.deepcopy(m), pickle.loads(pickle.dumps(m))):
        assert clone == m and bytes(clone) == before_bytes


# --------------------------------------------------------------------------- #
# random values, round trips, google oracle
# --------------------------------------------------------------------------- #
def rand_dt():
    return utc(1970, 1, 1) + timedelta(
        seconds=rnd.randrange(0, 4_000_000_000),
        microseconds=rnd.choice([0, 0, 1000 * rnd.randrange(1000), rnd.randrange(10**6)]),
    )


def rand_td():
    return rnd.choice([1, -1]) * timedelta(
        seconds=rnd.randrange(0, 10**9),
        microseconds=rnd.choice([0, 1000 * rnd.randrange(1000), rnd.randrange(10**6)]),
    )


def rand_leaf():
    kw = {}
    if rnd.random() < 0.6:
        kw["x"] = rnd.choice([0, 1, -1, 2**31 - 1, -(2**31)])
    if rnd.random() < 0.5:
        kw["some_names"] = [rnd.choice(["", "a", "ü"]) for _ in range(rnd.randrange(3))]
    if rnd.random() < 0.4:
        kw["when"] = rand_dt()
    if rnd.random() < 0.4:
        kw["big_id"] = rnd.choice([0, 1, 2**64 - 1, 2**53 + 1])
    return Leaf(**kw)


def rand_key():
    return rnd.choice(["", "k", "kk", "key three", "ü"])


def rand_top():
    kw = {}
    n = lambda: rnd.randrange(0, 4)
    if rnd.random() < 0.6:
        kw["by_name"] = {rand_key(): rand_leaf() for _ in range(n())}
    if rnd.random() < 0.6:
        kw["colors"] = {
            rnd.choice([0, 1, -1, 2**31 - 1]): rnd.choice(
                [Color.COLOR_ZERO, Color.RED, Color.DEEP_BLUE, Color.NEG, Color.try_value(41)]
            )
            for _ in range(n())
        }
    if rnd.random() < 0.6:
        kw["big"] = {rand_key(): rnd.choice([0, -1, 2**63 - 1, -(2**63), 2**53 + 1]) for _ in range(n())}
    if rnd.random() < 0.6:
        kw["blobs"] = {rnd.choice([True, False]): rnd.choice([b"", b"\x00", rnd.randbytes(20)]) for _ in range(n())}
    if rnd.random() < 0.6:
        kw["ratios"] = {
            rand_key(): rnd.choice([0.0, 1.5, -2.25, 1e300, float("inf"), float("-inf")])
            for _ in range(n())
        }
    if rnd.random() < 0.6:
        kw["long_names"] = {rnd.choice([0, -1, 2**62, 17]): rnd.choice(["", "n", "ü"]) for _ in range(n())}
    if rnd.random() < 0.6:
        kw["stamps"] = {rand_key(): rand_dt() for _ in range(n())}
    if rnd.random() < 0.6:
        kw["spans"] = {rand_key(): rand_td() for _ in range(n())}
    if rnd.random() < 0.6:
        kw["leaves"] = [rand_leaf() for _ in range(n())]
    if rnd.random() < 0.6:
        kw["times"] = [rand_dt() for _ in range(n())]
    if rnd.random() < 0.6:
        kw["waits"] = [rand_td() for _ in range(n())]
    if rnd.random() < 0.5:
        kw["single"] = rand_leaf()
    if rnd.random() < 0.5:
        kw["small"] = {rand_key(): rnd.choice([0, 1, 2**32 - 1]) for _ in range(n())}
    if rnd.random() < 0.5:
        kw["flags"] = {rand_key(): rnd.choice([True, False]) for _ in range(n())}
    if rnd.random() < 0.5:
        kw["fixed"] = {rnd.choice([0, 1, 2**64 - 1]): rnd.choice([0, -1, 2**63 - 1]) for _ in range(n())}
    if rnd.random() < 0.5:
        kw["title"] = rnd.choice(["", "title"])
    return Top(**kw)


def build_google():
    from google.protobuf import (
        descriptor_pb2,
        descriptor_pool,
        duration_pb2,
        message_factory,
        timestamp_pb2,
    )

    F = descriptor_pb2.FieldDescriptorProto
    fd = descriptor_pb2.FileDescriptorProto()
    fd.name = "c14_keep2.proto"
    fd.package = "c14k2"
    fd.syntax = "proto3"
    fd.dependency.append("google/protobuf/timestamp.proto")
    fd.dependency.append("google/protobuf/duration.proto")
    en = fd.enum_type.add()
    en.name = "Color"
    for name, number in [("COLOR_ZERO", 0), ("RED", 1), ("DEEP_BLUE", 2), ("NEG", -3)]:
        en.value.add(name=name, number=number)
    leaf = fd.message_type.add()
    leaf.name = "Leaf"
    leaf.field.add(name="x", number=1, type=F.TYPE_INT32, label=F.LABEL_OPTIONAL)
    leaf.field.add(name="some_names", number=2, type=F.TYPE_STRING, label=F.LABEL_REPEATED)
    leaf.field.add(
        name="when",
        number=3,
        type=F.TYPE_MESSAGE,
        label=F.LABEL_OPTIONAL,
        type_name=".google.protobuf.Timestamp",
    )
    leaf.field.add(name="big_id", number=4, type=F.TYPE_UINT64, label=F.LABEL_OPTIONAL)
    top = fd.message_type.add()
    top.name = "Top"

    def add_map(name, number, ktype, vtype, vtype_name=None):
        entry = top.nested_type.add()
        entry.name = "".join(p.capitalize() for p in name.split("_")) + "Entry"
        entry.options.map_entry = True
        entry.field.add(name="key", number=1, type=ktype, label=F.LABEL_OPTIONAL)
        v = entry.field.add(name="value", number=2, type=vtype, label=F.LABEL_OPTIONAL)
        if vtype_name:
            v.type_name = vtype_name
        top.field.add(
            name=name,
            number=number,
            type=F.TYPE_MESSAGE,
            label=F.LABEL_REPEATED,
            type_name=f".c14k2.Top.{entry.name}",
        )

    add_map("by_name", 1, F.TYPE_STRING, F.TYPE_MESSAGE, ".c14k2.Leaf")
    add_map("colors", 2, F.TYPE_INT32, F.TYPE_ENUM, ".c14k2.Color")
    add_map("big", 3, F.TYPE_STRING, F.TYPE_INT64)
    add_map("blobs", 4, F.TYPE_BOOL, F.TYPE_BYTES)
    add_map("ratios", 5, F.TYPE_STRING, F.TYPE_DOUBLE)
    add_map("long_names", 6, F.TYPE_INT64, F.TYPE_STRING)
    add_map("stamps", 7, F.TYPE_STRING, F.TYPE_MESSAGE, ".google.protobuf.Timestamp")
    add_map("spans", 8, F.TYPE_STRING, F.TYPE_MESSAGE, ".google.protobuf.Duration")
    top.field.add(name="leaves", number=9, type=F.TYPE_MESSAGE, label=F.LABEL_REPEATED, type_name=".c14k2.Leaf")
    top.field.add(
        name="times",
        number=10,
        type=F.TYPE_MESSAGE,
        label=F.LABEL_REPEATED,
        type_name=".google.protobuf.Timestamp",
    )
    top.field.add(
        name="waits",
        number=11,
        type=F.TYPE_MESSAGE,
        label=F.LABEL_REPEATED,
        type_name=".google.protobuf.Duration",
    )
    top.field.add(name="single", number=12, type=F.TYPE_MESSAGE, label=F.LABEL_OPTIONAL, type_name=".c14k2.Leaf")
    add_map("small", 13, F.TYPE_STRING, F.TYPE_UINT32)
    add_map("flags", 14, F.TYPE_STRING, F.TYPE_BOOL)
    add_map("fixed", 15, F.TYPE_FIXED64, F.TYPE_SFIXED64)
    top.field.add(name="title", number=16, type=F.TYPE_STRING, label=F.LABEL_OPTIONAL)

    pool = descriptor_pool.DescriptorPool()
    for dep in (timestamp_pb2, duration_pb2):
        dep_fd = descriptor_pb2.FileDescriptorProto()
        dep.DESCRIPTOR.CopyToProto(dep_fd)
        pool.Add(dep_fd)
    pool.Add(fd)
    return message_factory.GetMessageClass(pool.FindMessageTypeByName("c14k2.Top"))


DURATION_KEYS = {"spans", "waits"}


def normalise(d):
    """JSON-level normal form: map keys as JSON writes them, durations as exact
    decimal seconds (google prints 1s / 1.500s / 1.000001s, all valid)."""
    d = json.loads(json.dumps(d))
    for key in DURATION_KEYS:
        if key in d:
            if isinstance(d[key], dict):
                d[key] = {k: Decimal(v[:-1]) for k, v in d[key].items()}
            else:
                d[key] = [Decimal(v[:-1]) for v in d[key]]
    return d


def check_random():
    from google.protobuf import json_format

    GTop = build_google()
    for i in range(250):
        m = rand_top()
        for variant in (m, Top().parse(bytes(m)), Top().from_dict(m.to_dict())):
            assert variant == m
            d = variant.to_dict()
            assert json.dumps(d) == json.dumps(m.to_dict())
            # JSON round trip, both casings, with and without defaults
            for casing in (Casing.CAMEL, Casing.SNAKE):
                for defaults in (False, True):
                    back = Top().from_dict(variant.to_dict(casing, defaults))
                    assert back == m, (casing, defaults)
                    assert Top().from_json(
                        variant.to_json(casing=casing, include_default_values=defaults)
                    ) == m
            # google reads the same bytes and prints the same JSON
            g = GTop.FromString(bytes(variant))
            gd = json_format.MessageToDict(g)
            # google omits nothing we emit and vice versa, except that an empty
            # but present sub-message is printed by both
            assert normalise(gd) == normalise(d), (normalise(gd), normalise(d))
            # and google parses what we print
            g2 = json_format.Parse(variant.to_json(), GTop())
            assert g2 == g
        if i % 10 == 0:
            check_pure(m)
            check_pure(Top().parse(bytes(m)))


def check_histories():
    # to_dict / to_json interleaved with the other observers
    for _ in range(40):
        m = rand_top()
        data = bytes(copy.deepcopy(m))
        twin = copy.deepcopy(m)
        ops = [
            lambda: m.to_dict(),
            lambda: m.to_json(),
            lambda: m.to_dict(Casing.SNAKE, True),
            # (to_pydict does not support repeated Timestamp / Duration fields)
            lambda: None if (m.times or m.waits) else m.to_pydict(),
            lambda: bytes(m),
            lambda: len(m),
            lambda: repr(m),
            lambda: bool(m),
            lambda: m == twin,
            lambda: m.single.some_names,
            lambda: [leaf.when for leaf in m.leaves],
        ]
        present = {f: m.is_set(f) for f in m._betterproto.meta_by_field_name}
        for _ in range(12):
            rnd.choice(ops)()
            assert bytes(m) == data and m == twin
            assert {f: m.is_set(f) for f in present} == present
        for clone in (copy.copy(m), copy.deepcopy(m), pickle.loads(pickle.dumps(m))):
            assert clone == m and bytes(clone) == data
            assert clone.to_dict() == m.to_dict() or any(
                isinstance(v, float) and math.isnan(v) for v in m.ratios.values()
            )
        # mutating a deep copy / unpickled copy leaves the original's JSON alone
        js = m.to_json()
        for clone in (copy.deepcopy(m), pickle.loads(pickle.dumps(m))):
            clone.by_name["new"] = Leaf(x=1)
            clone.leaves.append(Leaf())
            clone.stamps["n"] = utc(2000, 1, 1)
            for leaf in clone.leaves:
                leaf.some_names.append("m")
            assert m.to_json() == js and bytes(m) == data


def main():
    check_literals()
    fixed = [
        Top(),
        Top(by_name={"a": Leaf()}),
        Top(leaves=[Leaf(), Leaf(x=1)], times=[utc(2000, 1, 1)], waits=[timedelta(1)]),
        Top(stamps={"a": utc(2000, 1, 1)}, spans={"b": timedelta(seconds=2)}),
        Top(colors={1: Color.RED, 2: Color.try_value(77)}),
    ]
    for m in fixed:
        check_pure(m)
    check_pure(
        Wrapped(
            boxed={"a": wkt.Int64Value(value=3)},
            structs={"s": wkt.Struct(fields={"k": wkt.Value(bool_value=True)})},
            many=[wkt.Struct()],
            anys=[wkt.Any(type_url="t")],
        )
    )
    check_pure(Tree(label="r", kids=[Tree(label="k")], index={"i": Tree(kids=[Tree()])}))
    check_random()
    check_histories()
    print("ok")


if __name__ == "__main__":
    main()
